(* Model of the connect / first-stream race between two nodes (property C20).

   Go code modelled (pkg/p2p/libp2p):
     libp2p.go      Service.Connect (initiator), Service.handleConnectReq (responder),
                    Service.beginHandshake / waitHandshake (set of inbound handshakes in
                    progress), the stream-handler wrapper installed by AddStreamHandlers,
                    Service.NewStream (as "open a stream")
     internal/handshake/handshake.go   Handshake (initiator side), Handle (responder side),
                    verifyReq, verifyResp -- order of reads, writes and checks
     peers.go       peerRegistry.addPeer / getPeer (as "register" / "lookup")

   Interleaving semantics.  Three kinds of actors take atomic steps: the initiator [I], the
   responder's handshake handler [R] and, for the k-th stream the initiator opened, the
   responder's stream wrapper [W k].  A schedule is a list of actors; a step that is not
   enabled (a read on an empty channel, an actor that has finished) leaves the world
   unchanged, so every list is a legal schedule and every merge of the actors' step
   sequences that respects message causality is some list.

   A channel is an append-only log of frames plus the reader's cursor (FIFO delivery).

   Definitions only. *)
From Coq Require Import List NArith Bool Arith.
From Coq Require String.
Import String.StringSyntax.
From MevVerif Require Import lib.Bytes gen.Generated.
Import ListNotations.
Open Scope N_scope.

(* p2p.PeerType (pkg/p2p/p2p.go) *)
Definition t_bootnode : N := 0.
Definition t_provider : N := 1.
Definition t_bidder : N := 2.

(* what a handler is told about the remote: (Ethereum address, peer type) *)
Definition ident := (N * N)%type.

(* Everything about a node that the handshake can observe.  For a well-formed node the three
   addresses coincide; they are kept apart because the code obtains them from three sources. *)
Record node := {
  pid_addr : N;          (* GetEthAddressFromPeerID(peer id): address of the network identity *)
  sig_addr : option N;   (* address the signature in its HandshakeReq recovers to; None: does not verify *)
  ks_addr  : N;          (* KeySigner.GetAddress() *)
  ptype    : N;          (* configured peer type *)
  staked   : bool        (* answer of the counterpart's provider registry about this node *)
}.

Record cfg := { ini : node; rsp : node }.

Inductive frame :=
| FReq  (t : N) (sa : option N)      (* HandshakeReq{PeerType, Token, Sig} *)
| FResp (obs : N) (t : N).           (* HandshakeResp{ObservedAddress, PeerType} *)

(* handshake.go verifyReq: signature, binding to the peer id, stake of providers *)
Definition verify_req (remote : node) (f : frame) : option ident :=
  match f with
  | FReq t (Some a) =>
      if a =? pid_addr remote then
        if t =? t_provider then (if staked remote then Some (a, t) else None)
        else Some (a, t)
      else None
  | _ => None
  end.

(* handshake.go verifyResp: the echo must name our own address and type *)
Definition verify_resp (self : node) (f : frame) : bool :=
  match f with
  | FResp obs t => (obs =? ks_addr self) && (t =? ptype self)
  | _ => false
  end.

Definition req_of (n : node) : frame := FReq (ptype n) (sig_addr n).
Definition resp_of (id : ident) : frame := FResp (fst id) (snd id).

(* program counters: the statement about to be executed *)
Inductive ipc_t :=
| IWriteReq                      (* Handshake: WriteMsg(handshakeReq) *)
| IReadResp                      (* ReadMsg(resp) *)
| IVerifyResp (f : frame)        (* verifyResp(resp) *)
| IReadReq                       (* ReadMsg(ack) *)
| IVerifyReq (f : frame)         (* verifyReq(ack, peerID) *)
| IWriteFinal (id : ident)       (* WriteMsg(HandshakeResp{ethAddress, ack.PeerType}) *)
| IReturn (id : ident)           (* Handshake returns; Connect: addPeer, return *p, nil *)
| IOpen (id : ident)             (* Connect has reported success; every step opens a stream *)
| IFailed.                       (* Connect reported an error (ClosePeer done) *)

Inductive rpc_t :=
| RBegin                         (* handleConnectReq: beginHandshake(peerID) *)
| RReadReq                       (* Handle: ReadMsg(req) *)
| RVerifyReq (f : frame)         (* verifyReq(req, peerID) *)
| RWriteResp (id : ident)        (* WriteMsg(resp) *)
| RWriteReq (id : ident)         (* WriteMsg(handshakeReq) *)
| RReadFinal (id : ident)        (* ReadMsg(ack) *)
| RVerifyFinal (id : ident) (f : frame)  (* verifyResp(ack): calls KeySigner.GetAddress *)
| RRegister (id : ident)         (* handleConnectReq: peers.addPeer(conn, peer) *)
| RRefuse                        (* error branch: Reset, ClosePeer, blockPeer *)
| REnd                           (* deferred: the function returned by beginHandshake *)
| RDone.

(* stream wrapper of AddStreamHandlers, per inbound stream *)
Inductive wstate :=
| WNew                           (* p, found := peers.getPeer(peerID) *)
| WWait                          (* waitHandshake(peerID) *)
| WLook2                         (* p, found = peers.getPeer(peerID) *)
| WHandled (id : ident)          (* headers exchanged, ss.Handler(ctx, *p, stream) *)
| WUnknown                       (* "received stream from unknown peer": Reset *)
| WTorn.                         (* the initiator could not open it: connection closed *)

Record world := {
  ipc : ipc_t; rpc : rpc_t;
  i2r : list frame; r_rd : nat;      (* initiator -> responder: log, responder's cursor *)
  r2i : list frame; i_rd : nat;      (* responder -> initiator: log, initiator's cursor *)
  i_closed : bool; r_closed : bool;  (* that side reset the handshake stream / closed the peer *)
  inflight : nat;                    (* len(hsInflight[initiator]) on the responder *)
  registered : option ident;         (* responder's peers.overlays[initiator] *)
  returned : option ident;           (* what Connect returned to the initiating node *)
  wr : list wstate;                  (* one wrapper per stream opened, in opening order *)
  ga_calls : nat                     (* history: calls of the responder's KeySigner.GetAddress *)
}.

Definition init : world :=
  {| ipc := IWriteReq; rpc := RBegin; i2r := []; r_rd := 0; r2i := []; i_rd := 0;
     i_closed := false; r_closed := false; inflight := 0; registered := None;
     returned := None; wr := []; ga_calls := 0 |}.

(* field updates *)
Definition set_ipc (p : ipc_t) (w : world) : world :=
  {| ipc := p; rpc := rpc w; i2r := i2r w; r_rd := r_rd w; r2i := r2i w; i_rd := i_rd w;
     i_closed := i_closed w; r_closed := r_closed w; inflight := inflight w;
     registered := registered w; returned := returned w; wr := wr w; ga_calls := ga_calls w |}.
Definition set_rpc (p : rpc_t) (w : world) : world :=
  {| ipc := ipc w; rpc := p; i2r := i2r w; r_rd := r_rd w; r2i := r2i w; i_rd := i_rd w;
     i_closed := i_closed w; r_closed := r_closed w; inflight := inflight w;
     registered := registered w; returned := returned w; wr := wr w; ga_calls := ga_calls w |}.
Definition send_i2r (f : frame) (w : world) : world :=
  {| ipc := ipc w; rpc := rpc w; i2r := i2r w ++ [f]; r_rd := r_rd w; r2i := r2i w; i_rd := i_rd w;
     i_closed := i_closed w; r_closed := r_closed w; inflight := inflight w;
     registered := registered w; returned := returned w; wr := wr w; ga_calls := ga_calls w |}.
Definition send_r2i (f : frame) (w : world) : world :=
  {| ipc := ipc w; rpc := rpc w; i2r := i2r w; r_rd := r_rd w; r2i := r2i w ++ [f]; i_rd := i_rd w;
     i_closed := i_closed w; r_closed := r_closed w; inflight := inflight w;
     registered := registered w; returned := returned w; wr := wr w; ga_calls := ga_calls w |}.
Definition adv_i_rd (w : world) : world :=
  {| ipc := ipc w; rpc := rpc w; i2r := i2r w; r_rd := r_rd w; r2i := r2i w; i_rd := S (i_rd w);
     i_closed := i_closed w; r_closed := r_closed w; inflight := inflight w;
     registered := registered w; returned := returned w; wr := wr w; ga_calls := ga_calls w |}.
Definition adv_r_rd (w : world) : world :=
  {| ipc := ipc w; rpc := rpc w; i2r := i2r w; r_rd := S (r_rd w); r2i := r2i w; i_rd := i_rd w;
     i_closed := i_closed w; r_closed := r_closed w; inflight := inflight w;
     registered := registered w; returned := returned w; wr := wr w; ga_calls := ga_calls w |}.
Definition set_i_closed (w : world) : world :=
  {| ipc := ipc w; rpc := rpc w; i2r := i2r w; r_rd := r_rd w; r2i := r2i w; i_rd := i_rd w;
     i_closed := true; r_closed := r_closed w; inflight := inflight w;
     registered := registered w; returned := returned w; wr := wr w; ga_calls := ga_calls w |}.
Definition set_r_closed (w : world) : world :=
  {| ipc := ipc w; rpc := rpc w; i2r := i2r w; r_rd := r_rd w; r2i := r2i w; i_rd := i_rd w;
     i_closed := i_closed w; r_closed := true; inflight := inflight w;
     registered := registered w; returned := returned w; wr := wr w; ga_calls := ga_calls w |}.
Definition set_inflight (n : nat) (w : world) : world :=
  {| ipc := ipc w; rpc := rpc w; i2r := i2r w; r_rd := r_rd w; r2i := r2i w; i_rd := i_rd w;
     i_closed := i_closed w; r_closed := r_closed w; inflight := n;
     registered := registered w; returned := returned w; wr := wr w; ga_calls := ga_calls w |}.
Definition set_registered (id : ident) (w : world) : world :=
  {| ipc := ipc w; rpc := rpc w; i2r := i2r w; r_rd := r_rd w; r2i := r2i w; i_rd := i_rd w;
     i_closed := i_closed w; r_closed := r_closed w; inflight := inflight w;
     registered := Some id; returned := returned w; wr := wr w; ga_calls := ga_calls w |}.
Definition set_returned (id : ident) (w : world) : world :=
  {| ipc := ipc w; rpc := rpc w; i2r := i2r w; r_rd := r_rd w; r2i := r2i w; i_rd := i_rd w;
     i_closed := i_closed w; r_closed := r_closed w; inflight := inflight w;
     registered := registered w; returned := Some id; wr := wr w; ga_calls := ga_calls w |}.
Definition set_wr (l : list wstate) (w : world) : world :=
  {| ipc := ipc w; rpc := rpc w; i2r := i2r w; r_rd := r_rd w; r2i := r2i w; i_rd := i_rd w;
     i_closed := i_closed w; r_closed := r_closed w; inflight := inflight w;
     registered := registered w; returned := returned w; wr := l; ga_calls := ga_calls w |}.
Definition count_ga (w : world) : world :=
  {| ipc := ipc w; rpc := rpc w; i2r := i2r w; r_rd := r_rd w; r2i := r2i w; i_rd := i_rd w;
     i_closed := i_closed w; r_closed := r_closed w; inflight := inflight w;
     registered := registered w; returned := returned w; wr := wr w; ga_calls := S (ga_calls w) |}.

(* Two versions of the responder: [Current] is the code as it is now; [V0] is the code
   before the repair (no record of inbound handshakes in progress, wrapper does not wait). *)
Inductive variant := Current | V0.

(* which one is deployed is read off the source on every run (gen/Generated.v) *)
(* [Current] needs: handleConnectReq calls beginHandshake(peerID) AND invokes its result in the same
   expression ([s.beginHandshake(peerID)()] -- the extractor does not record the [defer] keyword
   itself), registers with addPeer, and the wrapper calls waitHandshake(peerID) between exactly two
   getPeer(peerID) lookups *)
(* ... and that call is DEFERRED ([defer_calls] anchor) and is the second top-level statement of
   handleConnectReq, right after the peer id is read and before anything is read from the stream *)
Definition handle_defers_begin : bool :=
  existsb (bytes_eqb (bos "s.beginHandshake(peerID)()")) c20_handle_defers &&
  match c20_handle_top with
  | [_; st] => bytes_eqb st (bos "defer s.beginHandshake(peerID)()")
  | _ => false
  end.
Definition connect_defers_begin : bool :=
  existsb (bytes_eqb (bos "s.beginHandshake(addrInfo.ID)()")) c20_connect_defers.
Definition deployed : variant :=
  if c20_begin_in_handle && c20_begin_invoked_in_handle && c20_wait_in_wrapper &&
     c20_register_in_handle && Nat.eqb (length c20_wrapper_getpeer_args) 2 && handle_defers_begin
  then Current else V0.

(* ---- initiator: Service.Connect -> handshake.Handshake -> NewStream ------------------ *)
Definition fail_i (w : world) : world := set_ipc IFailed (set_i_closed w).

Definition step_i (c : cfg) (w : world) : world :=
  match ipc w with
  | IWriteReq => set_ipc IReadResp (send_i2r (req_of (ini c)) w)
  | IReadResp =>
      match nth_error (r2i w) (i_rd w) with
      | Some f => set_ipc (IVerifyResp f) (adv_i_rd w)
      | None => if r_closed w then fail_i w else w          (* read error after a reset *)
      end
  | IVerifyResp f => if verify_resp (ini c) f then set_ipc IReadReq w else fail_i w
  | IReadReq =>
      match nth_error (r2i w) (i_rd w) with
      | Some f => set_ipc (IVerifyReq f) (adv_i_rd w)
      | None => if r_closed w then fail_i w else w
      end
  | IVerifyReq f =>
      match verify_req (rsp c) f with
      | Some id => set_ipc (IWriteFinal id) w
      | None => fail_i w
      end
  | IWriteFinal id => set_ipc (IReturn id) (send_i2r (resp_of id) w)
  | IReturn id => set_ipc (IOpen id) (set_returned id w)
  | IOpen _ => set_wr (wr w ++ [if r_closed w then WTorn else WNew]) w
  | IFailed => w
  end.

(* ---- responder: Service.handleConnectReq -> handshake.Handle ------------------------- *)
Definition step_r (v : variant) (c : cfg) (w : world) : world :=
  match rpc w with
  | RBegin =>
      set_rpc RReadReq (match v with Current => set_inflight (S (inflight w)) w | V0 => w end)
  | RReadReq =>
      match nth_error (i2r w) (r_rd w) with
      | Some f => set_rpc (RVerifyReq f) (adv_r_rd w)
      | None => if i_closed w then set_rpc RRefuse w else w
      end
  | RVerifyReq f =>
      match verify_req (ini c) f with
      | Some id => set_rpc (RWriteResp id) w
      | None => set_rpc RRefuse w
      end
  | RWriteResp id => set_rpc (RWriteReq id) (send_r2i (resp_of id) w)
  | RWriteReq id => set_rpc (RReadFinal id) (send_r2i (req_of (rsp c)) w)
  | RReadFinal id =>
      match nth_error (i2r w) (r_rd w) with
      | Some f => set_rpc (RVerifyFinal id f) (adv_r_rd w)
      | None => if i_closed w then set_rpc RRefuse w else w
      end
  | RVerifyFinal id f =>
      let w' := count_ga w in
      if verify_resp (rsp c) f then set_rpc (RRegister id) w' else set_rpc RRefuse w'
  | RRegister id => set_rpc REnd (set_registered id w)
  | RRefuse => set_rpc REnd (set_r_closed w)
  | REnd =>
      set_rpc RDone (match v with Current => set_inflight (pred (inflight w)) w | V0 => w end)
  | RDone => w
  end.

(* ---- responder's stream wrapper (AddStreamHandlers) ----------------------------------- *)
Definition step_w1 (v : variant) (w : world) (s : wstate) : wstate :=
  match s with
  | WNew =>
      match registered w with
      | Some id => WHandled id
      | None => match v with Current => WWait | V0 => WUnknown end
      end
  | WWait => if Nat.eqb (inflight w) 0 then WLook2 else WWait
  | WLook2 =>
      match registered w with
      | Some id => WHandled id
      | None => WUnknown
      end
  | s => s
  end.

Fixpoint upd {A : Type} (k : nat) (f : A -> A) (l : list A) : list A :=
  match l, k with
  | [], _ => []
  | a :: r, O => f a :: r
  | a :: r, S k' => a :: upd k' f r
  end.

Definition step_w (v : variant) (k : nat) (w : world) : world :=
  set_wr (upd k (step_w1 v w) (wr w)) w.

(* [ConnCloseOther] is an event of the environment: some OTHER connection between the same two
   peer ids (a stale connection of the initiator's previous incarnation, the spare of a mutual
   dial) is closed and the responder's disconnect notifications run.  The handshake and the
   streams of this model live on the connection Connect made.  In the code the notification
   reaches peerRegistry.Disconnected, which returns at once for a peer without registered
   connections and otherwise only forgets the closed connection while another one remains;
   nothing else listens.  In particular the record of handshakes in progress, the registry
   entry and the wrappers are untouched: the step changes nothing. *)
Inductive who := I | R | W (k : nat) | ConnCloseOther.

Definition step (v : variant) (c : cfg) (w : world) (a : who) : world :=
  match a with
  | I => step_i c w
  | R => step_r v c w
  | W k => step_w v k w
  | ConnCloseOther => w
  end.

Definition run_from (v : variant) (c : cfg) (w : world) (sched : list who) : world :=
  fold_left (step v c) sched w.
Definition run (v : variant) (c : cfg) (sched : list who) : world := run_from v c init sched.

(* ---- vocabulary of the property --------------------------------------------------------- *)
(* a node whose three address sources agree *)
Definition well_formed (n : node) : Prop := sig_addr n = Some (pid_addr n) /\ ks_addr n = pid_addr n.
(* the part the race theorem needs of the responder: its key signer reports the address of
   its own network identity (true of both key signers of the repository, which derive the
   network identity and GetAddress from the same key) *)
Definition self_consistent (n : node) : Prop := ks_addr n = pid_addr n.
Definition self_consistentb (n : node) : bool := ks_addr n =? pid_addr n.

(* the identity the responder has proof of: the address bound to the peer id, the type sent *)
Definition proven_ident (n : node) : ident := (pid_addr n, ptype n).

Definition refused (s : wstate) : bool :=
  match s with WUnknown | WTorn => true | _ => false end.

(* ---- canonical schedules used by the correspondence check -------------------------------- *)
(* initiator runs to the point where Connect has returned; the responder has read the final
   message and is about to call GetAddress *)
Definition hs_prefix : list who := [I; R; R; R; R; R; I; I; I; I; I; I; R].
(* the responder verifies the echo, registers (or refuses) and ends the in-flight record *)
Definition release : list who := [R; R; R].
Definition opens (n : nat) : list who := repeat I n.
Definition firsts (n : nat) : list who := map W (seq 0 n).
Definition rests (n : nat) : list who := flat_map (fun k => [W k; W k]) (seq 0 n).

(* optionally another connection of the initiator's peer id is closed while the responder is held *)
Definition env (b : bool) : list who := if b then [ConnCloseOther] else [].
(* streams opened and looked up while the responder is still held before GetAddress *)
Definition sched_before_env (b : bool) (n : nat) : list who :=
  hs_prefix ++ env b ++ opens n ++ firsts n.
Definition sched_open_before_release_env (b : bool) (n : nat) : list who :=
  sched_before_env b n ++ release ++ rests n.
Definition sched_before (n : nat) : list who := sched_before_env false n.
Definition sched_open_before_release (n : nat) : list who := sched_open_before_release_env false n.
(* streams opened after the responder finished *)
Definition sched_open_after_release (n : nat) : list who :=
  hs_prefix ++ release ++ opens n ++ firsts n ++ rests n.
(* streams opened before, first lookup after the registration but before the end of the
   in-flight record: an intermediate interleaving *)
Definition sched_open_mid (n : nat) : list who :=
  hs_prefix ++ opens n ++ [R; R] ++ firsts n ++ [R] ++ rests n.

(* ---- several initiators against one responder --------------------------------------------- *)
(* The responder keeps its handshake records and its registry per remote peer, so a system of
   n initiators is n independent copies of the two-party world; a system schedule names the
   pair that moves. *)
Definition sys := list (cfg * world).
Definition sys_init (cs : list cfg) : sys := map (fun c => (c, init)) cs.
Definition sys_step (v : variant) (s : sys) (ja : nat * who) : sys :=
  upd (fst ja) (fun cw => (fst cw, step v (fst cw) (snd cw) (snd ja))) s.
Definition sys_run (v : variant) (cs : list cfg) (sched : list (nat * who)) : sys :=
  fold_left (sys_step v) sched (sys_init cs).

(* ---- a further handshake between the same two peer ids -------------------------------------- *)
(* A later attempt (a reconnect, a restart of the initiating node with the same key) runs on a
   new connection with a new handshake stream: everything per attempt starts afresh; what the
   responder keeps per PEER ID -- the handshakes on record as in progress, the registry entry --
   and the history counter survive. *)
Definition next_attempt (w : world) : world :=
  {| ipc := IWriteReq; rpc := RBegin; i2r := []; r_rd := 0; r2i := []; i_rd := 0;
     i_closed := false; r_closed := false; inflight := inflight w; registered := registered w;
     returned := None; wr := []; ga_calls := ga_calls w |}.
(* The connection of the earlier attempt is closed and the responder's peerRegistry.Disconnected
   has removed the registry entry it carried (it was the only tracked connection of the peer).
   Used for the moment BEFORE any stream of the new attempt is looked up; the interleavings in
   which lookups still see the old entry are not part of this model (see PeerRegistry, C14). *)
Definition forget_registration (w : world) : world :=
  {| ipc := ipc w; rpc := rpc w; i2r := i2r w; r_rd := r_rd w; r2i := r2i w; i_rd := i_rd w;
     i_closed := i_closed w; r_closed := r_closed w; inflight := inflight w;
     registered := None; returned := returned w; wr := wr w; ga_calls := ga_calls w |}.
Definition is_done (p : rpc_t) : bool := match p with RDone => true | _ => false end.
(* the whole handshake, both sides run to their end (whatever the outcome) *)
Definition sched_handshake : list who := hs_prefix ++ release.

(* ---- mutual dial: the node that answers the streams is the handshake INITIATOR ---------------- *)
(* Names for this section: B = [ini c] runs Connect/Handshake towards A = [rsp c] exactly as in
   the base world.  A's handler registers B when it has read B's final message.  A's own
   Connect(B) then reports success at once through the isConnected shortcut of Service.Connect
   (no second handshake), and A opens streams towards B.  They arrive at B's stream wrapper,
   which consults B's registry -- filled by B's own Connect (addPeer, after Handshake returned) --
   and B's record of handshakes in progress.  In the current code that record also brackets the
   OUTBOUND handshake: [defer s.beginHandshake(addrInfo.ID)()] in Connect, from before
   hsSvc.Handshake until Connect returns (after addPeer).  [ob = false] is the code without that
   bracket (only inbound handshakes on record): the variant "_v1".

   The base world is reused unchanged; the base step [IReturn id] ("addPeer, return") is refined
   into two steps of B here (addPeer, then return), and one step is put in front (begin). *)
Record mworld := {
  base : world;
  b_begun : bool;              (* B's Connect has passed the beginHandshake statement *)
  b_reg : option ident;        (* B's peers.overlays[A] *)
  a_ret : option ident;        (* what A's Connect(B) returned *)
  bw : list wstate             (* B's wrappers for the streams A opened, in opening order *)
}.

Definition minit : mworld :=
  {| base := init; b_begun := false; b_reg := None; a_ret := None; bw := [] |}.

Definition set_base (w : world) (m : mworld) : mworld :=
  {| base := w; b_begun := b_begun m; b_reg := b_reg m; a_ret := a_ret m; bw := bw m |}.
Definition set_b_begun (m : mworld) : mworld :=
  {| base := base m; b_begun := true; b_reg := b_reg m; a_ret := a_ret m; bw := bw m |}.
Definition set_b_reg (id : ident) (m : mworld) : mworld :=
  {| base := base m; b_begun := b_begun m; b_reg := Some id; a_ret := a_ret m; bw := bw m |}.
Definition set_a_ret (id : ident) (m : mworld) : mworld :=
  {| base := base m; b_begun := b_begun m; b_reg := b_reg m; a_ret := Some id; bw := bw m |}.
Definition set_bw (l : list wstate) (m : mworld) : mworld :=
  {| base := base m; b_begun := b_begun m; b_reg := b_reg m; a_ret := a_ret m; bw := l |}.

(* len(hsInflight[A]) on B: the deferred end runs when Connect returns (success or error) *)
Definition b_inflight (ob : bool) (m : mworld) : nat :=
  if ob && b_begun m then
    match ipc (base m) with
    | IOpen _ | IFailed => 0%nat
    | _ => 1%nat
    end
  else 0%nat.

(* B's Connect: begin; the base steps up to the final write; addPeer; return *)
Definition mstep_b (c : cfg) (m : mworld) : mworld :=
  if negb (b_begun m) then set_b_begun m
  else
    match ipc (base m), b_reg m with
    | IReturn id, None => set_b_reg id m
    | _, _ => set_base (step_i c (base m)) m
    end.

(* A's Connect(B): the isConnected shortcut; without a registered B it would dial and run a
   handshake of its own in the opposite direction, which is not part of this world (no-op) *)
Definition mstep_c (m : mworld) : mworld :=
  match a_ret m, registered (base m) with
  | None, Some id => set_a_ret id m
  | _, _ => m
  end.

(* A opens a stream towards B (NewStream needs the peer in A's registry: after Connect) *)
Definition mstep_o (m : mworld) : mworld :=
  match a_ret m with
  | Some _ => set_bw (bw m ++ [WNew]) m
  | None => m
  end.

(* B's stream wrapper: lookup, wait while a handshake with A is on record, lookup *)
Definition mstep_bw1 (ob : bool) (m : mworld) (s : wstate) : wstate :=
  match s with
  | WNew => match b_reg m with Some id => WHandled id | None => WWait end
  | WWait => if Nat.eqb (b_inflight ob m) 0 then WLook2 else WWait
  | WLook2 => match b_reg m with Some id => WHandled id | None => WUnknown end
  | s => s
  end.

Inductive mwho :=
| MB                 (* B's Connect *)
| MR                 (* A's handshake handler (base R) *)
| MAW (k : nat)      (* A's wrapper for the k-th stream B opened (base W k) *)
| MC                 (* A's Connect(B) *)
| MO                 (* A opens a stream to B *)
| MBW (k : nat).     (* B's wrapper for the k-th stream A opened *)

Definition mstep (ob : bool) (c : cfg) (m : mworld) (a : mwho) : mworld :=
  match a with
  | MB => mstep_b c m
  | MR => set_base (step_r Current c (base m)) m
  | MAW k => set_base (step_w Current k (base m)) m
  | MC => mstep_c m
  | MO => mstep_o m
  | MBW k => set_bw (upd k (mstep_bw1 ob m) (bw m)) m
  end.

Definition mrun_from (ob : bool) (c : cfg) (m : mworld) (sched : list mwho) : mworld :=
  fold_left (mstep ob c) sched m.
Definition mrun (ob : bool) (c : cfg) (sched : list mwho) : mworld := mrun_from ob c minit sched.

(* is the outbound bracket in the source?  (gen/Generated.v) *)
Definition ob_deployed : bool :=
  c20_begin_in_connect && c20_begin_invoked_in_connect && connect_defers_begin.

(* canonical schedules of the correspondence check: B is held just before addPeer (it has
   written its final message), A finishes its side, connects back through the shortcut and opens
   n streams *)
Definition m_prefix : list mwho :=
  [MB; MB] ++ repeat MR 5 ++ repeat MB 5 ++ repeat MR 4 ++ [MC].
Definition m_opens (n : nat) : list mwho := repeat MO n.
Definition m_firsts (n : nat) : list mwho := map MBW (seq 0 n).
Definition m_rests (n : nat) : list mwho := flat_map (fun k => [MBW k; MBW k]) (seq 0 n).
Definition m_release : list mwho := [MB; MB].
(* the wrappers only get their first lookup in before B goes on *)
Definition msched_held (n : nat) : list mwho := m_prefix ++ m_opens n ++ m_firsts n.
Definition msched_first_lookup_before (n : nat) : list mwho :=
  msched_held n ++ m_release ++ m_rests n.
(* the wrappers run to their end before B goes on *)
Definition msched_all_before (n : nat) : list mwho :=
  msched_held n ++ m_rests n ++ m_release.

(* ---- cross dial: both nodes call Connect at the same time ----------------------------------------- *)
(* Nodes A and B.  Handshake 1 is dialled by A ([h1], node descriptions [c12]: ini = A, rsp = B),
   handshake 2 by B ([h2], [c21]: ini = B, rsp = A).  Each node has ONE registry and ONE record of
   handshakes in progress for the other node's peer id, fed by both of its roles:
     B's registry entry for A  = what B's inbound handler of handshake 1 registered ([registered h1])
                                 or what B's own Connect added after handshake 2 ([oreg2]);
     B's handshakes in progress with A = the inbound bracket of handshake 1 ([inflight h1]) plus
                                 the outbound bracket of B's Connect ([xout] of handshake 2);
   and symmetrically for A.  A Connect first tests isConnected: with the other node already in
   its registry it returns at once ([short_i]), otherwise it dials (begin; handshake steps;
   addPeer; return) -- test and begin are one step here.  A's handler for handshake i runs only
   once the dialler has opened the handshake stream ([beg_i]).  Only the streams A opens (answered
   by B's wrapper) are tracked: wrappers observe and change nothing else, so the statement for
   B's streams is the same statement with the two node descriptions exchanged. *)
Record xworld := {
  h1 : world; h2 : world;
  beg1 : bool; beg2 : bool;
  oreg1 : option ident; oreg2 : option ident;
  short1 : option ident; short2 : option ident;
  sA : list wstate
}.
Definition xinit : xworld :=
  {| h1 := init; h2 := init; beg1 := false; beg2 := false; oreg1 := None; oreg2 := None;
     short1 := None; short2 := None; sA := [] |}.

Definition c12 (a b : node) : cfg := {| ini := a; rsp := b |}.
Definition c21 (a b : node) : cfg := {| ini := b; rsp := a |}.

Definition first_some {A : Type} (x y : option A) : option A :=
  match x with Some _ => x | None => y end.
Definition regBA (x : xworld) : option ident := first_some (registered (h1 x)) (oreg2 x).
Definition regAB (x : xworld) : option ident := first_some (registered (h2 x)) (oreg1 x).
(* the outbound bracket of a dialler whose handshake world is h *)
Definition xout (beg : bool) (h : world) : nat :=
  if beg then match ipc h with IOpen _ | IFailed => 0%nat | _ => 1%nat end else 0%nat.
Definition markB (x : xworld) : nat := (inflight (h1 x) + xout (beg2 x) (h2 x))%nat.
(* what A's Connect(B) returned *)
Definition ret1 (x : xworld) : option ident :=
  match short1 x with Some id => Some id | None => returned (h1 x) end.

(* what B's Connect(A) returned *)
Definition ret2 (x : xworld) : option ident :=
  match short2 x with Some id => Some id | None => returned (h2 x) end.

(* one step of a dialling Connect that has begun (as [mstep_b]) *)
Definition dial_step (c : cfg) (h : world) (oreg : option ident) : world * option ident :=
  match ipc h, oreg with
  | IReturn id, None => (h, Some id)
  | _, _ => (step_i c h, oreg)
  end.

Definition xset1 (h : world) (beg : bool) (oreg short : option ident) (x : xworld) : xworld :=
  {| h1 := h; h2 := h2 x; beg1 := beg; beg2 := beg2 x; oreg1 := oreg; oreg2 := oreg2 x;
     short1 := short; short2 := short2 x; sA := sA x |}.
Definition xset2 (h : world) (beg : bool) (oreg short : option ident) (x : xworld) : xworld :=
  {| h1 := h1 x; h2 := h; beg1 := beg1 x; beg2 := beg; oreg1 := oreg1 x; oreg2 := oreg;
     short1 := short1 x; short2 := short; sA := sA x |}.
Definition xset_s (l : list wstate) (x : xworld) : xworld :=
  {| h1 := h1 x; h2 := h2 x; beg1 := beg1 x; beg2 := beg2 x; oreg1 := oreg1 x; oreg2 := oreg2 x;
     short1 := short1 x; short2 := short2 x; sA := l |}.

Definition xstep_d1 (a b : node) (x : xworld) : xworld :=
  match short1 x with
  | Some _ => x
  | None =>
      if beg1 x then
        let (h, o) := dial_step (c12 a b) (h1 x) (oreg1 x) in xset1 h true o None x
      else match regAB x with
           | Some id => xset1 (h1 x) false (oreg1 x) (Some id) x
           | None => xset1 (h1 x) true (oreg1 x) None x
           end
  end.
Definition xstep_d2 (a b : node) (x : xworld) : xworld :=
  match short2 x with
  | Some _ => x
  | None =>
      if beg2 x then
        let (h, o) := dial_step (c21 a b) (h2 x) (oreg2 x) in xset2 h true o None x
      else match regBA x with
           | Some id => xset2 (h2 x) false (oreg2 x) (Some id) x
           | None => xset2 (h2 x) true (oreg2 x) None x
           end
  end.

Definition xstep_w1 (x : xworld) (s : wstate) : wstate :=
  match s with
  | WNew => match regBA x with Some id => WHandled id | None => WWait end
  | WWait => if Nat.eqb (markB x) 0 then WLook2 else WWait
  | WLook2 => match regBA x with Some id => WHandled id | None => WUnknown end
  | s => s
  end.

Inductive xwho :=
| XD1 | XD2          (* A's Connect(B), B's Connect(A) *)
| XR1 | XR2          (* B's handler of handshake 1, A's handler of handshake 2 *)
| XO                 (* A opens a stream to B *)
| XW (k : nat).      (* B's wrapper for the k-th stream *)

Definition xstep (a b : node) (x : xworld) (e : xwho) : xworld :=
  match e with
  | XD1 => xstep_d1 a b x
  | XD2 => xstep_d2 a b x
  | XR1 => if beg1 x then xset1 (step_r Current (c12 a b) (h1 x)) true (oreg1 x) (short1 x) x else x
  | XR2 => if beg2 x then xset2 (step_r Current (c21 a b) (h2 x)) true (oreg2 x) (short2 x) x else x
  | XO => match ret1 x with Some _ => xset_s (sA x ++ [WNew]) x | None => x end
  | XW k => xset_s (upd k (xstep_w1 x) (sA x)) x
  end.
Definition xrun_from (a b : node) (x : xworld) (sched : list xwho) : xworld :=
  fold_left (xstep a b) sched x.
Definition xrun (a b : node) (sched : list xwho) : xworld := xrun_from a b xinit sched.

(* canonical schedule of the correspondence check (class 4): both nodes dial; A's Connect has
   returned, B is held before it verifies A's final message and before its own addPeer; A opens n
   streams and B's wrappers look once; then both handshakes finish and the wrappers run on *)
Definition x_hs : list xwho :=
  [XD1; XD2; XD1; XD2] ++ repeat XR1 5 ++ repeat XR2 5 ++ repeat XD1 7 ++ repeat XD2 5 ++ [XR1].
Definition x_full (n : nat) : list xwho :=
  x_hs ++ repeat XO n ++ map XW (seq 0 n) ++ [XD2; XD2; XD2] ++ repeat XR1 3 ++ repeat XR2 4 ++
  flat_map (fun k => [XW k; XW k]) (seq 0 n).

(* ---- cross dial: who can take a step, final states, fair schedules --------------------------------- *)
(* A dialling Connect is blocked only in its two reads (nothing to read and the handler has not
   reset the stream); after it has returned it takes no further step. *)
Definition ican (h : world) : bool :=
  match ipc h with
  | IReadResp | IReadReq =>
      match nth_error (r2i h) (i_rd h) with Some _ => true | None => r_closed h end
  | IOpen _ | IFailed => false
  | _ => true
  end.
Definition dcan (beg : bool) (short : option ident) (h : world) : bool :=
  match short with
  | Some _ => false
  | None => if beg then ican h else true
  end.
(* a handler exists once the dialler has opened the handshake stream; it is blocked only in its
   two reads (nothing to read and the dialler has not given up) *)
Definition rcan (beg : bool) (h : world) : bool :=
  beg &&
  match rpc h with
  | RReadReq | RReadFinal _ =>
      match nth_error (i2r h) (r_rd h) with Some _ => true | None => i_closed h end
  | RDone => false
  | _ => true
  end.
Definition wcan (x : xworld) (s : wstate) : bool :=
  match s with
  | WNew | WLook2 => true
  | WWait => Nat.eqb (markB x) 0
  | _ => false
  end.
(* [XO] is the application on node A: it may open another stream whenever Connect has succeeded *)
Definition xcan (x : xworld) (e : xwho) : bool :=
  match e with
  | XD1 => dcan (beg1 x) (short1 x) (h1 x)
  | XD2 => dcan (beg2 x) (short2 x) (h2 x)
  | XR1 => rcan (beg1 x) (h1 x)
  | XR2 => rcan (beg2 x) (h2 x)
  | XO => match ret1 x with Some _ => true | None => false end
  | XW k => match nth_error (sA x) k with Some s => wcan x s | None => false end
  end.

(* the base worlds keep a wrapper list of their own ([wr]) that the cross world does not use
   (the streams are in [sA]); a step of a returned Connect appends to it.  Equality of cross
   worlds is taken up to these two lists. *)
Definition xerase (x : xworld) : xworld :=
  {| h1 := set_wr [] (h1 x); h2 := set_wr [] (h2 x); beg1 := beg1 x; beg2 := beg2 x;
     oreg1 := oreg1 x; oreg2 := oreg2 x; short1 := short1 x; short2 := short2 x; sA := sA x |}.

(* Connect has returned: through the shortcut, with success after its own handshake, or with an error *)
Definition conn_returned (beg : bool) (short : option ident) (h : world) : Prop :=
  short <> None \/ (beg = true /\ (ipc h = IFailed \/ exists id, ipc h = IOpen id)).
(* the handler of that handshake has returned (or was never started: shortcut) *)
Definition handler_returned (beg : bool) (short : option ident) (h : world) : Prop :=
  (beg = false /\ short <> None) \/ (beg = true /\ rpc h = RDone).
Definition xfinal (x : xworld) : Prop :=
  conn_returned (beg1 x) (short1 x) (h1 x) /\ conn_returned (beg2 x) (short2 x) (h2 x) /\
  handler_returned (beg1 x) (short1 x) (h1 x) /\ handler_returned (beg2 x) (short2 x) (h2 x).
Definition wfinal (s : wstate) : bool :=
  match s with WHandled _ | WUnknown | WTorn => true | _ => false end.

(* a round: a stretch of the schedule in which each of the two Connects and the two handlers is
   scheduled at least once (anything else may be scheduled in between, any number of times) *)
Definition xround (seg : list xwho) : Prop := In XD1 seg /\ In XD2 seg /\ In XR1 seg /\ In XR2 seg.
(* the schedule starts with n rounds; what follows is arbitrary *)
Inductive xfair : nat -> list xwho -> Prop :=
| xfair_0 : forall s, xfair 0 s
| xfair_S : forall n seg rest, xround seg -> xfair n rest -> xfair (S n) (seg ++ rest).
(* how often the wrapper of the k-th stream is scheduled in t *)
Definition wsteps (k : nat) (t : list xwho) : nat :=
  length (filter (fun e => match e with XW j => Nat.eqb j k | _ => false end) t).
(* rounds that suffice for both handshakes whatever the interleaving (see the proof: a step
   count of the four actors) *)
Definition x_rounds : nat := 40.

(* ---- further schedules of the cross dial that the driver realises with its gates -------------------- *)
(* a = the node whose streams are tracked (the opener), b = the node that answers them *)
Definition xmirror (e : xwho) : xwho :=
  match e with XD1 => XD2 | XD2 => XD1 | XR1 => XR2 | XR2 => XR1 | e => e end.
(* b dials alone and both sides of that handshake run to their end *)
Definition x_hs2_full : list xwho :=
  [XD2; XD2] ++ repeat XR2 5 ++ repeat XD2 5 ++ repeat XR2 4 ++ [XD2; XD2].
(* b dials alone; a's handler is held before it verifies the final message; b's Connect returns *)
Definition x_hs2_held : list xwho :=
  [XD2; XD2] ++ repeat XR2 5 ++ repeat XD2 5 ++ [XR2] ++ [XD2; XD2].
(* both dial at once, both handlers are held before they verify the final message, both Connects
   return (each after its own addPeer) *)
Definition x_hs_both_held : list xwho :=
  [XD1; XD2; XD1; XD2] ++ repeat XR1 5 ++ repeat XR2 5 ++ repeat XD1 7 ++ repeat XD2 7 ++ [XR1; XR2].
(* schedule classes 5 .. 9 of the correspondence check:
   5  b connects first, completely; then a connects: shortcut        (tracked streams: a's)
   6  a connects first, completely; then b connects: shortcut
   7  b connects first, a's handler held; then a connects (it dials), b's handler held
   8  a connects first, b's handler held; then b connects (it dials), a's handler held
   9  both connect at once, both handlers held
   10 b's Connect is held inside its own handshake (in verifyResp, before it reads a's request);
      a connects meanwhile (it dials), b's handler held; a's streams find b with nothing
      registered and two handshakes on record: they wait; then everything is released *)
Definition x_hs2_stuck : list xwho := [XD2; XD2] ++ repeat XR2 5 ++ [XD2].
Definition x_pre (k : N) : list xwho :=
  if k =? 5 then x_hs2_full ++ [XD1]
  else if k =? 6 then map xmirror (x_hs2_full ++ [XD1])
  else if k =? 7 then x_hs2_held ++ map xmirror x_hs2_held
  else if k =? 8 then map xmirror x_hs2_held ++ x_hs2_held
  else if k =? 10 then x_hs2_stuck ++ map xmirror x_hs2_held
  else x_hs_both_held.
Definition x_release (k : N) : list xwho :=
  if (k =? 5) || (k =? 6) then []
  else if k =? 10 then repeat XD2 6 ++ repeat XR2 4 ++ repeat XR1 3
  else repeat XR1 3 ++ repeat XR2 3.
(* up to the moment the driver looks at the streams for the first time (handlers still held) *)
Definition x_sched_gate (k : N) (n : nat) : list xwho :=
  x_pre k ++ repeat XO n ++ map XW (seq 0 n).
Definition x_sched_end (k : N) (n : nat) : list xwho :=
  x_sched_gate k n ++ x_release k ++ flat_map (fun j => [XW j; XW j]) (seq 0 n).
