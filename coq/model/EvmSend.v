(* Model of the transaction sender of pkg/evmclient: EvmClient.Send, getNonce, newTx
   (evmclient.go) and txmonitor.allowNonce (txmonitor.go), as the code is now.
   The pre-fix getNonce is kept as [get_nonce_v0].  Definitions only.

   Chain-node and key-signer calls are oracle answers ([answers]); the confirmed nonce the
   monitor stores (lastConfirmedNonce) is driven by [Conf] events (what the node answered
   to the monitor's NonceAt call); a client restart is a new client on the same node. *)
From Coq Require Import List NArith Bool.
From MevVerif Require Import lib.Bytes gen.Generated.
Import ListNotations.
Open Scope N_scope.

Definition w64 : N := 18446744073709551616.            (* uint64 arithmetic wraps here *)
Definition max_sent_txs : N := c08_max_sent_txs.       (* txmonitor.go: maxSentTxs *)

(* what the caller put into the TxRequest: newTx asks the node only for what is missing *)
Record request := { gas_given : bool      (* req.GasLimit != 0 *);
                    price_given : bool    (* req.GasPrice != nil *) }.

(* answers of the external calls made on behalf of one Send, in call order *)
Record answers := { pending : option N    (* PendingNonceAt: None = error *);
                    est_ok : bool         (* EstimateGas *);
                    tip_ok : bool         (* SuggestGasTipCap *);
                    price_ok : bool       (* SuggestGasPrice *);
                    sign_ok : bool        (* keySigner.SignTx *);
                    submit_ok : bool      (* SendTransaction *) }.

(* NoTx: Send failed before SendTransaction, nothing reached the node;
   Rejected n: a transaction with nonce n reached the node, which answered an error;
   Accepted n: the node took it; Send returns nil error exactly in this case. *)
Inductive result := NoTx | Rejected (n : N) | Accepted (n : N).

(* getNonce: returns (new value of c.nonce, nonce handed to Send) *)
Definition get_nonce (ctr p : N) : N * N :=
  let c1 := if ctr =? 0 then p else ctr in           (* if c.nonce == 0 { c.nonce = accountNonce } *)
  let c2 := if c1 <? p then p else c1 in             (* if accountNonce > c.nonce { ... } *)
  (c2, c2).

(* before commit a9d18e4: "first nonce" early return that ignored the local counter *)
Definition get_nonce_v0 (ctr p : N) : N * N :=
  if p =? 0 then (ctr, 0) else get_nonce ctr p.

(* txmonitor.allowNonce: nonce <= lastConfirmedNonce + maxSentTxs in uint64 *)
Definition allow_nonce (conf n : N) : bool := n <=? (conf + max_sent_txs) mod w64.

(* newTx + suggestMaxFeeAndTipCap: true when a transaction could be built *)
Definition new_tx_ok (rq : request) (a : answers) : bool :=
  if (if gas_given rq then true else est_ok a) then
    if tip_ok a then
      if price_given rq then true else price_ok a
    else false
  else false.

(* Send under the client mutex: (new c.nonce, what happened) *)
Definition send_with (gn : N -> N -> N * N) (ctr conf : N) (rq : request) (a : answers) : N * result :=
  match pending a with
  | None => (ctr, NoTx)
  | Some p =>
      let '(ctr1, n) := gn ctr p in
      if negb (allow_nonce conf n) then (ctr1, NoTx)
      else if negb (new_tx_ok rq a) then (ctr1, NoTx)
      else if negb (sign_ok a) then (ctr1, NoTx)
      else if negb (submit_ok a) then (ctr1, Rejected n)
      else ((ctr1 + 1) mod w64, Accepted n)            (* c.nonce++ *)
  end.
Definition send := send_with get_nonce.
Definition send_v0 := send_with get_nonce_v0.

(* --- histories --------------------------------------------------------------------- *)
Record st := { ctr : N      (* EvmClient.nonce *);
               conf : N     (* txmonitor.lastConfirmedNonce *) }.
Definition init : st := {| ctr := 0; conf := 0 |}.       (* evmclient.New *)

Inductive op :=
| Send (rq : request) (a : answers)
| Conf (v : N)          (* the node answered v to the monitor's NonceAt; the monitor stored it *)
| Restart.              (* new client (and monitor) on the same node *)

(* what an observer at the node sees of one operation *)
Inductive tev :=
| TSend (p : option N) (r : result)     (* pending answer given, outcome *)
| TConf (v : N)
| TRestart.

Definition step_with gn (s : st) (o : op) : st * tev :=
  match o with
  | Send rq a =>
      let '(c, r) := send_with gn (ctr s) (conf s) rq a in
      ({| ctr := c; conf := conf s |}, TSend (pending a) r)
  | Conf v => ({| ctr := ctr s; conf := v |}, TConf v)
  | Restart => (init, TRestart)
  end.

Fixpoint run_with gn (s : st) (ops : list op) : list tev :=
  match ops with
  | [] => []
  | o :: r => let '(s', e) := step_with gn s o in e :: run_with gn s' r
  end.
Fixpoint final_with gn (s : st) (ops : list op) : st :=
  match ops with
  | [] => s
  | o :: r => final_with gn (fst (step_with gn s o)) r
  end.
Definition run := run_with get_nonce.
Definition final := final_with get_nonce.
Definition run_v0 := run_with get_nonce_v0.

(* --- vocabulary of the property statements ------------------------------------------ *)
Definition is_restart (e : tev) : bool := match e with TRestart => true | _ => false end.
Definition no_restart (t : list tev) : Prop := forallb (fun e => negb (is_restart e)) t = true.

(* pending-nonce answers (successful ones) given during t *)
Fixpoint pendings (t : list tev) : list N :=
  match t with
  | [] => []
  | TSend (Some p) _ :: r => p :: pendings r
  | _ :: r => pendings r
  end.
(* nonces of the accepted submissions of t, oldest first *)
Fixpoint accepted (t : list tev) : list N :=
  match t with
  | [] => []
  | TSend _ (Accepted n) :: r => n :: accepted r
  | _ :: r => accepted r
  end.
(* confirmed nonces the node reported during t *)
Fixpoint confs (t : list tev) : list N :=
  match t with
  | [] => []
  | TConf v :: r => v :: confs r
  | _ :: r => confs r
  end.
Definition max_list (l : list N) : N := fold_right N.max 0 l.

(* nonce carried by the transaction that reached the node, if one did *)
Definition reached (r : result) : option N :=
  match r with NoTx => None | Rejected n => Some n | Accepted n => Some n end.

(* Premise of the cross-restart clause (decidable, evaluated on every harness history):
   while the current client has not yet learnt a non-zero nonce (since its start every pending
   answer was an error or 0 and nothing was accepted), a pending answer it receives is above
   every nonce accepted earlier.  [unsync]: the client is in that state; [hi]: highest nonce
   accepted so far. *)
Definition hi_max (hi : option N) (n : N) : option N :=
  match hi with None => Some n | Some h => Some (N.max h n) end.
Fixpoint sync_ok_from (unsync : bool) (hi : option N) (t : list tev) : bool :=
  match t with
  | [] => true
  | TRestart :: r => sync_ok_from true hi r
  | TConf _ :: r => sync_ok_from unsync hi r
  | TSend p res :: r =>
      let ok := match p, hi with
                | Some q, Some h => negb unsync || (h <? q)
                | _, _ => true
                end in
      let still := match p with Some q => q =? 0 | None => true end in
      match res with
      | Accepted n => ok && sync_ok_from false (hi_max hi n) r
      | _ => ok && sync_ok_from (unsync && still) hi r
      end
  end.
Definition sync_ok (t : list tev) : bool := sync_ok_from true None t.

(* Premise on the inputs: the node never reports the one confirmed nonce (2^64-1025) for which the
   window test lets nonce 2^64-1 through -- after that nonce no larger one exists and the uint64
   counter wraps to 0. *)
Definition wf_op (o : op) : Prop :=
  match o with Conf v => (v + max_sent_txs) mod w64 + 1 < w64 | _ => True end.
Definition wf_ops (ops : list op) : Prop := Forall wf_op ops.
