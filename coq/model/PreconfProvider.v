(* Model of the provider side of the preconfirmation protocol:
     pkg/preconfirmation/preconfirmation.go : handleBid   (gate sequence, 5 s deadline, store, write)
     pkg/contracts/preconf/preconf.go       : StoreCommitment (conversions, ABI packing, Send)
     pkg/node/node.go                       : which BidProcessor / CommitmentDA the handler is given
   on top of the provider-API service machine (model/ProviderSvc.v).  Definitions only.

   Any number of concurrent handlers h; handler h is call h / channel h of the service.
     Arrive h role o     handleBid entered: role check, ReadMsg, VerifyBid, CheckBidderAllowance
                         (answers in o), then ProcessBid up to its select (service step Submit)
     EngineTake h        the engine stream takes the bid; ProcessBid returns the channel
     Abandon h           ctx.Done() (deadline or parent) wins the select inside ProcessBid
     Lookup/Callback/RecvErr   the decision stream(s) of the service
     TakeDecision h k    the handler's select receives from its channel; on ACCEPTED
                         ConstructPreConfirmation (answer k) and StoreCommitment up to client.Send
     DeadlineFire h      ctx.Done() wins the handler's select
     StoreRes h ok       client.Send returned; on success stream.WriteMsg is called
     WriteRes h ok       WriteMsg returned
   Signature verification / construction, the allowance check and the chain client are oracle
   answers carried by the events. *)
From Coq Require Import String List NArith ZArith Bool.
From MevVerif Require Import lib.Bytes lib.Abi gen.Generated model.Rules model.ProviderSvc.
Import ListNotations.
Open Scope N_scope.

Record preconf := { c_bid : bid; c_dig : bytes; c_sig : bytes }.

Inductive verify_res := VOk (addr : bytes) | VErr.
(* ConstructPreConfirmation: error before the node key is used | SignHash(d) failed | signed *)
Inductive construct_res := KFail | KSignFail (d : bytes) | KOk (d sg : bytes).
Record arrive_oracle := { o_read : option bid; o_verify : verify_res; o_allow : bool }.

Inductive retclass :=
| RRole        (* ErrInvalidBidderTypeForBid *)
| RRead        (* error of stream.ReadMsg *)
| RVerify      (* codes.InvalidArgument *)
| RAllow       (* codes.FailedPrecondition *)
| RFormat      (* error of ProcessBid: validation *)
| RCtx         (* ctx.Err() *)
| RRejected    (* codes.Internal "bid rejected" *)
| RConstruct   (* codes.Internal "failed to construct preconfirmation" *)
| RStore       (* codes.Internal "failed to store commitment" *)
| RWriteErr    (* error of stream.WriteMsg *)
| RWritten     (* nil after the commitment was written *)
| RNil         (* nil: status neither ACCEPTED nor REJECTED *)
| RPanic.      (* nil *big.Int dereferenced in StoreCommitment *)

(* node.NewNode: what preconfirmation.New receives in the provider branch *)
Record wiring := { w_processor_api : bool;    (* BidProcessor = the provider-API service (else auto-accept) *)
                   w_da_contract : bool;      (* CommitmentDA = preconfcontract.New(addr, evmClient) (else no-op) *)
                   w_contract : bytes }.      (* addr = HexToAddress(opts.PreconfContract) *)

(* the wiring table of node.NewNode (provider branch), regenerated from the source on every run *)
Fixpoint is_prefix (p l : bytes) : bool :=
  match p, l with
  | [], _ => true
  | a :: p', b :: l' => (a =? b) && is_prefix p' l'
  | _, _ => false
  end.
Definition node_wiring (addr : bytes) : wiring :=
  let new_row := nth 0 c01_new_args [] in
  {| w_processor_api :=
       bytes_eqb (nth 4 new_row []) (bos "bidProcessor") &&
       bytes_eqb (last c01_bidprocessor_assigns []) (bos "providerAPI") &&
       c01_api_registered && c01_handlers_registered &&
       (* the preconfirmation stream handlers are registered exactly once in NewNode (a second registration,
          e.g. in the bidder branch with its auto-accepting processor, changes this table; WHICH branch holds
          the single registration is not visible to the extractor -- the end-to-end class observes it) *)
       (match c01_handler_calls with
        | [[a]; [b]] => bytes_eqb a (bos "disc.Streams()") && bytes_eqb b (bos "preconfProto.Streams()")
        | _ => false
        end) &&
       bytes_eqb (nth 3 new_row []) (bos "bidderRegistry") &&
       bytes_eqb (nth 2 new_row []) (bos "preconfSigner");
     w_da_contract :=
       bytes_eqb (nth 5 new_row []) (bos "commitmentDA") &&
       is_prefix (bos "preconfcontract.New(") (last c07_commitmentda_assigns []) &&
       bytes_eqb (nth 0 (nth 0 c07_da_args []) []) (bos "preconfContractAddr") &&
       bytes_eqb (nth 1 (nth 0 c07_da_args []) []) (bos "evmClient") &&
       bytes_eqb (last c07_contract_addr_assigns []) (bos "common.HexToAddress(opts.PreconfContract)") &&
       c07_addr_from_opts;
     w_contract := addr |}.

Definition role_bidder : Z := 2%Z.            (* p2p.PeerTypeBidder *)
Definition status_accepted : Z := Rules.status_accepted.
Definition status_rejected : Z := Rules.status_rejected.

(* big.Int.SetString(s, 10) as used for bidAmt (error ignored: nil on failure) *)
Definition parse_bigint (s : bytes) : option Z :=
  match s with
  | c :: r =>
      if c =? 43 then match parse_dec r with Some n => Some (Z.of_N n) | None => None end
      else if c =? 45 then match parse_dec r with Some n => Some (- Z.of_N n)%Z | None => None end
      else match parse_dec s with Some n => Some (Z.of_N n) | None => None end
  | [] => None
  end.

Definition two64z : Z := 18446744073709551616%Z.
(* uint64(x) for an int64 x, and uint64(b.Int64()) for a big.Int b: the low 64 bits *)
Definition to_u64 (z : Z) : N := Z.to_N (z mod two64z).

(* method name: the string literal passed to Pack in StoreCommitment (gen/Generated.v) *)
Definition store_name : bytes := nth 0 c07_store_strings [].
Definition store_args (amt : Z) (c : preconf) : list Abi.val :=
  [Abi.VUint64 (to_u64 amt); Abi.VUint64 (to_u64 (b_bn (c_bid c))); Abi.VString (b_tx (c_bid c));
   Abi.VUint64 (to_u64 (b_ds (c_bid c))); Abi.VUint64 (to_u64 (b_de (c_bid c)));
   Abi.VBytes (b_sig (c_bid c)); Abi.VBytes (c_sig c)].
Definition store_tys : list Abi.ty := [Abi.TUint64; Abi.TUint64; Abi.TString; Abi.TUint64; Abi.TUint64; Abi.TBytes; Abi.TBytes].
(* preconfABI.Pack("storeCommitment", ...) *)
Definition calldata (keccak : bytes -> bytes) (amt : Z) (c : preconf) : bytes :=
  encode_call keccak store_name (store_args amt c).

Inductive hstate :=
| HInSvc (b : bid) (auto : bool)     (* inside ProcessBid or waiting on its channel; auto: no-op processor *)
| HStoring (c : preconf)             (* client.Send in flight *)
| HWriting (c : preconf)             (* WriteMsg in flight *)
| HDone (r : retclass).

Inductive heffect :=
| HSign (h : N) (d : bytes)                 (* SignHash on the node key *)
| HSend (h : N) (to cd : bytes)             (* evm client Send *)
| HStored (h : N) (ok : bool)               (* its result *)
| HWrite (h : N) (c : preconf)              (* commitment written to the bidder's stream *)
| HTake (h : N) (st : Z)                    (* status received by the handler *)
| HReturn (h : N) (r : retclass).

Record st := { svc : ProviderSvc.svc; hs : list (N * hstate);
               arr : list (N * (Z * arrive_oracle)); heff : list heffect (* newest first *) }.

Definition init : st := {| svc := ProviderSvc.init; hs := []; arr := []; heff := [] |}.

Inductive event :=
| Arrive (h : N) (role : Z) (o : arrive_oracle)
| EngineTake (h : N) | Abandon (h : N)
| Lookup (sid : N) (d : bytes) (st : Z) | Callback (sid : N) | RecvErr (sid : N)
| TakeDecision (h : N) (k : construct_res) | DeadlineFire (h : N)
| StoreRes (h : N) (ok : bool) | WriteRes (h : N) (ok : bool).

Definition set_svc x (s : st) := {| svc := x; hs := hs s; arr := arr s; heff := heff s |}.
Definition set_h h x (s : st) := {| svc := svc s; hs := nset h x (hs s); arr := arr s; heff := heff s |}.
Definition add_heff e (s : st) := {| svc := svc s; hs := hs s; arr := arr s; heff := e :: heff s |}.
Definition finish h r (s : st) := add_heff (HReturn h r) (set_h h (HDone r) s).

(* the first refusing gate in front of ProcessBid *)
Definition gate_class (role : Z) (o : arrive_oracle) : option retclass :=
  if negb (role =? role_bidder)%Z then Some RRole else
  match o_read o with
  | None => Some RRead
  | Some _ => match o_verify o with
              | VErr => Some RVerify
              | VOk _ => if o_allow o then None else Some RAllow
              end
  end.

Definition arrive (V : validators) (W : wiring) (h : N) (role : Z) (o : arrive_oracle) (s : st) : st :=
  match nget h (hs s), nget h (calls (svc s)) with
  | None, None =>
      let s0 := {| svc := svc s; hs := hs s; arr := nset h (role, o) (arr s); heff := heff s |} in
      match gate_class role o, o_read o with
      | Some r, _ => finish h r s0
      | None, None => finish h RRead s0
      | None, Some b =>
          if w_processor_api W then
            if vbid V (to_engine b) then set_h h (HInSvc b false) (set_svc (submit V h b (svc s0)) s0)
            else finish h RFormat (set_svc (submit V h b (svc s0)) s0)
          else set_h h (HInSvc b true) s0
      end
  | _, _ => s
  end.

Definition engine_take (h : N) (s : st) : st :=
  match nget h (hs s) with
  | Some (HInSvc _ false) => set_svc (take h (svc s)) s
  | _ => s
  end.

Definition abandon_h (h : N) (s : st) : st :=
  match nget h (hs s), nget h (calls (svc s)) with
  | Some (HInSvc _ false), Some (POffered _) => finish h RCtx (set_svc (abandon h (svc s)) s)
  | _, _ => s
  end.

(* the part of handleBid after a status was received *)
Definition on_status (K : bytes -> bytes) (W : wiring) (h : N) (b : bid) (stv : Z) (k : construct_res) (s : st) : st :=
  let s1 := add_heff (HTake h stv) s in
  if (stv =? status_rejected)%Z then finish h RRejected s1
  else if (stv =? status_accepted)%Z then
    match k with
    | KFail => finish h RConstruct s1
    | KSignFail d => finish h RConstruct (add_heff (HSign h d) s1)
    | KOk d sg =>
        let c := {| c_bid := b; c_dig := d; c_sig := sg |} in
        let s2 := add_heff (HSign h d) s1 in
        if w_da_contract W then
          match parse_bigint (b_amt b) with
          | None => finish h RPanic s2
          | Some amt => set_h h (HStoring c) (add_heff (HSend h (w_contract W) (calldata K amt c)) s2)
          end
        else set_h h (HWriting c) (add_heff (HWrite h c) s2)     (* no-op store returns nil *)
    end
  else finish h RNil s1.

Definition take_decision (K : bytes -> bytes) (W : wiring) (h : N) (k : construct_res) (s : st) : st :=
  match nget h (hs s) with
  | Some (HInSvc b false) =>
      match nget h (calls (svc s)) with
      | Some (PHanded _) =>
          match chan_recv h (svc s) with
          | (Some stv, x) => on_status K W h b stv k (set_svc x s)
          | (None, _) => s
          end
      | _ => s
      end
  | Some (HInSvc b true) => on_status K W h b status_accepted k s
  | _ => s
  end.

Definition deadline_fire (h : N) (s : st) : st :=
  match nget h (hs s) with
  | Some (HInSvc _ false) =>
      match nget h (calls (svc s)) with
      | Some (PHanded _) => finish h RCtx s
      | _ => s
      end
  | Some (HInSvc _ true) => finish h RCtx s
  | _ => s
  end.

Definition store_res (h : N) (ok : bool) (s : st) : st :=
  match nget h (hs s) with
  | Some (HStoring c) =>
      if ok then set_h h (HWriting c) (add_heff (HWrite h c) (add_heff (HStored h true) s))
      else finish h RStore (add_heff (HStored h false) s)
  | _ => s
  end.

Definition write_res (h : N) (ok : bool) (s : st) : st :=
  match nget h (hs s) with
  | Some (HWriting _) => finish h (if ok then RWritten else RWriteErr) s
  | _ => s
  end.

Definition step (K : bytes -> bytes) (V : validators) (W : wiring) (s : st) (e : event) : st :=
  if panicked (svc s) then s else
  match e with
  | Arrive h role o => arrive V W h role o s
  | EngineTake h => engine_take h s
  | Abandon h => abandon_h h s
  | Lookup sid d stv => set_svc (lookup V sid d stv (svc s)) s
  | Callback sid => set_svc (callback sid (svc s)) s
  | RecvErr sid => set_svc (recv_err sid (svc s)) s
  | TakeDecision h k => take_decision K W h k s
  | DeadlineFire h => deadline_fire h s
  | StoreRes h ok => store_res h ok s
  | WriteRes h ok => write_res h ok s
  end.

Definition run K V W (evs : list event) : st := fold_left (step K V W) evs init.

(* the handler's own deadline: the literal of context.WithTimeout in handleBid (gen/Generated.v), in ms *)
Definition deadline_ms : N :=
  match c01_deadline_ns with [ns] => Z.to_N (ns / 1000000) | _ => 0 end.
(* a history in which the events [after] happen t ms after handler h started waiting (history [pre]); the
   handler's deadline step comes first exactly when t has reached the deadline *)
Definition timed_history (h : N) (t : N) (pre after : list event) : list event :=
  if t <? deadline_ms then pre ++ after ++ [DeadlineFire h] else pre ++ [DeadlineFire h] ++ after.

Definition eff_handler (e : heffect) : N :=
  match e with HSign h _ | HSend h _ _ | HStored h _ | HWrite h _ | HTake h _ | HReturn h _ => h end.
(* the effects property C01 speaks about *)
Definition is_commit_effect (e : heffect) : bool :=
  match e with HSign _ _ | HSend _ _ _ | HWrite _ _ => true | _ => false end.
