(* C18: node identity.  Model of util.PadKeyTo32Bytes, the libp2p secp256k1 private-key
   unmarshalling (length must be 32), the peer id of a secp256k1 public key (identity multihash
   of the protobuf PublicKey{Type=Secp256k1, Data=33 bytes}), its extraction, and the Ethereum
   address keccak(X||Y)[12:].  Curve operations and keccak are arguments.  Definitions only. *)
From Coq Require Import String List NArith Bool.
From MevVerif Require Import lib.Bytes gen.Generated.
Import ListNotations.
Open Scope N_scope.

(* big.Int.Bytes(): minimal big-endian, empty for zero *)
Definition byte_len (v : N) : nat := N.to_nat ((N.size v + 7) / 8).
Definition min_be (v : N) : bytes := be (byte_len v) v.

(* util.PadKeyTo32Bytes *)
Definition pad32 (l : bytes) : bytes :=
  if Nat.ltb (length l) 32 then repeat 0 (32 - length l) ++ l else l.

(* libp2pcrypto.UnmarshalSecp256k1PrivateKey: exactly 32 bytes, scalar = big-endian value *)
Definition unmarshal_priv (l : bytes) : option N :=
  if Nat.eqb (length l) 32 then Some (unbe l) else None.

(* protobuf PublicKey{Type: Secp256k1 (2), Data: c}: 08 02 12 <len> c ; identity multihash 00 <len> *)
Definition pubkey_proto (c : bytes) : bytes := 8 :: 2 :: 18 :: N.of_nat (length c) :: c.
Definition peerid (c : bytes) : bytes := 0 :: N.of_nat (length (pubkey_proto c)) :: pubkey_proto c.

(* peer.ID.ExtractPublicKey + Raw(), on ids of the shape the node itself produces, the CANONICAL peer ids of
   secp256k1 keys (what peer.IDFromPublicKey answers, hence what the security transport authenticates).
   The Go function accepts more: any identity multihash of a PublicKey protobuf (65-byte uncompressed or hybrid
   SEC1 data, other field order, unknown fields) and it validates the point.  Those ids are outside this model:
   a statement about [addr_of_peerid] on ids that are not [canonical] is a statement about the model only. *)
Definition canonical (pid : bytes) : Prop := exists c, length c = 33%nat /\ pid = peerid c.

Definition extract_pub (pid : bytes) : option bytes :=
  match pid with
  | 0 :: 37 :: 8 :: 2 :: 18 :: 33 :: c => if Nat.eqb (length c) 33 then Some c else None
  | _ => None
  end.

Definition point := (N * N)%type.

(* GetEthAddressFromPubKey / crypto.PubkeyToAddress: keccak(X||Y)[12:] with 32-byte coordinates *)
Definition eth_addr (keccak : bytes -> bytes) (P : point) : bytes :=
  skipn 12 (keccak (be 32 (fst P) ++ be 32 (snd P))).

Section Node.
  Variable keccak : bytes -> bytes.
  Variable pub : N -> point.                   (* scalar multiplication of the base point *)
  Variable compress : point -> bytes.          (* 33-byte SEC1 compressed form *)
  Variable decompress : bytes -> option point. (* crypto.DecompressPubkey *)

  (* the Ethereum address of the public key of scalar d: crypto.PubkeyToAddress(d.G) *)
  Definition pubkey_addr (d : N) : bytes := eth_addr keccak (pub d).

  (* libp2p.New: key bytes -> host id;  GetEthAddressFromPeerID(host id) *)
  Definition host_id (key_bytes : bytes) : option bytes :=
    match unmarshal_priv key_bytes with
    | Some k => Some (peerid (compress (pub k)))
    | None => None
    end.
  Definition addr_of_peerid (pid : bytes) : option bytes :=
    match extract_pub pid with
    | Some c => match decompress c with Some P => Some (eth_addr keccak P) | None => None end
    | None => None
    end.
  (* what peers compute for a node started with private scalar d *)
  Definition node_peer_addr (d : N) : option bytes :=
    match host_id (pad32 (min_be d)) with Some pid => addr_of_peerid pid | None => None end.
  (* the same without the padding step (the defect the padding prevents) *)
  Definition node_peer_addr_nopad (d : N) : option bytes :=
    match host_id (min_be d) with Some pid => addr_of_peerid pid | None => None end.
End Node.

(* --- the three places an address of the node comes from, and the wiring of libp2p.New ---------------
   A key signer (mock, private-key file, keystore) that was given the scalar d answers three questions, by
   three different pieces of code:
     ks_priv d       GetPrivateKey().D, the scalar libp2p.New builds the transport identity from
                     (private-key file: the loaded key; keystore: keystore.DecryptKey of the account file)
     ks_addr d       GetAddress(), what the node says its address is (private-key file:
                     crypto.PubkeyToAddress; keystore: account.Address as stored in the key file)
     recover_addr d  the address a verifier recovers (SigToPub + PubkeyToAddress) from the signatures
                     SignHash makes - handshake requests, bids, commitments
   The third source is the peer-id-derived address [node_peer_addr] above.  Nothing in this file makes them
   equal; the theorems name the equalities they need. *)
Definition wiring_ok : bool :=
  (* privKey is the KeySigner's key (and is the variable wiped by the deferred ZeroPrivateKey) *)
  c18_new_gets_key &&
  match c18_new_zero_args with [[a]] => bytes_eqb a (bos "privKey") | _ => false end &&
  (* padded32BytePrivKey := util.PadKeyTo32Bytes(privKey.D), the only assignment *)
  c18_new_pads_key &&
  match c18_new_padded_src with [a] => bytes_eqb a (bos "util.PadKeyTo32Bytes(privKey.D)") | _ => false end &&
  match c18_new_unmarshal_args with [[a]] => bytes_eqb a (bos "padded32BytePrivKey") | _ => false end &&
  match c18_new_identity_args with [[a]] => bytes_eqb a (bos "libp2pKey") | _ => false end &&
  (* the same KeySigner signs the handshake; peers' binding check uses GetEthAddressFromPeerID *)
  match c18_new_handshake_args with
  | [a :: rest] => bytes_eqb a (bos "opts.KeySigner") && bytes_eqb (last rest []) (bos "GetEthAddressFromPeerID")
  | _ => false
  end.

Section Sources.
  Variable keccak : bytes -> bytes.
  Variable pub : N -> point.
  Variable compress : point -> bytes.
  Variable decompress : bytes -> option point.
  Variable ks_priv : N -> N.
  Variable ks_addr : N -> bytes.
  Variable recover_addr : N -> bytes.

  (* what peers compute for a node started (libp2p.New as it is written now) with a key signer holding d *)
  Definition node_peer_addr_now (d : N) : option bytes :=
    if wiring_ok then node_peer_addr keccak pub compress decompress (ks_priv d)
    else node_peer_addr_nopad keccak pub compress decompress (ks_priv d).
End Sources.
