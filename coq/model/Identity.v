(* C18: node identity.  Model of util.PadKeyTo32Bytes, the libp2p secp256k1 private-key
   unmarshalling (length must be 32), the peer id of a secp256k1 public key (identity multihash
   of the protobuf PublicKey{Type=Secp256k1, Data=33 bytes}), its extraction, and the Ethereum
   address keccak(X||Y)[12:].  Curve operations and keccak are arguments.  Definitions only. *)
From Coq Require Import List NArith Bool.
From MevVerif Require Import lib.Bytes.
Import ListNotations.
Open Scope N_scope.

(* big.Int.Bytes(): minimal big-endian, empty for zero *)
Definition byte_len (v : N) : nat := N.to_nat ((N.size v + 7) / 8).
Definition min_be (v : N) : bytes := be (byte_len v) v.

(* util.PadKeyTo32Bytes *)
Definition pad32 (l : bytes) : bytes :=
  if Nat.ltb (length l) 32 then repeat 0 (32 - length l) ++ l else l.

(* libp2pcrypto.UnmarshalSecp256k1PrivateKey: exactly 32 bytes, scalar = big-endian value *)
Definition unmarshal_priv (l : bytes) : option N :=
  if Nat.eqb (length l) 32 then Some (unbe l) else None.

(* protobuf PublicKey{Type: Secp256k1 (2), Data: c}: 08 02 12 <len> c ; identity multihash 00 <len> *)
Definition pubkey_proto (c : bytes) : bytes := 8 :: 2 :: 18 :: N.of_nat (length c) :: c.
Definition peerid (c : bytes) : bytes := 0 :: N.of_nat (length (pubkey_proto c)) :: pubkey_proto c.

(* peer.ID.ExtractPublicKey + Raw(), on ids of the shape the node itself produces *)
Definition extract_pub (pid : bytes) : option bytes :=
  match pid with
  | 0 :: 37 :: 8 :: 2 :: 18 :: 33 :: c => if Nat.eqb (length c) 33 then Some c else None
  | _ => None
  end.

Definition point := (N * N)%type.

(* GetEthAddressFromPubKey / crypto.PubkeyToAddress: keccak(X||Y)[12:] with 32-byte coordinates *)
Definition eth_addr (keccak : bytes -> bytes) (P : point) : bytes :=
  skipn 12 (keccak (be 32 (fst P) ++ be 32 (snd P))).

Section Node.
  Variable keccak : bytes -> bytes.
  Variable pub : N -> point.                   (* scalar multiplication of the base point *)
  Variable compress : point -> bytes.          (* 33-byte SEC1 compressed form *)
  Variable decompress : bytes -> option point. (* crypto.DecompressPubkey *)

  (* the address the node signs bids, commitments and handshakes with *)
  Definition signing_addr (d : N) : bytes := eth_addr keccak (pub d).

  (* libp2p.New: key bytes -> host id;  GetEthAddressFromPeerID(host id) *)
  Definition host_id (key_bytes : bytes) : option bytes :=
    match unmarshal_priv key_bytes with
    | Some k => Some (peerid (compress (pub k)))
    | None => None
    end.
  Definition addr_of_peerid (pid : bytes) : option bytes :=
    match extract_pub pid with
    | Some c => match decompress c with Some P => Some (eth_addr keccak P) | None => None end
    | None => None
    end.
  (* what peers compute for a node started with private scalar d *)
  Definition node_peer_addr (d : N) : option bytes :=
    match host_id (pad32 (min_be d)) with Some pid => addr_of_peerid pid | None => None end.
  (* the same without the padding step (the defect the padding prevents) *)
  Definition node_peer_addr_nopad (d : N) : option bytes :=
    match host_id (min_be d) with Some pid => addr_of_peerid pid | None => None end.
End Node.
