(* Model of the receipt monitor of pkg/evmclient (txmonitor.go: watchLoop, checkLoop, check,
   getOlderTxns, notify, watchTx, Close and the shutdown drain; evmclient.go: the tail of Send /
   CancelTx that records the pending entry, waitForTxn, WaitForReceipt, PendingTxns).
   Definitions only.

   Granularity: one event per critical section of txmonitor.mtx / EvmClient.mtx and per answer
   of the chain node.  Transaction hashes are the numbers the driver assigns to them (an
   injective renaming of the 32-byte hashes); waiter identities are allocated by the model in
   registration order ([next]).

   The Go waitMap  nonce -> hash -> []chan  is represented by the flat list of its
   (nonce, hash, waiter) triples in registration order: the nested map is the grouping of that
   list by its first two components, and the code only ever reads it through
   "all waiters of (nonce,hash)" (notify), "all (nonce,hash) with nonce < c" (getOlderTxns)
   and "all waiters" (drain).

   Every waiter owns one channel of capacity 1.  All code paths perform  c <- v ; close(c)
   inside one critical section, so a channel is either untouched or holds its single value
   and is closed: [closedch].  A send on a closed channel is the Go panic. *)
From Coq Require Import List NArith Bool.
From MevVerif Require Import lib.Bytes.
Import ListNotations.
Open Scope N_scope.

(* what the chain node said about one transaction hash *)
Inductive reply :=
| RReceipt (status : N)      (* a receipt *)
| RNotFound                  (* the ethereum.NotFound sentinel (function mocks; ethclient.TransactionReceipt) *)
| RNullOverWire              (* JSON null inside a batch: rpc decodes it into an element error *)
| RRpcErr.                   (* any other failure of this element / call *)

(* what a waiter finds in its channel *)
Inductive wout := OReceipt (h : N) (status : N) | OCancelled | OClosed.

Definition no_receipt (r : reply) : bool :=
  match r with RNotFound | RNullOverWire => true | _ => false end.

(* the three repairs of this property, switchable so that the pre-fix code stays executable *)
Record variant := { fix_pending : bool;     (* 877a545 waitForTxn tests receipt.Err and flags the entry *)
                    fix_drain : bool;       (* 49ec96f drain clears waitMap, watchTx answers after drain *)
                    fix_fallback : bool }.  (* 0a270d8 element error -> individual TransactionReceipt *)
Definition current := {| fix_pending := true; fix_drain := true; fix_fallback := true |}.
Definition v0_pending := {| fix_pending := false; fix_drain := true; fix_fallback := true |}.
Definition v0_drain := {| fix_pending := true; fix_drain := false; fix_fallback := true |}.
Definition v0_fallback := {| fix_pending := true; fix_drain := true; fix_fallback := false |}.

(* checkLoop: parked in its select, holding a (nonce, block) it was handed, or inside check() *)
Inductive checker :=
| Idle
| Handed (c : N)
| InFlight (c : N)                          (* lastNonce of this check *)
           (snap : list (N * N))            (* (nonce, hash) still to be asked: txHashes/nonceMap *)
           (queue : list (N * N * reply)).  (* answered batch being processed: (nonce, hash, reply) *)

Record mon := {
  wait : list (N * N * N);          (* waitMap: (nonce, hash, waiter) *)
  closed : bool;                    (* baseCancel was called *)
  wl_exited : bool;                 (* watchLoop returned (its deferred drain ran) *)
  drained : bool;                   (* the Go field [drained] *)
  last_block : N; last_conf : N;
  chk : checker;
  closedch : list N;                (* waiters whose channel holds its value and is closed *)
  pending : list (N * N);           (* EvmClient.sentTxs: hash -> nonce (flagged entries included) *)
  internal : list (N * N);          (* live waitForTxn goroutines: (waiter, hash) *)
  flagged : list N;                 (* sentTxs entries with cancelled = true (kept, but not listed) *)
  next : N;                         (* next waiter identity *)
  (* history variables *)
  delivered : list (N * wout);      (* every channel send, oldest first *)
  watchers : list (N * N * N);      (* every watchTx call: (waiter, hash, nonce) *)
  refused : list N;                 (* WaitForReceipt calls answered "tx not found" *)
  sent : list N;                    (* hashes the client submitted *)
  confs : list N;                   (* confirmed nonces the node reported (NonceAt answers) *)
  answers : list (N * N * reply);   (* (lastNonce of the check, hash, what the node said) *)
  panicked : bool
}.

Definition init : mon :=
  {| wait := []; closed := false; wl_exited := false; drained := false; last_block := 0; last_conf := 0;
     chk := Idle; closedch := []; pending := []; internal := []; flagged := []; next := 0; delivered := [];
     watchers := []; refused := []; sent := []; confs := []; answers := []; panicked := false |}.

Definition memN (a : N) (l : list N) : bool := existsb (N.eqb a) l.

(* --- setters (records are rebuilt field by field) ----------------------------------------- *)
Definition set_wait (s : mon) v := {| wait := v; closed := closed s; wl_exited := wl_exited s; drained := drained s;
  last_block := last_block s; last_conf := last_conf s; chk := chk s; closedch := closedch s; pending := pending s;
  internal := internal s; flagged := flagged s; next := next s; delivered := delivered s; watchers := watchers s; refused := refused s;
  sent := sent s; confs := confs s; answers := answers s; panicked := panicked s |}.
Definition set_chk (s : mon) v := {| wait := wait s; closed := closed s; wl_exited := wl_exited s; drained := drained s;
  last_block := last_block s; last_conf := last_conf s; chk := v; closedch := closedch s; pending := pending s;
  internal := internal s; flagged := flagged s; next := next s; delivered := delivered s; watchers := watchers s; refused := refused s;
  sent := sent s; confs := confs s; answers := answers s; panicked := panicked s |}.
Definition set_pending (s : mon) v := {| wait := wait s; closed := closed s; wl_exited := wl_exited s; drained := drained s;
  last_block := last_block s; last_conf := last_conf s; chk := chk s; closedch := closedch s; pending := v;
  internal := internal s; flagged := flagged s; next := next s; delivered := delivered s; watchers := watchers s; refused := refused s;
  sent := sent s; confs := confs s; answers := answers s; panicked := panicked s |}.
Definition set_internal (s : mon) v := {| wait := wait s; closed := closed s; wl_exited := wl_exited s; drained := drained s;
  last_block := last_block s; last_conf := last_conf s; chk := chk s; closedch := closedch s; pending := pending s;
  internal := v; flagged := flagged s; next := next s; delivered := delivered s; watchers := watchers s; refused := refused s;
  sent := sent s; confs := confs s; answers := answers s; panicked := panicked s |}.
Definition set_flagged (s : mon) v := {| wait := wait s; closed := closed s; wl_exited := wl_exited s; drained := drained s;
  last_block := last_block s; last_conf := last_conf s; chk := chk s; closedch := closedch s; pending := pending s;
  internal := internal s; flagged := v; next := next s; delivered := delivered s; watchers := watchers s; refused := refused s;
  sent := sent s; confs := confs s; answers := answers s; panicked := panicked s |}.
Definition add_answer (s : mon) v := {| wait := wait s; closed := closed s; wl_exited := wl_exited s; drained := drained s;
  last_block := last_block s; last_conf := last_conf s; chk := chk s; closedch := closedch s; pending := pending s;
  internal := internal s; flagged := flagged s; next := next s; delivered := delivered s; watchers := watchers s; refused := refused s;
  sent := sent s; confs := confs s; answers := answers s ++ [v]; panicked := panicked s |}.

(* c <- v ; close(c)  on the channel of waiter w *)
Definition send (s : mon) (w : N) (o : wout) : mon :=
  if memN w (closedch s) then
    {| wait := wait s; closed := closed s; wl_exited := wl_exited s; drained := drained s;
       last_block := last_block s; last_conf := last_conf s; chk := chk s; closedch := closedch s; pending := pending s;
       internal := internal s; flagged := flagged s; next := next s; delivered := delivered s; watchers := watchers s; refused := refused s;
       sent := sent s; confs := confs s; answers := answers s; panicked := true |}
  else
    {| wait := wait s; closed := closed s; wl_exited := wl_exited s; drained := drained s;
       last_block := last_block s; last_conf := last_conf s; chk := chk s; closedch := closedch s ++ [w]; pending := pending s;
       internal := internal s; flagged := flagged s; next := next s; delivered := delivered s ++ [(w, o)]; watchers := watchers s; refused := refused s;
       sent := sent s; confs := confs s; answers := answers s; panicked := panicked s |}.

Definition key_is (n h : N) (e : N * N * N) : bool :=
  let '(n', h', _) := e in (n' =? n) && (h' =? h).
Definition waiter_of (e : N * N * N) : N := snd e.

(* notify(nonce, txn, res): answer every waiter registered under (nonce, txn), delete the entry *)
Definition notify (s : mon) (n h : N) (o : wout) : mon :=
  let ws := map waiter_of (filter (key_is n h) (wait s)) in
  let s1 := fold_left (fun s w => send s w o) ws s in
  set_wait s1 (filter (fun e => negb (key_is n h e)) (wait s1)).

(* watchTx(txHash, nonce) for the fresh waiter w *)
Definition watch_tx (v : variant) (s : mon) (w h n : N) : mon :=
  let s1 := {| wait := wait s; closed := closed s; wl_exited := wl_exited s; drained := drained s;
       last_block := last_block s; last_conf := last_conf s; chk := chk s; closedch := closedch s; pending := pending s;
       internal := internal s; flagged := flagged s; next := next s; delivered := delivered s; watchers := watchers s ++ [(w, h, n)];
       refused := refused s; sent := sent s; confs := confs s; answers := answers s; panicked := panicked s |} in
  if fix_drain v && drained s1 then send s1 w OClosed
  else set_wait s1 (wait s1 ++ [(n, h, w)]).

Definition fresh (s : mon) : mon * N :=
  ({| wait := wait s; closed := closed s; wl_exited := wl_exited s; drained := drained s;
      last_block := last_block s; last_conf := last_conf s; chk := chk s; closedch := closedch s; pending := pending s;
      internal := internal s; flagged := flagged s; next := next s + 1; delivered := delivered s; watchers := watchers s; refused := refused s;
      sent := sent s; confs := confs s; answers := answers s; panicked := panicked s |}, next s).

Fixpoint lookup (h : N) (l : list (N * N)) : option N :=
  match l with
  | [] => None
  | (k, v) :: r => if k =? h then Some v else lookup h r
  end.
Definition remove_key (h : N) (l : list (N * N)) : list (N * N) :=
  filter (fun e => negb (fst e =? h)) l.

(* getOlderTxns(c): the distinct (nonce, hash) keys with nonce < c *)
Fixpoint dedup (l : list (N * N)) : list (N * N) :=
  match l with
  | [] => []
  | (n, h) :: r => (n, h) :: filter (fun e => negb ((fst e =? n) && (snd e =? h))) (dedup r)
  end.
Definition older (c : N) (w : list (N * N * N)) : list (N * N) :=
  dedup (map fst (filter (fun e => fst (fst e) <? c) w)).

Fixpoint find_hash (h : N) (snap : list (N * N)) : option N :=   (* nonceMap[h] *)
  match snap with
  | [] => None
  | (n, h') :: r => if h' =? h then Some n else find_hash h r
  end.
Definition drop_hash (h : N) (snap : list (N * N)) : list (N * N) :=
  filter (fun e => negb (snd e =? h)) snap.

(* one answered batch: the elements that belong to the snapshot, each asked once *)
Fixpoint take_batch (snap : list (N * N)) (rs : list (N * reply)) : list (N * N) * list (N * N * reply) :=
  match rs with
  | [] => (snap, [])
  | (h, r) :: rest =>
      match find_hash h snap with
      | None => take_batch snap rest
      | Some n => let '(snap', q) := take_batch (drop_hash h snap) rest in (snap', (n, h, r) :: q)
      end
  end.

Definition finish (c : N) (snap : list (N * N)) (q : list (N * N * reply)) : checker :=
  match snap, q with
  | [], [] => Idle
  | _, _ => InFlight c snap q
  end.

Inductive event :=
| Sent (h n : N)                 (* Send/CancelTx succeeded: the sentTxs entry (evmclient.go, under c.mtx) *)
| Watch (h : N)                  (* WaitForReceipt(h) up to and including its watchTx *)
| WatchRaw (h n : N)             (* watchTx(h, n) *)
| Poll (blk nonce : option N) (newtx : bool)   (* one iteration of watchLoop; None = the call failed *)
| CheckBegin                     (* check(): getOlderTxns under the lock *)
| BatchReply (rs : list (N * reply))
| BatchFail
| Proc (fb : option reply)       (* handle the next element; fb = answer of the individual query *)
| InternalRun (w : N)            (* the waitForTxn goroutine of waiter w consumes its outcome *)
| Close
| Drain
| InternalWatch (h n : N)        (* the goroutine started by waitForTxn(h, n) calls watchTx *)
| PollLost (b c : N) (newtx : bool)
                                 (* an iteration of watchLoop that read block b and confirmed nonce c while no
                                    check is in flight but checkLoop is not (yet) back in its select: the
                                    non-blocking send on blockUpdate takes the default branch *)
| GiveUp (w : N).                (* the caller behind waiter w stops waiting (WaitForReceipt's ctx ends and it
                                    returns ctx.Err()): no shared state is touched -- the channel stays
                                    registered and will still be answered, into its buffer *)

Definition proc (v : variant) (s : mon) (c n h : N) (r : reply) (fb : option reply) : mon :=
  let s := add_answer s (c, h, r) in
  match r with
  | RReceipt st => notify s n h (OReceipt h st)
  | RNotFound => notify s n h OCancelled
  | RNullOverWire | RRpcErr =>
      if fix_fallback v then
        match fb with
        | Some (RReceipt st) => notify (add_answer s (c, h, RReceipt st)) n h (OReceipt h st)
        | Some RNotFound => notify (add_answer s (c, h, RNotFound)) n h OCancelled
        | _ => s
        end
      else s
  end.

Fixpoint out_of (w : N) (d : list (N * wout)) : option wout :=
  match d with
  | [] => None
  | (w', o) :: r => if w' =? w then Some o else out_of w r
  end.

Definition step (v : variant) (s : mon) (e : event) : mon :=
  if panicked s then s else
  match e with
  | Sent h n =>
      (* Send / CancelTx, under EvmClient.mtx: c.sentTxs[hash] = {nonce}; the goroutine started by
         waitForTxn registers later (InternalWatch) *)
      {| wait := wait s; closed := closed s; wl_exited := wl_exited s; drained := drained s;
         last_block := last_block s; last_conf := last_conf s; chk := chk s; closedch := closedch s;
         pending := (h, n) :: remove_key h (pending s);
         internal := internal s; flagged := filter (fun k => negb (k =? h)) (flagged s); next := next s;
         delivered := delivered s; watchers := watchers s;
         refused := refused s; sent := sent s ++ [h]; confs := confs s; answers := answers s;
         panicked := panicked s |}
  | InternalWatch h n =>
      (* the waitForTxn goroutine of (h, n): watchTx under txmonitor.mtx, any time after its Sent *)
      let '(s1, w) := fresh s in
      let s2 := {| wait := wait s1; closed := closed s1; wl_exited := wl_exited s1; drained := drained s1;
         last_block := last_block s1; last_conf := last_conf s1; chk := chk s1; closedch := closedch s1;
         pending := pending s1;
         internal := internal s1 ++ [(w, h)]; flagged := flagged s1; next := next s1; delivered := delivered s1; watchers := watchers s1;
         refused := refused s1; sent := sent s1; confs := confs s1; answers := answers s1;
         panicked := panicked s1 |} in
      watch_tx v s2 w h n
  | Watch h =>
      let '(s1, w) := fresh s in
      match lookup h (pending s1) with
      | None => {| wait := wait s1; closed := closed s1; wl_exited := wl_exited s1; drained := drained s1;
         last_block := last_block s1; last_conf := last_conf s1; chk := chk s1; closedch := closedch s1;
         pending := pending s1; internal := internal s1; flagged := flagged s1; next := next s1; delivered := delivered s1;
         watchers := watchers s1; refused := refused s1 ++ [w]; sent := sent s1; confs := confs s1;
         answers := answers s1; panicked := panicked s1 |}
      | Some n => watch_tx v s1 w h n
      end
  | WatchRaw h n => let '(s1, w) := fresh s in watch_tx v s1 w h n
  | Poll blk nonce newtx =>
      if wl_exited s then s else
      match blk with
      | None => s
      | Some b =>
          if (b <=? last_block s) && negb newtx then s else
          match nonce with
          | None => s
          | Some c =>
              {| wait := wait s; closed := closed s; wl_exited := wl_exited s; drained := drained s;
                 last_block := b; last_conf := c;
                 chk := match chk s with Idle => Handed c | k => k end;
                 closedch := closedch s; pending := pending s; internal := internal s; flagged := flagged s; next := next s;
                 delivered := delivered s; watchers := watchers s; refused := refused s; sent := sent s;
                 confs := confs s ++ [c]; answers := answers s; panicked := panicked s |}
          end
      end
  | CheckBegin =>
      match chk s with
      | Handed c => set_chk s (finish c (older c (wait s)) [])
      | _ => s
      end
  | BatchReply rs =>
      match chk s with
      | InFlight c snap [] => let '(snap', q) := take_batch snap rs in set_chk s (finish c snap' q)
      | _ => s
      end
  | BatchFail =>
      match chk s with
      | InFlight c snap [] => set_chk s Idle
      | _ => s
      end
  | Proc fb =>
      match chk s with
      | InFlight c snap ((n, h, r) :: q) => set_chk (proc v s c n h r fb) (finish c snap q)
      | _ => s
      end
  | InternalRun w =>
      match lookup w (internal s), out_of w (delivered s) with
      | Some h, Some o =>
          let s1 := set_internal s (remove_key w (internal s)) in
          match o with
          | OReceipt _ _ => set_pending s1 (remove_key h (pending s1))
          | OCancelled =>
              (* d.cancelled = true if the entry is still there; the nonce is kept *)
              if fix_pending v then
                match lookup h (pending s1) with
                | Some _ => set_flagged s1 (h :: flagged s1)
                | None => s1
                end
              else s1
          | OClosed => s1
          end
      | _, _ => s
      end
  | PollLost b c newtx =>
      if wl_exited s then s else
      if (b <=? last_block s) && negb newtx then s else
      {| wait := wait s; closed := closed s; wl_exited := wl_exited s; drained := drained s;
         last_block := b; last_conf := c; chk := chk s;
         closedch := closedch s; pending := pending s; internal := internal s; flagged := flagged s; next := next s;
         delivered := delivered s; watchers := watchers s; refused := refused s; sent := sent s;
         confs := confs s ++ [c]; answers := answers s; panicked := panicked s |}
  | GiveUp _ => s
  | Close =>
      {| wait := wait s; closed := true; wl_exited := wl_exited s; drained := drained s;
         last_block := last_block s; last_conf := last_conf s; chk := chk s; closedch := closedch s;
         pending := pending s; internal := internal s; flagged := flagged s; next := next s; delivered := delivered s;
         watchers := watchers s; refused := refused s; sent := sent s; confs := confs s;
         answers := answers s; panicked := panicked s |}
  | Drain =>
      if closed s && negb (wl_exited s) then
        let s1 := fold_left (fun s w => send s w OClosed) (map waiter_of (wait s)) s in
        {| wait := if fix_drain v then [] else wait s1; closed := closed s1; wl_exited := true;
           drained := fix_drain v;
           last_block := last_block s1; last_conf := last_conf s1; chk := chk s1; closedch := closedch s1;
           pending := pending s1; internal := internal s1; flagged := flagged s1; next := next s1; delivered := delivered s1;
           watchers := watchers s1; refused := refused s1; sent := sent s1; confs := confs s1;
           answers := answers s1; panicked := panicked s1 |}
      else s
  end.

Definition run (v : variant) (evs : list event) : mon := fold_left (step v) evs init.
Definition run_from (v : variant) (s : mon) (evs : list event) : mon := fold_left (step v) evs s.

(* projections used by the correspondence *)
Definition outcomes_of (s : mon) (w : N) : list wout :=
  map snd (filter (fun e => fst e =? w) (delivered s)).
(* PendingTxns(): the entries of sentTxs that are not flagged as cancelled *)
Definition pending_hashes (s : mon) : list N :=
  filter (fun h => negb (memN h (flagged s))) (map fst (pending s)).

(* ---- a complete check, as a predicate on the events that follow its snapshot ----------------- *)

(* the checker while inside check(): how one event moves it (all other events leave it alone) *)
Definition adv (c : N) (snap : list (N * N)) (q : list (N * N * reply)) (e : event) : checker :=
  match e with
  | BatchReply rs =>
      match q with
      | [] => let '(snap', q') := take_batch snap rs in finish c snap' q'
      | _ => InFlight c snap q
      end
  | BatchFail => match q with [] => Idle | _ => InFlight c snap q end
  | Proc _ => match q with _ :: q' => finish c snap q' | [] => InFlight c snap q end
  | _ => InFlight c snap q
  end.

Definition head_is (n h : N) (q : list (N * N * reply)) : bool :=
  match q with
  | (n', h', _) :: _ => (n' =? n) && (h' =? h)
  | [] => false
  end.
Definition is_proc (e : event) : bool := match e with Proc _ => true | _ => false end.

(* [drive n h c snap q mid]: starting inside a check with snapshot rest [snap] and queue [q], the
   events [mid] keep the check running -- no failed batch, the check does not end -- and never
   process the element of (n, h).  The result is where the check stands after [mid]. *)
Fixpoint drive (n h c : N) (snap : list (N * N)) (q : list (N * N * reply)) (mid : list event)
  : option (list (N * N) * list (N * N * reply)) :=
  match mid with
  | [] => Some (snap, q)
  | e :: rest =>
      if is_proc e && head_is n h q then None
      else match adv c snap q e with
           | InFlight _ snap' q' => drive n h c snap' q' rest
           | _ => None
           end
  end.

(* The events [mid] after the snapshot [snap] of a check with confirmed nonce c form a complete
   check for transaction (n, h) with the node's answer r: batch replies and element steps, in any
   interleaving with other events, bring the element (n, h, r) to the head of the queue. *)
Definition complete_check (n h c : N) (snap : list (N * N)) (mid : list event) (r : reply) : Prop :=
  exists snap' q', drive n h c snap [] mid = Some (snap', (n, h, r) :: q').

(* ---- derived notions used in the statements of Properties/C09.v ---------------------------- *)
(* the outcome the node's answers for hash h oblige: r = its element of the batch reply, fb = the
   answer of the individual query (None: not asked) *)
Definition resolves (h : N) (r : reply) (fb : option reply) : option wout :=
  match r with
  | RReceipt st => Some (OReceipt h st)
  | RNotFound => Some OCancelled
  | _ => match fb with
         | Some (RReceipt st) => Some (OReceipt h st)
         | Some RNotFound => Some OCancelled
         | _ => None
         end
  end.

(* ---- which step delivers an outcome, and why -------------------------------------------------- *)
Definition cause (s : mon) (e : event) (w : N) (o : wout) : Prop :=
  match o with
  | OClosed =>
      (e = Drain /\ closed s = true /\ exists n h, In (n, h, w) (wait s)) \/
      (drained s = true /\ closed s = true /\ w = next s /\
       exists h n, e = Watch h \/ e = WatchRaw h n \/ e = InternalWatch h n)
  | _ =>
      exists fb c snap n h r q, e = Proc fb /\ chk s = InFlight c snap ((n, h, r) :: q) /\
        In (n, h, w) (wait s) /\ In (w, h, n) (watchers s) /\ n < c /\ resolves h r fb = Some o
  end.

(* the confirmed nonce c of a check comes from a poll that found the checker idle and handed over *)
Definition poll_src (evs : list event) (c : N) : Prop :=
  exists pre b nt post, evs = pre ++ Poll (Some b) (Some c) nt :: post /\
    chk (run current pre) = Idle /\ chk (run current (pre ++ [Poll (Some b) (Some c) nt])) = Handed c.
(* the queued element (n, h, r) of the check with confirmed nonce c comes from a batch reply that
   arrived while that check was waiting for one, had (n, h) in its snapshot -- the batch asked for
   h -- and answered r for h *)
Definition batch_src (evs : list event) (c n h : N) (r : reply) : Prop :=
  exists pre rs post snap, evs = pre ++ BatchReply rs :: post /\
    chk (run current pre) = InFlight c snap [] /\ In (n, h) snap /\ In (h, r) rs.
