(* Configuration plumbing of cmd/main.go: which command-line flag ends up in which field of node.Options.
   Nothing here is typed in by hand from the Go source: the tables are regenerated from cmd/main.go on every
   run (anchor kind composite_fields: the key/value source texts of the node.Options literal of
   launchNodeWithConfig and of the cli flag literals of the package-level flag variables).  The functions below
   interpret those tables; definitions only, the facts are in proofs/Config_proofs.v. *)
From Coq Require Import String List NArith Bool.
From MevVerif Require Import lib.Bytes gen.Generated.
Import ListNotations.
Open Scope N_scope.

Fixpoint lookup (k : bytes) (t : list (bytes * bytes)) : option bytes :=
  match t with
  | [] => None
  | (a, b) :: r => if bytes_eqb a k then Some b else lookup k r
  end.

Fixpoint count_key (k : bytes) (t : list (bytes * bytes)) : nat :=
  match t with
  | [] => O
  | (a, _) :: r => (if bytes_eqb a k then 1 else 0)%nat + count_key k r
  end.

Fixpoint strip_prefix (p s : bytes) : option bytes :=
  match p, s with
  | [], _ => Some s
  | a :: p', b :: s' => if N.eqb a b then strip_prefix p' s' else None
  | _ :: _, [] => None
  end.

Definition strip_suffix (p s : bytes) : option bytes :=
  option_map (@rev N) (strip_prefix (rev p) (rev s)).

(* the accessor forms launchNodeWithConfig uses: c.String(V.Name), c.Int(V.Name), c.StringSlice(V.Name) -> V *)
Definition flag_var_of (e : bytes) : option bytes :=
  match strip_suffix (bos ".Name)") e with
  | None => None
  | Some e1 =>
      match strip_prefix (bos "c.String(") e1 with
      | Some v => Some v
      | None =>
          match strip_prefix (bos "c.Int(") e1 with
          | Some v => Some v
          | None => strip_prefix (bos "c.StringSlice(") e1
          end
      end
  end.

(* an interpreted Go string literal without escapes: "abc" -> abc *)
Definition unquote (e : bytes) : option bytes :=
  match strip_prefix [34] e with
  | None => None
  | Some r =>
      match strip_suffix [34] r with
      | None => None
      | Some c => if existsb (fun b => (b =? 34) || (b =? 92)) c then None else Some c
      end
  end.

(* the flag variables that feed node.Options, with their regenerated literals *)
Definition flag_literals : list (bytes * list (bytes * bytes)) :=
  [ (bos "optionSecret", cfg_flag_optionSecret);
    (bos "optionPeerType", cfg_flag_optionPeerType);
    (bos "optionPreconfStoreAddr", cfg_flag_optionPreconfStoreAddr);
    (bos "optionProviderRegistryAddr", cfg_flag_optionProviderRegistryAddr);
    (bos "optionBidderRegistryAddr", cfg_flag_optionBidderRegistryAddr);
    (bos "optionSettlementRPCEndpoint", cfg_flag_optionSettlementRPCEndpoint);
    (bos "optionBootnodes", cfg_flag_optionBootnodes);
    (bos "optionP2PPort", cfg_flag_optionP2PPort);
    (bos "optionP2PAddr", cfg_flag_optionP2PAddr) ].

Fixpoint lookup_lit (k : bytes) (t : list (bytes * list (bytes * bytes))) : option (list (bytes * bytes)) :=
  match t with
  | [] => None
  | (a, b) :: r => if bytes_eqb a k then Some b else lookup_lit k r
  end.

(* the command-line name of the flag variable V *)
Definition flag_name_of_var (v : bytes) : option bytes :=
  match lookup_lit v flag_literals with
  | None => None
  | Some lit => match lookup (bos "Name") lit with None => None | Some e => unquote e end
  end.

(* the flag whose value launchNodeWithConfig stores in field F of node.Options; None when the field is not a
   plain read of one flag (KeySigner, HTTPAddr, RPCAddr, NatAddr, Logger, the TLS files) or appears twice *)
Definition flag_of_field (f : bytes) : option bytes :=
  if Nat.eqb (count_key f cfg_options_fields) 1 then
    match lookup f cfg_options_fields with
    | None => None
    | Some e => match flag_var_of e with None => None | Some v => flag_name_of_var v end
    end
  else None.

(* The part of node.Options the twenty properties speak about. *)
Record options := {
  o_secret : bytes;
  o_peer_type : bytes;
  o_preconf_contract : bytes;
  o_provider_registry_contract : bytes;
  o_bidder_registry_contract : bytes;
  o_rpc_endpoint : bytes;
}.

(* env: the value the cli library reports for a flag name (command line, environment, config file or default) *)
Definition launch_options (env : bytes -> bytes) : option options :=
  match flag_of_field (bos "Secret"), flag_of_field (bos "PeerType"), flag_of_field (bos "PreconfContract"),
        flag_of_field (bos "ProviderRegistryContract"), flag_of_field (bos "BidderRegistryContract"),
        flag_of_field (bos "RPCEndpoint") with
  | Some a, Some b, Some c, Some d, Some e, Some f =>
      Some {| o_secret := env a; o_peer_type := env b; o_preconf_contract := env c;
              o_provider_registry_contract := env d; o_bidder_registry_contract := env e; o_rpc_endpoint := env f |}
  | _, _, _, _, _, _ => None
  end.

(* node.NewNode: the three contract addresses it derives from the options (source texts regenerated from
   pkg/node/node.go: c07_contract_addr_assigns, c11_node_provreg_addr, c11_node_bidreg_addr) *)
Definition node_reads_field (assigns : list bytes) (field : bytes) : bool :=
  match assigns with
  | [e] => bytes_eqb e (bos "common.HexToAddress(opts." ++ field ++ bos ")")
  | _ => false
  end.

Definition node_contract_wiring_ok : bool :=
  node_reads_field c07_contract_addr_assigns (bos "PreconfContract")
  && node_reads_field c11_node_provreg_addr (bos "ProviderRegistryContract")
  && node_reads_field c11_node_bidreg_addr (bos "BidderRegistryContract").

(* the flags the peer-type check of cmd/main.go accepts: the Action literal of optionPeerType *)
Definition peer_type_action : option bytes := lookup (bos "Action") cfg_flag_optionPeerType.

(* newKeySigner: the only two ways a node obtains its key (the C18 driver starts nodes through both) *)
Definition key_signer_sources_ok : bool :=
  match cfg_newkeysigner_stmts with
  | [a; b] =>
      bytes_eqb a (bos "if c.IsSet(optionKeystorePath.Name) { return ks.NewKeystoreSigner(c.String(optionKeystorePath.Name), c.String(optionKeystorePassword.Name)) }")
      && bytes_eqb b (bos "return ks.NewPrivateKeySigner(c.String(optionPrivKeyFile.Name))")
  | _ => false
  end.

(* the environment variables of a flag variable: source text of its EnvVars element *)
Definition flag_env_of_var (v : bytes) : option bytes :=
  match lookup_lit v flag_literals with
  | None => None
  | Some lit => lookup (bos "EnvVars") lit
  end.
