(* Model of matchProtocolIDWithSemver (pkg/p2p/libp2p/libp2p.go) and of the strict
   MAJOR.MINOR.PATCH fragment of Masterminds/semver NewVersion.  Definitions only. *)
From Coq Require Import List NArith Bool.
From MevVerif Require Import lib.Bytes.
Import ListNotations.
Open Scope N_scope.

Definition slash : N := 47.
Definition dot : N := 46.
Definition two64 : N := 18446744073709551616.

(* Result of parsing a version string.
   VNum   : three non-empty digit runs, every component below 2^64 (ParseUint succeeds)
   VErr   : three non-empty digit runs with a component >= 2^64 (ParseUint range error)
   VOther : anything else -- the library's lenient dialect, outside the claim *)
Inductive vres := VNum (M m p : N) | VErr | VOther.

Definition parse_component (l : bytes) : option N := parse_dec l.

Definition parse_version (v : bytes) : vres :=
  match split dot v with
  | [a; b; c] =>
      match parse_component a, parse_component b, parse_component c with
      | Some M, Some m, Some p =>
          if (M <? two64) && (m <? two64) && (p <? two64) then VNum M m p else VErr
      | _, _, _ => VOther
      end
  | _ => VOther
  end.

Inductive verdict := Match | NoMatch | Unspec.

(* incoming: the stream identifier; name/supported: the handler's StreamDesc *)
Definition match_id (incoming name supported : bytes) : verdict :=
  match split slash incoming with
  | [_; n; v] =>
      if bytes_eqb n name then
        match parse_version supported, parse_version v with
        | VErr, _ => NoMatch
        | _, VErr => NoMatch
        | VNum SM Sm _, VNum PM Pm _ => if (SM =? PM) && (Pm <=? Sm) then Match else NoMatch
        | _, _ => Unspec
        end
      else NoMatch
  | _ => NoMatch
  end.

(* the identifier a peer sends for protocol [n] at version M.m.p *)
Definition version_string (M m p : N) : bytes :=
  show_dec M ++ dot :: show_dec m ++ dot :: show_dec p.
Definition proto_id (n : bytes) (M m p : N) : bytes :=
  slash :: n ++ slash :: version_string M m p.
