(* Model of matchProtocolIDWithSemver (pkg/p2p/libp2p/libp2p.go) and of the strict
   MAJOR.MINOR.PATCH fragment of Masterminds/semver NewVersion.  Definitions only. *)
From Coq Require Import List NArith Bool.
From MevVerif Require Import lib.Bytes.
Import ListNotations.
Open Scope N_scope.

Definition slash : N := 47.
Definition dot : N := 46.
Definition two64 : N := 18446744073709551616.

(* Result of parsing a version string.
   VNum   : three non-empty digit runs, every component below 2^64 (ParseUint succeeds)
   VErr   : three non-empty digit runs with a component >= 2^64 (ParseUint range error)
   VOther : anything else -- the library's lenient dialect, outside the claim *)
Inductive vres := VNum (M m p : N) | VErr | VOther.

Definition parse_component (l : bytes) : option N := parse_dec l.

Definition parse_version (v : bytes) : vres :=
  match split dot v with
  | [a; b; c] =>
      match parse_component a, parse_component b, parse_component c with
      | Some M, Some m, Some p =>
          if (M <? two64) && (m <? two64) && (p <? two64) then VNum M m p else VErr
      | _, _, _ => VOther
      end
  | _ => VOther
  end.

Inductive verdict := Match | NoMatch | Unspec.

(* incoming: the stream identifier; name/supported: the handler's StreamDesc.
   The identifier must be /name/version: three '/'-separated segments, the first one empty. *)
Definition match_id (incoming name supported : bytes) : verdict :=
  match split slash incoming with
  | [[]; n; v] =>
      if bytes_eqb n name then
        match parse_version supported, parse_version v with
        | VErr, _ => NoMatch
        | _, VErr => NoMatch
        | VNum SM Sm _, VNum PM Pm _ => if (SM =? PM) && (Pm <=? Sm) then Match else NoMatch
        | _, _ => Unspec
        end
      else NoMatch
  | _ => NoMatch
  end.

(* before the repair 6f7f755: the segment in front of the first '/' was not looked at *)
Definition match_id_v1 (incoming name supported : bytes) : verdict :=
  match split slash incoming with
  | [_; n; v] =>
      if bytes_eqb n name then
        match parse_version supported, parse_version v with
        | VErr, _ => NoMatch
        | _, VErr => NoMatch
        | VNum SM Sm _, VNum PM Pm _ => if (SM =? PM) && (Pm <=? Sm) then Match else NoMatch
        | _, _ => Unspec
        end
      else NoMatch
  | _ => NoMatch
  end.

(* the identifier a peer sends for protocol [n] at version M.m.p *)
Definition version_string (M m p : N) : bytes :=
  show_dec M ++ dot :: show_dec m ++ dot :: show_dec p.
Definition proto_id (n : bytes) (M m p : N) : bytes :=
  slash :: n ++ slash :: version_string M m p.

(* --- the function with its crash points explicit -------------------------------------------------
   matchProtocolIDWithSemver indexes parts[1] and parts[2]; an index outside the slice is a Go run-time
   panic, and so would parts[0] be.  [index_o] is that indexing statement.  The version library (semver.NewVersion) is an argument
   [nv] of the generic function: it answers with a parse result, or is itself the crash point [Panic]. *)
Definition index_o (parts : list bytes) (i : nat) : outcome bytes :=
  match nth_error parts i with Some s => Ok s | None => Panic end.

Definition decide (sv pv : vres) : verdict :=
  match sv, pv with
  | VErr, _ => NoMatch
  | _, VErr => NoMatch
  | VNum SM Sm _, VNum PM Pm _ => if (SM =? PM) && (Pm <=? Sm) then Match else NoMatch
  | _, _ => Unspec
  end.

Definition is_nil (l : bytes) : bool := match l with [] => true | _ => false end.

Definition match_id_gen (nv : bytes -> outcome vres) (incoming name supported : bytes) : outcome verdict :=
  let parts := split slash incoming in
  if negb (Nat.eqb (length parts) 3) then Ok NoMatch            (* len(parts) != 3 || ... : return false, error *)
  else
    match index_o parts 0 with                                  (* ... || parts[0] != "" *)
    | Ok p0 =>
      if negb (is_nil p0) then Ok NoMatch
      else
        match index_o parts 1 with                              (* protocolName := parts[1] *)
        | Ok n =>
            match index_o parts 2 with                          (* protocolVersion := parts[2] *)
            | Ok v =>
                if negb (bytes_eqb n name) then Ok NoMatch
                else match nv supported with
                     | Ok sv => match nv v with
                                | Ok pv => Ok (decide sv pv)
                                | Err c => Err c
                                | Panic => Panic
                                end
                     | Err c => Err c
                     | Panic => Panic
                     end
            | Err c => Err c
            | Panic => Panic
            end
        | Err c => Err c
        | Panic => Panic
        end
    | Err c => Err c
    | Panic => Panic
    end.

(* the same body without the length test: what the guard is there for *)
Definition match_id_unguarded (nv : bytes -> outcome vres) (incoming name supported : bytes) : outcome verdict :=
  let parts := split slash incoming in
  match index_o parts 1 with                                    (* (parts[0] always exists: Split never answers an empty slice) *)
  | Ok n =>
      match index_o parts 2 with
      | Ok v => if negb (bytes_eqb n name) then Ok NoMatch
                else match nv supported, nv v with
                     | Ok sv, Ok pv => Ok (decide sv pv)
                     | Panic, _ => Panic
                     | _, Panic => Panic
                     | Err c, _ => Err c
                     | _, Err c => Err c
                     end
      | Err c => Err c
      | Panic => Panic
      end
  | Err c => Err c
  | Panic => Panic
  end.

(* the library on the fragment this development models *)
Definition nv_model (s : bytes) : outcome vres := Ok (parse_version s).
Definition match_id_o := match_id_gen nv_model.

(* --- routing: AddStreamHandlers over go-multistream ---------------------------------------------
   A registered handler is (registration number, (name, version)).  host.SetStreamHandlerMatch(name, match,
   handler) is MultistreamMuxer.AddHandlerWithFunc: removeHandler(name) deletes the FIRST entry added under
   that name, then the new entry is appended.  findHandler returns the first entry (in list order) whose
   match function answers true.  The match function of an entry is matchProtocolIDWithSemver with the
   entry's own name and version (the per-iteration copy ss := stream). *)
Definition desc := (bytes * bytes)%type.
Definition handler := (N * desc)%type.
Definition h_name (h : handler) : bytes := fst (snd h).

Fixpoint remove_handler (n : bytes) (hs : list handler) : list handler :=
  match hs with
  | [] => []
  | h :: r => if bytes_eqb (h_name h) n then r else h :: remove_handler n r
  end.
Definition add_handler (hs : list handler) (k : N) (d : desc) : list handler :=
  remove_handler (fst d) hs ++ [(k, d)].
Fixpoint add_handlers (hs : list handler) (k : N) (ds : list desc) : list handler :=
  match ds with
  | [] => hs
  | d :: r => add_handlers (add_handler hs k d) (k + 1) r
  end.
Definition is_match (v : verdict) : bool := match v with Match => true | _ => false end.
Definition find_handler (hs : list handler) (incoming : bytes) : option handler :=
  find (fun h => is_match (match_id incoming (fst (snd h)) (snd (snd h)))) hs.

(* the handler an incoming identifier reaches on a node that registered [ds] (numbered from 1, in order) *)
Definition table (ds : list desc) : list handler := add_handlers [] 1 ds.
Definition route (ds : list desc) (incoming : bytes) : option handler := find_handler (table ds) incoming.

(* the registrations, numbered *)
Fixpoint number (k : N) (ds : list desc) : list handler :=
  match ds with [] => [] | d :: r => (k, d) :: number (k + 1) r end.
