(* Model of the stream framing of pkg/p2p/libp2p/stream.go over go-msgio v0.3.0 and protobuf-go:
     writer  : msgio.writer.WriteMsg  (4-byte big-endian length ++ body, no size check)
               stream.WriteMsg / metadataStream.WriteHeader / metadataStream.WriteError
               the handler epilogue of Service.AddStreamHandlers (status.FromError -> WriteError)
     reader  : msgio.reader.ReadMsg as an incremental state machine fed with arbitrary chunks
               stream.ReadMsg (StreamMsg decode, error -> status error, neither -> reject)
   Inner protocol messages and Header maps are opaque byte payloads (proto.Marshal results are
   arguments).  Definitions only; proofs are in proofs/Framing_proofs.v. *)
From Coq Require Import List NArith ZArith Bool.
From MevVerif Require Import lib.Bytes lib.Varint gen.Generated.
Import ListNotations.
Open Scope N_scope.

(* constants of go-msgio, regenerated from the module source on every run *)
Definition max_msg : N := c13_msgio_max_size.         (* defaultMaxSize: 8 MiB *)
Definition len_size : nat := N.to_nat c13_msgio_length_size.   (* lengthSize: 4 *)

(* ======================================================================================== *)
(* msgio writer: buf := pool.Get(len+4); PutUint32(buf, uint32(len)); copy; W.Write(buf)     *)
Definition frame (body : bytes) : bytes := be len_size (len_of body) ++ body.

(* ======================================================================================== *)
(* streammsg.v1.StreamMsg { oneof body { bytes data = 1; google.rpc.Status error = 2; } }
   google.rpc.Status { int32 code = 1; string message = 2; repeated Any details = 3; }
   google.protobuf.Any { string type_url = 1; bytes value = 2; }                             *)
Record any := { a_url : bytes; a_val : bytes }.
Record status := { st_code : Z; st_msg : bytes; st_details : list any }.
Inductive body := BData (d : bytes) | BError (s : status) | BNone.

Definition empty_any : any := {| a_url := []; a_val := [] |}.
Definition empty_status : status := {| st_code := 0%Z; st_msg := []; st_details := [] |}.

Definition is_nil (b : bytes) : bool := match b with [] => true | _ => false end.

(* int32 <-> the 64-bit varint payload: Go sign-extends on write and truncates on read *)
Definition int32_to_u64 (c : Z) : N := Z.to_N (c mod 18446744073709551616)%Z.
Definition u64_to_int32 (v : N) : Z :=
  let w := (Z.of_N v mod 4294967296)%Z in
  if (w <? 2147483648)%Z then w else (w - 4294967296)%Z.
Definition int32_range (c : Z) : Prop := (-2147483648 <= c < 2147483648)%Z.

(* proto3 marshalling: fields in number order, zero scalars omitted, oneof members always
   present *)
Definition any_fields (a : any) : list field :=
  (if is_nil (a_url a) then [] else [(1, WLen (a_url a))]) ++
  (if is_nil (a_val a) then [] else [(2, WLen (a_val a))]).
Definition enc_any (a : any) : bytes := enc_fields (any_fields a).
Definition status_fields (s : status) : list field :=
  (if (st_code s =? 0)%Z then [] else [(1, WVarint (int32_to_u64 (st_code s)))]) ++
  (if is_nil (st_msg s) then [] else [(2, WLen (st_msg s))]) ++
  map (fun a => (3, WLen (enc_any a))) (st_details s).
Definition enc_status (s : status) : bytes := enc_fields (status_fields s).
Definition enc_streammsg (b : body) : bytes :=
  match b with
  | BData d => enc_fields [(1, WLen d)]
  | BError s => enc_fields [(2, WLen (enc_status s))]
  | BNone => []
  end.

(* proto.Marshal refuses proto3 strings that are not valid UTF-8 *)
Definition status_marshal_ok (s : status) : bool :=
  utf8_valid (st_msg s) && forallb (fun a => utf8_valid (a_url a)) (st_details s).

(* --- the three writers: the bytes handed to the network stream in ONE Write call, or an
       error before anything is written.  [inner]/[hdr] = result of proto.Marshal of the inner
       message / of Header{hdr} (None = Marshal failed). ------------------------------------ *)
Definition err_marshal : N := 1.

Definition write_msg (inner : option bytes) : outcome bytes :=
  match inner with
  | None => Err err_marshal
  | Some m => Ok (frame (enc_streammsg (BData m)))
  end.
Definition write_header (hdr : option bytes) : outcome bytes :=
  match hdr with
  | None => Err err_marshal
  | Some h => Ok (frame h)
  end.
Definition write_error (s : status) : outcome bytes :=
  if status_marshal_ok s then Ok (frame (enc_streammsg (BError s))) else Err err_marshal.

(* --- handler epilogue (libp2p.go): err != nil -> retErr, _ := status.FromError(err);
       WriteError(ctx, retErr).  The error values a handler can return, as grpc sees them: ---- *)
Inductive herr :=
  | HPlain (text : bytes)                   (* no GRPCStatus method anywhere in the chain *)
  | HStatus (s : status)                    (* err.GRPCStatus() = s, non-nil *)
  | HNilStatus (text : bytes)               (* GRPCStatus() returns nil (directly or wrapped) *)
  | HWrapped (s : status) (text : bytes).   (* wraps a status error; text = err.Error() *)

Definition code_unknown : Z := 2%Z.

Definition status_of_herr (e : herr) : status :=
  match e with
  | HPlain t => {| st_code := code_unknown; st_msg := t; st_details := [] |}
  | HStatus s => s
  | HNilStatus t => {| st_code := code_unknown; st_msg := t; st_details := [] |}
  | HWrapped s t => {| st_code := st_code s; st_msg := t; st_details := st_details s |}
  end.

Inductive action := AWrite (b : bytes) | AClose | AReset.
Definition handler_epilogue (r : option herr) : list action :=
  match r with
  | None => [AClose]
  | Some e =>
      match write_error (status_of_herr e) with
      | Ok f => [AWrite f; AClose]
      | _ => [AReset]
      end
  end.

(* ======================================================================================== *)
(* msgio reader.  One attempt at the head of the buffered bytes:                               *)
Inductive pres := Frame (p rest : bytes) | Incomplete | TooLarge.

Definition parse1 (buf : bytes) : pres :=
  if Nat.ltb (length buf) len_size then Incomplete
  else
    let n := unbe (firstn len_size buf) in
    let rest := skipn len_size buf in
    if n =? 0 then Frame [] rest                 (* length 0: (nil, nil) before the size check *)
    else if max_msg <? n then TooLarge           (* ErrMsgTooLarge; the reader stays stuck *)
    else if len_of rest <? n then Incomplete
    else Frame (firstn (N.to_nat n) rest) (skipn (N.to_nat n) rest).

(* as many frames as the buffer holds; fuel bounds the number of frames *)
Fixpoint drain (fuel : nat) (buf : bytes) : list bytes * bytes * bool :=
  match fuel with
  | O => ([], buf, false)
  | S f =>
      match parse1 buf with
      | Frame p rest => let '(fs, r, d) := drain f rest in (p :: fs, r, d)
      | Incomplete => ([], buf, false)
      | TooLarge => ([], buf, true)
      end
  end.
Definition drain_all (buf : bytes) := drain (S (length buf)) buf.

(* incremental reader: bytes not yet consumed, stuck flag, frames delivered so far (history) *)
Record rstate := { rbuf : bytes; dead : bool; out : list bytes }.
Definition rinit : rstate := {| rbuf := []; dead := false; out := [] |}.
Definition feed (s : rstate) (chunk : bytes) : rstate :=
  if dead s then s
  else let '(fs, r, d) := drain_all (rbuf s ++ chunk) in
       {| rbuf := r; dead := d; out := out s ++ fs |}.
Definition feed_chunks (cs : list bytes) : rstate := fold_left feed cs rinit.
Definition feed_all (stream : bytes) : rstate := feed rinit stream.

(* what the reader reports once the byte stream has ended *)
Inductive rend := EndEOF | EndTooLarge.
Definition end_of (s : rstate) : rend := if dead s then EndTooLarge else EndEOF.

(* ======================================================================================== *)
(* protobuf decoding of the frame body (merge semantics of protobuf-go)                        *)
Inductive tri (A : Type) := TOk (a : A) | TBad | TUnspec.
Arguments TOk {A} a. Arguments TBad {A}. Arguments TUnspec {A}.

Definition tbind {A B} (t : tri A) (f : A -> tri B) : tri B :=
  match t with TOk a => f a | TBad => TBad | TUnspec => TUnspec end.

Fixpoint tfold {A F} (f : A -> F -> tri A) (fs : list F) (a : A) : tri A :=
  match fs with
  | [] => TOk a
  | x :: r => tbind (f a x) (tfold f r)
  end.

Definition parse_fields (b : bytes) : tri (list field) :=
  match dec_fields b with WFields fs => TOk fs | WBad => TBad | WGroupSeen => TUnspec end.

Definition any_apply (a : any) (f : field) : tri any :=
  match f with
  | (1, WLen b) => if utf8_valid b then TOk {| a_url := b; a_val := a_val a |} else TBad
  | (2, WLen b) => TOk {| a_url := a_url a; a_val := b |}
  | _ => TOk a                                  (* unknown number or other wire type: skipped *)
  end.
Definition decode_any (b : bytes) : tri any :=
  tbind (parse_fields b) (fun fs => tfold any_apply fs empty_any).

Definition status_apply (s : status) (f : field) : tri status :=
  match f with
  | (1, WVarint v) => TOk {| st_code := u64_to_int32 v; st_msg := st_msg s; st_details := st_details s |}
  | (2, WLen b) =>
      if utf8_valid b then TOk {| st_code := st_code s; st_msg := b; st_details := st_details s |}
      else TBad
  | (3, WLen b) =>
      tbind (decode_any b) (fun a =>
        TOk {| st_code := st_code s; st_msg := st_msg s; st_details := st_details s ++ [a] |})
  | _ => TOk s
  end.
(* Unmarshal of a Status INTO an existing one (merge) *)
Definition decode_status_into (s : status) (b : bytes) : tri status :=
  tbind (parse_fields b) (fun fs => tfold status_apply fs s).

Definition body_apply (cur : body) (f : field) : tri body :=
  match f with
  | (1, WLen b) => TOk (BData b)
  | (2, WLen b) =>
      let s0 := match cur with BError s => s | _ => empty_status end in
      tbind (decode_status_into s0 b) (fun s => TOk (BError s))
  | _ => TOk cur
  end.
Definition decode_streammsg (b : bytes) : tri body :=
  tbind (parse_fields b) (fun fs => tfold body_apply fs BNone).

(* stream.ReadMsg on one delivered frame *)
Inductive rres :=
  | RData (payload : bytes)      (* proto.Unmarshal(payload, m) is attempted *)
  | RStatus (s : status)         (* returns status.FromProto(s).Err(), code <> OK *)
  | ROkNoData                    (* error member with code OK: Err() = nil, m left untouched *)
  | RNeither                     (* "message has no data" *)
  | RMalformed                   (* outer Unmarshal failed *)
  | RUnspec.                     (* start-group wire type somewhere: not modelled *)

Definition read_msg (fr : bytes) : rres :=
  match decode_streammsg fr with
  | TBad => RMalformed
  | TUnspec => RUnspec
  | TOk (BError s) => if (st_code s =? 0)%Z then ROkNoData else RStatus s
  | TOk BNone => RNeither
  | TOk (BData d) => RData d
  end.

(* ReadHeader hands the frame to proto.Unmarshal(_, Header); the frame as such: *)
Definition read_header (fr : bytes) : bytes := fr.

(* streammsg.v1.Header { map<string, google.protobuf.Value> header = 1; } at the level of the map
   framing: repeated field 1 of entries { string key = 1; Value value = 2; }.  Marshal always
   writes both members of an entry (no zero omission) in an unspecified entry order; Unmarshal
   takes the last key/value inside an entry, skips unknown fields, validates the key as UTF-8 and
   lets a later entry with the same key replace the earlier one.  The Value is an opaque byte
   string here (its own Unmarshal is not modelled).  A Go nil map and an empty map are both [[]]. *)
Definition hentry := (bytes * bytes)%type.
Definition enc_hentry (e : hentry) : bytes := enc_fields [(1, WLen (fst e)); (2, WLen (snd e))].
Definition enc_header (h : list hentry) : bytes :=
  enc_fields (map (fun e => (1, WLen (enc_hentry e))) h).

Fixpoint hset (k v : bytes) (h : list hentry) : list hentry :=
  match h with
  | [] => [(k, v)]
  | (k', v') :: r => if bytes_eqb k k' then (k, v) :: r else (k', v') :: hset k v r
  end.
Definition entry_apply (e : hentry) (f : field) : tri hentry :=
  match f with
  | (1, WLen b) => if utf8_valid b then TOk (b, snd e) else TBad
  | (2, WLen b) => TOk (fst e, b)
  | _ => TOk e
  end.
Definition decode_hentry (b : bytes) : tri hentry :=
  tbind (parse_fields b) (fun fs => tfold entry_apply fs ([], [])).
Definition header_apply (h : list hentry) (f : field) : tri (list hentry) :=
  match f with
  | (1, WLen b) => tbind (decode_hentry b) (fun e => TOk (hset (fst e) (snd e) h))
  | _ => TOk h
  end.
Definition decode_header (b : bytes) : tri (list hentry) :=
  tbind (parse_fields b) (fun fs => tfold header_apply fs []).

(* the results of successive ReadMsg calls on a byte stream that then ends *)
Definition read_all (stream : bytes) : list rres * rend :=
  let s := feed_all stream in (map read_msg (out s), end_of s).

(* ======================================================================================== *)
(* near the size limit the payload is represented by its length only                           *)
Definition data_body_len (n : N) : N := 1 + len_of (varint_enc n) + n.      (* 0a ++ varint n ++ data *)
Definition data_frame_prefix (n : N) : bytes := be len_size (data_body_len n) ++ 10 :: varint_enc n.
Definition data_frame_accepted (n : N) : bool := data_body_len n <=? max_msg.

(* ======================================================================================== *)
(* Pull view with SEVERAL reader objects over ONE byte source.  Production wraps the same libp2p
   stream twice (newMetadataStream for the header exchange, then newStream for the messages); each
   wrapper owns a msgio reader.  A reader object has a private buffer; [ahead] is how many bytes
   beyond what it needs it takes from the source when it has to read (0 for msgio, which uses
   io.ReadFull on exactly 4 and then exactly n bytes; positive for a buffered reader underneath).
   [src] = the bytes of the stream not yet taken by any reader (the stream then ends). *)
Record mreader := { mbuf : bytes; mstuck : bool }.
Definition mr_init : mreader := {| mbuf := []; mstuck := false |}.

Inductive pull_res := PFrame (b : bytes) | PEnd | PTooLarge.

(* make the private buffer hold at least k bytes if the source allows *)
Definition want (ahead k : nat) (buf src : bytes) : bytes * bytes :=
  if Nat.ltb (length buf) k then
    let t := (k - length buf + ahead)%nat in (buf ++ firstn t src, skipn t src)
  else (buf, src).

Definition pull (ahead : nat) (r : mreader) (src : bytes) : pull_res * mreader * bytes :=
  if mstuck r then (PTooLarge, r, src)
  else
    let '(b1, s1) := want ahead len_size (mbuf r) src in
    if Nat.ltb (length b1) len_size then (PEnd, {| mbuf := b1; mstuck := false |}, s1)
    else
      let n := unbe (firstn len_size b1) in
      if n =? 0 then (PFrame [], {| mbuf := skipn len_size b1; mstuck := false |}, s1)
      else if max_msg <? n then (PTooLarge, {| mbuf := b1; mstuck := true |}, s1)
      else
        let '(b2, s2) := want ahead (len_size + N.to_nat n) b1 s1 in
        if Nat.ltb (length b2) (len_size + N.to_nat n) then (PEnd, {| mbuf := b2; mstuck := false |}, s2)
        else (PFrame (firstn (N.to_nat n) (skipn len_size b2)),
              {| mbuf := skipn (len_size + N.to_nat n) b2; mstuck := false |}, s2).

(* a sequence of reads, each on reader A (true: the metadata stream) or B (false: the data stream) *)
Fixpoint pull_seq (aheadA aheadB : nat) (which : list bool) (ra rb : mreader) (src : bytes)
  : list pull_res * (mreader * mreader * bytes) :=
  match which with
  | [] => ([], (ra, rb, src))
  | true :: w =>
      let '(res, ra', src') := pull aheadA ra src in
      let '(rs, fin) := pull_seq aheadA aheadB w ra' rb src' in (res :: rs, fin)
  | false :: w =>
      let '(res, rb', src') := pull aheadB rb src in
      let '(rs, fin) := pull_seq aheadA aheadB w ra rb' src' in (res :: rs, fin)
  end.

(* ======================================================================================== *)
(* What the CALLERS of ReadMsg get.  Every ReadMsg call starts a goroutine that takes the msgio
   reader lock and blocks for the next frame; requests are therefore served with the delivered
   frames in the order the calls were made.  A call whose context ends while its request is
   pending returns ctx.Err(), but its goroutine keeps its place: the frame it eventually gets is
   put into a channel nobody reads (lost).  [serve] = (frames handed to callers, frames lost).
   (Order among several pending goroutines = lock queue order; exact for one pending goroutine.) *)
Inductive req := ReqRead | ReqAbandoned.
Fixpoint serve (reqs : list req) (frames : list bytes) : list bytes * list bytes :=
  match reqs, frames with
  | ReqRead :: r, f :: fs => let '(c, l) := serve r fs in (f :: c, l)
  | ReqAbandoned :: r, f :: fs => let '(c, l) := serve r fs in (c, f :: l)
  | _, _ => ([], [])
  end.
Definition no_abandon (reqs : list req) : bool :=
  forallb (fun r => match r with ReqRead => true | ReqAbandoned => false end) reqs.

(* the same on the write side: a WriteMsg given up through its context has returned ctx.Err(),
   but its goroutine still hands the frame to the network stream once it gets the writer lock *)
Inductive wcall := WCompleted | WGivenUp.
Definition wire_of_calls (ws : list (wcall * bytes)) : list bytes :=
  map (fun w => frame (enc_streammsg (BData (snd w)))) ws.

(* what a caller of ReadMsg(ctx, m) can see of one frame: does the call return nil, and was the
   destination m reset/overwritten.  [inner_ok p] = proto.Unmarshal(p, m) succeeds. *)
Record read_view := { returns_nil : bool; dest_touched : bool }.
Definition view_of (inner_ok : bytes -> bool) (r : rres) : read_view :=
  match r with
  | RData p => {| returns_nil := inner_ok p; dest_touched := true |}
  | ROkNoData => {| returns_nil := true; dest_touched := false |}
  | _ => {| returns_nil := false; dest_touched := false |}
  end.
