(* Model of EvmClient.CancelTx and suggestMaxFeeAndTipCap (pkg/evmclient/evmclient.go), on Z
   (big.Int).  Definitions only.  Chain-node and key-signer calls are oracle answers; the
   accessors of the looked-up transaction (Nonce, GasPrice, GasFeeCap, GasTipCap) are given as the
   library returned them. *)
From Coq Require Import List NArith ZArith Bool.
From MevVerif Require Import lib.Bytes gen.Generated.
Import ListNotations.
Open Scope Z_scope.

(* literals of CancelTx, regenerated from the source on every run *)
Definition bump_num : Z := nth 0 c10_cancel_newint 0.      (* big.NewInt(110) *)
Definition bump_den : Z := nth 1 c10_cancel_newint 0.      (* big.NewInt(100) *)
Definition cancel_value : Z := nth 2 c10_cancel_newint 1.  (* Value: big.NewInt(0) *)
Definition cancel_gas : Z := last c10_cancel_ints 0.       (* Gas: 21000 *)

Record client := { owner : bytes (* c.owner, 20 bytes *); chain : Z (* c.chainID *) }.

(* the transaction returned by TransactionByHash, through its accessors *)
Record orig := { o_nonce : Z; o_price : Z (* GasPrice() *); o_fee : Z (* GasFeeCap() *);
                 o_tip : Z (* GasTipCap() *) }.

Inductive lookup :=
| LErr (notfound : bool)                       (* error; notfound: errors.Is(err, ethereum.NotFound) *)
| LFound (t : option orig) (is_pending : bool). (* nil error; t = None: nil transaction *)

Inductive tipans := TipErr | TipOk (v : Z).       (* SuggestGasTipCap *)
Inductive priceans := PriceErr | PriceOk (v : Z). (* SuggestGasPrice (only asked when no price is passed) *)

(* suggestMaxFeeAndTipCap(ctx, gasPrice): (gasPrice, gasTipCap) *)
Definition suggest (gas_price : option Z) (tip : tipans) (price : priceans) : option (Z * Z) :=
  match tip with
  | TipErr => None
  | TipOk t =>
      match gas_price with
      | Some g => Some (g, t)
      | None => match price with PriceErr => None | PriceOk g => Some (g, t) end
      end
  end.

(* the replacement transaction handed to SignTx / SendTransaction *)
Record ctx := { x_nonce : Z; x_chain : Z; x_to : bytes; x_value : Z; x_data : bytes; x_gas : Z;
                x_tip : Z; x_fee : Z }.

Inductive refusal :=
| RLookup (notfound : bool)   (* TransactionByHash failed *)
| RNotPending                 (* returns ethereum.NotFound *)
| RSuggest                    (* fee suggestion failed *)
| RSign.                      (* signing failed *)

(* CRefuse: an error is returned and nothing reached the node;
   CSubmit t acc: t reached SendTransaction; acc = the node took it; CancelTx returns a nil error
   exactly when acc = true;
   CPanic: nil transaction reported as pending is dereferenced. *)
Inductive cresult := CRefuse (r : refusal) | CSubmit (t : ctx) (accepted : bool) | CPanic.

Definition cancel (c : client) (l : lookup) (tip : tipans) (price : priceans)
                  (sign_ok submit_ok : bool) : cresult :=
  match l with
  | LErr nf => CRefuse (RLookup nf)
  | LFound _ false => CRefuse RNotPending
  | LFound None true => CPanic
  | LFound (Some o) true =>
      match suggest (Some (o_price o)) tip price with
      | None => CRefuse RSuggest
      | Some (fee0, tip0) =>
          let fee1 := if fee0 <=? o_fee o then o_fee o else fee0 in
          let tip1 := if tip0 <=? o_tip o then o_tip o else tip0 in
          let tip2 := (tip1 * bump_num) / bump_den in     (* big.Int Div, positive divisor *)
          let fee2 := fee1 + tip2 in
          let t := {| x_nonce := o_nonce o; x_chain := chain c; x_to := owner c;
                      x_value := cancel_value; x_data := []; x_gas := cancel_gas;
                      x_tip := tip2; x_fee := fee2 |} in
          if negb sign_ok then CRefuse RSign else CSubmit t submit_ok
      end
  end.

Definition ret_ok (r : cresult) : bool := match r with CSubmit _ true => true | _ => false end.
Definition ret_notfound (r : cresult) : bool :=
  match r with CRefuse (RLookup true) => true | CRefuse RNotPending => true | _ => false end.
Definition submitted (r : cresult) : option ctx := match r with CSubmit t _ => Some t | _ => None end.
