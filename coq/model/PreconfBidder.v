(* Model of the bidder side of pkg/preconfirmation/preconfirmation.go: SendBid.
   Definitions only (no proofs).  The signer (ConstructSignedBid, VerifyPreConfirmation) and the
   transport (NewStream / WriteMsg / ReadMsg of every provider) are oracles / scripts; the
   topology is a list of connected peers with their type.

   Timeline abstraction.  Every contacted provider has a script (what its stream does) and an
   abstract time at which that happens; the caller's context expires at time D.  A provider whose
   scripted event lies strictly before D behaves as scripted, every other one sees the context
   error.  Provider i is finished at min(t_i, D); the result channel is closed when the last one is
   finished.  The channel has one buffer slot per provider and every goroutine sends at most once,
   so a send never blocks; verification and hand-over take no abstract time. *)
From Coq Require Import List NArith ZArith Bool.
From MevVerif Require Import lib.Bytes.
Import ListNotations.
Open Scope N_scope.

(* --- messages (preconfirmation/v1) ------------------------------------------------------- *)
(* bytes fields: nil and empty are the same value on the wire and for proto.Equal; *_unk are
   the raw unknown fields a decoded message carries (proto.Equal compares them too). *)
Record bid := mkBid { b_tx : bytes; b_amt : bytes; b_bn : Z; b_ds : Z; b_de : Z;
                      b_dig : bytes; b_sig : bytes; b_unk : bytes }.
Record commitment := mkCommitment { c_bid : option bid; c_dig : bytes; c_sig : bytes;
                                    c_prov : bytes; c_unk : bytes }.

Definition bid_eqb (a b : bid) : bool :=
  bytes_eqb (b_tx a) (b_tx b) && bytes_eqb (b_amt a) (b_amt b) &&
  Z.eqb (b_bn a) (b_bn b) && Z.eqb (b_ds a) (b_ds b) && Z.eqb (b_de a) (b_de b) &&
  bytes_eqb (b_dig a) (b_dig b) && bytes_eqb (b_sig a) (b_sig b) && bytes_eqb (b_unk a) (b_unk b).

(* proto.Equal(x, y) on two *Bid pointers, either of which may be nil *)
Definition obid_eqb (a b : option bid) : bool :=
  match a, b with
  | Some x, Some y => bid_eqb x y
  | None, None => true
  | _, _ => false
  end.

Definition commitment_eqb (a b : commitment) : bool :=
  obid_eqb (c_bid a) (c_bid b) && bytes_eqb (c_dig a) (c_dig b) && bytes_eqb (c_sig a) (c_sig b) &&
  bytes_eqb (c_prov a) (c_prov b) && bytes_eqb (c_unk a) (c_unk b).

(* preConfirmation.ProviderAddress = make(...); copy(...) *)
Definition set_prov (c : commitment) (a : bytes) : commitment :=
  mkCommitment (c_bid c) (c_dig c) (c_sig c) a (c_unk c).

(* --- the call and its environment ------------------------------------------------------- *)
Record call_args := mkArgs { a_tx : bytes; a_amt : bytes; a_bn : Z; a_ds : Z; a_de : Z }.

Definition args_eqb (a b : call_args) : bool :=
  bytes_eqb (a_tx a) (a_tx b) && bytes_eqb (a_amt a) (a_amt b) &&
  Z.eqb (a_bn a) (a_bn b) && Z.eqb (a_ds a) (a_ds b) && Z.eqb (a_de a) (a_de b).

(* signer.Signer as used by SendBid *)
Record oracles := mkOracles {
  construct : call_args -> outcome bid;        (* ConstructSignedBid *)
  verify    : commitment -> outcome bytes      (* VerifyPreConfirmation: recovered address *)
}.

(* what the stream to one provider does *)
Inductive reply :=
| RNewStreamErr                                   (* NewStream returns an error *)
| RWriteErr                                       (* WriteMsg returns an error *)
| RReadErr                                        (* ReadMsg returns an error: reset, EOF, undecodable frame *)
| RErrFrame                                       (* the peer answers with an error frame: ReadMsg returns it *)
| RSilence                                        (* nothing ever arrives *)
| RFrames (c : commitment) (rest : list commitment). (* decodable frame(s); only the first is read *)

(* p2p.PeerType; the driver maps the Go constants by name *)
Inductive peer_type := TBootnode | TProvider | TBidder.
Definition peer_type_eqb (a b : peer_type) : bool :=
  match a, b with
  | TBootnode, TBootnode | TProvider, TProvider | TBidder, TBidder => true
  | _, _ => false
  end.

Record peer := mkPeer { p_addr : bytes; p_type : peer_type; p_reply : reply; p_time : N }.

(* topology.GetPeers(Query{Type: ty}) on the set of connected peers *)
Definition get_peers (ty : peer_type) (view : list peer) : list peer :=
  filter (fun p => peer_type_eqb (p_type p) ty) view.

(* --- one per-provider goroutine ----------------------------------------------------------- *)
Inductive gout := GDeliver (c : commitment) | GNothing | GCrash.
Record gtrace := mkG { g_addr : bytes; g_written : list bid; g_out : gout; g_finish : N }.

Definition arrives (D : N) (p : peer) : bool :=
  match p_reply p with
  | RSilence => false
  | _ => p_time p <? D
  end.

Definition finish_time (D : N) (p : peer) : N := if arrives D p then p_time p else D.

(* [compare] = the code contains  if !proto.Equal(preConfirmation.Bid, signedBid) { return } *)
Definition provider_run (compare : bool) (vf : commitment -> outcome bytes)
           (sent : bid) (D : N) (p : peer) : gtrace :=
  let fin := finish_time D p in
  match p_reply p with
  | RNewStreamErr =>                     (* providerStream, err := NewStream(...); err != nil: return *)
      mkG (p_addr p) [] GNothing fin
  | RWriteErr =>                         (* err = WriteMsg(ctx, signedBid); err != nil: Reset, return *)
      mkG (p_addr p) [sent] GNothing fin
  | RReadErr | RErrFrame | RSilence =>   (* err = ReadMsg(ctx, preConfirmation); err != nil: Reset, return *)
      mkG (p_addr p) [sent] GNothing fin
  | RFrames c _ =>
      if arrives D p then
        (* Close; providerAddress, err := VerifyPreConfirmation(preConfirmation) *)
        match vf c with
        | Panic => mkG (p_addr p) [sent] GCrash fin
        | Err _ => mkG (p_addr p) [sent] GNothing fin
        | Ok a =>
            if compare && negb (obid_eqb (c_bid c) (Some sent))
            then mkG (p_addr p) [sent] GNothing fin            (* not for the bid sent: return *)
            else mkG (p_addr p) [sent] (GDeliver (set_prov c a)) fin
                 (* ProviderAddress := recovered; select { case ch <- c: ; case <-ctx.Done(): } *)
        end
      else mkG (p_addr p) [sent] GNothing fin                  (* ReadMsg returns the context error *)
  end.

Definition crashed (g : gtrace) : bool := match g_out g with GCrash => true | _ => false end.
Definition delivery (g : gtrace) : list (N * commitment) :=
  match g_out g with GDeliver c => [(g_finish g, c)] | _ => [] end.

(* --- SendBid ---------------------------------------------------------------------------- *)
Record run := mkRun {
  r_sent      : bid;                         (* what ConstructSignedBid returned *)
  r_contacted : list (bytes * list bid);     (* per NewStream call: peer, messages handed to WriteMsg *)
  r_delivered : list (N * commitment);       (* (time, value) received on the channel; a multiset *)
  r_close     : N                            (* time at which the channel is closed *)
}.
Inductive result :=
| SErr                (* (nil, err): nothing contacted *)
| SPanic              (* a goroutine of the call panicked: the process dies *)
| SRun (r : run).

Definition max_list (l : list N) : N := fold_right N.max 0 l.

Definition send_bid_gen (compare : bool) (o : oracles) (a : call_args) (view : list peer) (D : N) : result :=
  match construct o a with
  | Panic => SPanic
  | Err _ => SErr                                           (* return nil, err *)
  | Ok sent =>
      match get_peers TProvider view with   (* GetPeers(Query{Type: PeerTypeProvider}) *)
      | [] => SErr                                          (* "no providers available" *)
      | provs =>
          let gs := map (provider_run compare (verify o) sent D) provs in
          if existsb crashed gs then SPanic
          else SRun (mkRun sent
                           (map (fun g => (g_addr g, g_written g)) gs)
                           (flat_map delivery gs)
                           (max_list (map g_finish gs)))       (* wg.Wait(); close(ch) *)
      end
  end.

(* the code as it is now *)
Definition send_bid := send_bid_gen true.
(* before 93c1731: the embedded bid was never compared with the bid sent *)
Definition send_bid_v0 := send_bid_gen false.

(* ============================================================================================ *)
(* Operational model: every blocking call of the goroutine, with the context checked where the
   transport checks it.

   [send_bid] above is the reading for a call made BEFORE its deadline (0 < D) on a transport
   whose three operations all return when the context ends; it postulates that a blocked
   operation returns at D ([finish_time]).  Below nothing of the kind is postulated: whether
   NewStream / WriteMsg / ReadMsg return when the context ends is a property of the transport
   ([transport], one flag per operation), an already expired context (D = 0) is seen by NewStream,
   an operation that does not watch the context returns when its scripted event happens -- after
   the deadline, or never.  [send_bid_op ctx_transport] coincides with [send_bid] for 0 < D
   (proofs/PreconfBidder_proofs.v: [op_is_send_bid]).

   All three calls are issued at time 0 (the call time): NewStream and WriteMsg complete at once
   unless the script says they are the failing / blocked operation (RNewStreamErr, RWriteErr: at
   [p_time]); ReadMsg completes at [p_time] (never for RSilence).  An event exactly at D loses
   against the context in an operation that watches it ([D <=? t]); in the goroutine's final
   select both cases can be ready only at or after D, where Go picks either one: [pick_send]. *)
(* ============================================================================================ *)
Inductive time := At (t : N) | Never.

Record transport := mkTransport {
  ctx_newstream : bool;   (* Streamer.NewStream returns when the context ends *)
  ctx_write     : bool;   (* Stream.WriteMsg does *)
  ctx_read      : bool;   (* Stream.ReadMsg does *)
  pick_send     : bool    (* final select with the context already done: the send is chosen *)
}.
(* pkg/p2p/libp2p as it is: host.NewStream(ctx, ...), select on ctx.Done() in WriteMsg and ReadMsg *)
Definition ctx_transport : transport := mkTransport true true true false.

Inductive opres :=
| Scripted (t : N)     (* the operation returns its scripted result at t *)
| CtxErr (t : N)       (* it returns the context's error at t *)
| Blocks.              (* it never returns *)

(* an operation issued at time 0 whose scripted event happens at [ev] (None: never) *)
Definition wait (watches_ctx : bool) (D : N) (ev : option N) : opres :=
  match ev with
  | Some t => if watches_ctx && (D <=? t) then CtxErr D else Scripted t
  | None => if watches_ctx then CtxErr D else Blocks
  end.

Record otrace := mkO { x_addr : bytes; x_written : list bid; x_out : gout; x_finish : time }.

Definition provider_op (compare : bool) (tr : transport) (vf : commitment -> outcome bytes)
           (sent : bid) (D : N) (p : peer) : otrace :=
  let ad := p_addr p in
  (* providerStream, err := p.streamer.NewStream(ctx, provider, nil, p.preconfStream()) *)
  match wait (ctx_newstream tr) D (match p_reply p with RNewStreamErr => Some (p_time p) | _ => Some 0 end) with
  | Blocks => mkO ad [] GNothing Never
  | CtxErr t => mkO ad [] GNothing (At t)                          (* err != nil: return *)
  | Scripted t =>
    match p_reply p with
    | RNewStreamErr => mkO ad [] GNothing (At t)                   (* err != nil: return *)
    | _ =>
      (* err = providerStream.WriteMsg(ctx, signedBid) *)
      match wait (ctx_write tr) D (match p_reply p with RWriteErr => Some (p_time p) | _ => Some 0 end) with
      | Blocks => mkO ad [sent] GNothing Never
      | CtxErr t => mkO ad [sent] GNothing (At t)                  (* err != nil: Reset, return *)
      | Scripted t =>
        match p_reply p with
        | RWriteErr => mkO ad [sent] GNothing (At t)               (* err != nil: Reset, return *)
        | _ =>
          (* err = providerStream.ReadMsg(ctx, preConfirmation) *)
          match wait (ctx_read tr) D (match p_reply p with RSilence => None | _ => Some (p_time p) end) with
          | Blocks => mkO ad [sent] GNothing Never
          | CtxErr t => mkO ad [sent] GNothing (At t)              (* err != nil: Reset, return *)
          | Scripted t =>
            match p_reply p with
            | RFrames c _ =>
                (* Close; providerAddress, err := p.signer.VerifyPreConfirmation(preConfirmation) *)
                match vf c with
                | Panic => mkO ad [sent] GCrash (At t)
                | Err _ => mkO ad [sent] GNothing (At t)
                | Ok a =>
                    if compare && negb (obid_eqb (c_bid c) (Some sent))
                    then mkO ad [sent] GNothing (At t)             (* not for the bid sent: return *)
                    else
                      (* select { case preConfirmations <- preConfirmation: ; case <-ctx.Done(): } *)
                      if (t <? D) || pick_send tr
                      then mkO ad [sent] (GDeliver (set_prov c a)) (At t)
                      else mkO ad [sent] GNothing (At t)
                end
            | _ => mkO ad [sent] GNothing (At t)                   (* err != nil: Reset, return *)
            end
          end
        end
      end
    end
  end.

Definition x_crashed (g : otrace) : bool := match x_out g with GCrash => true | _ => false end.
Definition x_delivery (g : otrace) : list (N * commitment) :=
  match x_out g, x_finish g with GDeliver c, At t => [(t, c)] | _, _ => [] end.

Definition tmax (a b : time) : time :=
  match a, b with At u, At v => At (N.max u v) | _, _ => Never end.
Definition tmax_list (l : list time) : time := fold_right tmax (At 0) l.

Record xrun := mkXRun {
  xr_sent      : bid;
  xr_contacted : list (bytes * list bid);
  xr_delivered : list (N * commitment);
  xr_close     : time                        (* Never: the channel is never closed *)
}.
Inductive xresult := XErr | XPanic | XRun (r : xrun).

Definition send_bid_op_gen (compare : bool) (tr : transport) (o : oracles) (a : call_args)
           (view : list peer) (D : N) : xresult :=
  match construct o a with
  | Panic => XPanic
  | Err _ => XErr
  | Ok sent =>
      match get_peers TProvider view with
      | [] => XErr
      | provs =>
          let gs := map (provider_op compare tr (verify o) sent D) provs in
          if existsb x_crashed gs then XPanic
          else XRun (mkXRun sent
                            (map (fun g => (x_addr g, x_written g)) gs)
                            (flat_map x_delivery gs)
                            (tmax_list (map x_finish gs)))      (* wg.Wait(); close(ch) *)
      end
  end.

Definition send_bid_op := send_bid_op_gen true.

(* ============================================================================================ *)
(* The operational model with latencies: opening a stream and writing the bid take time, so the
   deadline can overtake either of them (not only find the context expired at call time).
   [send_bid_lat] with all latencies 0 is [send_bid_op] (proofs: [lat0_is_op]).

   Per provider [lat p] gives how long NewStream takes to open the stream ([open_d]) and how long
   WriteMsg then takes ([write_d]).  The three operations are issued one after the other: NewStream
   at time 0, WriteMsg when the stream is open, ReadMsg when the write has completed; the reply
   event of the script happens at [p_time p] (or when ReadMsg is issued, if that is later).
   [l_ops] records which operations the goroutine issued, in order. *)
(* ============================================================================================ *)
Record latency := mkLat { open_d : N; write_d : N }.

Inductive oper := OpNewStream | OpWrite | OpRead | OpVerify.

(* an operation issued at [s] whose scripted completion is at [ev] (at or after s; None: never) *)
Definition wait_from (watches_ctx : bool) (D s : N) (ev : option N) : opres :=
  match ev with
  | Some t => if watches_ctx && (D <=? t) then CtxErr (N.max s D) else Scripted t
  | None => if watches_ctx then CtxErr (N.max s D) else Blocks
  end.

Record ltrace := mkL { l_addr : bytes; l_ops : list oper; l_written : list bid; l_out : gout; l_finish : time }.

Definition provider_lat (compare : bool) (tr : transport) (lat : peer -> latency)
           (vf : commitment -> outcome bytes) (sent : bid) (D : N) (p : peer) : ltrace :=
  let ad := p_addr p in
  (* providerStream, err := p.streamer.NewStream(ctx, provider, nil, p.preconfStream()) *)
  match wait_from (ctx_newstream tr) D 0
          (match p_reply p with RNewStreamErr => Some (p_time p) | _ => Some (open_d (lat p)) end) with
  | Blocks => mkL ad [OpNewStream] [] GNothing Never
  | CtxErr t => mkL ad [OpNewStream] [] GNothing (At t)
  | Scripted s1 =>
    match p_reply p with
    | RNewStreamErr => mkL ad [OpNewStream] [] GNothing (At s1)
    | _ =>
      (* err = providerStream.WriteMsg(ctx, signedBid) *)
      match wait_from (ctx_write tr) D s1
              (match p_reply p with RWriteErr => Some (N.max s1 (p_time p)) | _ => Some (s1 + write_d (lat p)) end) with
      | Blocks => mkL ad [OpNewStream; OpWrite] [sent] GNothing Never
      | CtxErr t => mkL ad [OpNewStream; OpWrite] [sent] GNothing (At t)
      | Scripted s2 =>
        match p_reply p with
        | RWriteErr => mkL ad [OpNewStream; OpWrite] [sent] GNothing (At s2)
        | _ =>
          (* err = providerStream.ReadMsg(ctx, preConfirmation) *)
          match wait_from (ctx_read tr) D s2
                  (match p_reply p with RSilence => None | _ => Some (N.max s2 (p_time p)) end) with
          | Blocks => mkL ad [OpNewStream; OpWrite; OpRead] [sent] GNothing Never
          | CtxErr t => mkL ad [OpNewStream; OpWrite; OpRead] [sent] GNothing (At t)
          | Scripted t =>
            match p_reply p with
            | RFrames c _ =>
                (* providerAddress, err := p.signer.VerifyPreConfirmation(preConfirmation) *)
                let ops := [OpNewStream; OpWrite; OpRead; OpVerify] in
                match vf c with
                | Panic => mkL ad ops [sent] GCrash (At t)
                | Err _ => mkL ad ops [sent] GNothing (At t)
                | Ok a =>
                    if compare && negb (obid_eqb (c_bid c) (Some sent))
                    then mkL ad ops [sent] GNothing (At t)
                    else if (t <? D) || pick_send tr
                         then mkL ad ops [sent] (GDeliver (set_prov c a)) (At t)
                         else mkL ad ops [sent] GNothing (At t)
                end
            | _ => mkL ad [OpNewStream; OpWrite; OpRead] [sent] GNothing (At t)
            end
          end
        end
      end
    end
  end.

Definition l_crashed (g : ltrace) : bool := match l_out g with GCrash => true | _ => false end.
Definition l_delivery (g : ltrace) : list (N * commitment) :=
  match l_out g, l_finish g with GDeliver c, At t => [(t, c)] | _, _ => [] end.

Record lrun := mkLRun {
  lr_sent      : bid;
  lr_traces    : list ltrace;                (* one per provider the topology returned, in order *)
  lr_delivered : list (N * commitment);
  lr_close     : time
}.
Inductive lresult := LErr | LPanic | LRun (r : lrun).

Definition send_bid_lat (tr : transport) (lat : peer -> latency) (o : oracles) (a : call_args)
           (view : list peer) (D : N) : lresult :=
  match construct o a with
  | Panic => LPanic
  | Err _ => LErr
  | Ok sent =>
      match get_peers TProvider view with
      | [] => LErr
      | provs =>
          let gs := map (provider_lat true tr lat (verify o) sent D) provs in
          if existsb l_crashed gs then LPanic
          else LRun (mkLRun sent gs (flat_map l_delivery gs) (tmax_list (map l_finish gs)))
      end
  end.
