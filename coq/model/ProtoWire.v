(* The protobuf wire format of the messages of this repository that travel on the three protocols
   (messages/handshake/v1, messages/discovery/v1, messages/preconfirmation/v1; gen/go/.../*.pb.go)
   as protobuf-go marshals and unmarshals them:
     proto.Marshal   : fields in field-number order, proto3 zero values omitted, strings checked
                       for UTF-8, int64 as the 64-bit two's complement varint, a set message
                       field always written (even when empty), repeated message elements always
                       written, an unset message field not written;
     proto.Unmarshal : unknown field numbers and known numbers with another wire type skipped,
                       last occurrence of a scalar wins, strings checked for UTF-8, a repeated
                       field appends, a second occurrence of a message field merges into the first.
   Field lists, tags, varints and utf8.Valid are lib/Varint.v; [tri]/[tfold]/[parse_fields] are
   model/Framing.v.  Definitions only; proofs are in proofs/ProtoWire_proofs.v. *)
From Coq Require Import List NArith ZArith Bool.
From MevVerif Require Import lib.Bytes lib.Varint model.Framing.
Import ListNotations.
Open Scope N_scope.

(* --- scalar kinds and values ------------------------------------------------------------- *)
Inductive kind := KStr | KBytes | KInt64.
Inductive fval := VB (b : bytes) | VI (z : Z).
Definition schema := list (N * kind).          (* (field number, kind) in declaration order *)

(* int64 <-> the 64-bit varint payload *)
Definition int64_to_u64 (c : Z) : N := Z.to_N (c mod 18446744073709551616)%Z.
Definition u64_to_int64 (v : N) : Z :=
  let w := (Z.of_N v mod 18446744073709551616)%Z in
  if (w <? 9223372036854775808)%Z then w else (w - 18446744073709551616)%Z.
Definition int64_range (c : Z) : Prop := (-9223372036854775808 <= c < 9223372036854775808)%Z.

Definition default_of (k : kind) : fval := match k with KInt64 => VI 0 | _ => VB [] end.
Definition defaults (sc : schema) : list fval := map (fun e => default_of (snd e)) sc.

(* --- the messages --------------------------------------------------------------------------- *)
(* handshake.v1.HandshakeReq  { string peer_type = 1; string token = 2; bytes sig = 3; } *)
Definition hsreq_sc : schema := [(1, KStr); (2, KStr); (3, KBytes)].
(* handshake.v1.HandshakeResp { bytes observed_address = 1; string peer_type = 2; } *)
Definition hsresp_sc : schema := [(1, KBytes); (2, KStr)].
(* discovery.v1.PeerInfo      { bytes eth_address = 1; bytes underlay = 2; } *)
Definition peerinfo_sc : schema := [(1, KBytes); (2, KBytes)].
(* preconfirmation.v1.Bid { string tx_hash = 1; string bid_amount = 2; int64 block_number = 3;
     bytes digest = 4; bytes signature = 5; int64 decay_start_timestamp = 6;
     int64 decay_end_timestamp = 7; } *)
Definition bid_sc : schema :=
  [(1, KStr); (2, KStr); (3, KInt64); (4, KBytes); (5, KBytes); (6, KInt64); (7, KInt64)].
(* preconfirmation.v1.PreConfirmation { Bid bid = 1; bytes digest = 2; bytes signature = 3;
     bytes provider_address = 4; } : the scalar part *)
Definition preconf_rest_sc : schema := [(2, KBytes); (3, KBytes); (4, KBytes)].

(* --- a message made of scalar fields only: one value per schema entry ------------------------ *)
Definition enc_one (num : N) (k : kind) (v : fval) : list field :=
  match k, v with
  | KInt64, VI z => if (z =? 0)%Z then [] else [(num, WVarint (int64_to_u64 z))]
  | KStr, VB b => if is_nil b then [] else [(num, WLen b)]
  | KBytes, VB b => if is_nil b then [] else [(num, WLen b)]
  | _, _ => []
  end.
Fixpoint flat_fields (sc : schema) (m : list fval) : list field :=
  match sc, m with
  | (num, k) :: sc', v :: m' => enc_one num k v ++ flat_fields sc' m'
  | _, _ => []
  end.
Definition enc_flat (sc : schema) (m : list fval) : bytes := enc_fields (flat_fields sc m).

(* what Marshal checks (and what makes a value list a message of the schema at all) *)
Definition val_ok (k : kind) (v : fval) : bool :=
  match k, v with
  | KStr, VB b => utf8_valid b
  | KBytes, VB _ => true
  | KInt64, VI _ => true
  | _, _ => false
  end.
Fixpoint flat_ok (sc : schema) (m : list fval) : bool :=
  match sc, m with
  | [], [] => true
  | (_, k) :: sc', v :: m' => val_ok k v && flat_ok sc' m'
  | _, _ => false
  end.
(* the int64 fields are int64 values *)
Definition val_range (v : fval) : Prop := match v with VI z => int64_range z | VB _ => True end.

Definition marshal_flat (sc : schema) (m : list fval) : option bytes :=
  if flat_ok sc m then Some (enc_flat sc m) else None.

(* Unmarshal: one decoded field applied to the message being filled *)
Inductive conv := CSet (v : fval) | CSkip | CBad.
Definition conv_of (k : kind) (w : wval) : conv :=
  match k, w with
  | KInt64, WVarint v => CSet (VI (u64_to_int64 v))
  | KStr, WLen b => if utf8_valid b then CSet (VB b) else CBad
  | KBytes, WLen b => CSet (VB b)
  | _, _ => CSkip                                  (* another wire type: kept as unknown field *)
  end.
Definition tmap {A B} (g : A -> B) (t : tri A) : tri B :=
  match t with TOk a => TOk (g a) | TBad => TBad | TUnspec => TUnspec end.
Fixpoint flat_apply (sc : schema) (m : list fval) (f : field) : tri (list fval) :=
  match sc, m with
  | (num, k) :: sc', v :: m' =>
      if fst f =? num then
        match conv_of k (snd f) with CSet v' => TOk (v' :: m') | CSkip => TOk m | CBad => TBad end
      else tmap (cons v) (flat_apply sc' m' f)
  | _, _ => TOk m                                  (* unknown field number: skipped *)
  end.
(* Unmarshal INTO an existing message (merge), and into a fresh one *)
Definition decode_flat_into (sc : schema) (m : list fval) (b : bytes) : tri (list fval) :=
  tbind (parse_fields b) (fun fs => tfold (flat_apply sc) fs m).
Definition decode_flat (sc : schema) (b : bytes) : tri (list fval) :=
  decode_flat_into sc (defaults sc) b.

(* --- discovery.v1.PeerList { repeated PeerInfo peers = 1; } ---------------------------------- *)
Definition peers_fields (ps : list (list fval)) : list field :=
  map (fun p => (1, WLen (enc_flat peerinfo_sc p))) ps.
Definition enc_peers (ps : list (list fval)) : bytes := enc_fields (peers_fields ps).
Definition marshal_peers (ps : list (list fval)) : option bytes :=
  if forallb (flat_ok peerinfo_sc) ps then Some (enc_peers ps) else None.
Definition peers_apply (acc : list (list fval)) (f : field) : tri (list (list fval)) :=
  if fst f =? 1 then
    match snd f with
    | WLen b => tbind (decode_flat peerinfo_sc b) (fun p => TOk (acc ++ [p]))
    | _ => TOk acc
    end
  else TOk acc.
Definition decode_peers (b : bytes) : tri (list (list fval)) :=
  tbind (parse_fields b) (fun fs => tfold peers_apply fs []).

(* --- preconfirmation.v1.PreConfirmation ------------------------------------------------------- *)
Record preconf := { pc_bid : option (list fval); pc_rest : list fval }.
Definition empty_preconf : preconf := {| pc_bid := None; pc_rest := defaults preconf_rest_sc |}.
Definition preconf_fields (p : preconf) : list field :=
  (match pc_bid p with Some b => [(1, WLen (enc_flat bid_sc b))] | None => [] end) ++
  flat_fields preconf_rest_sc (pc_rest p).
Definition enc_preconf (p : preconf) : bytes := enc_fields (preconf_fields p).
Definition preconf_ok (p : preconf) : bool :=
  (match pc_bid p with Some b => flat_ok bid_sc b | None => true end) &&
  flat_ok preconf_rest_sc (pc_rest p).
Definition marshal_preconf (p : preconf) : option bytes :=
  if preconf_ok p then Some (enc_preconf p) else None.
Definition preconf_apply (p : preconf) (f : field) : tri preconf :=
  if fst f =? 1 then
    match snd f with
    | WLen b =>
        let cur := match pc_bid p with Some x => x | None => defaults bid_sc end in
        tbind (decode_flat_into bid_sc cur b) (fun x => TOk {| pc_bid := Some x; pc_rest := pc_rest p |})
    | _ => TOk p
    end
  else tmap (fun r => {| pc_bid := pc_bid p; pc_rest := r |}) (flat_apply preconf_rest_sc (pc_rest p) f).
Definition decode_preconf (b : bytes) : tri preconf :=
  tbind (parse_fields b) (fun fs => tfold preconf_apply fs empty_preconf).

(* --- all of them behind one type (what the correspondence driver exchanges) ------------------- *)
(* kinds: 0 HandshakeReq, 1 HandshakeResp, 2 PeerInfo, 3 Bid, 4 PeerList, 5 PreConfirmation *)
Inductive wmsg :=
  | MFlat (k : N) (vs : list fval)
  | MPeers (ps : list (list fval))
  | MPreconf (p : preconf).
Definition flat_schema (k : N) : schema :=
  match k with 0 => hsreq_sc | 1 => hsresp_sc | 2 => peerinfo_sc | _ => bid_sc end.
Definition wire_marshal (m : wmsg) : option bytes :=
  match m with
  | MFlat k vs => marshal_flat (flat_schema k) vs
  | MPeers ps => marshal_peers ps
  | MPreconf p => marshal_preconf p
  end.
Definition wire_unmarshal (k : N) (b : bytes) : tri wmsg :=
  if k =? 4 then tmap MPeers (decode_peers b)
  else if k =? 5 then tmap MPreconf (decode_preconf b)
  else tmap (MFlat k) (decode_flat (flat_schema k) b).

(* --- the same with named fields (readable statements) ---------------------------------------- *)
Record bid := { b_tx_hash : bytes; b_amount : bytes; b_block : Z; b_digest : bytes; b_sig : bytes;
                b_decay_start : Z; b_decay_end : Z }.
Definition bid_vals (b : bid) : list fval :=
  [VB (b_tx_hash b); VB (b_amount b); VI (b_block b); VB (b_digest b); VB (b_sig b);
   VI (b_decay_start b); VI (b_decay_end b)].
Definition bid_of_vals (vs : list fval) : option bid :=
  match vs with
  | [VB t; VB a; VI n; VB d; VB s; VI ds; VI de] =>
      Some {| b_tx_hash := t; b_amount := a; b_block := n; b_digest := d; b_sig := s;
              b_decay_start := ds; b_decay_end := de |}
  | _ => None
  end.
Definition encode_bid (b : bid) : bytes := enc_flat bid_sc (bid_vals b).
Definition decode_bid (l : bytes) : tri bid :=
  tbind (decode_flat bid_sc l) (fun vs => match bid_of_vals vs with Some b => TOk b | None => TBad end).
Definition bid_in_range (b : bid) : Prop :=
  utf8_valid (b_tx_hash b) = true /\ utf8_valid (b_amount b) = true /\
  int64_range (b_block b) /\ int64_range (b_decay_start b) /\ int64_range (b_decay_end b).

Record hsreq := { hq_peer_type : bytes; hq_token : bytes; hq_sig : bytes }.
Definition hsreq_vals (h : hsreq) : list fval := [VB (hq_peer_type h); VB (hq_token h); VB (hq_sig h)].
Definition hsreq_of_vals (vs : list fval) : option hsreq :=
  match vs with
  | [VB p; VB t; VB s] => Some {| hq_peer_type := p; hq_token := t; hq_sig := s |}
  | _ => None
  end.
Definition encode_hsreq (h : hsreq) : bytes := enc_flat hsreq_sc (hsreq_vals h).
Definition decode_hsreq (l : bytes) : tri hsreq :=
  tbind (decode_flat hsreq_sc l) (fun vs => match hsreq_of_vals vs with Some h => TOk h | None => TBad end).

Record hsresp := { hp_observed : bytes; hp_peer_type : bytes }.
Definition hsresp_vals (h : hsresp) : list fval := [VB (hp_observed h); VB (hp_peer_type h)].
Definition hsresp_of_vals (vs : list fval) : option hsresp :=
  match vs with
  | [VB o; VB p] => Some {| hp_observed := o; hp_peer_type := p |}
  | _ => None
  end.
Definition encode_hsresp (h : hsresp) : bytes := enc_flat hsresp_sc (hsresp_vals h).
Definition decode_hsresp (l : bytes) : tri hsresp :=
  tbind (decode_flat hsresp_sc l) (fun vs => match hsresp_of_vals vs with Some h => TOk h | None => TBad end).
