(* C15 / C06 -- pkg/discovery/discovery.go as ONE machine: the list handler (handlePeersList), the
   dispatcher loop (checkAndAddPeers), its weighted semaphore and the worker goroutines, over the
   topology of model/Topology.v.  Definitions only.

   Actors and their program points
     handler h     for _, p := range peers.Peers {
                     if d.topo.IsConnected(BytesToAddress(p.EthAddress)) { continue }      DCheck h
                     select { case d.checkPeers <- p:                                     DHandoff h
                              case <-ctx.Done(): return ctx.Err() } }                      DGiveUp h
                   return nil
     dispatcher    peer := <-d.checkPeers                       (the receiving side of DHandoff)
                   d.sem.Acquire(Background, 1)                 DAcquire  (returns once held < cap)
                   go func() { defer d.sem.Release(1)
                               p, err := d.streamer.Connect(Background, peer.Underlay)   (XDial)
                               if err != nil { return }                                   DDone u (DialErr r)
                               d.topo.AddPeers(p) }()                                      DDone u (DialOk p)
   The channel is unbuffered: a hand-off needs the dispatcher at its receive, i.e. not holding a peer
   (d_pending = None).  While the dispatcher waits in Acquire every handler that reaches its select is
   stuck there until its own context ends.  Weighted.Release panics when more is released than is
   held: that is the explicit Panic outcome of DDone.
   Why a dial fails is decided inside Service.Connect (undecodable underlay, no addresses, own id,
   blocked peer, unreachable host, refused handshake); the machine takes the answer as the argument
   of DDone.  An event that is not enabled in the current state is a no-op, so arbitrary event lists
   are arbitrary schedules. *)
From Coq Require Import List NArith ZArith Bool.
From MevVerif Require Import lib.Bytes model.Topology.
Import ListNotations.
Open Scope N_scope.

Inductive refusal := RUndecodable | RSelf | RBlocked | RUnreachable.
Inductive dial_result := DialOk (p : peer) | DialErr (r : refusal).
Inductive skip_reason := SkConnected | SkCancelled.

(* a running handlePeersList call: the entries not yet looked at (head = the current one), whether it
   sits in its select (the IsConnected answer for the head was false), whether its context has ended.
   h_rem = [] : the handler has returned *)
Record handler := mkH { h_rem : list wire_record; h_offer : bool; h_cancel : bool }.

Record dstate := mkD {
  d_topo : state;                           (* Topology.state; its inflight field is not used here *)
  d_handlers : list (N * handler);
  d_pending : option wire_record;           (* the dispatcher holds this peer and waits in sem.Acquire *)
  d_flying : list bytes;                    (* Connect calls in progress, one worker goroutine each *)
  d_held : N;                               (* the semaphore's count *)
  (* history (ghost) *)
  d_received : list wire_record;            (* every entry of every list that was read *)
  d_skipped : list (wire_record * skip_reason);
  d_dialled : list wire_record;             (* entries for which Connect was called *)
  d_finished : list (bytes * dial_result)   (* Connect calls that returned *)
}.
Definition dinit : dstate := mkD init [] None [] 0 [] [] [] [].

Inductive deffect :=
| XCheck (h : N) (known : bool)             (* IsConnected answered [known] to handler h *)
| XSkip (h : N) (e : wire_record) (r : skip_reason)
| XDial (u : bytes)                         (* streamer.Connect(ctx, u) called *)
| XAdd (p : peer)                           (* topo.AddPeers(p) called by a worker *)
| XReturn (h : N) (code : N).               (* handler h returned: 0 nil, 1 read failed, 2 ctx.Err() *)

Inductive devent :=
| DList (h : N) (readok : bool) (entries : list wire_record)
| DCheck (h : N)
| DHandoff (h : N)
| DCancel (h : N)                           (* the context of handler h ends *)
| DGiveUp (h : N)                           (* handler h, in its select with an ended context, returns *)
| DAcquire
| DDone (u : bytes) (r : dial_result)
| DTopo (e : event).                        (* Connected / AddPeers / Disconnected on the same topology *)

Fixpoint find_h (h : N) (hs : list (N * handler)) : option handler :=
  match hs with
  | [] => None
  | (d, k) :: r => if d =? h then Some k else find_h h r
  end.
Fixpoint set_h (h : N) (k : handler) (hs : list (N * handler)) : list (N * handler) :=
  match hs with
  | [] => []
  | (d, k0) :: r => if d =? h then (d, k) :: r else (d, k0) :: set_h h k r
  end.

Definition with_handlers (s : dstate) (hs : list (N * handler)) : dstate :=
  mkD (d_topo s) hs (d_pending s) (d_flying s) (d_held s) (d_received s) (d_skipped s) (d_dialled s) (d_finished s).
Definition ret0 (h : N) (rest : list wire_record) : list deffect :=
  match rest with [] => [XReturn h 0] | _ => [] end.
Definition flying (u : bytes) (s : dstate) : bool := existsb (bytes_eqb u) (d_flying s).

Definition topo_event (e : event) : bool :=
  match e with Connected _ _ _ | AddPeers _ | Disconnected _ => true | _ => false end.

Definition dstep (cap : N) (s : dstate) (e : devent) : outcome (dstate * list deffect) :=
  match e with
  | DList h readok entries =>
      match find_h h (d_handlers s) with
      | Some _ => Ok (s, [])
      | None =>
          if negb readok then Ok (s, [XReturn h 1])
          else Ok (mkD (d_topo s) ((h, mkH entries false false) :: d_handlers s) (d_pending s) (d_flying s) (d_held s)
                       (d_received s ++ entries) (d_skipped s) (d_dialled s) (d_finished s),
                   ret0 h entries)
      end
  | DCheck h =>
      match find_h h (d_handlers s) with
      | Some (mkH (x :: rest) false c) =>
          if is_connected (addr_of_bytes (fst x)) (d_topo s)
          then Ok (mkD (d_topo s) (set_h h (mkH rest false c) (d_handlers s)) (d_pending s) (d_flying s) (d_held s)
                       (d_received s) (d_skipped s ++ [(x, SkConnected)]) (d_dialled s) (d_finished s),
                   [XCheck h true; XSkip h x SkConnected] ++ ret0 h rest)
          else Ok (with_handlers s (set_h h (mkH (x :: rest) true c) (d_handlers s)), [XCheck h false])
      | _ => Ok (s, [])
      end
  | DHandoff h =>
      match find_h h (d_handlers s), d_pending s with
      | Some (mkH (x :: rest) true c), None =>
          Ok (mkD (d_topo s) (set_h h (mkH rest false c) (d_handlers s)) (Some x) (d_flying s) (d_held s)
                  (d_received s) (d_skipped s) (d_dialled s) (d_finished s),
              ret0 h rest)
      | _, _ => Ok (s, [])
      end
  | DCancel h =>
      match find_h h (d_handlers s) with
      | Some (mkH rem o _) => Ok (with_handlers s (set_h h (mkH rem o true) (d_handlers s)), [])
      | None => Ok (s, [])
      end
  | DGiveUp h =>
      match find_h h (d_handlers s) with
      | Some (mkH (x :: rest) true true) =>
          Ok (mkD (d_topo s) (set_h h (mkH [] false true) (d_handlers s)) (d_pending s) (d_flying s) (d_held s)
                  (d_received s) (d_skipped s ++ map (fun y => (y, SkCancelled)) (x :: rest)) (d_dialled s) (d_finished s),
              map (fun y => XSkip h y SkCancelled) (x :: rest) ++ [XReturn h 2])
      | _ => Ok (s, [])
      end
  | DAcquire =>
      match d_pending s with
      | Some x =>
          if d_held s <? cap
          then Ok (mkD (d_topo s) (d_handlers s) None (d_flying s ++ [snd x]) (d_held s + 1)
                       (d_received s) (d_skipped s) (d_dialled s ++ [x]) (d_finished s),
                   [XDial (snd x)])
          else Ok (s, [])
      | None => Ok (s, [])
      end
  | DDone u r =>
      if flying u s then
        if d_held s =? 0 then Panic
        else
          let t := match r with DialOk p => add p (d_topo s) | DialErr _ => d_topo s end in
          Ok (mkD t (d_handlers s) (d_pending s) (remove1 u (d_flying s)) (d_held s - 1)
                  (d_received s) (d_skipped s) (d_dialled s) (d_finished s ++ [(u, r)]),
              match r with DialOk p => [XAdd p] | DialErr _ => [] end)
      else Ok (s, [])
  | DTopo ev =>
      if topo_event ev
      then Ok (mkD (fst (step (d_topo s) ev)) (d_handlers s) (d_pending s) (d_flying s) (d_held s)
                   (d_received s) (d_skipped s) (d_dialled s) (d_finished s), [])
      else Ok (s, [])
  end.

(* a whole schedule: final state and the per-event effect lists *)
Fixpoint drun_from (cap : N) (s : dstate) (evs : list devent) : outcome (dstate * list (list deffect)) :=
  match evs with
  | [] => Ok (s, [])
  | e :: r =>
      match dstep cap s e with
      | Ok (s1, eff) =>
          match drun_from cap s1 r with
          | Ok (s2, effs) => Ok (s2, eff :: effs)
          | Err c => Err c
          | Panic => Panic
          end
      | Err c => Err c
      | Panic => Panic
      end
  end.
Definition drun (cap : N) (evs : list devent) := drun_from cap dinit evs.

(* --- specification vocabulary ---------------------------------------------------------------------- *)
(* entries that still wait: in a handler's list or in the dispatcher's hand *)
Definition rems (hs : list (N * handler)) : list wire_record := flat_map (fun x => h_rem (snd x)) hs.
Definition waiting (s : dstate) : list wire_record :=
  rems (d_handlers s) ++ match d_pending s with Some x => [x] | None => [] end.
(* nothing left to do: every handler has returned, the dispatcher is at its receive, no worker runs *)
Definition quiescent (s : dstate) : bool :=
  match waiting s, d_flying s with [], [] => true | _, _ => false end.
(* weighted count: equality for every weight function is equality of multisets *)
Fixpoint wsum {A : Type} (f : A -> nat) (l : list A) : nat :=
  match l with [] => O | a :: r => (f a + wsum f r)%nat end.

(* what is left to do, in steps: 4 per entry not yet looked at (check, hand-off, acquire, done), one
   less once its check is made, 2 for the peer in the dispatcher's hand, 1 per running Connect *)
Definition h_measure (k : handler) : nat :=
  match h_rem k with [] => O | _ => (4 * length (h_rem k) - (if h_offer k then 1 else 0))%nat end.
Definition measure (s : dstate) : nat :=
  (wsum (fun x => h_measure (snd x)) (d_handlers s)
   + match d_pending s with Some _ => 2 | None => 0 end + length (d_flying s))%nat.

(* --- the driver's schedules ------------------------------------------------------------------------
   The correspondence driver cannot stop the hand-off or the Acquire: it parks IsConnected and Connect
   inside its fakes and cancels contexts.  Its actions are compiled to machine events by running the
   internal steps that are enabled after each action: Acquire when the dispatcher holds a peer and a
   slot is free, the hand-off of the (at most one, the generator sees to that) handler in its select
   when the dispatcher is free, the return of a handler in its select whose context has ended while
   the dispatcher is not free. *)
Inductive gaction :=
| GList (h : N) (readok : bool) (entries : list wire_record)
| GCheck (h : N)
| GCancel (h : N)
| GDone (u : bytes) (r : dial_result)
| GTopo (e : event).

Definition offering (hs : list (N * handler)) : option (N * bool) :=
  match find (fun x => h_offer (snd x) && match h_rem (snd x) with [] => false | _ => true end) hs with
  | Some x => Some (fst x, h_cancel (snd x))
  | None => None
  end.
Definition eager_event (cap : N) (s : dstate) : option devent :=
  match d_pending s with
  | Some _ =>
      if d_held s <? cap then Some DAcquire
      else match offering (d_handlers s) with
           | Some (h, true) => Some (DGiveUp h)
           | _ => None
           end
  | None =>
      match offering (d_handlers s) with
      | Some (h, _) => Some (DHandoff h)
      | None => None
      end
  end.
Fixpoint eager (fuel : nat) (cap : N) (s : dstate) : list devent :=
  match fuel with
  | O => []
  | S n => match eager_event cap s with
           | Some e => match dstep cap s e with
                       | Ok (s1, _) => e :: eager n cap s1
                       | _ => [e]
                       end
           | None => []
           end
  end.
Definition action_event (a : gaction) : devent :=
  match a with
  | GList h ok l => DList h ok l
  | GCheck h => DCheck h
  | GCancel h => DCancel h
  | GDone u r => DDone u r
  | GTopo e => DTopo e
  end.
(* events of one action: the action itself, then the enabled internal steps *)
Definition action_events (cap : N) (s : dstate) (a : gaction) : list devent :=
  match dstep cap s (action_event a) with
  | Ok (s1, _) => action_event a :: eager 6 cap s1
  | _ => [action_event a]
  end.

(* the machine events of a whole driver schedule *)
Fixpoint gsched (cap : N) (s : dstate) (l : list gaction) : list devent :=
  match l with
  | [] => []
  | a :: r => action_events cap s a ++
              match drun_from cap s (action_events cap s a) with
              | Ok (s1, _) => gsched cap s1 r
              | _ => []
              end
  end.
Definition xdials (l : list deffect) : list bytes :=
  flat_map (fun e => match e with XDial u => [u] | _ => [] end) l.
