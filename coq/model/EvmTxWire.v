(* The bytes the signer signs for the transaction of model/EvmTx.v (EIP-1559, transaction type 2):
   0x02 followed by the RLP list [chain id, nonce, tip cap, fee cap, gas, to, value, data, access list]
   (go-ethereum: types.londonSigner.Hash = prefixedRlpHash(0x02, ...)); the access list of the
   transactions evmclient builds is empty.  None where go-ethereum has no encoding: a negative
   big integer, a destination that is not 20 bytes long, a payload of 2^64 bytes or more.
   Definitions only. *)
From Coq Require Import List NArith ZArith Bool Arith.
From MevVerif Require Import lib.Bytes lib.Rlp model.EvmTx.
Import ListNotations.
Open Scope N_scope.

Definition z_item (z : Z) : option item :=
  if (z <? 0)%Z then None else Some (rlp_uint (Z.to_N z)).

(* a nil destination is the empty string; an address is its 20 bytes *)
Definition to_item (t : option bytes) : option item :=
  match t with
  | None => Some (rlp_bytes [])
  | Some a => if Nat.eqb (length a) 20 then Some (rlp_bytes a) else None
  end.

Definition payload_items (t : dyntx) : option (list item) :=
  match z_item (tx_chain t), z_item (tx_tip t), z_item (tx_feecap t), to_item (tx_to t), z_item (tx_value t) with
  | Some c, Some tp, Some fc, Some dst, Some v =>
      Some [c; rlp_uint (tx_nonce t); tp; fc; rlp_uint (tx_gas t); dst; v; rlp_bytes (tx_data t); rlp_list []]
  | _, _, _, _, _ => None
  end.

Definition signing_payload (t : dyntx) : option bytes :=
  match payload_items t with
  | Some l => match encode (rlp_list l) with Some b => Some (2 :: b) | None => None end
  | None => None
  end.
