(* Model of pkg/contracts/provider_registry/registry.go and
   pkg/contracts/bidder_registry/bidder_registry.go (the two files are the same code up to the
   method names), and of the stake/prepay glue of pkg/rpc/provider/service.go and
   pkg/rpc/bidder/service.go.  Definitions only.

   The evm client (evmclient.Interface) is an oracle: every function below takes the answer
   the client gives to each request it may make, and returns the list of requests actually
   made (in order) together with the Go result.  Keccak-256 is an argument [kec]. *)
From Coq Require Import String List NArith ZArith Bool.
From MevVerif Require Import lib.Bytes lib.Abi.
Import ListNotations.
Open Scope N_scope.

(* --- the oracle's answers ------------------------------------------------------------------ *)
Inductive callres := CErr | CBytes (b : bytes).                 (* client.Call *)
Inductive sendres := SErr | SHash (h : bytes).                  (* client.Send *)
(* client.WaitForReceipt: an error (wait failure, cancelled transaction, cancelled context),
   a nil receipt without error, or a receipt with its status *)
Inductive receiptres := WErr | WNil | WReceipt (status : N).

(* --- requests ---------------------------------------------------------------------------------- *)
(* evmclient.TxRequest: To, Value (nil or an integer), CallData; [tx_gas] says whether any of
   GasPrice / GasLimit / GasFeeCap was set *)
Record txreq := { tx_to : bytes; tx_value : option Z; tx_data : bytes; tx_gas : bool }.

Inductive effect := ECall (r : txreq) | ESend (r : txreq) | EWait (h : bytes).

(* projections of a request list *)
Definition sends (t : list effect) : list txreq :=
  flat_map (fun e => match e with ESend r => [r] | _ => [] end) t.
Definition calls (t : list effect) : list txreq :=
  flat_map (fun e => match e with ECall r => [r] | _ => [] end) t.

(* --- which registry ------------------------------------------------------------------------------ *)
(* names given to ABI.Pack / ABI.Unpack in the three methods *)
Record registry := {
  r_register : bytes;                          (* RegisterProvider / PrepayAllowance : Pack *)
  r_min : bytes; r_min_unpack : bytes;         (* GetMinStake / GetMinAllowance : Pack, Unpack *)
  r_stake : bytes; r_stake_unpack : bytes }.   (* GetStake / GetAllowance : Pack, Unpack *)

(* The names as they are written in the two packages.  They are literal here so that the model
   and the checker keep running whatever happens to the source; proofs/Registry_proofs.v proves
   ([provider_registry_extracted], [bidder_registry_extracted]) that they are the arguments of
   Pack / Unpack the extractor finds in /repo (gen/Generated.v), so that a change of a name or
   of the place it is used breaks a proof obligation of C11. *)
Definition provider_registry : registry :=
  {| r_register := bos "registerAndStake";
     r_min := bos "minStake"; r_min_unpack := bos "minStake";
     r_stake := bos "checkStake"; r_stake_unpack := bos "checkStake" |}.

Definition bidder_registry : registry :=
  {| r_register := bos "prepay";
     r_min := bos "minAllowance"; r_min_unpack := bos "minAllowance";
     r_stake := bos "getAllowance"; r_stake_unpack := bos "getAllowance" |}.

(* types.ReceiptStatusSuccessful (go-ethereum core/types) *)
Definition receipt_status_successful : N := 1.

Section Registry.
  (* Keccak-256, the registry flavour, the configured contract address *)
  Context (kec : bytes -> bytes) (cfg : registry) (reg : bytes).

  Definition read_req (name : bytes) (args : list val) : txreq :=
    {| tx_to := reg; tx_value := None; tx_data := encode_call kec name args; tx_gas := false |}.

  Definition send_req (amount : option Z) : txreq :=
    {| tx_to := reg; tx_value := amount; tx_data := encode_call kec (r_register cfg) [];
       tx_gas := false |}.

  (* GetMinStake / GetMinAllowance: Pack, Call, Unpack, ConvertType *)
  Definition get_min (a : callres) : list effect * option N :=
    ([ECall (read_req (r_min cfg) [])],
     match a with CErr => None | CBytes b => decode_uint256 b end).

  (* GetStake / GetAllowance *)
  Definition get_stake (addr : bytes) (a : callres) : list effect * option N :=
    ([ECall (read_req (r_stake cfg) [VAddress addr])],
     match a with CErr => None | CBytes b => decode_uint256 b end).

  (* CheckProviderRegistered / CheckBidderAllowance: the minimum first; the account's amount
     only when the minimum was obtained; stake.Cmp(minStake) >= 0 *)
  Definition check (addr : bytes) (a_min a_stake : callres) : list effect * bool :=
    let (t1, m) := get_min a_min in
    match m with
    | None => (t1, false)
    | Some mn =>
        let (t2, s) := get_stake addr a_stake in
        match s with
        | None => (t1 ++ t2, false)
        | Some st => (t1 ++ t2, mn <=? st)
        end
    end.

  (* RegisterProvider / PrepayAllowance.  Error classes: 1 Send failed, 2 WaitForReceipt
     failed, 3 mined with a status other than successful.  A nil receipt with a nil error
     would be dereferenced: Panic. *)
  Definition register (amount : option Z) (s : sendres) (w : receiptres) : list effect * outcome unit :=
    match s with
    | SErr => ([ESend (send_req amount)], Err 1)
    | SHash h =>
        ([ESend (send_req amount); EWait h],
         match w with
         | WErr => Err 2
         | WNil => Panic
         | WReceipt st => if st =? receipt_status_successful then Ok tt else Err 3
         end)
    end.

  (* the function as it was before the repairs ("fix: report a failed provider stake / prepay transaction as an error"): the failed-status branch
     returned the (nil) error value left over from the preceding call *)
  Definition register_v0 (amount : option Z) (s : sendres) (w : receiptres) : list effect * outcome unit :=
    match s with
    | SErr => ([ESend (send_req amount)], Err 1)
    | SHash h =>
        ([ESend (send_req amount); EWait h],
         match w with
         | WErr => Err 2
         | WNil => Panic
         | WReceipt st => if st =? receipt_status_successful then Ok tt else Ok tt
         end)
    end.

  (* --- the RPC glue: providerapi.Service.RegisterStake / bidderapi.Service.PrepayAllowance ----
     [valid]: verdict of the request validator; [parsed]: result of big.Int.SetString(amount, 10).
     Both are oracles here (the rule itself belongs to C19's model). *)
  Inductive svcres := SvcInvalidArgument | SvcInternal | SvcOk (amount : N) | SvcPanic.

  Definition svc_register (owner : bytes) (valid : bool) (parsed : option Z)
             (s : sendres) (w : receiptres) (a_stake : callres) : list effect * svcres :=
    if negb valid then ([], SvcInvalidArgument)
    else match parsed with
         | None => ([], SvcInvalidArgument)
         | Some amt =>
             let (t1, r) := register (Some amt) s w in
             match r with
             | Err _ => (t1, SvcInternal)
             | Panic => (t1, SvcPanic)
             | Ok _ =>
                 let (t2, st) := get_stake owner a_stake in
                 match st with
                 | None => (t1 ++ t2, SvcInternal)
                 | Some v => (t1 ++ t2, SvcOk v)
                 end
             end
         end.
End Registry.

(* --- several operations on one registry object ---------------------------------------------------
   registryContract / bidderRegistryContract hold the parsed ABI, the contract address, the
   client and the logger; no method assigns to a field.  A sequence of operations on one object
   is therefore the sequence of the single operations, each with the answers the client gives
   at that moment. *)
Inductive request :=
| QCheck (addr : bytes) (a_min a_stake : callres)
| QGetMin (a : callres)
| QGetStake (addr : bytes) (a : callres)
| QRegister (amount : option Z) (s : sendres) (w : receiptres).

Inductive answer := ACheck (b : bool) | ANum (v : option N) | AReg (o : outcome unit).

Definition run_request (kec : bytes -> bytes) (cfg : registry) (reg : bytes) (q : request)
  : list effect * answer :=
  match q with
  | QCheck addr a1 a2 => let (t, b) := check kec cfg reg addr a1 a2 in (t, ACheck b)
  | QGetMin a => let (t, v) := get_min kec cfg reg a in (t, ANum v)
  | QGetStake addr a => let (t, v) := get_stake kec cfg reg addr a in (t, ANum v)
  | QRegister amt s w => let (t, o) := register kec cfg reg amt s w in (t, AReg o)
  end.

Definition session (kec : bytes -> bytes) (cfg : registry) (reg : bytes) (qs : list request)
  : list (list effect * answer) :=
  map (run_request kec cfg reg) qs.

(* --- the receipt as the real client hands it over ---------------------------------------------
   evmclient.EvmClient.WaitForReceipt answers from the client's own table of sent transactions.
   The client's background watcher removes a transaction from that table as soon as it has
   seen its receipt; a caller that starts waiting only after that ([late]) gets the error
   "tx not found", whatever the receipt was.  [w] is what the chain holds for the transaction
   (a receipt with its status; WErr: dropped / replaced, or nothing before the caller's
   context ends). *)
Definition evm_wait (late : bool) (w : receiptres) : receiptres := if late then WErr else w.
