// Correspondence driver for property C11 (stake/allowance checks fail closed; staking reports
// the on-chain outcome).  External test package of provider_registry that also imports
// bidder_registry and the two RPC services, so that one `go test -run TestVerifC11` covers
// both registries.  Everything the code under test asks of the chain goes through a scripted
// evmclient.Interface that records each request.
package registrycontract_test

import (
	"bytes"
	"context"
	"encoding/hex"
	"encoding/json"
	"errors"
	"fmt"
	"io"
	"log/slog"
	"math/big"
	"math/rand"
	"os"
	"sort"
	"strconv"
	"strings"
	"sync"
	"sync/atomic"
	"testing"
	"time"

	"github.com/bufbuild/protovalidate-go"
	"github.com/ethereum/go-ethereum"
	"github.com/ethereum/go-ethereum/accounts/abi"
	"github.com/ethereum/go-ethereum/common"
	"github.com/ethereum/go-ethereum/core/types"
	"github.com/ethereum/go-ethereum/crypto"
	"github.com/ethereum/go-ethereum/rpc"
	bidderregistry "github.com/primevprotocol/contracts-abi/clients/BidderRegistry"
	providerregistry "github.com/primevprotocol/contracts-abi/clients/ProviderRegistry"
	bidderapiv1 "github.com/primevprotocol/mev-commit/gen/go/bidderapi/v1"
	providerapiv1 "github.com/primevprotocol/mev-commit/gen/go/providerapi/v1"
	bidderregistrycontract "github.com/primevprotocol/mev-commit/pkg/contracts/bidder_registry"
	registrycontract "github.com/primevprotocol/mev-commit/pkg/contracts/provider_registry"
	"github.com/primevprotocol/mev-commit/pkg/evmclient"
	"github.com/primevprotocol/mev-commit/pkg/evmclient/mockevm"
	mockkeysigner "github.com/primevprotocol/mev-commit/pkg/keysigner/mock"
	bidderapi "github.com/primevprotocol/mev-commit/pkg/rpc/bidder"
	providerapi "github.com/primevprotocol/mev-commit/pkg/rpc/provider"
	"github.com/primevprotocol/mev-commit/pkg/util"
	"google.golang.org/grpc/codes"
	"google.golang.org/grpc/status"
)

// ---- inputs (enough to re-run a case exactly) ---------------------------------------------

// c11Ans is one scripted answer.  Err: 0 none, 1 plain error, 2 evmclient.ErrTxnCancelled,
// 3 context.Canceled, 4 context.DeadlineExceeded, 5 evmclient.ErrMonitorClosed.
type c11Ans struct {
	Err  int    `json:"err"`
	Data string `json:"data,omitempty"` // hex: Call return data / Send hash
}

// c11Wait: Kind "err" (with Err), "nil" (nil receipt, nil error), "receipt" (with Status)
type c11Wait struct {
	Kind   string `json:"kind"`
	Err    int    `json:"err,omitempty"`
	Status uint64 `json:"status,omitempty"`
}

type c11AbiVal struct {
	T string `json:"t"`           // uint64 | uint256 | address | string | bytes
	N string `json:"n,omitempty"` // decimal, for the integer types
	B string `json:"b,omitempty"` // hex, for address/string/bytes
}

type c11In struct {
	Kind      int         `json:"kind"` // 0 provider registry, 1 bidder registry
	Op        string      `json:"op"`   // check | getmin | getstake | register | svc | abipack | abiunpack
	Reg       string      `json:"reg"`  // hex, 20 bytes: configured contract address
	Addr      string      `json:"addr,omitempty"`
	Amount    *string     `json:"amount,omitempty"` // decimal; absent = nil *big.Int (register)
	AmountStr string      `json:"amount_str,omitempty"`
	Calls     []c11Ans    `json:"calls,omitempty"` // answers to the successive Call requests
	Send      c11Ans      `json:"send"`
	Wait      c11Wait     `json:"wait"`
	CtxDone   bool        `json:"ctx_done,omitempty"` // run with a cancelled context; the client honours it
	AbiVals   []c11AbiVal `json:"abi_vals,omitempty"`
	AbiData   string      `json:"abi_data,omitempty"` // abiunpack: the types of AbiVals, this data
	// session: the operations run one after the other on ONE registry object (Kind, Reg of the
	// parent; each step has its own op, account, answers and context flag)
	Steps []c11In `json:"steps,omitempty"`
	// session over a REAL evmclient.EvmClient whose EVM is the scripted fake (reads only): the
	// recorded requests are the CallContract messages that reached the EVM
	ViaEvm bool `json:"via_evm,omitempty"`
	// concurrent: the Steps (stake / prepay calls) overlap on one registry object; every Send
	// parks at entry until all calls have arrived, then the Sends read their request and return
	// in this order (indices into Steps)
	Order []int `json:"order,omitempty"`
	// viawrite: stake / prepay through a real evmclient.EvmClient over a scripted chain node.
	// Send.Err != 0: the node refuses the transaction.  Wait: what the chain holds for it
	// ("receipt" with Status, "notfound": dropped, "never": nothing while the caller waits).
	// Late: the client's own watcher gets the outcome before the registry starts to wait.
	Late bool `json:"late,omitempty"`
	// viawrite (early timing only): OTHER transactions of the same client (client.Send, own
	// nonces) that are outstanding together with the stake / prepay transaction and are mined in
	// the SAME block, so that one monitor check resolves all of them.  They are context: the
	// expected outcome of the registry operation depends on Wait (its own receipt) alone.
	// StakeFirst: the node fills in the answer for the stake / prepay transaction before the
	// answers for the other transactions of the batch (otherwise after them).
	Others     []c11Other `json:"others,omitempty"`
	StakeFirst bool       `json:"stake_first,omitempty"`
}

// c11Other: Before = sent before the stake / prepay transaction (lower nonce), otherwise after it
// (sent once the registry has its transaction out and starts to wait).  Status: receipt status
// the chain holds for it; Drop: the chain holds no receipt (eth_getTransactionReceipt: not found).
type c11Other struct {
	Before bool   `json:"before,omitempty"`
	Status uint64 `json:"status"`
	Drop   bool   `json:"drop,omitempty"`
}

var c11OtherMarker = []byte("verif-other-")

// ---- observation ------------------------------------------------------------------------------

type c11Eff struct {
	K     string  `json:"k"` // call | send | wait
	To    string  `json:"to,omitempty"`
	Value *string `json:"value,omitempty"`
	Data  string  `json:"data,omitempty"`
	Gas   bool    `json:"gas,omitempty"`
	Hash  string  `json:"hash,omitempty"`
}

type c11Obs struct {
	Trace  []c11Eff     `json:"trace"`
	Bool   *bool        `json:"bool,omitempty"`
	Num    *string      `json:"num,omitempty"`
	NumErr bool         `json:"num_err,omitempty"`
	Reg    *int         `json:"reg,omitempty"`
	Code   *int         `json:"code,omitempty"`
	Amount *string      `json:"amount,omitempty"`
	Valid  *bool        `json:"valid,omitempty"`
	Parsed *string      `json:"parsed,omitempty"`
	Packed *string      `json:"packed,omitempty"`
	Vals   *[]c11AbiVal `json:"vals,omitempty"`
	Steps  []c11Obs     `json:"steps,omitempty"`
	TxHash string       `json:"tx_hash,omitempty"` // viawrite: hash of the transaction the node received
	// concreads: the answers the chain-like client returned to this step's Calls, in order
	Returned []c11Ans `json:"returned,omitempty"`
}

// ---- scripted evm client ----------------------------------------------------------------------

var (
	c11ErrPlain = errors.New("verif: scripted failure")
)

func c11Error(k int) error {
	switch k {
	case 1:
		return c11ErrPlain
	case 2:
		return fmt.Errorf("failed to get receipt: %w", evmclient.ErrTxnCancelled)
	case 3:
		return context.Canceled
	case 4:
		return context.DeadlineExceeded
	case 5:
		return fmt.Errorf("failed to get receipt: %w", evmclient.ErrMonitorClosed)
	}
	return nil
}

type c11Client struct {
	in    c11In
	ncall int
	trace []c11Eff
}

func c11Hex(s string) []byte {
	b, err := hex.DecodeString(s)
	if err != nil {
		panic("verif: bad hex in input: " + s)
	}
	return b
}

func c11Req(k string, req *evmclient.TxRequest) c11Eff {
	e := c11Eff{K: k}
	if req == nil {
		e.K = k + "-nilreq"
		return e
	}
	if req.To != nil {
		e.To = hex.EncodeToString(req.To.Bytes())
	}
	if req.Value != nil {
		s := req.Value.String()
		e.Value = &s
	}
	e.Data = hex.EncodeToString(req.CallData)
	e.Gas = req.GasPrice != nil || req.GasLimit != 0 || req.GasFeeCap != nil
	return e
}

func (c *c11Client) Call(ctx context.Context, req *evmclient.TxRequest) ([]byte, error) {
	c.trace = append(c.trace, c11Req("call", req))
	i := c.ncall
	c.ncall++
	if err := ctx.Err(); err != nil {
		return nil, err
	}
	if i >= len(c.in.Calls) {
		return nil, errors.New("verif: unscripted call")
	}
	a := c.in.Calls[i]
	if a.Err != 0 {
		return nil, c11Error(a.Err)
	}
	return c11Hex(a.Data), nil
}

func (c *c11Client) Send(ctx context.Context, req *evmclient.TxRequest) (common.Hash, error) {
	c.trace = append(c.trace, c11Req("send", req))
	if err := ctx.Err(); err != nil {
		return common.Hash{}, err
	}
	if c.in.Send.Err != 0 {
		return common.Hash{}, c11Error(c.in.Send.Err)
	}
	return common.BytesToHash(c11Hex(c.in.Send.Data)), nil
}

func (c *c11Client) WaitForReceipt(ctx context.Context, h common.Hash) (*types.Receipt, error) {
	c.trace = append(c.trace, c11Eff{K: "wait", Hash: hex.EncodeToString(h.Bytes())})
	if err := ctx.Err(); err != nil {
		return nil, err
	}
	switch c.in.Wait.Kind {
	case "err":
		return nil, c11Error(c.in.Wait.Err)
	case "nil":
		return nil, nil
	default:
		return &types.Receipt{Status: c.in.Wait.Status, TxHash: h}, nil
	}
}

func (c *c11Client) CancelTx(ctx context.Context, h common.Hash) (common.Hash, error) {
	c.trace = append(c.trace, c11Eff{K: "canceltx", Hash: hex.EncodeToString(h.Bytes())})
	return common.Hash{}, errors.New("verif: CancelTx is not expected")
}

// ---- running one case ----------------------------------------------------------------------------

type c11Env struct {
	validator *protovalidate.Validator
	abis      [2]abi.ABI
}

func c11NewEnv(t *testing.T) *c11Env {
	v, err := protovalidate.New()
	if err != nil {
		t.Fatalf("verif: validator: %v", err)
	}
	pa, err := abi.JSON(strings.NewReader(providerregistry.ProviderregistryMetaData.ABI))
	if err != nil {
		t.Fatalf("verif: provider abi: %v", err)
	}
	ba, err := abi.JSON(strings.NewReader(bidderregistry.BidderregistryMetaData.ABI))
	if err != nil {
		t.Fatalf("verif: bidder abi: %v", err)
	}
	if types.ReceiptStatusSuccessful != 1 {
		t.Fatalf("verif: ReceiptStatusSuccessful is %d, the model says 1", types.ReceiptStatusSuccessful)
	}
	return &c11Env{validator: v, abis: [2]abi.ABI{pa, ba}}
}

type c11Registry interface {
	check(ctx context.Context, a common.Address) bool
	min(ctx context.Context) (*big.Int, error)
	stake(ctx context.Context, a common.Address) (*big.Int, error)
	register(ctx context.Context, amt *big.Int) error
}

type c11Prov struct{ r registrycontract.Interface }

func (p c11Prov) check(ctx context.Context, a common.Address) bool {
	return p.r.CheckProviderRegistered(ctx, a)
}
func (p c11Prov) min(ctx context.Context) (*big.Int, error) { return p.r.GetMinStake(ctx) }
func (p c11Prov) stake(ctx context.Context, a common.Address) (*big.Int, error) {
	return p.r.GetStake(ctx, a)
}
func (p c11Prov) register(ctx context.Context, amt *big.Int) error {
	return p.r.RegisterProvider(ctx, amt)
}

type c11Bid struct {
	r bidderregistrycontract.Interface
}

func (p c11Bid) check(ctx context.Context, a common.Address) bool {
	return p.r.CheckBidderAllowance(ctx, a)
}
func (p c11Bid) min(ctx context.Context) (*big.Int, error) { return p.r.GetMinAllowance(ctx) }
func (p c11Bid) stake(ctx context.Context, a common.Address) (*big.Int, error) {
	return p.r.GetAllowance(ctx, a)
}
func (p c11Bid) register(ctx context.Context, amt *big.Int) error {
	return p.r.PrepayAllowance(ctx, amt)
}

func c11AbiType(t string) abi.Type {
	ty, err := abi.NewType(t, "", nil)
	if err != nil {
		panic(err)
	}
	return ty
}

func c11AbiArgs(vals []c11AbiVal) (abi.Arguments, []interface{}) {
	var args abi.Arguments
	var gos []interface{}
	for _, v := range vals {
		args = append(args, abi.Argument{Type: c11AbiType(v.T)})
		switch v.T {
		case "uint64":
			n, _ := new(big.Int).SetString(v.N, 10)
			gos = append(gos, n.Uint64())
		case "uint256":
			n, _ := new(big.Int).SetString(v.N, 10)
			gos = append(gos, n)
		case "address":
			gos = append(gos, common.BytesToAddress(c11Hex(v.B)))
		case "string":
			gos = append(gos, string(c11Hex(v.B)))
		case "bytes":
			gos = append(gos, c11Hex(v.B))
		}
	}
	return args, gos
}

func c11FromGo(args abi.Arguments, gos []interface{}) []c11AbiVal {
	out := make([]c11AbiVal, 0, len(gos))
	for i, g := range gos {
		v := c11AbiVal{T: args[i].Type.String()}
		switch x := g.(type) {
		case uint64:
			v.N = new(big.Int).SetUint64(x).String()
		case *big.Int:
			v.N = x.String()
		case common.Address:
			v.B = hex.EncodeToString(x.Bytes())
		case string:
			v.B = hex.EncodeToString([]byte(x))
		case []byte:
			v.B = hex.EncodeToString(x)
		default:
			panic(fmt.Sprintf("verif: unexpected unpacked type %T", g))
		}
		out = append(out, v)
	}
	return out
}

func (ev *c11Env) run(in c11In) (obs c11Obs) {
	obs.Trace = []c11Eff{}
	switch in.Op {
	case "abipack":
		args, gos := c11AbiArgs(in.AbiVals)
		p, err := args.Pack(gos...)
		if err == nil {
			s := hex.EncodeToString(p)
			obs.Packed = &s
		}
		return obs
	case "abiunpack":
		args, _ := c11AbiArgs(in.AbiVals)
		func() {
			defer func() {
				if r := recover(); r != nil {
					obs.NumErr = true // a panic of the library: reported, matches nothing
				}
			}()
			gos, err := args.Unpack(c11Hex(in.AbiData))
			if err == nil {
				vs := c11FromGo(args, gos)
				obs.Vals = &vs
			}
		}()
		return obs
	}
	cl := &c11Client{in: in}
	regAddr := common.BytesToAddress(c11Hex(in.Reg))
	logger := util.NewTestLogger(io.Discard)
	o := &c11Objects{cl: cl, logger: logger}
	var client evmclient.Interface = cl
	if in.Op == "concurrent" {
		return ev.runConcurrent(in, regAddr, logger)
	}
	if in.Op == "viawrite" {
		return ev.runViaWrite(in, regAddr, logger)
	}
	if in.Op == "concreads" {
		return ev.runConcurrentReads(in, regAddr, logger)
	}
	if in.ViaEvm {
		// the production path: registry -> evmclient.EvmClient.Call -> EVM.CallContract
		pk, err := crypto.GenerateKey()
		if err != nil {
			panic(err)
		}
		ks := mockkeysigner.NewMockKeySigner(pk, crypto.PubkeyToAddress(pk.PublicKey))
		evm := mockevm.NewMockEvm(1,
			mockevm.WithCallContractFunc(func(ctx context.Context, msg ethereum.CallMsg, _ *big.Int) ([]byte, error) {
				return cl.Call(ctx, &evmclient.TxRequest{To: msg.To, CallData: msg.Data, Value: msg.Value,
					GasLimit: msg.Gas, GasPrice: msg.GasPrice, GasFeeCap: msg.GasFeeCap})
			}),
			mockevm.WithBlockNumFunc(func(context.Context) (uint64, error) { return 1, nil }),
			mockevm.WithNonceAtFunc(func(context.Context, common.Address, *big.Int) (uint64, error) { return 0, nil }),
			mockevm.WithPendingNonceAtFunc(func(context.Context, common.Address) (uint64, error) { return 0, nil }),
		)
		real, err := evmclient.New(ks, evm, logger)
		if err != nil {
			panic(err)
		}
		defer real.Close()
		client = real
	}
	if in.Kind == 0 {
		o.prov = registrycontract.New(regAddr, client, logger)
		o.r = c11Prov{o.prov}
	} else {
		o.bid = bidderregistrycontract.New(regAddr, client, logger)
		o.r = c11Bid{o.bid}
	}
	if in.Op == "session" {
		// one object for the whole sequence; the client's script and recorder are per step
		for _, st := range in.Steps {
			st.Kind, st.Reg = in.Kind, in.Reg
			cl.in, cl.ncall, cl.trace = st, 0, nil
			obs.Steps = append(obs.Steps, ev.runOn(o, st))
		}
		return obs
	}
	return ev.runOn(o, in)
}

type c11CtxKey struct{}

// c11ConcClient serves overlapping stake / prepay calls.  The call a request belongs to is
// carried by the context the registry hands through.  Send parks at entry until every call has
// arrived (or a generous time has passed), and only then -- in the scripted order, one after
// the other -- reads the fields of the request it was given, as the real EvmClient does after
// it has taken its lock and asked the node for the nonce.
type c11ConcClient struct {
	steps   []c11In
	mu      sync.Mutex
	arrived int
	all     chan struct{}
	turn    []chan struct{} // turn[k] is closed when the k-th Send of the order may read
	pos     map[int]int     // call index -> position in the order
	traces  [][]c11Eff
	limit   time.Duration
}

func (c *c11ConcClient) idx(ctx context.Context) int {
	if v, ok := ctx.Value(c11CtxKey{}).(int); ok && v >= 0 && v < len(c.steps) {
		return v
	}
	return -1
}

func (c *c11ConcClient) record(i int, e c11Eff) {
	c.mu.Lock()
	defer c.mu.Unlock()
	if i < 0 {
		i = len(c.traces) - 1 // requests that cannot be attributed: a trace of their own
	}
	c.traces[i] = append(c.traces[i], e)
}

func (c *c11ConcClient) Send(ctx context.Context, req *evmclient.TxRequest) (common.Hash, error) {
	i := c.idx(ctx)
	c.mu.Lock()
	c.arrived++
	if c.arrived == len(c.steps) {
		close(c.all)
	}
	c.mu.Unlock()
	select {
	case <-c.all:
	case <-time.After(c.limit):
	}
	k := len(c.turn) - 1
	if i >= 0 {
		k = c.pos[i]
	}
	select {
	case <-c.turn[k]:
	case <-time.After(c.limit):
	}
	c.record(i, c11Req("send", req))
	if k+1 < len(c.turn) {
		func() {
			defer func() { _ = recover() }() // an unattributed second Send may find it closed
			close(c.turn[k+1])
		}()
	}
	if i < 0 {
		return common.Hash{}, errors.New("verif: send outside a scripted call")
	}
	if c.steps[i].Send.Err != 0 {
		return common.Hash{}, c11Error(c.steps[i].Send.Err)
	}
	return common.BytesToHash(c11Hex(c.steps[i].Send.Data)), nil
}

func (c *c11ConcClient) WaitForReceipt(ctx context.Context, h common.Hash) (*types.Receipt, error) {
	i := c.idx(ctx)
	c.record(i, c11Eff{K: "wait", Hash: hex.EncodeToString(h.Bytes())})
	if i < 0 {
		return nil, errors.New("verif: wait outside a scripted call")
	}
	switch w := c.steps[i].Wait; w.Kind {
	case "err":
		return nil, c11Error(w.Err)
	case "nil":
		return nil, nil
	default:
		return &types.Receipt{Status: w.Status, TxHash: h}, nil
	}
}

func (c *c11ConcClient) Call(ctx context.Context, req *evmclient.TxRequest) ([]byte, error) {
	c.record(c.idx(ctx), c11Req("call", req))
	return nil, errors.New("verif: unscripted call")
}

func (c *c11ConcClient) CancelTx(ctx context.Context, h common.Hash) (common.Hash, error) {
	c.record(c.idx(ctx), c11Eff{K: "canceltx", Hash: hex.EncodeToString(h.Bytes())})
	return common.Hash{}, errors.New("verif: CancelTx is not expected")
}

// c11GateClient serves overlapping reads (checks / amount getters) for different accounts.  It
// answers like a chain: the amount returned is the one of the account whose address is in the
// calldata the client SEES.  A Call that carries an account (36 bytes or more) parks at entry
// until every operation has arrived at such a Call (or a deadline passed) and only then reads the
// request it was given, in the scripted order; the Call for the minimum is answered at once.
type c11GateClient struct {
	steps    []c11In
	mu       sync.Mutex
	arrived  int
	all      chan struct{}
	turn     []chan struct{}
	pos      map[int]int
	parked   []chan struct{}
	traces   [][]c11Eff
	returned [][]c11Ans
	limit    time.Duration
}

func (c *c11GateClient) idx(ctx context.Context) int {
	if v, ok := ctx.Value(c11CtxKey{}).(int); ok && v >= 0 && v < len(c.steps) {
		return v
	}
	return -1
}

func (c *c11GateClient) stakeAnswer(st c11In) c11Ans {
	k := 0
	if st.Op == "check" {
		k = 1
	}
	if k < len(st.Calls) {
		return st.Calls[k]
	}
	return c11Ans{Err: 1}
}

func (c *c11GateClient) Call(ctx context.Context, req *evmclient.TxRequest) ([]byte, error) {
	i := c.idx(ctx)
	if i < 0 || req == nil {
		return nil, errors.New("verif: call outside a scripted operation")
	}
	var ans c11Ans
	if len(req.CallData) < 36 {
		// the minimum: the same for everybody
		c.mu.Lock()
		c.traces[i] = append(c.traces[i], c11Req("call", req))
		ans = c11Ans{Err: 1}
		if c.steps[i].Op == "check" && len(c.steps[i].Calls) > 0 {
			ans = c.steps[i].Calls[0]
		}
		c.returned[i] = append(c.returned[i], ans)
		c.mu.Unlock()
	} else {
		c.mu.Lock()
		select {
		case <-c.parked[i]:
		default:
			close(c.parked[i])
		}
		c.arrived++
		if c.arrived == len(c.steps) {
			close(c.all)
		}
		c.mu.Unlock()
		select {
		case <-c.all:
		case <-time.After(c.limit):
		}
		k := c.pos[i]
		select {
		case <-c.turn[k]:
		case <-time.After(c.limit):
		}
		e := c11Req("call", req) // only now are the fields of the request read
		seen := req.CallData[len(req.CallData)-20:]
		ans = c11Ans{Err: 1}
		for _, st := range c.steps {
			if hex.EncodeToString(seen) == strings.ToLower(st.Addr) {
				ans = c.stakeAnswer(st)
				break
			}
		}
		c.mu.Lock()
		c.traces[i] = append(c.traces[i], e)
		c.returned[i] = append(c.returned[i], ans)
		if k+1 < len(c.turn) {
			select {
			case <-c.turn[k+1]:
			default:
				close(c.turn[k+1])
			}
		}
		c.mu.Unlock()
	}
	if ans.Err != 0 {
		return nil, c11Error(ans.Err)
	}
	return c11Hex(ans.Data), nil
}

func (c *c11GateClient) Send(ctx context.Context, req *evmclient.TxRequest) (common.Hash, error) {
	return common.Hash{}, errors.New("verif: Send is not expected")
}
func (c *c11GateClient) WaitForReceipt(ctx context.Context, h common.Hash) (*types.Receipt, error) {
	return nil, errors.New("verif: WaitForReceipt is not expected")
}
func (c *c11GateClient) CancelTx(ctx context.Context, h common.Hash) (common.Hash, error) {
	return common.Hash{}, errors.New("verif: CancelTx is not expected")
}

// runConcurrentReads returns the observation and, per step, the answers the client actually
// returned to that step's Calls (the oracle answers of the model for that step).
func (ev *c11Env) runConcurrentReads(in c11In, regAddr common.Address, logger *slog.Logger) (obs c11Obs) {
	obs.Trace = []c11Eff{}
	n := len(in.Steps)
	slow := 1
	if v, err := strconv.Atoi(os.Getenv("VERIF_SLOW")); err == nil && v > 0 {
		slow = v
	}
	cl := &c11GateClient{steps: in.Steps, all: make(chan struct{}), pos: map[int]int{},
		traces: make([][]c11Eff, n), returned: make([][]c11Ans, n), limit: time.Duration(slow) * time.Second}
	order := in.Order
	if len(order) != n {
		order = make([]int, n)
		for i := range order {
			order[i] = i
		}
	}
	for k, i := range order {
		cl.pos[i] = k
		cl.turn = append(cl.turn, make(chan struct{}))
		cl.parked = append(cl.parked, make(chan struct{}))
	}
	close(cl.turn[0])
	var r c11Registry
	if in.Kind == 0 {
		r = c11Prov{registrycontract.New(regAddr, cl, logger)}
	} else {
		r = c11Bid{bidderregistrycontract.New(regAddr, cl, logger)}
	}
	results := make([]c11Obs, n)
	done := make([]chan struct{}, n)
	for i := range in.Steps {
		done[i] = make(chan struct{})
		go func(i int) {
			defer close(done[i])
			st := in.Steps[i]
			o := c11Obs{}
			defer func() {
				if rec := recover(); rec != nil {
					o.NumErr = true
					o.Bool, o.Num = nil, nil
				}
				results[i] = o
			}()
			ctx := context.WithValue(context.Background(), c11CtxKey{}, i)
			addr := common.BytesToAddress(c11Hex(st.Addr))
			if st.Op == "check" {
				b := r.check(ctx, addr)
				o.Bool = &b
			} else {
				v, err := r.stake(ctx, addr)
				if err != nil || v == nil {
					o.NumErr = true
				} else {
					s := v.String()
					o.Num = &s
				}
			}
		}(i)
		// start the next operation only when this one is parked at its gated Call (then it has
		// built its request), has finished, or a deadline has passed
		select {
		case <-cl.parked[i]:
		case <-done[i]:
		case <-time.After(cl.limit):
		}
	}
	for i := range in.Steps {
		<-done[i]
	}
	cl.mu.Lock()
	defer cl.mu.Unlock()
	for i := range in.Steps {
		o := results[i]
		o.Trace = cl.traces[i]
		if o.Trace == nil {
			o.Trace = []c11Eff{}
		}
		o.Returned = cl.returned[i]
		obs.Steps = append(obs.Steps, o)
	}
	return obs
}

func (ev *c11Env) runConcurrent(in c11In, regAddr common.Address, logger *slog.Logger) (obs c11Obs) {
	obs.Trace = []c11Eff{}
	n := len(in.Steps)
	slow := 1
	if v, err := strconv.Atoi(os.Getenv("VERIF_SLOW")); err == nil && v > 0 {
		slow = v
	}
	cl := &c11ConcClient{steps: in.Steps, all: make(chan struct{}), pos: map[int]int{},
		traces: make([][]c11Eff, n+1), limit: time.Duration(slow) * 3 * time.Second}
	order := in.Order
	if len(order) != n {
		order = make([]int, n)
		for i := range order {
			order[i] = i
		}
	}
	for k, i := range order {
		cl.pos[i] = k
		cl.turn = append(cl.turn, make(chan struct{}))
	}
	close(cl.turn[0])
	var r c11Registry
	if in.Kind == 0 {
		r = c11Prov{registrycontract.New(regAddr, cl, logger)}
	} else {
		r = c11Bid{bidderregistrycontract.New(regAddr, cl, logger)}
	}
	codes := make([]int, n)
	var wg sync.WaitGroup
	for i := range in.Steps {
		wg.Add(1)
		go func(i int) {
			defer wg.Done()
			defer func() {
				if rec := recover(); rec != nil {
					codes[i] = 2
				}
			}()
			var amt *big.Int
			if in.Steps[i].Amount != nil {
				amt, _ = new(big.Int).SetString(*in.Steps[i].Amount, 10)
			}
			ctx := context.WithValue(context.Background(), c11CtxKey{}, i)
			if err := r.register(ctx, amt); err != nil {
				codes[i] = 1
			}
		}(i)
	}
	wg.Wait()
	for i := range in.Steps {
		code := codes[i]
		tr := cl.traces[i]
		if tr == nil {
			tr = []c11Eff{}
		}
		if i == 0 && cl.traces[n] != nil {
			tr = append(tr, cl.traces[n]...) // unattributed requests: shown with the first call
		}
		obs.Steps = append(obs.Steps, c11Obs{Trace: tr, Reg: &code})
	}
	return obs
}

// c11ViaClient is the real evm client as the registry gets it, with the caller's scheduling
// scripted: early = the registry's wait is registered before the chain shows the transaction;
// late = the client's own watcher has processed the outcome before the registry's wait starts.
type c11ViaClient struct {
	*evmclient.EvmClient
	late   bool
	never  bool
	mined  *atomic.Bool
	settle time.Duration
	limit  time.Duration
	mu     sync.Mutex
	waits  []c11Eff
	// early timing with other outstanding transactions: called once the registry has its own
	// transaction out and starts to wait; sends the remaining other transactions, registers a
	// waiter for every other transaction and returns the signals "that waiter is registered"
	others func() []<-chan struct{}
}

func (c *c11ViaClient) WaitForReceipt(ctx context.Context, h common.Hash) (*types.Receipt, error) {
	c.mu.Lock()
	c.waits = append(c.waits, c11Eff{K: "wait", Hash: hex.EncodeToString(h.Bytes())})
	c.mu.Unlock()
	if c.late {
		// positive synchronisation: the client no longer lists the transaction as pending
		deadline := time.Now().Add(c.limit)
		for time.Now().Before(deadline) {
			listed := false
			for _, p := range c.EvmClient.PendingTxns() {
				if common.HexToHash(p.Hash) == h {
					listed = true
				}
			}
			if !listed {
				break
			}
			time.Sleep(5 * time.Millisecond)
		}
		return c.EvmClient.WaitForReceipt(ctx, h)
	}
	if c.never {
		// nothing is ever mined: the caller gives up; any deadline gives the same outcome
		wctx, cancel := context.WithTimeout(ctx, 2*c.settle)
		defer cancel()
		return c.EvmClient.WaitForReceipt(wctx, h)
	}
	// early: the chain shows the transaction only after this wait has been registered.
	// Positive synchronisation: EvmClient.WaitForReceipt registers its waiter with the monitor
	// and only then evaluates ctx.Done() for its select; the context handed in reports that call.
	sctx := &c11SignalCtx{Context: ctx, reached: make(chan struct{})}
	var more []<-chan struct{}
	if c.others != nil {
		more = c.others()
	}
	go func() {
		// the block is mined only when every transaction of it has a registered waiter
		fallback := time.After(c.limit)
		for _, ch := range append([]<-chan struct{}{sctx.reached}, more...) {
			select {
			case <-ch:
			case <-fallback:
			}
		}
		c.mined.Store(true)
	}()
	return c.EvmClient.WaitForReceipt(sctx, h)
}

// c11SignalCtx reports the first evaluation of Done()
type c11SignalCtx struct {
	context.Context
	once    sync.Once
	reached chan struct{}
}

func (c *c11SignalCtx) Done() <-chan struct{} {
	c.once.Do(func() { close(c.reached) })
	return c.Context.Done()
}

func (ev *c11Env) runViaWrite(in c11In, regAddr common.Address, logger *slog.Logger) (obs c11Obs) {
	obs.Trace = []c11Eff{}
	slow := 1
	if v, err := strconv.Atoi(os.Getenv("VERIF_SLOW")); err == nil && v > 0 {
		slow = v
	}
	pk, err := crypto.GenerateKey()
	if err != nil {
		panic(err)
	}
	ks := mockkeysigner.NewMockKeySigner(pk, crypto.PubkeyToAddress(pk.PublicKey))
	const nonce = 5
	var (
		mu     sync.Mutex
		sent   []c11Eff
		txHash string
		mined  atomic.Bool
		block  atomic.Uint64
		nsent  atomic.Uint64          // transactions the node accepted
		others = map[common.Hash]int{} // hash of an other transaction -> index into in.Others
	)
	mined.Store(in.Late)
	evm := mockevm.NewMockEvm(1,
		mockevm.WithPendingNonceAtFunc(func(context.Context, common.Address) (uint64, error) { return nonce, nil }),
		mockevm.WithEstimateGasFunc(func(context.Context, ethereum.CallMsg) (uint64, error) { return 50000, nil }),
		mockevm.WithSuggestGasPriceFunc(func(context.Context) (*big.Int, error) { return big.NewInt(2000000000), nil }),
		mockevm.WithSuggestGasTipCapFunc(func(context.Context) (*big.Int, error) { return big.NewInt(1000000000), nil }),
		mockevm.WithSendTransactionFunc(func(_ context.Context, tx *types.Transaction) error {
			if d := tx.Data(); len(in.Others) > 0 && len(d) == len(c11OtherMarker)+1 && bytes.HasPrefix(d, c11OtherMarker) {
				// one of the driver's other transactions: context, not part of the recorded trace
				mu.Lock()
				others[tx.Hash()] = int(d[len(c11OtherMarker)])
				mu.Unlock()
				nsent.Add(1)
				return nil
			}
			e := c11Eff{K: "send", Data: hex.EncodeToString(tx.Data())}
			if tx.To() != nil {
				e.To = hex.EncodeToString(tx.To().Bytes())
			}
			v := tx.Value().String()
			e.Value = &v
			mu.Lock()
			sent = append(sent, e)
			txHash = hex.EncodeToString(tx.Hash().Bytes())
			mu.Unlock()
			if in.Send.Err != 0 {
				return c11Error(in.Send.Err)
			}
			nsent.Add(1)
			return nil
		}),
		mockevm.WithBlockNumFunc(func(context.Context) (uint64, error) { return block.Add(1), nil }),
		mockevm.WithNonceAtFunc(func(context.Context, common.Address, *big.Int) (uint64, error) {
			if mined.Load() && in.Wait.Kind != "never" {
				// the block holds every transaction sent so far (one without other transactions)
				return nonce + nsent.Load(), nil
			}
			return nonce, nil
		}),
		mockevm.WithBatcherFunc(func(_ context.Context, elems []rpc.BatchElem) error {
			// the order in which the node fills in its answers: the stake / prepay transaction
			// first or last, the other transactions by their index in between
			mu.Lock()
			idx := make([]int, len(elems))
			rank := make([]int, len(elems))
			for i := range elems {
				idx[i] = i
				rank[i] = -1
				if !in.StakeFirst {
					rank[i] = len(in.Others)
				}
				if h, ok := elems[i].Args[0].(common.Hash); ok {
					if k, isOther := others[h]; isOther {
						rank[i] = k
					}
				}
			}
			mu.Unlock()
			sort.SliceStable(idx, func(a, b int) bool { return rank[idx[a]] < rank[idx[b]] })
			for _, i := range idx {
				if k := rank[i]; k >= 0 && k < len(in.Others) {
					if in.Others[k].Drop {
						elems[i].Error = ethereum.NotFound
						continue
					}
					r := elems[i].Result.(*types.Receipt)
					r.Status = in.Others[k].Status
					r.BlockNumber = big.NewInt(1)
					continue
				}
				if in.Wait.Kind == "notfound" {
					elems[i].Error = ethereum.NotFound
					continue
				}
				r := elems[i].Result.(*types.Receipt)
				r.Status = in.Wait.Status
				r.BlockNumber = big.NewInt(1)
			}
			return nil
		}),
	)
	real, err := evmclient.New(ks, evm, logger)
	if err != nil {
		panic(err)
	}
	defer real.Close()
	cl := &c11ViaClient{EvmClient: real, late: in.Late, never: in.Wait.Kind == "never", mined: &mined,
		settle: time.Duration(slow) * 150 * time.Millisecond, limit: time.Duration(slow) * 5 * time.Second}
	// the other transactions: sent directly through the same client, each with a waiter of the
	// driver's own (registered synchronously by EvmClient.WaitForReceipt, reported by the first
	// evaluation of Done()), so that the monitor holds all of them when the block is mined
	octx, ocancel := context.WithCancel(context.Background())
	var owg sync.WaitGroup
	defer owg.Wait()
	defer ocancel()
	sendOther := func(k int) <-chan struct{} {
		to := ks.GetAddress()
		h, err := real.Send(octx, &evmclient.TxRequest{To: &to, Value: big.NewInt(0),
			CallData: append(append([]byte{}, c11OtherMarker...), byte(k))})
		if err != nil {
			panic("verif: other transaction refused: " + err.Error())
		}
		sctx := &c11SignalCtx{Context: octx, reached: make(chan struct{})}
		owg.Add(1)
		go func() {
			defer owg.Done()
			_, _ = real.WaitForReceipt(sctx, h)
		}()
		return sctx.reached
	}
	if len(in.Others) > 0 && !in.Late && in.Wait.Kind != "never" {
		var signals []<-chan struct{}
		for k, o := range in.Others {
			if o.Before {
				signals = append(signals, sendOther(k))
			}
		}
		cl.others = func() []<-chan struct{} {
			for k, o := range in.Others {
				if !o.Before {
					signals = append(signals, sendOther(k))
				}
			}
			return signals
		}
	}
	var r c11Registry
	if in.Kind == 0 {
		r = c11Prov{registrycontract.New(regAddr, cl, logger)}
	} else {
		r = c11Bid{bidderregistrycontract.New(regAddr, cl, logger)}
	}
	amt, _ := new(big.Int).SetString(*in.Amount, 10)
	code := 0
	func() {
		defer func() {
			if rec := recover(); rec != nil {
				code = 2
			}
		}()
		if err := r.register(context.Background(), amt); err != nil {
			code = 1
		}
	}()
	obs.Reg = &code
	mu.Lock()
	obs.Trace = append(obs.Trace, sent...)
	obs.TxHash = txHash
	mu.Unlock()
	cl.mu.Lock()
	obs.Trace = append(obs.Trace, cl.waits...)
	cl.mu.Unlock()
	return obs
}

// the objects under test: one registry (provider or bidder flavour) over one scripted client
type c11Objects struct {
	cl     *c11Client
	logger *slog.Logger
	r      c11Registry
	prov   registrycontract.Interface
	bid    bidderregistrycontract.Interface
}

func (ev *c11Env) runOn(o *c11Objects, in c11In) (obs c11Obs) {
	obs.Trace = []c11Eff{}
	cl, r, prov, bid, logger := o.cl, o.r, o.prov, o.bid, o.logger
	ctx, cancel := context.WithCancel(context.Background())
	defer cancel()
	if in.CtxDone {
		cancel()
	}
	addr := common.BytesToAddress(c11Hex(in.Addr))
	defer func() { obs.Trace = append(obs.Trace, cl.trace...) }()
	switch in.Op {
	case "check":
		b := r.check(ctx, addr)
		obs.Bool = &b
	case "getmin", "getstake":
		var v *big.Int
		var err error
		if in.Op == "getmin" {
			v, err = r.min(ctx)
		} else {
			v, err = r.stake(ctx, addr)
		}
		if err != nil || v == nil {
			obs.NumErr = true
		} else {
			s := v.String()
			obs.Num = &s
		}
	case "register":
		var amt *big.Int
		if in.Amount != nil {
			amt, _ = new(big.Int).SetString(*in.Amount, 10)
		}
		code := 0
		func() {
			defer func() {
				if rec := recover(); rec != nil {
					code = 2
				}
			}()
			if err := r.register(ctx, amt); err != nil {
				code = 1
			}
		}()
		obs.Reg = &code
	case "svc":
		// the validator's verdict and the parse result are observed independently of the
		// service (they are oracles of the model)
		var verr error
		if in.Kind == 0 {
			verr = ev.validator.Validate(&providerapiv1.StakeRequest{Amount: in.AmountStr})
		} else {
			verr = ev.validator.Validate(&bidderapiv1.PrepayRequest{Amount: in.AmountStr})
		}
		valid := verr == nil
		obs.Valid = &valid
		if p, ok := new(big.Int).SetString(in.AmountStr, 10); ok {
			s := p.String()
			obs.Parsed = &s
		}
		code := 0
		var amount string
		func() {
			defer func() {
				if rec := recover(); rec != nil {
					code = 99
				}
			}()
			var err error
			if in.Kind == 0 {
				svc := providerapi.NewService(logger, prov, addr, nil, ev.validator)
				var resp *providerapiv1.StakeResponse
				resp, err = svc.RegisterStake(ctx, &providerapiv1.StakeRequest{Amount: in.AmountStr})
				if err == nil {
					amount = resp.Amount
				}
			} else {
				svc := bidderapi.NewService(nil, addr, bid, ev.validator, logger)
				var resp *bidderapiv1.PrepayResponse
				resp, err = svc.PrepayAllowance(ctx, &bidderapiv1.PrepayRequest{Amount: in.AmountStr})
				if err == nil {
					amount = resp.Amount
				}
			}
			if err != nil {
				code = int(status.Code(err))
				if code == int(codes.OK) {
					code = 98 // an error that claims OK: matches nothing
				}
			}
		}()
		obs.Code = &code
		if code == 0 {
			obs.Amount = &amount
		}
	default:
		panic("verif: unknown op " + in.Op)
	}
	return obs
}

// ---- Coq terms --------------------------------------------------------------------------------------

func c11CoqAns(a c11Ans, ctxDone bool) string {
	if ctxDone || a.Err != 0 {
		return "CErr"
	}
	return coqApp("CBytes", coqBytes(c11Hex(a.Data)))
}

func c11CoqSend(a c11Ans, ctxDone bool) string {
	if ctxDone || a.Err != 0 {
		return "SErr"
	}
	return coqApp("SHash", coqBytes(common.BytesToHash(c11Hex(a.Data)).Bytes()))
}

func c11CoqWait(w c11Wait, ctxDone bool) string {
	if ctxDone || w.Kind == "err" {
		return "WErr"
	}
	if w.Kind == "nil" {
		return "WNil"
	}
	return coqApp("WReceipt", coqN(w.Status))
}

func c11CoqOptZ(s *string) string {
	if s == nil {
		return "None"
	}
	n, ok := new(big.Int).SetString(*s, 10)
	if !ok {
		panic("verif: bad decimal " + *s)
	}
	return coqOpt(true, coqBigZ(n))
}

func c11CoqVal(v c11AbiVal) string {
	switch v.T {
	case "uint64", "uint256":
		n, ok := new(big.Int).SetString(v.N, 10)
		if !ok {
			panic("verif: bad decimal " + v.N)
		}
		if v.T == "uint64" {
			return coqApp("VUint64", coqBigN(n))
		}
		return coqApp("VUint256", coqBigN(n))
	case "address":
		return coqApp("VAddress", coqBytes(c11Hex(v.B)))
	case "string":
		return coqApp("VString", coqBytes(c11Hex(v.B)))
	case "bytes":
		return coqApp("VBytes", coqBytes(c11Hex(v.B)))
	}
	panic("verif: type " + v.T)
}

func c11CoqTy(t string) string {
	switch t {
	case "uint64":
		return "TUint64"
	case "uint256":
		return "TUint256"
	case "address":
		return "TAddress"
	case "string":
		return "TString"
	case "bytes":
		return "TBytes"
	}
	panic("verif: type " + t)
}

func c11CoqVals(vs []c11AbiVal) string {
	items := make([]string, len(vs))
	for i, v := range vs {
		items[i] = c11CoqVal(v)
	}
	return coqList(items)
}

func c11CoqReq(e c11Eff) string {
	return coqRecord("tx_to", coqBytes(c11Hex(e.To)), "tx_value", c11CoqOptZ(e.Value),
		"tx_data", coqBytes(c11Hex(e.Data)), "tx_gas", coqBool(e.Gas))
}

func c11CoqTrace(tr []c11Eff) string {
	items := make([]string, 0, len(tr))
	for _, e := range tr {
		switch e.K {
		case "call":
			items = append(items, coqApp("ECall", c11CoqReq(e)))
		case "send":
			items = append(items, coqApp("ESend", c11CoqReq(e)))
		case "wait":
			items = append(items, coqApp("EWait", coqBytes(c11Hex(e.Hash))))
		default:
			// a request the model has no name for (nil request, CancelTx): an effect that can
			// equal none of the model's
			items = append(items, coqApp("EWait", coqBytes([]byte("unexpected:"+e.K))))
		}
	}
	return coqList(items)
}

// the methods of the bindings' ABI whose selector occurs in an observed request
func (ev *c11Env) abiTable(in c11In, obs c11Obs) string {
	var items []string
	seen := map[string]bool{}
	all := append([]c11Eff{}, obs.Trace...)
	for _, st := range obs.Steps {
		all = append(all, st.Trace...)
	}
	for _, e := range all {
		d := c11Hex(e.Data)
		if (e.K != "call" && e.K != "send") || len(d) < 4 {
			continue
		}
		m, err := ev.abis[in.Kind].MethodById(d[:4])
		if err != nil || seen[m.Sig] {
			continue
		}
		seen[m.Sig] = true
		outs := make([]string, len(m.Outputs))
		for i, o := range m.Outputs {
			outs[i] = o.Type.String()
		}
		items = append(items, coqPair(coqStr(m.Sig),
			coqPair(coqBytes(crypto.Keccak256([]byte(m.Sig))), coqStr(strings.Join(outs, ",")))))
	}
	return coqList(items)
}

func (ev *c11Env) coq(id int, in c11In, obs c11Obs) string {
	var op, res string
	if in.Op == "session" || in.Op == "concurrent" || in.Op == "concreads" {
		items := make([]string, len(in.Steps))
		for i, st := range in.Steps {
			if in.Op == "concreads" {
				// the oracle answers of this step are what the client returned to ITS Calls
				eff := append([]c11Ans{}, obs.Steps[i].Returned...)
				for k := len(eff); k < len(st.Calls); k++ {
					eff = append(eff, st.Calls[k])
				}
				st.Calls = eff
			}
			so, sr := c11CoqOpRes(st, obs.Steps[i])
			items[i] = coqPair(so, coqPair(c11CoqTrace(obs.Steps[i].Trace), sr))
		}
		op, res = coqApp("OpSession", coqList(items)), "ObsNone"
	} else {
		op, res = c11CoqOpRes(in, obs)
	}
	return coqRecord("id", coqN(uint64(id)), "kind", coqN(uint64(in.Kind)),
		"reg", coqBytes(common.BytesToAddress(c11Hex(in.Reg)).Bytes()),
		"abi", ev.abiTable(in, obs), "op", op, "trace", c11CoqTrace(obs.Trace), "res", res)
}

// the operation with its effective answers, and the observed result, as Coq terms
func c11CoqOpRes(in c11In, obs c11Obs) (op, res string) {
	pick := func(i int) c11Ans {
		if i < len(in.Calls) {
			return in.Calls[i]
		}
		return c11Ans{Err: 1}
	}
	addr := coqBytes(common.BytesToAddress(c11Hex(in.Addr)).Bytes())
	switch in.Op {
	case "check":
		op = coqApp("OpCheck", addr, c11CoqAns(pick(0), in.CtxDone), c11CoqAns(pick(1), in.CtxDone))
		if obs.Bool != nil {
			res = coqApp("ObsBool", coqBool(*obs.Bool))
		} else {
			res = "ObsNone" // the check crashed: agrees with nothing
		}
	case "getmin":
		op = coqApp("OpGetMin", c11CoqAns(pick(0), in.CtxDone))
	case "getstake":
		op = coqApp("OpGetStake", addr, c11CoqAns(pick(0), in.CtxDone))
	case "viawrite":
		sres := "SErr"
		if in.Send.Err == 0 && obs.TxHash != "" {
			sres = coqApp("SHash", coqBytes(c11Hex(obs.TxHash)))
		}
		w := "WErr"
		if in.Wait.Kind == "receipt" {
			w = coqApp("WReceipt", coqN(in.Wait.Status))
		}
		op = coqApp("OpRegisterVia", c11CoqOptZ(in.Amount), sres, w, coqBool(in.Late))
		res = coqApp("ObsReg", coqN(uint64(*obs.Reg)))
	case "register":
		op = coqApp("OpRegister", c11CoqOptZ(in.Amount), c11CoqSend(in.Send, in.CtxDone), c11CoqWait(in.Wait, in.CtxDone))
		res = coqApp("ObsReg", coqN(uint64(*obs.Reg)))
	case "svc":
		op = coqApp("OpSvcRegister", addr, coqBool(*obs.Valid), c11CoqOptZ(obs.Parsed),
			c11CoqSend(in.Send, in.CtxDone), c11CoqWait(in.Wait, in.CtxDone), c11CoqAns(pick(0), in.CtxDone))
		amt := "None"
		if obs.Amount != nil {
			if n, ok := new(big.Int).SetString(*obs.Amount, 10); ok && n.Sign() >= 0 {
				amt = coqOpt(true, coqBigN(n))
			}
		}
		code := *obs.Code
		if code == 0 && amt == "None" {
			code = 97 // OK with an unparsable amount: agrees with nothing
		}
		res = coqApp("ObsSvc", coqN(uint64(code)), amt)
	case "abipack":
		op = coqApp("OpAbiPack", c11CoqVals(in.AbiVals))
		if obs.Packed != nil {
			res = coqApp("ObsPack", coqOpt(true, coqBytes(c11Hex(*obs.Packed))))
		} else {
			res = coqApp("ObsPack", "None")
		}
	case "abiunpack":
		tys := make([]string, len(in.AbiVals))
		for i, v := range in.AbiVals {
			tys[i] = c11CoqTy(v.T)
		}
		op = coqApp("OpAbiUnpack", coqList(tys), coqBytes(c11Hex(in.AbiData)))
		if obs.NumErr {
			res = coqApp("ObsPack", "None") // library panic: agrees with nothing
		} else if obs.Vals != nil {
			res = coqApp("ObsUnpack", coqOpt(true, c11CoqVals(*obs.Vals)))
		} else {
			res = coqApp("ObsUnpack", "None")
		}
	}
	if in.Op == "getmin" || in.Op == "getstake" {
		if obs.Num != nil {
			n, _ := new(big.Int).SetString(*obs.Num, 10)
			if n.Sign() < 0 {
				res = coqApp("ObsBool", "false") // a negative amount: agrees with nothing
			} else {
				res = coqApp("ObsNum", coqOpt(true, coqBigN(n)))
			}
		} else {
			res = coqApp("ObsNum", "None")
		}
	}
	return op, res
}

// ---- generators ------------------------------------------------------------------------------------------

var c11Two256 = new(big.Int).Lsh(big.NewInt(1), 256)

func c11Word(v *big.Int) string {
	return hex.EncodeToString(new(big.Int).Mod(v, c11Two256).FillBytes(make([]byte, 32)))
}

func c11RandHex(r *rand.Rand, n int) string {
	b := make([]byte, n)
	r.Read(b)
	return hex.EncodeToString(b)
}

func c11Boundary() []*big.Int {
	p := func(k uint) *big.Int { return new(big.Int).Lsh(big.NewInt(1), k) }
	m1 := func(v *big.Int) *big.Int { return new(big.Int).Sub(v, big.NewInt(1)) }
	return []*big.Int{big.NewInt(0), big.NewInt(1), big.NewInt(2), big.NewInt(255), big.NewInt(256),
		m1(p(63)), p(63), m1(p(64)), p(64), p(128), m1(p(255)), p(255),
		new(big.Int).Sub(p(256), big.NewInt(2)), m1(p(256)),
		new(big.Int).Mul(big.NewInt(1000000000), big.NewInt(1000000000))}
}

func c11RandValue(r *rand.Rand) *big.Int {
	switch r.Intn(5) {
	case 0:
		return big.NewInt(int64(r.Intn(4)))
	case 1:
		return new(big.Int).SetUint64(r.Uint64())
	case 2:
		b := c11Boundary()
		return b[r.Intn(len(b))]
	default:
		b := make([]byte, 1+r.Intn(32))
		r.Read(b)
		return new(big.Int).SetBytes(b)
	}
}

// return data that is not one clean word: lengths 0, 1, 31, 33, 63 (errors) and 64, 96 (first
// word counts)
func c11Malformed(r *rand.Rand, v *big.Int) []c11Ans {
	w := c11Word(v)
	return []c11Ans{
		{Err: 1}, {Err: 3}, {Data: ""}, {Data: w[:2]}, {Data: w[:62]}, {Data: w + "00"}, {Data: w + c11RandHex(r, 31)},
		{Data: w + c11RandHex(r, 32)}, {Data: w + c11RandHex(r, 64)},
	}
}

func c11RandAns(r *rand.Rand, v *big.Int) c11Ans {
	if r.Intn(3) != 0 {
		return c11Ans{Data: c11Word(v)}
	}
	m := c11Malformed(r, v)
	return m[r.Intn(len(m))]
}

func c11Waits() []c11Wait {
	return []c11Wait{{Kind: "receipt", Status: 1}, {Kind: "receipt", Status: 0}, {Kind: "receipt", Status: 2},
		{Kind: "receipt", Status: ^uint64(0)}, {Kind: "err", Err: 1}, {Kind: "err", Err: 2}, {Kind: "err", Err: 3},
		{Kind: "err", Err: 5}, {Kind: "nil"}}
}

func c11Sends(r *rand.Rand) []c11Ans {
	return []c11Ans{{Data: c11RandHex(r, 32)}, {Err: 1}, {Err: 3}, {Data: strings.Repeat("00", 32)}}
}

func c11AmountStrings() []string {
	return []string{"0", "1", "7", "007", "010", "0777", "1000000000000000000", "18446744073709551615", "18446744073709551616",
		"115792089237316195423570985008687907853269984665640564039457584007913129639935",
		"115792089237316195423570985008687907853269984665640564039457584007913129639941",
		"0100", "00017", "", "-1", "+5", "1 ", " 1", "abc", "0x10", "1e3", "1_000", "١٢"}
}

func c11RandAbiVals(r *rand.Rand) []c11AbiVal {
	n := r.Intn(8)
	if r.Intn(4) == 0 {
		// the storeCommitment shape
		ts := []string{"uint64", "uint64", "string", "uint64", "uint64", "bytes", "bytes"}
		out := make([]c11AbiVal, len(ts))
		for i, t := range ts {
			out[i] = c11RandAbiVal(r, t)
		}
		return out
	}
	ts := []string{"uint64", "uint256", "address", "string", "bytes"}
	out := make([]c11AbiVal, n)
	for i := range out {
		out[i] = c11RandAbiVal(r, ts[r.Intn(len(ts))])
	}
	return out
}

func c11RandAbiVal(r *rand.Rand, t string) c11AbiVal {
	switch t {
	case "uint64":
		v := []uint64{0, 1, r.Uint64(), ^uint64(0), 1 << 63}[r.Intn(5)]
		return c11AbiVal{T: t, N: new(big.Int).SetUint64(v).String()}
	case "uint256":
		return c11AbiVal{T: t, N: c11RandValue(r).String()}
	case "address":
		return c11AbiVal{T: t, B: c11RandHex(r, 20)}
	default:
		n := []int{0, 1, 31, 32, 33, 64, 65, r.Intn(200)}[r.Intn(8)]
		return c11AbiVal{T: t, B: c11RandHex(r, n)}
	}
}

// damage a valid encoding: truncation, a changed byte in a head word, a huge offset or length
func c11Damage(r *rand.Rand, data []byte) []byte {
	d := append([]byte{}, data...)
	switch r.Intn(6) {
	case 0:
		if len(d) > 0 {
			d = d[:r.Intn(len(d))]
		}
	case 1:
		if len(d) > 0 {
			d[r.Intn(len(d))] ^= byte(1 << uint(r.Intn(8)))
		}
	case 2:
		if len(d) >= 32 {
			w := r.Intn(len(d) / 32)
			d[w*32+r.Intn(32)] = byte(r.Intn(256))
		}
	case 3:
		if len(d) >= 32 {
			w := r.Intn(len(d) / 32)
			d[w*32+23+r.Intn(2)] = 0x80 // pushes an offset/length word beyond 2^63
		}
	case 4:
		d = append(d, make([]byte, r.Intn(40))...)
	default:
		if len(d) >= 32 {
			d = d[:len(d)-32]
		}
	}
	return d
}

func TestVerifC11(t *testing.T) {
	e := vfOpen(t, 300)
	defer e.Close()
	ev := c11NewEnv(t)
	run := func(class string, in c11In) {
		obs := ev.run(in)
		e.Emit(class, in, obs, func(id int) string { return ev.coq(id, in, obs) })
	}
	for _, raw := range e.Replay {
		var in c11In
		if err := json.Unmarshal(raw, &in); err != nil {
			t.Fatalf("bad replay input: %v", err)
		}
		run("replay", in)
	}
	if e.OnlyReplay() {
		return
	}
	r := e.rng
	one := big.NewInt(1)
	newIn := func(kind int, op string) c11In {
		return c11In{Kind: kind, Op: op, Reg: c11RandHex(r, 20), Addr: c11RandHex(r, 20),
			Send: c11Ans{Data: c11RandHex(r, 32)}, Wait: c11Wait{Kind: "receipt", Status: 1}}
	}
	str := func(v *big.Int) *string { s := v.String(); return &s }

	for kind := 0; kind < 2; kind++ {
		// A. the comparison boundary: stake in {min-1, min, min+1} for every boundary minimum
		for _, m := range c11Boundary() {
			for d := -1; d <= 1; d++ {
				s := new(big.Int).Add(m, big.NewInt(int64(d)))
				if s.Sign() < 0 || s.Cmp(c11Two256) >= 0 {
					continue
				}
				in := newIn(kind, "check")
				in.Calls = []c11Ans{{Data: c11Word(m)}, {Data: c11Word(s)}}
				run("check-boundary", in)
			}
		}
		// B. every placement of a failure / malformed return value among the two reads, with
		//    amounts that would otherwise give yes
		v := new(big.Int).Add(c11RandValue(r), one)
		bad := append(c11Malformed(r, v), c11Ans{Data: c11Word(v)})
		for _, a := range bad {
			for _, b := range bad {
				in := newIn(kind, "check")
				in.Calls = []c11Ans{a, b}
				run("check-failure-placement", in)
			}
		}
		for _, a := range bad {
			in := newIn(kind, "getmin")
			in.Calls = []c11Ans{a}
			run("getter", in)
			in = newIn(kind, "getstake")
			in.Calls = []c11Ans{a}
			run("getter", in)
		}
		// C. cancelled context
		for _, op := range []string{"check", "getmin", "getstake", "register", "svc"} {
			in := newIn(kind, op)
			in.Calls = []c11Ans{{Data: c11Word(one)}, {Data: c11Word(one)}}
			in.Amount = str(one)
			in.AmountStr = "1"
			in.CtxDone = true
			run("context-cancelled", in)
		}
		// D. stake / prepay: amounts x send results x receipt results
		amounts := []*string{nil, str(big.NewInt(0)), str(big.NewInt(1000000000000000000)),
			str(new(big.Int).Sub(c11Two256, one)), str(big.NewInt(-1)), str(c11RandValue(r))}
		if e.Tier == "thorough" {
			amounts = append(amounts, str(one), str(c11Two256), str(c11RandValue(r)))
		}
		for _, a := range amounts {
			for _, s := range c11Sends(r) {
				for _, w := range c11Waits() {
					in := newIn(kind, "register")
					in.Amount, in.Send, in.Wait = a, s, w
					run("register-matrix", in)
				}
			}
		}
		// E. the RPC methods on top: amount spellings, then receipt outcomes and the final read
		for _, as := range c11AmountStrings() {
			in := newIn(kind, "svc")
			in.AmountStr = as
			in.Calls = []c11Ans{{Data: c11Word(c11RandValue(r))}}
			run("rpc-amount-spelling", in)
		}
		for _, s := range c11Sends(r) {
			for _, w := range c11Waits() {
				for _, a := range []c11Ans{{Data: c11Word(c11RandValue(r))}, {Err: 1}, {Data: "00"}} {
					in := newIn(kind, "svc")
					in.AmountStr = c11RandValue(r).String()
					in.Send, in.Wait, in.Calls = s, w, []c11Ans{a}
					run("rpc-outcomes", in)
				}
			}
		}
	}
	// S. sessions: ONE registry object, several operations; the chain's answers change between
	//    them (minimum raised / lowered, a read failing or malformed and recovering, stake moving)
	big100, big150, big200 := big.NewInt(100), big.NewInt(150), big.NewInt(200)
	okAns := func(v *big.Int) c11Ans { return c11Ans{Data: c11Word(v)} }
	chk := func(min, stake c11Ans) c11In { return c11In{Op: "check", Calls: []c11Ans{min, stake}} }
	getMin := func(a c11Ans) c11In { return c11In{Op: "getmin", Calls: []c11Ans{a}} }
	getStake := func(a c11Ans) c11In { return c11In{Op: "getstake", Calls: []c11Ans{a}} }
	scripted := [][]c11In{
		{chk(okAns(big100), okAns(big150)), chk(okAns(big200), okAns(big150))},                                     // minimum raised
		{chk(okAns(big200), okAns(big150)), chk(okAns(big100), okAns(big150))},                                     // minimum lowered
		{chk(okAns(big100), okAns(big150)), chk(c11Ans{Err: 1}, okAns(big150)), chk(okAns(big100), okAns(big150))}, // read fails, recovers
		{chk(okAns(big100), okAns(big150)), chk(c11Ans{Data: ""}, okAns(big150)), chk(c11Ans{Data: c11Word(big100)[:62]}, okAns(big150))},
		{chk(c11Ans{Err: 1}, okAns(big150)), chk(okAns(big100), okAns(big150)), chk(okAns(big200), okAns(big150))},
		{chk(c11Ans{Data: "00"}, okAns(big150)), chk(okAns(big200), okAns(big150)), chk(okAns(big150), okAns(big150))},
		{getMin(okAns(big100)), chk(okAns(big200), okAns(big150))}, // a getter first
		{getMin(okAns(big100)), getMin(okAns(big200)), getMin(c11Ans{Err: 1}), getMin(okAns(big100))},
		{getStake(okAns(big150)), getStake(okAns(big100)), getStake(c11Ans{Data: "01"}), getStake(okAns(big200))},
		{chk(okAns(big100), okAns(big150)), chk(okAns(big100), okAns(big.NewInt(99)))}, // stake withdrawn
		{getStake(okAns(big150)), chk(okAns(big100), okAns(big.NewInt(99))), chk(okAns(big100), c11Ans{Err: 1})},
		{chk(okAns(big100), okAns(big.NewInt(99))), chk(okAns(big100), okAns(big100)), chk(okAns(big100), c11Ans{Data: ""})},
		{chk(okAns(big100), okAns(big150)), chk(okAns(new(big.Int).Sub(c11Two256, one)), okAns(big150)),
			chk(okAns(big.NewInt(0)), okAns(big.NewInt(0))), chk(okAns(one), okAns(big.NewInt(0))), chk(okAns(big100), okAns(big150))},
	}
	for kind := 0; kind < 2; kind++ {
		for _, steps := range scripted {
			in := c11In{Kind: kind, Op: "session", Reg: c11RandHex(r, 20)}
			acct := c11RandHex(r, 20)
			for _, st := range steps {
				st.Addr = acct
				in.Steps = append(in.Steps, st)
			}
			run("session-scripted", in)
		}
	}
	nsess := e.N / 2
	for i := 0; i < nsess; i++ {
		in := c11In{Kind: r.Intn(2), Op: "session", Reg: c11RandHex(r, 20)}
		acct := c11RandHex(r, 20)
		m, sv := c11RandValue(r), c11RandValue(r)
		if r.Intn(2) == 0 {
			sv = new(big.Int).Set(m) // start at the boundary
		}
		n := 2 + r.Intn(4)
		for j := 0; j < n; j++ {
			// move the chain: raise / lower the minimum or the stake by a little or a lot
			move := func(v *big.Int) *big.Int {
				var nv *big.Int
				switch r.Intn(5) {
				case 0:
					nv = new(big.Int).Add(v, one)
				case 1:
					nv = new(big.Int).Sub(v, one)
				case 2:
					nv = c11RandValue(r)
				default:
					nv = new(big.Int).Set(v)
				}
				if nv.Sign() < 0 || nv.Cmp(c11Two256) >= 0 {
					return v
				}
				return nv
			}
			m, sv = move(m), move(sv)
			st := c11In{Addr: acct}
			if r.Intn(4) == 0 {
				st.Addr = c11RandHex(r, 20) // another account in between
			}
			switch r.Intn(8) {
			case 0:
				st.Op, st.Calls = "getmin", []c11Ans{c11RandAns(r, m)}
			case 1:
				st.Op, st.Calls = "getstake", []c11Ans{c11RandAns(r, sv)}
			case 2:
				st.Op = "register"
				st.Amount = str(c11RandValue(r))
				ws := c11Waits()
				st.Send, st.Wait = c11Ans{Data: c11RandHex(r, 32)}, ws[r.Intn(len(ws))]
			default:
				st.Op, st.Calls = "check", []c11Ans{c11RandAns(r, m), c11RandAns(r, sv)}
				st.CtxDone = r.Intn(25) == 0
			}
			in.Steps = append(in.Steps, st)
		}
		run("session-random", in)
	}
	// V. the same kind of sessions over a real evmclient.EvmClient (reads only): a successful
	//    check, then the same reads failing or malformed on the same client, then recovering
	bad := []c11Ans{{Err: 1}, {Err: 3}, {Data: ""}, {Data: c11Word(big100)[:62]}, {Data: c11Word(big100) + "00"}}
	for kind := 0; kind < 2; kind++ {
		for _, b := range bad {
			for _, steps := range [][]c11In{
				{chk(okAns(big100), okAns(big150)), chk(b, okAns(big150)), chk(okAns(big100), okAns(big150))},
				{chk(okAns(big100), okAns(big150)), chk(okAns(big100), b), chk(okAns(big100), okAns(big150))},
				{chk(okAns(big100), okAns(big150)), chk(b, b), chk(okAns(big200), okAns(big150))},
				{getMin(okAns(big100)), getMin(b), getStake(okAns(big150)), getStake(b), chk(okAns(big100), okAns(big150)), chk(b, okAns(big150))},
			} {
				in := c11In{Kind: kind, Op: "session", Reg: c11RandHex(r, 20), ViaEvm: true}
				acct := c11RandHex(r, 20)
				for _, st := range steps {
					st.Addr = acct
					in.Steps = append(in.Steps, st)
				}
				run("via-evmclient", in)
			}
		}
	}
	for i := 0; i < e.N/8; i++ {
		in := c11In{Kind: r.Intn(2), Op: "session", Reg: c11RandHex(r, 20), ViaEvm: true}
		acct := c11RandHex(r, 20)
		m := c11RandValue(r)
		sv := new(big.Int).Add(m, big.NewInt(int64(r.Intn(2))))
		if sv.Cmp(c11Two256) >= 0 {
			sv = m
		}
		for j, n := 0, 2+r.Intn(4); j < n; j++ {
			st := c11In{Addr: acct, Op: "check", Calls: []c11Ans{c11RandAns(r, m), c11RandAns(r, sv)}}
			switch r.Intn(6) {
			case 0:
				st.Op, st.Calls = "getmin", []c11Ans{c11RandAns(r, m)}
			case 1:
				st.Op, st.Calls = "getstake", []c11Ans{c11RandAns(r, sv)}
			}
			in.Steps = append(in.Steps, st)
		}
		run("via-evmclient-random", in)
	}
	// X. the write path through a real evmclient.EvmClient: chain outcome x timing of the
	//    client's own watcher relative to the registry's wait.  The cases wait on the client's
	//    500 ms poll, so they run side by side and are emitted in order.
	var vw []c11In
	for kind := 0; kind < 2; kind++ {
		chain := []c11Wait{{Kind: "receipt", Status: 1}, {Kind: "receipt", Status: 0}, {Kind: "receipt", Status: 2}, {Kind: "notfound"}}
		for _, late := range []bool{false, true} {
			for _, w := range chain {
				vw = append(vw, c11In{Kind: kind, Op: "viawrite", Reg: c11RandHex(r, 20), Amount: str(c11RandValue(r)), Wait: w, Late: late})
			}
		}
		vw = append(vw, c11In{Kind: kind, Op: "viawrite", Reg: c11RandHex(r, 20), Amount: str(c11RandValue(r)), Wait: c11Wait{Kind: "never"}})
		vw = append(vw, c11In{Kind: kind, Op: "viawrite", Reg: c11RandHex(r, 20), Amount: str(c11RandValue(r)),
			Send: c11Ans{Err: 1}, Wait: c11Wait{Kind: "receipt", Status: 1}})
	}
	for i := 0; i < e.N/20; i++ {
		vw = append(vw, c11In{Kind: r.Intn(2), Op: "viawrite", Reg: c11RandHex(r, 20), Amount: str(c11RandValue(r)),
			Wait: c11Wait{Kind: "receipt", Status: uint64(r.Intn(3))}, Late: r.Intn(2) == 0})
	}
	// X2. the same with OTHER transactions of the same client outstanding and mined in the same
	//     block (one monitor check resolves all of them), their receipts differing from the
	//     stake / prepay transaction's: before / after it in nonce order, 1 to 3 of them, the
	//     node answering the stake / prepay transaction first or last.  The expected outcome is
	//     that of the transaction's own receipt.
	mkOthers := func(nBefore, nAfter int, st func() c11Other) []c11Other {
		var os []c11Other
		for i := 0; i < nBefore+nAfter; i++ {
			o := st()
			o.Before = i < nBefore
			os = append(os, o)
		}
		return os
	}
	for kind := 0; kind < 2; kind++ {
		for _, own := range []uint64{0, 1} {
			for place := 0; place < 3; place++ {
				for _, first := range []bool{true, false} {
					nb, na := 0, 0
					switch place {
					case 0:
						nb = 1 + r.Intn(3)
					case 1:
						na = 1 + r.Intn(3)
					default:
						nb = 1 + r.Intn(2)
						na = 1 + r.Intn(3-nb)
					}
					vw = append(vw, c11In{Kind: kind, Op: "viawrite", Reg: c11RandHex(r, 20), Amount: str(c11RandValue(r)),
						Wait: c11Wait{Kind: "receipt", Status: own}, StakeFirst: first,
						Others: mkOthers(nb, na, func() c11Other { return c11Other{Status: 1 - own} })})
				}
			}
		}
		// the stake / prepay transaction dropped while the others succeed, and the other way round
		vw = append(vw, c11In{Kind: kind, Op: "viawrite", Reg: c11RandHex(r, 20), Amount: str(c11RandValue(r)),
			Wait: c11Wait{Kind: "notfound"}, StakeFirst: r.Intn(2) == 0,
			Others: mkOthers(r.Intn(2), 1+r.Intn(2), func() c11Other { return c11Other{Status: 1} })})
		vw = append(vw, c11In{Kind: kind, Op: "viawrite", Reg: c11RandHex(r, 20), Amount: str(c11RandValue(r)),
			Wait: c11Wait{Kind: "receipt", Status: 1}, StakeFirst: r.Intn(2) == 0,
			Others: mkOthers(1+r.Intn(2), r.Intn(2), func() c11Other { return c11Other{Drop: true} })})
	}
	for i := 0; i < e.N/10; i++ {
		nb := r.Intn(3)
		na := r.Intn(4 - nb)
		if nb+na == 0 {
			na = 1
		}
		vw = append(vw, c11In{Kind: r.Intn(2), Op: "viawrite", Reg: c11RandHex(r, 20), Amount: str(c11RandValue(r)),
			Wait: c11Wait{Kind: "receipt", Status: uint64(r.Intn(3))}, StakeFirst: r.Intn(2) == 0,
			Others: mkOthers(nb, na, func() c11Other {
				if r.Intn(8) == 0 {
					return c11Other{Drop: true}
				}
				return c11Other{Status: uint64(r.Intn(3))}
			})})
	}
	vwObs := make([]c11Obs, len(vw))
	var vwg sync.WaitGroup
	sem := make(chan struct{}, 32)
	for i := range vw {
		vwg.Add(1)
		go func(i int) {
			defer vwg.Done()
			sem <- struct{}{}
			defer func() { <-sem }()
			vwObs[i] = ev.run(vw[i])
		}(i)
	}
	vwg.Wait()
	for i := range vw {
		in, obs := vw[i], vwObs[i]
		e.Emit("via-evmclient-write", in, obs, func(id int) string { return ev.coq(id, in, obs) })
	}
	// Y. overlapping checks / amount lookups for DIFFERENT accounts on one registry object; the
	//    client answers by the account it sees in the request it is given
	{
		min, funded, unfunded := big100, big150, big.NewInt(50)
		mk := func(op string, amount *big.Int) c11In {
			st := c11In{Op: op, Addr: c11RandHex(r, 20)}
			if op == "check" {
				st.Calls = []c11Ans{okAns(min), okAns(amount)}
			} else {
				st.Calls = []c11Ans{okAns(amount)}
			}
			return st
		}
		for kind := 0; kind < 2; kind++ {
			for _, sc := range []struct {
				steps []c11In
				order []int
			}{
				{[]c11In{mk("check", unfunded), mk("check", funded)}, []int{0, 1}},
				{[]c11In{mk("check", unfunded), mk("check", funded)}, []int{1, 0}},
				{[]c11In{mk("check", funded), mk("check", unfunded)}, []int{0, 1}},
				{[]c11In{mk("check", funded), mk("check", unfunded)}, []int{1, 0}},
				{[]c11In{mk("check", unfunded), mk("check", unfunded), mk("check", funded)}, []int{2, 0, 1}},
				{[]c11In{mk("check", funded), mk("check", unfunded), mk("check", funded)}, []int{1, 2, 0}},
				{[]c11In{mk("getstake", unfunded), mk("getstake", funded)}, []int{0, 1}},
				{[]c11In{mk("getstake", funded), mk("check", unfunded)}, []int{1, 0}},
				{[]c11In{mk("check", unfunded), mk("getstake", funded), mk("check", unfunded)}, []int{0, 1, 2}},
			} {
				run("concurrent-check", c11In{Kind: kind, Op: "concreads", Reg: c11RandHex(r, 20), Steps: sc.steps, Order: sc.order})
			}
		}
	}
	// W. overlapping stake / prepay calls with distinct amounts on one registry object
	for kind := 0; kind < 2; kind++ {
		for _, order := range [][]int{{0, 1}, {1, 0}, {0, 1, 2}, {2, 1, 0}, {1, 2, 0}, {2, 0, 1}} {
			for rep := 0; rep < 2; rep++ {
				in := c11In{Kind: kind, Op: "concurrent", Reg: c11RandHex(r, 20), Order: order}
				ws := c11Waits()
				for j := range order {
					// distinct amounts: different residues modulo 4
					amt := new(big.Int).Add(new(big.Int).Lsh(c11RandValue(r), 2), big.NewInt(int64(j+1)))
					st := c11In{Op: "register", Amount: str(amt), Send: c11Ans{Data: c11RandHex(r, 32)},
						Wait: c11Wait{Kind: "receipt", Status: 1}}
					if rep == 1 {
						st.Wait = ws[r.Intn(len(ws)-1)] // any but the nil receipt
						if r.Intn(4) == 0 {
							st.Send = c11Ans{Err: 1}
						}
					}
					in.Steps = append(in.Steps, st)
				}
				run("concurrent-register", in)
			}
		}
	}
	// F. random cases over all operations
	for i := 0; i < e.N; i++ {
		kind := r.Intn(2)
		switch r.Intn(4) {
		case 0, 1:
			in := newIn(kind, "check")
			m := c11RandValue(r)
			s := c11RandValue(r)
			if r.Intn(2) == 0 {
				s = new(big.Int).Add(m, big.NewInt(int64(r.Intn(3)-1)))
				if s.Sign() < 0 || s.Cmp(c11Two256) >= 0 {
					s = m
				}
			}
			in.Calls = []c11Ans{c11RandAns(r, m), c11RandAns(r, s)}
			in.CtxDone = r.Intn(20) == 0
			run("random-check", in)
		case 2:
			in := newIn(kind, "register")
			if r.Intn(10) != 0 {
				in.Amount = str(c11RandValue(r))
			}
			ss, ws := c11Sends(r), c11Waits()
			if r.Intn(2) == 0 {
				in.Send = ss[r.Intn(len(ss))]
			}
			in.Wait = ws[r.Intn(len(ws))]
			if r.Intn(4) == 0 {
				in.Wait = c11Wait{Kind: "receipt", Status: r.Uint64() >> uint(r.Intn(64))}
			}
			run("random-register", in)
		default:
			in := newIn(kind, "svc")
			as := c11AmountStrings()
			in.AmountStr = as[r.Intn(len(as))]
			if r.Intn(2) == 0 {
				in.AmountStr = c11RandValue(r).String()
			}
			ws := c11Waits()
			in.Wait = ws[r.Intn(len(ws))]
			in.Calls = []c11Ans{c11RandAns(r, c11RandValue(r))}
			run("random-rpc", in)
		}
	}
	// G. the ABI codec itself against go-ethereum: packing, unpacking, damaged encodings
	for i := 0; i < e.N; i++ {
		vals := c11RandAbiVals(r)
		run("abi-pack", c11In{Op: "abipack", AbiVals: vals})
		args, gos := c11AbiArgs(vals)
		p, err := args.Pack(gos...)
		if err != nil {
			t.Fatalf("verif: pack: %v", err)
		}
		data := p
		class := "abi-unpack"
		if r.Intn(3) != 0 {
			data = c11Damage(r, p)
			class = "abi-unpack-damaged"
		}
		run(class, c11In{Op: "abiunpack", AbiVals: vals, AbiData: hex.EncodeToString(data)})
	}
}
