package signer_test

// C06 driver (2/8): signer.Verify (the handshake's signature check) on every signature length
// 0..70 and garbage, under recover().

import (
	"bytes"
	"encoding/json"
	"fmt"
	"testing"

	"github.com/ethereum/go-ethereum/crypto"
	"github.com/primevprotocol/mev-commit/pkg/signer"
)

const c06Pkg = "signer"

type c06In struct {
	Pkg   string
	Entry string // signer-verify
	Sig   []byte
	SigN  int // > 1: Sig repeated
	Msg   []byte
	MsgN  int
}

type c06Obs struct {
	Panic bool
	Res   int
	Note  string `json:",omitempty"`
}

func c06Rep(b []byte, n int) []byte {
	if n > 1 {
		return bytes.Repeat(b, n)
	}
	return b
}

func c06Run(in c06In) (obs c06Obs, inp string) {
	sig, msg := c06Rep(in.Sig, in.SigN), c06Rep(in.Msg, in.MsgN)
	inp = coqApp("ESignerVerify", coqN(uint64(len(sig))), coqN(uint64(len(msg))))
	defer func() {
		if r := recover(); r != nil {
			obs = c06Obs{Panic: true, Note: fmt.Sprint(r)}
		}
	}()
	_, _, err := signer.New().Verify(sig, msg)
	if err != nil {
		obs.Res = 1
	}
	return
}

func TestVerifC06(t *testing.T) {
	e := vfOpen(t, 200)
	defer e.Close()
	run := func(class string, in c06In) {
		obs, inp := c06Run(in)
		o := "OPanic"
		if !obs.Panic {
			o = coqApp("ONoPanic", coqN(uint64(obs.Res)))
		}
		e.Emit(class, in, obs, func(id int) string { return coqRecord("id", coqN(uint64(id)), "inp", inp, "obs", o) })
	}
	for _, raw := range e.Replay {
		var in c06In
		if err := json.Unmarshal(raw, &in); err != nil || in.Pkg != c06Pkg {
			continue
		}
		run("replay", in)
	}
	if e.OnlyReplay() {
		return
	}
	key, _ := crypto.ToECDSA(bytes.Repeat([]byte{0x61}, 32))
	msg := []byte("bidder" + "secret")
	good, err := signer.New().Sign(key, msg)
	if err != nil {
		t.Fatal(err)
	}
	rnd := func(n int) []byte { b := make([]byte, n); e.rng.Read(b); return b }
	for n := 0; n <= 70; n++ {
		var sig []byte // n = 0: nil
		if n > 0 && n <= 65 {
			sig = append([]byte{}, good[:n]...)
		} else if n > 65 {
			sig = append(append([]byte{}, good...), rnd(n-65)...)
		}
		run("siglen-prefix", c06In{Pkg: c06Pkg, Entry: "signer-verify", Sig: sig, Msg: msg})
		run("siglen-random", c06In{Pkg: c06Pkg, Entry: "signer-verify", Sig: rnd(n), Msg: rnd(e.rng.Intn(40))})
	}
	run("empty-nonnil", c06In{Pkg: c06Pkg, Entry: "signer-verify", Sig: []byte{}, Msg: []byte{}})
	run("huge", c06In{Pkg: c06Pkg, Entry: "signer-verify", Sig: []byte{0xab}, SigN: 1 << 20, Msg: []byte("m"), MsgN: 1 << 20})
	for _, v := range []byte{0, 1, 2, 3, 4, 26, 27, 28, 29, 255} {
		s := append([]byte{}, good...)
		s[64] = v
		run("recovery-id", c06In{Pkg: c06Pkg, Entry: "signer-verify", Sig: s, Msg: msg})
	}
	for i := 0; i < e.N; i++ {
		s := append([]byte{}, good...)
		switch e.rng.Intn(4) {
		case 0:
			s = rnd(65)
		case 1:
			s[e.rng.Intn(65)] ^= byte(1 << uint(e.rng.Intn(8)))
		case 2:
			copy(s[:32], bytes.Repeat([]byte{[]byte{0, 0xff}[e.rng.Intn(2)]}, 32))
		case 3:
			copy(s[32:64], bytes.Repeat([]byte{[]byte{0, 0xff}[e.rng.Intn(2)]}, 32))
		}
		run("garbage65", c06In{Pkg: c06Pkg, Entry: "signer-verify", Sig: s, Msg: msg})
	}
}
