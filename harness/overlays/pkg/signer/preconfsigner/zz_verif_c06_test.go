package preconfsigner

// C06 driver (1/8): VerifyBid / VerifyPreConfirmation / ConstructPreConfirmation on hostile decoded
// Bid / PreConfirmation values. Every call runs under recover(); the observation is Panic | NoPanic
// with the result class. The summary of each input (Check_C06 / NoPanic.v: bid_in, preconf_in) is
// computed with math/big and go-ethereum's crypto only.

import (
	"bytes"
	"crypto/ecdsa"
	"encoding/json"
	"fmt"
	"math"
	"math/big"
	"math/rand"
	"strings"
	"testing"

	"github.com/ethereum/go-ethereum/crypto"
	preconfpb "github.com/primevprotocol/mev-commit/gen/go/preconfirmation/v1"
	mockkeysigner "github.com/primevprotocol/mev-commit/pkg/keysigner/mock"
)

const c06Pkg = "preconfsigner"

// c06S is a string given as a pattern repeated N times (N = 0: once), so that megabyte inputs stay
// small in replay files.
type c06S struct {
	S string `json:"s"`
	N int    `json:"n,omitempty"`
}

func (s c06S) v() string {
	if s.N > 1 {
		return strings.Repeat(s.S, s.N)
	}
	return s.S
}

// c06B is a byte string: nil, or B repeated N times.
type c06B struct {
	Nil bool   `json:"nil,omitempty"`
	B   []byte `json:"b,omitempty"`
	N   int    `json:"n,omitempty"`
}

func (b c06B) v() []byte {
	if b.Nil {
		return nil
	}
	if b.N > 1 {
		return bytes.Repeat(b.B, b.N)
	}
	if b.B == nil {
		return []byte{}
	}
	return b.B
}

type c06Bid struct {
	Tx, Amt    c06S
	BN, DS, DE int64
	Dig, Sig   c06B
}

func (b *c06Bid) pb() *preconfpb.Bid {
	return &preconfpb.Bid{TxHash: b.Tx.v(), BidAmount: b.Amt.v(), BlockNumber: b.BN, DecayStartTimestamp: b.DS,
		DecayEndTimestamp: b.DE, Digest: b.Dig.v(), Signature: b.Sig.v()}
}

type c06Pre struct {
	Bid      *c06Bid
	Dig, Sig c06B
}

func (c *c06Pre) pb() *preconfpb.PreConfirmation {
	p := &preconfpb.PreConfirmation{Digest: c.Dig.v(), Signature: c.Sig.v()}
	if c.Bid != nil {
		p.Bid = c.Bid.pb()
	}
	return p
}

type c06In struct {
	Pkg   string
	Entry string // verify-bid | verify-preconf | construct-preconf
	Bid   *c06Bid `json:",omitempty"`
	Pre   *c06Pre `json:",omitempty"`
}

type c06Obs struct {
	Panic bool
	Res   int    // 0 no error, 1 error, 2 not classified
	Note  string `json:",omitempty"`
}

func c06Coq(id int, inp string, obs c06Obs) string {
	o := "OPanic"
	if !obs.Panic {
		o = coqApp("ONoPanic", coqN(uint64(obs.Res)))
	}
	return coqRecord("id", coqN(uint64(id)), "inp", inp, "obs", o)
}

// ---- summaries (driver-side truth) ----------------------------------------------------------------

func c06OptLen(b []byte) string { return coqOpt(b != nil, coqN(uint64(len(b)))) }

func c06AmtOK(s string) bool {
	a, ok := new(big.Int).SetString(s, 10)
	return ok && a.Sign() >= 0 && a.BitLen() <= 256
}

func c06SigOK(hash, sig []byte) bool {
	if len(sig) != 65 {
		return false
	}
	s := append([]byte{}, sig...)
	if s[64] >= 27 && s[64] <= 28 {
		s[64] -= 27
	}
	pub, err := crypto.SigToPub(hash, s)
	if err != nil {
		return false
	}
	return crypto.VerifySignature(crypto.FromECDSAPub(pub), hash, s[:64])
}

func c06HashBid(b *preconfpb.Bid) (h []byte) {
	defer func() {
		if r := recover(); r != nil {
			h = nil
		}
	}()
	h, err := GetBidHash(b)
	if err != nil {
		return nil
	}
	return h
}

func c06HashPre(c *preconfpb.PreConfirmation) (h []byte) {
	defer func() {
		if r := recover(); r != nil {
			h = nil
		}
	}()
	h, err := GetPreConfirmationHash(c)
	if err != nil {
		return nil
	}
	return h
}

func c06CoqBidIn(b *preconfpb.Bid) string {
	amtOK := c06AmtOK(b.BidAmount)
	var hashOK, sigOK bool
	if amtOK {
		if h := c06HashBid(b); h != nil && bytes.Equal(h, b.Digest) {
			hashOK = true
			sigOK = c06SigOK(h, b.Signature)
		}
	}
	return coqRecord("bi_dig", c06OptLen(b.Digest), "bi_sig", c06OptLen(b.Signature), "bi_amt_ok", coqBool(amtOK),
		"bi_hash_ok", coqBool(hashOK), "bi_sig_ok", coqBool(sigOK))
}

func c06CoqPreIn(c *preconfpb.PreConfirmation) string {
	bid := "None"
	var hashOK, sigOK bool
	if c.Bid != nil {
		bid = "(Some " + c06CoqBidIn(c.Bid) + ")"
		if c06AmtOK(c.Bid.BidAmount) {
			if h := c06HashPre(c); h != nil && bytes.Equal(h, c.Digest) {
				hashOK = true
				sigOK = c06SigOK(h, c.Signature)
			}
		}
	}
	return coqRecord("pi_bid", bid, "pi_dig", c06OptLen(c.Digest), "pi_sig", c06OptLen(c.Signature),
		"pi_hash_ok", coqBool(hashOK), "pi_sig_ok", coqBool(sigOK))
}

// ---- running one case ---------------------------------------------------------------------------------

var c06ProviderKey = c06KeyOf(0x51)
var c06BidderKey = c06KeyOf(0x52)

func c06KeyOf(seed byte) *ecdsa.PrivateKey {
	k, err := crypto.ToECDSA(bytes.Repeat([]byte{seed}, 32))
	if err != nil {
		panic(err)
	}
	return k
}

func c06Signer(k *ecdsa.PrivateKey) *privateKeySigner {
	return NewSigner(mockkeysigner.NewMockKeySigner(k, crypto.PubkeyToAddress(k.PublicKey)))
}

func c06Run(in c06In) (obs c06Obs, inp string) {
	s := c06Signer(c06ProviderKey)
	var call func() error
	switch in.Entry {
	case "verify-bid":
		b := in.Bid.pb()
		inp = coqApp("EVerifyBid", c06CoqBidIn(b))
		call = func() error { _, err := s.VerifyBid(b); return err }
	case "construct-preconf":
		b := in.Bid.pb()
		inp = coqApp("EConstructPreconf", c06CoqBidIn(b))
		call = func() error { _, err := s.ConstructPreConfirmation(b); return err }
	default:
		c := in.Pre.pb()
		inp = coqApp("EVerifyPreconf", c06CoqPreIn(c))
		call = func() error { _, err := s.VerifyPreConfirmation(c); return err }
	}
	func() {
		defer func() {
			if r := recover(); r != nil {
				obs = c06Obs{Panic: true, Note: fmt.Sprint(r)}
			}
		}()
		if err := call(); err != nil {
			obs = c06Obs{Res: 1, Note: c06Short(err.Error())}
		}
	}()
	return
}

func c06Short(s string) string {
	if len(s) > 120 {
		return s[:120]
	}
	return s
}

// ---- hostile generators -------------------------------------------------------------------------------

func c06RandBytes(r *rand.Rand, n int) []byte {
	b := make([]byte, n)
	r.Read(b)
	return b
}

var c06Amounts = []c06S{{S: "1"}, {S: "0"}, {S: "1000000000000000000"}, {S: "007"}, {S: ""}, {S: "abc"}, {S: "-1"}, {S: "+5"},
	{S: "1e9"}, {S: "0x10"}, {S: " 1"}, {S: "1 "}, {S: "١٢"}, {S: "1_000"}, {S: "1.5"}, {S: "\x00"}, {S: "\xff\xfe"},
	{S: "115792089237316195423570985008687907853269984665640564039457584007913129639935"},
	{S: "115792089237316195423570985008687907853269984665640564039457584007913129639936"},
	{S: "18446744073709551616"}, {S: "-115792089237316195423570985008687907853269984665640564039457584007913129639931"},
	{S: "9", N: 5000}, {S: "9", N: 100000}, {S: "x", N: 1 << 20}}

var c06Txs = []c06S{{S: "0xb7e1f9d2c3a45b6c7d8e9fa0b1c2d3e4f5a6b7c8d9e0f1a2b3c4d5e6f7a8b9c0"}, {S: ""}, {S: "a,b,,c"},
	{S: "\xff\xfe\x00"}, {S: "tx", N: 1 << 19}, {S: ","}, {S: "0x"}}

var c06Ints = []int64{0, 1, -1, 2, math.MaxInt64, math.MinInt64, 1 << 32, -(1 << 40), 1700000000000}

func c06PickS(r *rand.Rand, l []c06S, honest int) c06S {
	if r.Intn(100) < honest {
		return l[0]
	}
	return l[r.Intn(len(l))]
}

func c06Sign(k *ecdsa.PrivateKey, h []byte) []byte {
	if len(h) != 32 {
		return nil
	}
	sig, err := crypto.Sign(h, k)
	if err != nil {
		return nil
	}
	sig[64] += 27
	return sig
}

// c06HostileBytes picks a hostile spelling of a byte field whose honest value is good (may be nil
// when no honest value exists, e.g. the hash of an unparsable amount).
func c06HostileBytes(r *rand.Rand, good []byte, want int) c06B {
	if good == nil {
		good = c06RandBytes(r, want)
	}
	switch r.Intn(12) {
	case 0:
		return c06B{Nil: true}
	case 1:
		return c06B{B: []byte{}}
	case 2: // every length 0..70: prefix of the honest value, padded with random bytes
		n := r.Intn(71)
		b := append([]byte{}, good...)
		if n <= len(b) {
			return c06B{B: b[:n]}
		}
		return c06B{B: append(b, c06RandBytes(r, n-len(b))...)}
	case 3:
		return c06B{B: c06RandBytes(r, want)}
	case 4:
		return c06B{B: make([]byte, want)}
	case 5:
		return c06B{B: bytes.Repeat([]byte{0xff}, want)}
	case 6:
		return c06B{B: []byte{0xab}, N: []int{1000, 65536, 1 << 20}[r.Intn(3)]}
	case 7: // one byte flipped
		b := append([]byte{}, good...)
		if len(b) > 0 {
			b[r.Intn(len(b))] ^= byte(1 << uint(r.Intn(8)))
		}
		return c06B{B: b}
	case 8: // last byte (the recovery id of a signature) in every spelling
		b := append([]byte{}, good...)
		if len(b) > 0 {
			b[len(b)-1] = []byte{0, 1, 2, 3, 4, 26, 27, 28, 29, 30, 31, 255}[r.Intn(12)]
		}
		return c06B{B: b}
	case 9:
		if len(good) > 0 {
			return c06B{B: good[:len(good)-1]}
		}
	case 10:
		return c06B{B: append(append([]byte{}, good...), byte(r.Intn(256)))}
	}
	return c06B{B: good}
}

// c06GenBid: hostility in percent per field; digest / signature are computed for the chosen fields
// first, so that a hostile signature is reached behind a matching digest.
func c06GenBid(r *rand.Rand, k *ecdsa.PrivateKey, hostility int) *c06Bid {
	b := &c06Bid{Tx: c06PickS(r, c06Txs, 100-hostility/2), Amt: c06PickS(r, c06Amounts, 100-hostility),
		BN: 10, DS: 1700000000000, DE: 1700000001000}
	if r.Intn(100) < hostility {
		b.BN, b.DS, b.DE = c06Ints[r.Intn(len(c06Ints))], c06Ints[r.Intn(len(c06Ints))], c06Ints[r.Intn(len(c06Ints))]
	}
	h := c06HashBid(b.pb())
	sig := c06Sign(k, h)
	b.Dig = c06B{B: h, Nil: h == nil}
	b.Sig = c06B{B: sig, Nil: sig == nil}
	if r.Intn(100) < hostility/2 {
		b.Dig = c06HostileBytes(r, h, 32)
	}
	if r.Intn(100) < hostility {
		b.Sig = c06HostileBytes(r, sig, 65)
	}
	return b
}

func c06GenPre(r *rand.Rand, hostility int) *c06Pre {
	c := &c06Pre{}
	switch x := r.Intn(100); {
	case x < 15:
	case x < 65:
		c.Bid = c06GenBid(r, c06BidderKey, 0)
	default:
		c.Bid = c06GenBid(r, c06BidderKey, hostility)
	}
	h := c06HashPre(c.pb())
	sig := c06Sign(c06ProviderKey, h)
	c.Dig = c06B{B: h, Nil: h == nil}
	c.Sig = c06B{B: sig, Nil: sig == nil}
	if c.Bid == nil { // no honest value exists: what a peer would send instead
		c.Dig = c06B{B: c06RandBytes(r, 32)}
		c.Sig = c06B{B: c06RandBytes(r, 65)}
	}
	if r.Intn(100) < hostility/2 {
		c.Dig = c06HostileBytes(r, h, 32)
	}
	if r.Intn(100) < hostility {
		c.Sig = c06HostileBytes(r, sig, 65)
	}
	return c
}

// c06Sweep: the deterministic part -- every signature length 0..70 behind a matching digest, at
// each of the three places a signature is read; every nil / present combination around a nil bid.
func c06Sweep(r *rand.Rand, run func(class string, in c06In)) {
	for n := 0; n <= 70; n++ {
		resize := func(sig []byte) c06B {
			if n == 0 {
				return c06B{Nil: n%2 == 0}
			}
			if n <= len(sig) {
				return c06B{B: append([]byte{}, sig[:n]...)}
			}
			return c06B{B: append(append([]byte{}, sig...), c06RandBytes(r, n-len(sig))...)}
		}
		b := c06GenBid(r, c06BidderKey, 0)
		good := b.Sig.v()
		b.Sig = resize(good)
		run("sweep-bid-siglen", c06In{Pkg: c06Pkg, Entry: "verify-bid", Bid: b})
		run("sweep-bid-siglen", c06In{Pkg: c06Pkg, Entry: "construct-preconf", Bid: b})
		// the commitment's own signature
		c := c06GenPre(r, 0)
		for c.Bid == nil {
			c = c06GenPre(r, 0)
		}
		c.Sig = resize(c.Sig.v())
		run("sweep-preconf-siglen", c06In{Pkg: c06Pkg, Entry: "verify-preconf", Pre: c})
		// the embedded bid's signature
		c2 := &c06Pre{Bid: b}
		h := c06HashPre(c2.pb())
		c2.Dig = c06B{B: h, Nil: h == nil}
		sg := c06Sign(c06ProviderKey, h)
		c2.Sig = c06B{B: sg, Nil: sg == nil}
		run("sweep-preconf-inner-siglen", c06In{Pkg: c06Pkg, Entry: "verify-preconf", Pre: c2})
	}
	for m := 0; m < 9; m++ {
		pick := func(k int) c06B {
			switch k {
			case 0:
				return c06B{Nil: true}
			case 1:
				return c06B{B: []byte{}}
			}
			return c06B{B: c06RandBytes(r, 32+33*(m%2))}
		}
		run("sweep-nil-bid", c06In{Pkg: c06Pkg, Entry: "verify-preconf", Pre: &c06Pre{Dig: pick(m / 3), Sig: pick(m % 3)}})
	}
}

func TestVerifC06(t *testing.T) {
	e := vfOpen(t, 200)
	defer e.Close()
	run := func(class string, in c06In) {
		obs, inp := c06Run(in)
		e.Emit(class, in, obs, func(id int) string { return c06Coq(id, inp, obs) })
	}
	for _, raw := range e.Replay {
		var in c06In
		if err := json.Unmarshal(raw, &in); err != nil || in.Pkg != c06Pkg {
			continue // another package's input
		}
		if (in.Entry == "verify-preconf") != (in.Pre != nil) || (in.Entry != "verify-preconf" && in.Bid == nil) {
			continue
		}
		run("replay", in)
	}
	if e.OnlyReplay() {
		return
	}
	c06Sweep(e.rng, run)
	for i := 0; i < e.N; i++ {
		run("honest-bid", c06In{Pkg: c06Pkg, Entry: "verify-bid", Bid: c06GenBid(e.rng, c06BidderKey, 0)})
		for k := 0; k < 3; k++ {
			run("hostile-bid", c06In{Pkg: c06Pkg, Entry: "verify-bid", Bid: c06GenBid(e.rng, c06BidderKey, 60)})
			run("hostile-preconf", c06In{Pkg: c06Pkg, Entry: "verify-preconf", Pre: c06GenPre(e.rng, 60)})
		}
		run("hostile-construct", c06In{Pkg: c06Pkg, Entry: "construct-preconf", Bid: c06GenBid(e.rng, c06BidderKey, 60)})
		if i%4 == 0 {
			run("honest-preconf", c06In{Pkg: c06Pkg, Entry: "verify-preconf", Pre: c06GenPre(e.rng, 0)})
		}
	}
}
