package preconfsigner

// Correspondence driver for C02: runs the real VerifyBid / VerifyPreConfirmation /
// ConstructSignedBid / ConstructPreConfirmation on valid messages and on single- and
// multi-field perturbations of them (incl. s -> n-s, every spelling of v, digest
// substitution, signature lengths 0..70), records go-ethereum's SigToPub / VerifySignature
// answers for the (hash, signature) pairs of each case, and prints Check_C02.case terms.
// Shares helpers with zz_verif_c03_test.go (both files are overlaid for C02).

import (
	"bytes"
	"encoding/json"
	"errors"
	"math/big"
	"math/rand"
	"strings"
	"testing"

	"github.com/ethereum/go-ethereum/common"
	"github.com/ethereum/go-ethereum/crypto"
	preconfpb "github.com/primevprotocol/mev-commit/gen/go/preconfirmation/v1"
)

type c02Msg struct {
	Bid *vfBid
	Dig []byte
	Sig []byte
}

func (m c02Msg) coq() string {
	bid := "None"
	if m.Bid != nil {
		bid = "(Some " + m.Bid.coq() + ")"
	}
	return coqRecord("m_bid", bid, "m_dig", coqOptBytes(m.Dig), "m_sig", coqOptBytes(m.Sig))
}

func (m c02Msg) pb() *preconfpb.PreConfirmation {
	c := &preconfpb.PreConfirmation{Digest: m.Dig, Signature: m.Sig}
	if m.Bid != nil {
		c.Bid = m.Bid.pb()
	}
	return c
}

func c02MsgOfBid(p *preconfpb.Bid) c02Msg { b := vfBidOf(p); return c02Msg{Bid: &b} }
func c02MsgOf(c *preconfpb.PreConfirmation) c02Msg {
	m := c02Msg{Dig: c.Digest, Sig: c.Signature}
	if c.Bid != nil {
		b := vfBidOf(c.Bid)
		m.Bid = &b
	}
	return m
}

type c02In struct {
	Kind int // see Check_C02.v
	Cur  c02Msg
	Orig *c02Msg
	Key  []byte // kinds 3,4
	Mode int    // kinds 3,4: fault mode of the key signer
	// kinds 1,2 ("session" classes): messages verified earlier, in this order, by the SAME
	// signer instance that then verifies Cur (a verdict must not depend on them)
	Before []c02Step
}

type c02Step struct {
	Kind int // 1 VerifyBid(Msg.Bid) | 2 VerifyPreConfirmation(Msg)
	Msg  c02Msg
}

type c02Entry struct {
	Hash []byte
	Sig  []byte
	Pub  vfOutcome
	Ver  bool
}

type c02Obs struct {
	Inner    vfOutcome
	Obs      vfOutcome
	OrigAddr []byte
	Own      []byte
	Table    []c02Entry
	Signs    []c02Sign
}

type c02Sign struct {
	Hash   []byte
	Answer vfOutcome
}

var c02NA = vfOutcome{Kind: "err", Class: 0}

// c02Record asks the real library about (h, sig) in the spellings the verifier may use.
func c02Record(tbl *[]c02Entry, h, sig []byte) {
	if len(sig) < 65 {
		return
	}
	norm := append([]byte{}, sig...)
	if norm[64] >= 27 && norm[64] <= 28 {
		norm[64] -= 27
	}
	for _, s := range [][]byte{norm, sig} {
		dup := false
		for _, e := range *tbl {
			if bytes.Equal(e.Hash, h) && bytes.Equal(e.Sig, s) {
				dup = true
			}
		}
		if dup {
			continue
		}
		e := c02Entry{Hash: append([]byte{}, h...), Sig: append([]byte{}, s...)}
		func() {
			defer func() {
				if r := recover(); r != nil {
					e.Pub = vfOutcome{Kind: "panic"}
				}
			}()
			pk, err := crypto.SigToPub(h, s)
			if err != nil {
				e.Pub = vfOutcome{Kind: "err", Class: 1}
				return
			}
			pub := crypto.FromECDSAPub(pk)
			e.Pub = vfOutcome{Kind: "ok", Bytes: pub}
			e.Ver = crypto.VerifySignature(pub, h, s[:64])
		}()
		*tbl = append(*tbl, e)
	}
}

func c02RecordBid(tbl *[]c02Entry, b *vfBid) {
	if b == nil {
		return
	}
	if h, err := GetBidHash(b.pb()); err == nil {
		c02Record(tbl, h, b.Sig)
	}
}

func c02RecordMsg(tbl *[]c02Entry, m c02Msg) {
	c02RecordBid(tbl, m.Bid)
	if m.Bid == nil {
		return
	}
	if h, err := GetPreConfirmationHash(m.pb()); err == nil {
		c02Record(tbl, h, m.Sig)
	}
}

// projected result of a verification: Ok address | Err class | Panic. Classes: the package's
// sentinel errors (2 missing, 3 hash, 4 signature), 1 = the hashing function's own refusal
// of the same bid, 5 = anything else (the recovery library's error).
func c02Verify(f func() (*common.Address, error), bid *vfBid) (o vfOutcome) {
	defer func() {
		if r := recover(); r != nil {
			o = vfOutcome{Kind: "panic"}
		}
	}()
	a, err := f()
	if err == nil {
		return vfOutcome{Kind: "ok", Bytes: a.Bytes()}
	}
	switch {
	case errors.Is(err, ErrMissingHashSignature):
		return vfOutcome{Kind: "err", Class: 2}
	case errors.Is(err, ErrInvalidHash):
		return vfOutcome{Kind: "err", Class: 3}
	case errors.Is(err, ErrInvalidSignature):
		return vfOutcome{Kind: "err", Class: 4}
	}
	if bid != nil {
		if _, herr := GetBidHash(bid.pb()); herr != nil && herr.Error() == err.Error() {
			return vfOutcome{Kind: "err", Class: 1}
		}
	}
	return vfOutcome{Kind: "err", Class: 5}
}

func c02Run(in c02In) c02Obs {
	o := c02Obs{Inner: c02NA, Obs: c02NA, Table: []c02Entry{}, Signs: []c02Sign{}}
	verifier := NewSigner(&vfKeySigner{key: vfKey(bytes.Repeat([]byte{1}, 32))})
	origVerifier := NewSigner(&vfKeySigner{key: vfKey(bytes.Repeat([]byte{1}, 32))})
	for _, st := range in.Before {
		st := st
		if st.Kind == 1 && st.Msg.Bid != nil {
			c02Verify(func() (*common.Address, error) { return verifier.VerifyBid(st.Msg.Bid.pb()) }, st.Msg.Bid)
		} else if st.Kind == 2 {
			c02Verify(func() (*common.Address, error) { return verifier.VerifyPreConfirmation(st.Msg.pb()) }, st.Msg.Bid)
		}
	}
	switch in.Kind {
	case 1:
		o.Obs = c02Verify(func() (*common.Address, error) { return verifier.VerifyBid(in.Cur.Bid.pb()) }, in.Cur.Bid)
		c02RecordBid(&o.Table, in.Cur.Bid)
		if in.Orig != nil && in.Orig.Bid != nil {
			if r := c02Verify(func() (*common.Address, error) { return origVerifier.VerifyBid(in.Orig.Bid.pb()) }, in.Orig.Bid); r.Kind == "ok" {
				o.OrigAddr = r.Bytes
			}
		}
	case 2:
		o.Obs = c02Verify(func() (*common.Address, error) { return verifier.VerifyPreConfirmation(in.Cur.pb()) }, in.Cur.Bid)
		if in.Cur.Bid != nil {
			o.Inner = c02Verify(func() (*common.Address, error) { return verifier.VerifyBid(in.Cur.Bid.pb()) }, in.Cur.Bid)
		}
		c02RecordMsg(&o.Table, in.Cur)
		if in.Orig != nil {
			if r := c02Verify(func() (*common.Address, error) { return origVerifier.VerifyPreConfirmation(in.Orig.pb()) }, in.Orig.Bid); r.Kind == "ok" {
				o.OrigAddr = r.Bytes
			}
		}
	case 3, 4:
		ks := &vfKeySigner{key: vfKey(in.Key), mode: in.Mode}
		s := NewSigner(ks)
		o.Own = ks.GetAddress().Bytes()
		var built c02Msg
		ok := false
		func() {
			defer func() {
				if r := recover(); r != nil {
					o.Inner = vfOutcome{Kind: "panic"}
				}
			}()
			if in.Kind == 3 {
				a := in.Cur.Bid
				b, err := s.ConstructSignedBid(string(a.Tx), string(a.Amt), a.Bn, a.Ds, a.De)
				if err != nil {
					_, herr := GetBidHash(a.pb())
					o.Inner = vfOutcome{Kind: "err", Class: c03ConstructErr(err, herr)}
					return
				}
				o.Inner = vfOutcome{Kind: "ok", Bytes: append(append([]byte{}, b.Digest...), b.Signature...)}
				built, ok = c02MsgOfBid(b), true
			} else {
				var arg *preconfpb.Bid
				if in.Cur.Bid != nil {
					arg = in.Cur.Bid.pb()
				}
				c, err := s.ConstructPreConfirmation(arg)
				if err != nil {
					cls := c02Verify(func() (*common.Address, error) { return nil, err }, in.Cur.Bid).Class
					if errors.Is(err, errVfSigner) {
						cls = 6
					}
					o.Inner = vfOutcome{Kind: "err", Class: cls}
					return
				}
				o.Inner = vfOutcome{Kind: "ok", Bytes: append(append([]byte{}, c.Digest...), c.Signature...)}
				built, ok = c02MsgOf(c), true
			}
		}()
		for i := range ks.asked {
			o.Signs = append(o.Signs, c02Sign{Hash: ks.asked[i], Answer: ks.answer[i]})
			if ks.answer[i].Kind == "ok" {
				c02Record(&o.Table, ks.asked[i], ks.answer[i].Bytes)
			}
		}
		if in.Kind == 4 {
			c02RecordBid(&o.Table, in.Cur.Bid)
		}
		if ok {
			if in.Kind == 3 {
				o.Obs = c02Verify(func() (*common.Address, error) { return verifier.VerifyBid(built.Bid.pb()) }, built.Bid)
				c02RecordBid(&o.Table, built.Bid)
			} else {
				o.Obs = c02Verify(func() (*common.Address, error) { return verifier.VerifyPreConfirmation(built.pb()) }, built.Bid)
				c02RecordMsg(&o.Table, built)
			}
		}
	}
	return o
}

func c02Coq(id int, in c02In, o c02Obs) string {
	orig := "None"
	if in.Orig != nil {
		orig = "(Some " + in.Orig.coq() + ")"
	}
	var tbl, sg []string
	for _, e := range o.Table {
		tbl = append(tbl, coqRecord("o_hash", coqBytes(e.Hash), "o_sig", coqBytes(e.Sig), "o_pub", e.Pub.coq(), "o_ver", coqBool(e.Ver)))
	}
	for _, s := range o.Signs {
		sg = append(sg, coqPair(coqBytes(s.Hash), s.Answer.coq()))
	}
	return coqRecord("id", coqN(uint64(id)), "kind", coqN(uint64(in.Kind)), "cur", in.Cur.coq(), "orig", orig,
		"orig_addr", coqBytes(o.OrigAddr), "table", coqList(tbl), "signs", coqList(sg), "own", coqBytes(o.Own),
		"inner", o.Inner.coq(), "obs", o.Obs.coq())
}

// ---- perturbations ----------------------------------------------------------------------------

type c02Pert struct {
	Class string
	Bid   vfBid
}

func c02Clone(b []byte) []byte {
	if b == nil {
		return nil
	}
	return append([]byte{}, b...)
}

// c02SigPerts: every way of touching r, s, the recovery byte and the length of a signature.
func c02SigPerts(sig []byte) (out []struct {
	Class string
	Sig   []byte
}) {
	add := func(class string, s []byte) {
		out = append(out, struct {
			Class string
			Sig   []byte
		}{class, s})
	}
	n := crypto.S256().Params().N
	flip := func(i int) []byte { s := c02Clone(sig); s[i] ^= 0x10; return s }
	add("sig-flip-r", flip(3))
	add("sig-flip-s", flip(40))
	if len(sig) == 65 {
		neg := c02Clone(sig)
		sv := new(big.Int).Sub(n, new(big.Int).SetBytes(sig[32:64]))
		sv.FillBytes(neg[32:64])
		add("sig-s-negated-same-v", neg)
		neg2 := c02Clone(neg)
		neg2[64] ^= 1 // 27<->28 (and 0<->1)
		add("sig-s-negated-flipped-v", neg2)
		fl := c02Clone(sig)
		fl[64] ^= 1
		add("sig-v-flipped", fl)
		for _, v := range []byte{0, 1, 2, 3, 4, 26, 27, 28, 29, 30, 255} {
			s := c02Clone(sig)
			s[64] = v
			add("sig-v-spelling", s)
		}
	}
	for _, l := range []int{0, 1, 31, 32, 33, 63, 64, 66, 67, 70} {
		s := make([]byte, l)
		copy(s, sig)
		add("sig-length", s)
	}
	add("sig-nil", nil)
	return out
}

func c02BidPerts(r *rand.Rand, b0 vfBid, other vfBid) []c02Pert {
	var out []c02Pert
	add := func(class string, f func(b *vfBid)) {
		b := b0
		b.Tx, b.Amt, b.Dig, b.Sig = c02Clone(b0.Tx), c02Clone(b0.Amt), c02Clone(b0.Dig), c02Clone(b0.Sig)
		f(&b)
		out = append(out, c02Pert{class, b})
	}
	amt, _ := new(big.Int).SetString(string(b0.Amt), 10)
	plus := func(d *big.Int) []byte { return []byte(new(big.Int).Add(amt, d).String()) }
	add("unchanged", func(b *vfBid) {})
	add("tx-append", func(b *vfBid) { b.Tx = append(b.Tx, 'x') })
	add("tx-truncate", func(b *vfBid) { b.Tx = b.Tx[:len(b.Tx)-1] })
	add("tx-case", func(b *vfBid) { b.Tx = []byte(strings.ToUpper(string(b.Tx))) })
	add("tx-empty", func(b *vfBid) { b.Tx = nil })
	add("tx-comma", func(b *vfBid) { b.Tx = append(append(b.Tx, ','), b0.Tx...) })
	add("tx-space-appended", func(b *vfBid) { b.Tx = append(b.Tx, ' ') })
	add("tx-space-prepended", func(b *vfBid) { b.Tx = append([]byte(" "), b.Tx...) })
	add("tx-newline-appended", func(b *vfBid) { b.Tx = append(b.Tx, '\n') })
	add("tx-tab-prepended", func(b *vfBid) { b.Tx = append([]byte("\t"), b.Tx...) })
	add("tx-nbsp-appended", func(b *vfBid) { b.Tx = append(b.Tx, "\u00a0"...) })
	add("tx-emspace-prepended", func(b *vfBid) { b.Tx = append([]byte("\u2003"), b.Tx...) })
	add("amount-plus-1", func(b *vfBid) { b.Amt = plus(big.NewInt(1)) })
	add("amount-plus-2^256", func(b *vfBid) { b.Amt = plus(vfPow2(256)) })
	add("amount-plus-2*2^256", func(b *vfBid) { b.Amt = plus(vfPow2(257)) })
	add("amount-minus-2^256", func(b *vfBid) { b.Amt = plus(new(big.Int).Neg(vfPow2(256))) })
	add("amount-plus-2^64", func(b *vfBid) { b.Amt = plus(vfPow2(64)) })
	add("amount-negated", func(b *vfBid) { b.Amt = append([]byte("-"), b.Amt...) })
	add("amount-spelling-plus", func(b *vfBid) { b.Amt = append([]byte("+"), b.Amt...) })
	add("amount-spelling-zeros", func(b *vfBid) { b.Amt = append([]byte("00"), b.Amt...) })
	add("amount-space", func(b *vfBid) { b.Amt = append(b.Amt, ' ') })
	add("amount-empty", func(b *vfBid) { b.Amt = nil })
	add("block-plus-1", func(b *vfBid) { b.Bn++ })
	add("block-negated", func(b *vfBid) { b.Bn = -b.Bn })
	add("start-plus-1", func(b *vfBid) { b.Ds++ })
	add("end-minus-1", func(b *vfBid) { b.De-- })
	add("start-end-swapped", func(b *vfBid) { b.Ds, b.De = b.De, b.Ds+1 })
	add("digest-flip", func(b *vfBid) { b.Dig[r.Intn(len(b.Dig))] ^= 1 << uint(r.Intn(8)) })
	add("digest-truncated", func(b *vfBid) { b.Dig = b.Dig[:31] })
	add("digest-extended", func(b *vfBid) { b.Dig = append(b.Dig, 0) })
	rnd := func(n int) []byte { x := make([]byte, n); r.Read(x); return x }
	add("digest-prepend-1", func(b *vfBid) { b.Dig = append(rnd(1), b.Dig...) })
	add("digest-prepend-12", func(b *vfBid) { b.Dig = append(rnd(12), b.Dig...) })
	add("digest-prepend-32", func(b *vfBid) { b.Dig = append(rnd(32), b.Dig...) })
	add("digest-prepend-zero", func(b *vfBid) { b.Dig = append([]byte{0}, b.Dig...) })
	add("digest-prepend-zeros", func(b *vfBid) { b.Dig = append(make([]byte, 32), b.Dig...) })
	add("digest-strip-first", func(b *vfBid) { b.Dig = b.Dig[1:] })
	add("digest-nil", func(b *vfBid) { b.Dig = nil })
	add("digest-empty", func(b *vfBid) { b.Dig = []byte{} })
	add("digest-of-other-bid", func(b *vfBid) { b.Dig = c02Clone(other.Dig) })
	add("digest-and-signature-of-other-bid", func(b *vfBid) { b.Dig, b.Sig = c02Clone(other.Dig), c02Clone(other.Sig) })
	add("fields-of-other-bid", func(b *vfBid) { b.Tx, b.Amt, b.Bn, b.Ds, b.De = other.Tx, other.Amt, other.Bn, other.Ds, other.De })
	for _, sp := range c02SigPerts(b0.Sig) {
		sp := sp
		add(sp.Class, func(b *vfBid) { b.Sig = sp.Sig })
	}
	// random multi-field perturbations
	single := out
	for i := 0; i < 6; i++ {
		p, q := single[1+r.Intn(len(single)-1)], single[1+r.Intn(len(single)-1)]
		b := p.Bid
		switch {
		case strings.HasPrefix(q.Class, "tx"):
			b.Tx = q.Bid.Tx
		case strings.HasPrefix(q.Class, "amount"):
			b.Amt = q.Bid.Amt
		case strings.HasPrefix(q.Class, "digest"):
			b.Dig = q.Bid.Dig
		case strings.HasPrefix(q.Class, "sig"):
			b.Sig = q.Bid.Sig
		default:
			b.Bn, b.Ds, b.De = q.Bid.Bn, q.Bid.Ds, q.Bid.De
		}
		out = append(out, c02Pert{"multi:" + p.Class + "+" + q.Class, b})
	}
	return out
}

func TestVerifC02(t *testing.T) {
	e := vfOpen(t, 60)
	defer e.Close()
	run := func(class string, in c02In) {
		o := c02Run(in)
		e.Emit(class, in, o, func(id int) string { return c02Coq(id, in, o) })
	}
	for _, raw := range e.Replay {
		var in c02In
		if err := json.Unmarshal(raw, &in); err != nil {
			t.Fatalf("bad replay input: %v", err)
		}
		run("replay", in)
	}
	if e.OnlyReplay() {
		return
	}
	r := e.rng
	rb := func(n int) []byte {
		b := make([]byte, n)
		r.Read(b)
		return b
	}
	mkBid := func(key []byte) vfBid {
		s := NewSigner(&vfKeySigner{key: vfKey(key)})
		tx := "0x" + common.Bytes2Hex(rb(32))
		if r.Intn(3) == 0 {
			tx = vfRandTx(r)
			if tx == "" {
				tx = "t"
			}
		}
		amt := new(big.Int).SetUint64(r.Uint64() >> uint(r.Intn(64)))
		if r.Intn(4) == 0 {
			amt = new(big.Int).Rand(r, vfPow2(256)) // legal for the signer, outside the uint64 schema
		}
		b, err := s.ConstructSignedBid(tx, amt.String(), 1+r.Int63()>>uint(r.Intn(62)), r.Int63()>>uint(r.Intn(62)), 1+r.Int63()>>uint(r.Intn(62)))
		if err != nil {
			t.Fatalf("verif: cannot build a valid bid: %v", err)
		}
		return vfBidOf(b)
	}
	bases := 1 + e.N/100
	for i := 0; i < bases; i++ {
		bidderKey, providerKey := vfRandKey(r), vfRandKey(r)
		b0, other := mkBid(bidderKey), mkBid(bidderKey)
		m0 := c02Msg{Bid: &b0}
		// bids
		for _, p := range c02BidPerts(r, b0, other) {
			p := p
			run("bid:"+p.Class, c02In{Kind: 1, Cur: c02Msg{Bid: &p.Bid}, Orig: &m0})
		}
		// the same fields signed again by the same key / by another key (both legitimate)
		for j, k := range [][]byte{bidderKey, vfRandKey(r)} {
			s := NewSigner(&vfKeySigner{key: vfKey(k)})
			nb, err := s.ConstructSignedBid(string(b0.Tx), string(b0.Amt), b0.Bn, b0.Ds, b0.De+int64(1-j))
			if err != nil {
				t.Fatal(err)
			}
			v := vfBidOf(nb)
			run("bid:resigned", c02In{Kind: 1, Cur: c02Msg{Bid: &v}, Orig: &m0})
		}
		// commitments
		prov := NewSigner(&vfKeySigner{key: vfKey(providerKey)})
		c0p, err := prov.ConstructPreConfirmation(b0.pb())
		if err != nil {
			t.Fatalf("verif: cannot build a valid commitment: %v", err)
		}
		c0 := c02MsgOf(c0p)
		co, err := prov.ConstructPreConfirmation(other.pb())
		if err != nil {
			t.Fatal(err)
		}
		for j, p := range c02BidPerts(r, b0, other) {
			p := p
			// quick tier: a rotating third of the embedded-bid perturbations per valid commitment
			if e.Tier == "thorough" || (j+i)%3 == 0 || strings.HasPrefix(p.Class, "amount-plus-2") {
				run("commitment:bid-"+p.Class, c02In{Kind: 2, Cur: c02Msg{Bid: &p.Bid, Dig: c0.Dig, Sig: c0.Sig}, Orig: &c0})
			}
		}
		// a provider key signing, correctly, a commitment over a bid that is not valid
		pk := vfKey(providerKey)
		for j, p := range c02BidPerts(r, b0, other) {
			p := p
			if !(e.Tier == "thorough" || (j+i)%3 == 1 || strings.HasPrefix(p.Class, "digest-prepend")) {
				continue
			}
			m := c02Msg{Bid: &p.Bid}
			h, err := GetPreConfirmationHash(m.pb())
			if err != nil {
				continue
			}
			sg, err := crypto.Sign(h, pk)
			if err != nil {
				t.Fatal(err)
			}
			sg[64] += 27
			m.Dig, m.Sig = h, sg
			run("commitment:signed-over-bid-"+p.Class, c02In{Kind: 2, Cur: m, Orig: &c0})
		}
		outer := func(class string, f func(m *c02Msg)) {
			m := c02Msg{Bid: c0.Bid, Dig: c02Clone(c0.Dig), Sig: c02Clone(c0.Sig)}
			f(&m)
			run("commitment:"+class, c02In{Kind: 2, Cur: m, Orig: &c0})
		}
		outer("nil-bid", func(m *c02Msg) { m.Bid = nil })
		outer("digest-flip", func(m *c02Msg) { m.Dig[r.Intn(32)] ^= 0x80 })
		outer("digest-nil", func(m *c02Msg) { m.Dig = nil })
		outer("digest-empty", func(m *c02Msg) { m.Dig = []byte{} })
		outer("digest-prepend-1", func(m *c02Msg) { m.Dig = append(rb(1), m.Dig...) })
		outer("digest-prepend-12", func(m *c02Msg) { m.Dig = append(rb(12), m.Dig...) })
		outer("digest-prepend-32", func(m *c02Msg) { m.Dig = append(rb(32), m.Dig...) })
		outer("digest-prepend-zero", func(m *c02Msg) { m.Dig = append([]byte{0}, m.Dig...) })
		outer("digest-append-zero", func(m *c02Msg) { m.Dig = append(m.Dig, 0) })
		outer("digest-truncated", func(m *c02Msg) { m.Dig = m.Dig[:31] })
		outer("digest-strip-first", func(m *c02Msg) { m.Dig = m.Dig[1:] })
		// messages whose true digest starts with a zero byte (found by varying the block number),
		// presented with that byte dropped
		bsig := NewSigner(&vfKeySigner{key: vfKey(bidderKey)})
		var bz, bzc *preconfpb.Bid
		var cz *preconfpb.PreConfirmation
		for bn := 1 + r.Int63()>>20; bz == nil || cz == nil; bn++ {
			nb, err := bsig.ConstructSignedBid(string(b0.Tx), string(b0.Amt), bn, b0.Ds, b0.De)
			if err != nil {
				t.Fatal(err)
			}
			if bz == nil && nb.Digest[0] == 0 {
				bz = nb
			}
			if cz == nil {
				if h, err := GetPreConfirmationHash(&preconfpb.PreConfirmation{Bid: nb}); err == nil && h[0] == 0 {
					bzc = nb
					if cz, err = prov.ConstructPreConfirmation(bzc); err != nil {
						t.Fatal(err)
					}
				}
			}
		}
		vz := vfBidOf(bz)
		mz := c02Msg{Bid: &vz}
		run("bid:digest-leading-zero-genuine", c02In{Kind: 1, Cur: mz, Orig: &mz})
		sz := vz
		sz.Dig = vz.Dig[1:]
		run("bid:digest-leading-zero-stripped", c02In{Kind: 1, Cur: c02Msg{Bid: &sz}, Orig: &mz})
		run("session:bid-digest-leading-zero-stripped", c02In{Kind: 1, Cur: c02Msg{Bid: &sz}, Orig: &mz, Before: []c02Step{{Kind: 1, Msg: mz}}})
		mcz := c02MsgOf(cz)
		run("commitment:digest-leading-zero-genuine", c02In{Kind: 2, Cur: mcz, Orig: &mcz})
		run("commitment:digest-leading-zero-stripped", c02In{Kind: 2, Cur: c02Msg{Bid: mcz.Bid, Dig: mcz.Dig[1:], Sig: mcz.Sig}, Orig: &mcz})
		// embedded bid with the stripped digest, commitment signed correctly over it
		{
			m := c02Msg{Bid: &sz}
			if h, err := GetPreConfirmationHash(m.pb()); err == nil {
				sg, err := crypto.Sign(h, pk)
				if err != nil {
					t.Fatal(err)
				}
				sg[64] += 27
				m.Dig, m.Sig = h, sg
				run("commitment:signed-over-bid-digest-leading-zero-stripped", c02In{Kind: 2, Cur: m, Orig: &c0})
			}
		}
		outer("digest-of-other", func(m *c02Msg) { m.Dig = co.Digest })
		outer("digest-and-signature-of-other", func(m *c02Msg) { m.Dig, m.Sig = co.Digest, co.Signature })
		outer("whole-other-bid", func(m *c02Msg) { m.Bid = &other })
		outer("digest-is-bid-digest", func(m *c02Msg) { m.Dig = b0.Dig })
		outer("signature-is-bid-signature", func(m *c02Msg) { m.Sig = b0.Sig })
		for _, sp := range c02SigPerts(c0.Sig) {
			sp := sp
			outer(sp.Class, func(m *c02Msg) { m.Sig = sp.Sig })
		}
	}
	// sessions: ONE signer instance verifies the genuine message first, then every perturbation
	// (fields with digest and signature kept, digest alone, signature alone, several at once),
	// then the genuine message again; then the same around a genuine commitment (embedded bid
	// perturbed with the commitment's own digest/signature kept, commitment signature alone). Each step is a
	// case whose input carries the steps before it, so that it can be re-run exactly.
	sessions := 1
	if e.Tier == "thorough" {
		sessions = 4
	}
	for i := 0; i < sessions; i++ {
		bidderKey, providerKey := vfRandKey(r), vfRandKey(r)
		b0, other := mkBid(bidderKey), mkBid(bidderKey)
		m0 := c02Msg{Bid: &b0}
		c0p, err := NewSigner(&vfKeySigner{key: vfKey(providerKey)}).ConstructPreConfirmation(b0.pb())
		if err != nil {
			t.Fatalf("verif: cannot build a valid commitment: %v", err)
		}
		c0 := c02MsgOf(c0p)
		var before []c02Step
		step := func(class string, kind int, m c02Msg, orig *c02Msg) {
			run("session:"+class, c02In{Kind: kind, Cur: m, Orig: orig, Before: append([]c02Step{}, before...)})
			before = append(before, c02Step{Kind: kind, Msg: m})
		}
		perts := c02BidPerts(r, b0, other)
		step("bid-genuine-first", 1, m0, &m0)
		for _, p := range perts {
			p := p
			step("bid-"+p.Class, 1, c02Msg{Bid: &p.Bid}, &m0)
		}
		step("bid-genuine-again", 1, m0, &m0)
		step("commitment-genuine-first", 2, c0, &c0)
		for j, p := range perts {
			p := p
			if e.Tier == "thorough" || j%2 == 0 || strings.HasPrefix(p.Class, "amount-plus-2") {
				step("commitment-bid-"+p.Class, 2, c02Msg{Bid: &p.Bid, Dig: c0.Dig, Sig: c0.Sig}, &c0)
			}
		}
		for _, sp := range c02SigPerts(c0.Sig) {
			step("commitment-"+sp.Class, 2, c02Msg{Bid: c0.Bid, Dig: c0.Dig, Sig: sp.Sig}, &c0)
		}
		bad := c02Clone(c0.Dig)
		bad[5] ^= 4
		step("commitment-digest-flip", 2, c02Msg{Bid: c0.Bid, Dig: bad, Sig: c0.Sig}, &c0)
		step("commitment-genuine-again", 2, c0, &c0)
		// forged bids right after the genuine COMMITMENT was verified
		fs := b0
		fs.Sig = c02Clone(b0.Sig)
		fs.Sig[7] ^= 1
		step("bid-signature-forged", 1, c02Msg{Bid: &fs}, &m0)
		fb := b0
		fb.Tx = append(append([]byte{}, b0.Tx...), '!')
		fb.Amt = []byte("1" + string(b0.Amt))
		fb.Bn++
		step("bid-all-fields-forged", 1, c02Msg{Bid: &fb}, &m0)
	}
	// unsigned / malformed messages without a valid origin
	for i := 0; i < 4+e.N/6; i++ {
		b := vfBid{Tx: []byte(vfRandTx(r)), Amt: []byte(vfRandAmount(r)), Bn: vfRandInt64(r), Ds: vfRandInt64(r), De: vfRandInt64(r)}
		switch r.Intn(4) {
		case 0:
		case 1:
			b.Dig, b.Sig = rb(32), rb(65)
		case 2:
			if h, err := GetBidHash(b.pb()); err == nil {
				b.Dig, b.Sig = h, rb(65)
				b.Sig[64] = byte(r.Intn(4)) + 27*byte(r.Intn(2))
			}
		default:
			b.Dig, b.Sig = rb(r.Intn(40)), rb(r.Intn(70))
		}
		run("random-unsigned-bid", c02In{Kind: 1, Cur: c02Msg{Bid: &b}})
		run("random-unsigned-commitment", c02In{Kind: 2, Cur: c02Msg{Bid: &b, Dig: rb(32), Sig: rb(65)}})
	}
	run("commitment:empty", c02In{Kind: 2, Cur: c02Msg{}})
	// the node's own messages: every fault mode of the key signer, then random keys
	for i := 0; i < 7+e.N/6; i++ {
		mode := i
		if i >= 7 {
			mode = r.Intn(2)
		}
		key := vfRandKey(r)
		a := vfBid{Tx: []byte(vfRandTx(r)), Amt: []byte(new(big.Int).SetUint64(r.Uint64()).String()), Bn: 1 + r.Int63(), Ds: r.Int63(), De: r.Int63()}
		if r.Intn(4) == 0 {
			a.Amt = []byte(vfRandAmount(r))
		}
		if sp := vfAmountSpellings(); i >= 7 && i-7 < len(sp) {
			a.Amt = []byte(sp[i-7])
		}
		run("own-bid", c02In{Kind: 3, Cur: c02Msg{Bid: &a}, Key: key, Mode: mode})
		vb := mkBid(vfRandKey(r))
		run("own-commitment", c02In{Kind: 4, Cur: c02Msg{Bid: &vb}, Key: key, Mode: mode})
		if i < 3 {
			bad := vb
			bad.Amt = append([]byte("0"), bad.Amt...)
			if i == 1 {
				bad.Sig = bad.Sig[:64]
			}
			if i == 2 {
				bad.Dig = nil
			}
			run("own-commitment-on-invalid-bid", c02In{Kind: 4, Cur: c02Msg{Bid: &bad}, Key: key, Mode: 0})
		}
	}
	run("own-commitment-nil-bid", c02In{Kind: 4, Cur: c02Msg{}, Key: vfRandKey(r)})
}
