package preconfsigner

// Correspondence driver for C03 (and helpers shared with the C02 driver): runs the real
// GetBidHash / GetPreConfirmationHash / ConstructSignedBid / ConstructPreConfirmation,
// go-ethereum's apitypes.TypedDataAndHash for the published schema (independent EIP-712
// implementation) and crypto.Keccak256, and prints every case as a Check_C03.case term.

import (
	"crypto/ecdsa"
	"encoding/json"
	"errors"
	"math/big"
	"math/rand"
	"strings"
	"sync"
	"sync/atomic"
	"testing"
	"time"

	"github.com/ethereum/go-ethereum/common"
	"github.com/ethereum/go-ethereum/core/types"
	"github.com/ethereum/go-ethereum/crypto"
	"github.com/ethereum/go-ethereum/signer/core/apitypes"
	preconfpb "github.com/primevprotocol/mev-commit/gen/go/preconfirmation/v1"
)

// ---- shared with C02 -------------------------------------------------------------------------

// vfBid is the JSON / Coq rendering of a preconfpb.Bid. Dig/Sig: nil = absent.
type vfBid struct {
	Tx  []byte
	Amt []byte
	Bn  int64
	Ds  int64
	De  int64
	Dig []byte
	Sig []byte
}

func (b vfBid) pb() *preconfpb.Bid {
	return &preconfpb.Bid{TxHash: string(b.Tx), BidAmount: string(b.Amt), BlockNumber: b.Bn,
		DecayStartTimestamp: b.Ds, DecayEndTimestamp: b.De, Digest: b.Dig, Signature: b.Sig}
}

func vfBidOf(p *preconfpb.Bid) vfBid {
	return vfBid{Tx: []byte(p.TxHash), Amt: []byte(p.BidAmount), Bn: p.BlockNumber, Ds: p.DecayStartTimestamp,
		De: p.DecayEndTimestamp, Dig: p.Digest, Sig: p.Signature}
}

func (b vfBid) coq() string {
	return coqRecord("b_tx", coqBytes(b.Tx), "b_amt", coqBytes(b.Amt), "b_bn", coqZ(b.Bn), "b_ds", coqZ(b.Ds),
		"b_de", coqZ(b.De), "b_dig", coqOptBytes(b.Dig), "b_sig", coqOptBytes(b.Sig))
}

// vfOutcome is a projected Go result: Ok bytes | Err class | Panic.
type vfOutcome struct {
	Kind  string // "ok" | "err" | "panic"
	Bytes []byte
	Class int
}

func (o vfOutcome) coq() string {
	switch o.Kind {
	case "ok":
		return "(Ok " + coqBytes(o.Bytes) + ")"
	case "err":
		return "(Err " + coqN(uint64(o.Class)) + ")"
	}
	return "Panic"
}

var errVfSigner = errors.New("verif: key signer refused")

// vfKeySigner is a keysigner.KeySigner around a real key that records what SignHash was asked
// and what it answered (before the caller patches the answer in place), with fault modes:
// 0 crypto.Sign as is (v in {0,1}) | 1 v already 27/28 | 2 error | 3 64-byte answer |
// 4 v = 5 | 5 66-byte answer | 6 empty answer
type vfKeySigner struct {
	key    *ecdsa.PrivateKey
	mode   int
	asked  [][]byte
	answer []vfOutcome
}

func (s *vfKeySigner) SignHash(h []byte) ([]byte, error) {
	s.asked = append(s.asked, append([]byte{}, h...))
	if s.mode == 2 {
		s.answer = append(s.answer, vfOutcome{Kind: "err", Class: 1})
		return nil, errVfSigner
	}
	sig, err := crypto.Sign(h, s.key)
	if err != nil {
		s.answer = append(s.answer, vfOutcome{Kind: "err", Class: 2})
		return nil, err
	}
	switch s.mode {
	case 1:
		sig[64] += 27
	case 3:
		sig = sig[:64]
	case 4:
		sig[64] = 5
	case 5:
		sig = append(sig, 0)
	case 6:
		sig = []byte{}
	}
	s.answer = append(s.answer, vfOutcome{Kind: "ok", Bytes: append([]byte{}, sig...)})
	return sig, nil
}
func (s *vfKeySigner) SignTx(tx *types.Transaction, chainID *big.Int) (*types.Transaction, error) {
	return tx, nil
}
func (s *vfKeySigner) GetAddress() common.Address                { return crypto.PubkeyToAddress(s.key.PublicKey) }
func (s *vfKeySigner) GetPrivateKey() (*ecdsa.PrivateKey, error) { return s.key, nil }
func (s *vfKeySigner) ZeroPrivateKey(key *ecdsa.PrivateKey)      {}
func (s *vfKeySigner) String() string                            { return "verif" }

func vfKey(b []byte) *ecdsa.PrivateKey {
	k, err := crypto.ToECDSA(b)
	if err != nil {
		panic("verif: bad key in case: " + err.Error())
	}
	return k
}

// vfRandKey draws a secp256k1 scalar: tiny, near the group order, or uniform.
func vfRandKey(r *rand.Rand) []byte {
	n := crypto.S256().Params().N
	var d *big.Int
	switch r.Intn(4) {
	case 0:
		d = big.NewInt(int64(1 + r.Intn(5)))
	case 1:
		d = new(big.Int).Sub(n, big.NewInt(int64(1+r.Intn(5))))
	default:
		b := make([]byte, 32)
		r.Read(b)
		d = new(big.Int).SetBytes(b)
		d.Mod(d, new(big.Int).Sub(n, big.NewInt(1)))
		d.Add(d, big.NewInt(1))
	}
	out := make([]byte, 32)
	d.FillBytes(out)
	return out
}


func vfPow2(k uint) *big.Int { return new(big.Int).Lsh(big.NewInt(1), k) }

// vfAmounts: spellings on the decision boundaries of SetString / the range check / the schema.
func vfAmounts() []string {
	p := func(k uint, d int64) string { return new(big.Int).Add(vfPow2(k), big.NewInt(d)).String() }
	return []string{"0", "1", "2", "10", "200", p(32, 0), p(63, -1), p(63, 0), p(63, 1), p(64, -1), p(64, 0),
		p(128, 0), p(255, 0), p(256, -1), p(256, 0), p(256, 5), p(257, 0), "007", "+5", "+05", "-0", "-1", "-5",
		"-" + p(256, -5), "", "+", "-", "1 ", " 1", "1_0", "0x10", "1e3", "1.0", "٥", "５", "12a", "--1", "+-1", "\x00",
		"0100", "010", "0777", "00100", "+010", "-010", "08", "0b1", "0B11", "0o7", "0O17", "0X1f", "0x", "1_000", "0_1"}
}

// vfAmountSpellings: spellings a prefix-sensitive parser (base 0) would read differently
func vfAmountSpellings() []string {
	return []string{"0100", "010", "0777", "00100", "+010", "0x10", "0b1", "0o7", "1_000"}
}

func vfInt64s() []int64 {
	return []int64{0, 1, 2, 1 << 31, 1 << 32, 1 << 62, 1<<63 - 1, -1, -2, -1 << 63, -1<<63 + 1}
}

func vfTxs(r *rand.Rand) []string {
	rb := func(n int) string {
		b := make([]byte, n)
		r.Read(b)
		return string(b)
	}
	hx := func(n int) string { return "0x" + common.Bytes2Hex([]byte(rb(n))) }
	return []string{"", "0xkartik", "a", hx(32), strings.ToUpper(hx(32)), hx(32) + "," + hx(32), hx(32) + "," + hx(32) + "," + hx(32),
		"ünï-çødé ✓ 交易", "\xff\xfe\x00\x80", rb(135), rb(136), rb(137), rb(271), rb(272), rb(273), strings.Repeat("ab", 1000),
		",", ",,", "0x" + strings.Repeat("0", 64),
		// white space (ASCII and Unicode White_Space) at the ends and inside: all of it is hashed
		" " + hx(32), hx(32) + " ", "\t" + hx(32) + "\n", "\r\n" + hx(4) + "\r\n", hx(32) + "\u00a0", "\u2003" + hx(32),
		"\u0085" + hx(8) + "\u3000", hx(16) + " " + hx(16), " ", "\u00a0"}
}

func vfRandAmount(r *rand.Rand) string {
	switch r.Intn(8) {
	case 0:
		a := vfAmounts()
		return a[r.Intn(len(a))]
	case 1:
		return new(big.Int).Add(vfPow2(256), big.NewInt(r.Int63())).String()
	case 2:
		return new(big.Int).Rand(r, vfPow2(256)).String()
	default:
		return new(big.Int).SetUint64(r.Uint64() >> uint(r.Intn(64))).String()
	}
}

func vfRandInt64(r *rand.Rand) int64 {
	switch r.Intn(8) {
	case 0:
		a := vfInt64s()
		return a[r.Intn(len(a))]
	case 1:
		return -r.Int63()
	default:
		return r.Int63() >> uint(r.Intn(63))
	}
}

func vfRandTx(r *rand.Rand) string {
	if r.Intn(4) == 0 {
		t := vfTxs(r)
		return t[r.Intn(len(t))]
	}
	b := make([]byte, 32)
	r.Read(b)
	s := "0x" + common.Bytes2Hex(b)
	for r.Intn(4) == 0 {
		r.Read(b)
		s += ",0x" + common.Bytes2Hex(b)
	}
	return s
}

// ---- C03 ----------------------------------------------------------------------------------------

type c03In struct {
	Kind int // see Check_C03.v
	Bid  vfBid
	Raw  []byte
	Key  []byte // kinds 3,4: the constructing node's key
	Mode int    // kinds 3,4: fault mode of its key signer
	// kinds 1,2: when set, the digest is observed while other goroutines hash the (different)
	// messages of Pool at the same moment, in tight loops for Millis milliseconds; the
	// observation is the first digest that differs from the one computed alone, if any
	Conc *c03Conc
}

type c03Conc struct {
	Pool   []vfBid
	Millis int
}

type c03Obs struct {
	Obs    vfOutcome
	Api    []byte
	Asked  []byte
	Answer vfOutcome
}

func c03Api(kind int, b vfBid) []byte {
	amt, ok := new(big.Int).SetString(string(b.Amt), 10)
	if !ok || amt.Sign() < 0 || amt.BitLen() > 64 || b.Bn < 0 || b.Ds < 0 || b.De < 0 {
		return nil
	}
	fields := []apitypes.Type{{Name: "txnHash", Type: "string"}, {Name: "bid", Type: "uint64"},
		{Name: "blockNumber", Type: "uint64"}, {Name: "decayStartTimeStamp", Type: "uint64"},
		{Name: "decayEndTimeStamp", Type: "uint64"}}
	msg := apitypes.TypedDataMessage{"txnHash": string(b.Tx), "bid": amt, "blockNumber": big.NewInt(b.Bn),
		"decayStartTimeStamp": big.NewInt(b.Ds), "decayEndTimeStamp": big.NewInt(b.De)}
	name := "PreConfBid"
	if kind == 2 {
		name = "PreConfCommitment"
		fields = append(fields, apitypes.Type{Name: "bidHash", Type: "string"}, apitypes.Type{Name: "signature", Type: "string"})
		msg["bidHash"] = common.Bytes2Hex(b.Dig)
		msg["signature"] = common.Bytes2Hex(b.Sig)
	}
	td := apitypes.TypedData{
		Types: apitypes.Types{
			"EIP712Domain": {{Name: "name", Type: "string"}, {Name: "version", Type: "string"}},
			name:           fields,
		},
		PrimaryType: name,
		Domain:      apitypes.TypedDataDomain{Name: name, Version: "1"},
		Message:     msg,
	}
	h, _, err := apitypes.TypedDataAndHash(td)
	if err != nil {
		return nil
	}
	return h
}

func c03Hash(f func() ([]byte, error)) (o vfOutcome) {
	defer func() {
		if r := recover(); r != nil {
			o = vfOutcome{Kind: "panic"}
		}
	}()
	h, err := f()
	if err != nil {
		return vfOutcome{Kind: "err", Class: 1}
	}
	return vfOutcome{Kind: "ok", Bytes: h}
}

// class of an error returned by Construct*: 6 the key signer's own error, 1 the hashing
// function's refusal of the same input, 7 any other refusal
func c03ConstructErr(err error, hashErr error) int {
	if errors.Is(err, errVfSigner) {
		return 6
	}
	if hashErr != nil && err.Error() == hashErr.Error() {
		return 1
	}
	return 7
}

// c03Concurrent hashes [in.Bid] in a tight loop while one goroutine per pool message hashes
// that message; returns the first result that differs from [alone] (the digest computed
// with nothing else running), else [alone]. Also returns the number of digests compared.
func c03Concurrent(in c03In, alone vfOutcome) (vfOutcome, int) {
	hashOf := func(kind int, b vfBid) func() ([]byte, error) {
		if kind == 2 {
			return func() ([]byte, error) { return GetPreConfirmationHash(&preconfpb.PreConfirmation{Bid: b.pb()}) }
		}
		return func() ([]byte, error) { return GetBidHash(b.pb()) }
	}
	same := func(a, b vfOutcome) bool { return a.Kind == b.Kind && a.Class == b.Class && string(a.Bytes) == string(b.Bytes) }
	var stop int32
	var wg sync.WaitGroup
	start := make(chan struct{})
	for i, pb := range in.Conc.Pool {
		f := hashOf(1+(i+in.Kind)%2, pb) // both functions run next to the observed one
		if i%2 == 0 {
			f = hashOf(in.Kind, pb)
		}
		wg.Add(1)
		go func() {
			defer wg.Done()
			<-start
			for atomic.LoadInt32(&stop) == 0 {
				c03Hash(f)
			}
		}()
	}
	res, n := alone, 0
	f := hashOf(in.Kind, in.Bid)
	deadline := time.Now().Add(time.Duration(in.Conc.Millis) * time.Millisecond)
	close(start)
	for time.Now().Before(deadline) {
		for k := 0; k < 64; k++ {
			got := c03Hash(f)
			n++
			if !same(got, alone) {
				res = got
				deadline = time.Now()
				break
			}
		}
	}
	atomic.StoreInt32(&stop, 1)
	wg.Wait()
	return res, n
}

func c03Run(in c03In) c03Obs {
	var o c03Obs
	o.Answer = vfOutcome{Kind: "err", Class: 0}
	if in.Conc != nil && (in.Kind == 1 || in.Kind == 2) {
		seq := in
		seq.Conc = nil
		o = c03Run(seq)
		o.Obs, _ = c03Concurrent(in, o.Obs)
		return o
	}
	switch in.Kind {
	case 0:
		o.Obs = vfOutcome{Kind: "ok", Bytes: crypto.Keccak256(in.Raw)}
	case 1:
		o.Obs = c03Hash(func() ([]byte, error) { return GetBidHash(in.Bid.pb()) })
		o.Api = c03Api(1, in.Bid)
	case 2:
		o.Obs = c03Hash(func() ([]byte, error) { return GetPreConfirmationHash(&preconfpb.PreConfirmation{Bid: in.Bid.pb()}) })
		o.Api = c03Api(2, in.Bid)
	case 3, 4:
		ks := &vfKeySigner{key: vfKey(in.Key), mode: in.Mode}
		s := NewSigner(ks)
		func() {
			defer func() {
				if r := recover(); r != nil {
					o.Obs = vfOutcome{Kind: "panic"}
				}
			}()
			if in.Kind == 3 {
				b, err := s.ConstructSignedBid(string(in.Bid.Tx), string(in.Bid.Amt), in.Bid.Bn, in.Bid.Ds, in.Bid.De)
				if err != nil {
					_, herr := GetBidHash(in.Bid.pb())
					o.Obs = vfOutcome{Kind: "err", Class: c03ConstructErr(err, herr)}
					return
				}
				o.Obs = vfOutcome{Kind: "ok", Bytes: append(append([]byte{}, b.Digest...), b.Signature...)}
			} else {
				c, err := s.ConstructPreConfirmation(in.Bid.pb())
				if err != nil {
					_, herr := GetPreConfirmationHash(&preconfpb.PreConfirmation{Bid: in.Bid.pb()})
					o.Obs = vfOutcome{Kind: "err", Class: c03ConstructErr(err, herr)}
					return
				}
				o.Obs = vfOutcome{Kind: "ok", Bytes: append(append([]byte{}, c.Digest...), c.Signature...)}
			}
		}()
		if len(ks.asked) > 0 {
			o.Asked = ks.asked[0]
			o.Answer = ks.answer[0]
		}
	default:
		o.Obs = c03Hash(func() ([]byte, error) { return GetPreConfirmationHash(&preconfpb.PreConfirmation{}) })
	}
	return o
}

func TestVerifC03(t *testing.T) {
	e := vfOpen(t, 60)
	defer e.Close()
	run := func(class string, in c03In) {
		o := c03Run(in)
		e.Emit(class, in, o, func(id int) string {
			return coqRecord("id", coqN(uint64(id)), "kind", coqN(uint64(in.Kind)), "msg", in.Bid.coq(),
				"raw", coqBytes(in.Raw), "asked", coqOptBytes(o.Asked), "answer", o.Answer.coq(),
				"obs", o.Obs.coq(), "api", coqOptBytes(o.Api))
		})
	}
	for _, raw := range e.Replay {
		var in c03In
		if err := json.Unmarshal(raw, &in); err != nil {
			t.Fatalf("bad replay input: %v", err)
		}
		run("replay", in)
	}
	if e.OnlyReplay() {
		return
	}
	r := e.rng
	rb := func(n int) []byte {
		b := make([]byte, n)
		r.Read(b)
		return b
	}
	// the repository's own vectors (sourced from the Solidity contract)
	d0 := common.Hex2Bytes("a0327970258c49b922969af74d60299a648c50f69a2d98d6ab43f32f64ac2100")
	s0 := common.Hex2Bytes("876c1216c232828be9fabb14981c8788cebdf6ed66e563c4a2ccc82a577d052543207aeeb158a32d8977736797ae250c63ef69a82cd85b727da21e20d030fb311b")
	run("vector", c03In{Kind: 1, Bid: vfBid{Tx: []byte("0xkartik"), Amt: []byte("200"), Bn: 3000, Ds: 10, De: 30}})
	run("vector", c03In{Kind: 2, Bid: vfBid{Tx: []byte("0xkartik"), Amt: []byte("2"), Bn: 2, Ds: 10, De: 20, Dig: d0, Sig: s0}})
	run("nil-bid", c03In{Kind: 5})
	// boundaries, one field at a time, both messages
	for _, a := range vfAmounts() {
		run("amount-boundary", c03In{Kind: 1, Bid: vfBid{Tx: []byte("0xkartik"), Amt: []byte(a), Bn: 2, Ds: 10, De: 20}})
		run("amount-boundary", c03In{Kind: 2, Bid: vfBid{Tx: []byte("0xkartik"), Amt: []byte(a), Bn: 2, Ds: 10, De: 20, Dig: d0, Sig: s0}})
	}
	for i, v := range vfInt64s() {
		b := vfBid{Tx: []byte("0xkartik"), Amt: []byte("18446744073709551615"), Bn: 2, Ds: 10, De: 20}
		switch i % 3 {
		case 0:
			b.Bn = v
		case 1:
			b.Ds = v
		default:
			b.De = v
		}
		run("int64-boundary", c03In{Kind: 1, Bid: b})
		b.Bn, b.Ds, b.De = v, v, v
		b.Dig, b.Sig = rb(32), rb(65)
		run("int64-boundary", c03In{Kind: 2, Bid: b})
	}
	for _, tx := range vfTxs(r) {
		run("tx-class", c03In{Kind: 1, Bid: vfBid{Tx: []byte(tx), Amt: []byte("1"), Bn: 1, Ds: 0, De: 1<<63 - 1}})
	}
	for _, ds := range [][2][]byte{{nil, nil}, {{}, {}}, {rb(1), rb(64)}, {rb(33), rb(66)}, {d0, nil}, {nil, s0},
		{common.Hex2Bytes("ABCDEF0123456789abcdef0123456789ABCDEF0123456789abcdef0123456789"), rb(65)}} {
		run("commitment-digest-signature", c03In{Kind: 2, Bid: vfBid{Tx: []byte("0xkartik"), Amt: []byte("7"), Bn: 5, Ds: 1, De: 2, Dig: ds[0], Sig: ds[1]}})
	}
	// Keccak-256 itself around the 136-byte rate boundaries
	for _, n := range []int{0, 1, 2, 7, 8, 9, 55, 56, 64, 134, 135, 136, 137, 138, 200, 270, 271, 272, 273, 407, 408, 409, 1000} {
		run("keccak-boundary", c03In{Kind: 0, Raw: rb(n)})
	}
	run("keccak-boundary", c03In{Kind: 0, Raw: make([]byte, 136)})
	run("keccak-boundary", c03In{Kind: 0, Raw: []byte(strings.Repeat("\xff", 272))})
	for i := 0; i < e.N; i++ {
		run("keccak-random", c03In{Kind: 0, Raw: rb(r.Intn(420))})
	}
	// random messages
	for i := 0; i < e.N; i++ {
		b := vfBid{Tx: []byte(vfRandTx(r)), Amt: []byte(vfRandAmount(r)), Bn: vfRandInt64(r), Ds: vfRandInt64(r), De: vfRandInt64(r)}
		if i%2 == 0 {
			run("random-bid", c03In{Kind: 1, Bid: b})
		} else {
			b.Dig, b.Sig = rb(32), rb(65)
			run("random-commitment", c03In{Kind: 2, Bid: b})
		}
	}
	// signing: every fault mode of the key signer, then random keys in the normal modes
	for i := 0; i < 7+e.N/3; i++ {
		mode := i
		if i >= 7 {
			mode = r.Intn(2)
		}
		key := vfRandKey(r)
		b := vfBid{Tx: []byte(vfRandTx(r)), Amt: []byte(vfRandAmount(r)), Bn: vfRandInt64(r), Ds: vfRandInt64(r), De: vfRandInt64(r)}
		if r.Intn(3) > 0 {
			b.Amt = []byte(new(big.Int).SetUint64(r.Uint64()).String())
			b.Bn, b.Ds, b.De = 1+r.Int63(), r.Int63(), r.Int63()
		}
		run("construct-bid", c03In{Kind: 3, Bid: b, Key: key, Mode: mode})
		// a validly signed bid handed to another node's ConstructPreConfirmation
		bidder := NewSigner(&vfKeySigner{key: vfKey(vfRandKey(r))})
		sb, err := bidder.ConstructSignedBid("0x"+common.Bytes2Hex(rb(32)), new(big.Int).SetUint64(r.Uint64()).String(), 1+r.Int63(), r.Int63(), r.Int63())
		if err != nil {
			t.Fatalf("verif: cannot build a valid bid: %v", err)
		}
		run("construct-commitment", c03In{Kind: 4, Bid: vfBidOf(sb), Key: key, Mode: mode})
	}
	// concurrent hashing: every message of a pool of distinct messages is observed while all
	// the others are being hashed at the same moment (shared mutable state between calls
	// would show up as a digest that differs from the one computed alone)
	rounds, millis, G := 1, 60*e.Slow, 12
	if e.Tier == "thorough" {
		rounds, millis = 4, 250
	}
	for rd := 0; rd < rounds; rd++ {
		pool := make([]vfBid, G)
		for i := range pool {
			pool[i] = vfBid{Tx: []byte("0x" + common.Bytes2Hex(rb(32))), Amt: []byte(new(big.Int).SetUint64(r.Uint64()).String()),
				Bn: r.Int63(), Ds: r.Int63(), De: r.Int63(), Dig: rb(32), Sig: rb(65)}
		}
		for i := range pool {
			others := append(append([]vfBid{}, pool[:i]...), pool[i+1:]...)
			run("concurrent", c03In{Kind: 1 + i%2, Bid: pool[i], Conc: &c03Conc{Pool: others, Millis: millis}})
		}
	}
	for _, b := range []vfBid{{Tx: nil, Amt: []byte("1"), Bn: 1}, {Tx: []byte("t"), Amt: nil, Bn: 1}, {Tx: []byte("t"), Amt: []byte("1"), Bn: 0},
		{Tx: []byte("t"), Amt: []byte("x"), Bn: 1}, {Tx: []byte("t"), Amt: []byte("-1"), Bn: 1}} {
		run("construct-refused", c03In{Kind: 3, Bid: b, Key: vfRandKey(r)})
	}
}
