package topology_test

// Correspondence driver for C15: the real topology.Topology and the real discovery.Discovery wired
// together as node.NewNode does, over a recording p2p fake (address book, streamer, gated Connect).
// Exported API only.  Every Connect call made by the discovery worker blocks inside the fake until a
// "done" event answers it, so that the interleaving of list processing and dial completion is the
// one chosen by the case.

import (
	"bytes"
	"context"
	"encoding/hex"
	"encoding/json"
	"errors"
	"io"
	"log/slog"
	"math/rand"
	"net/http"
	"net/http/httptest"
	"runtime"
	"sort"
	"strconv"
	"strings"
	"sync"
	"sync/atomic"
	"testing"
	"time"

	"github.com/ethereum/go-ethereum/common"
	"github.com/ethereum/go-ethereum/crypto"
	discoverypb "github.com/primevprotocol/mev-commit/gen/go/discovery/v1"
	"github.com/primevprotocol/mev-commit/pkg/apiserver"
	"github.com/primevprotocol/mev-commit/pkg/debugapi"
	"github.com/primevprotocol/mev-commit/pkg/discovery"
	mockkeysigner "github.com/primevprotocol/mev-commit/pkg/keysigner/mock"
	"github.com/primevprotocol/mev-commit/pkg/p2p"
	"github.com/primevprotocol/mev-commit/pkg/p2p/libp2p"
	"github.com/primevprotocol/mev-commit/pkg/topology"
	"google.golang.org/protobuf/proto"
)

type c15Peer struct {
	A common.Address
	T int
}
type c15Lk struct {
	P c15Peer
	U []byte
}
type c15Ann struct {
	P c15Peer
	M int // 1: NewStream fails at once, 2: WriteMsg fails at once, 3: delivered, but the write takes a while (network latency),
	// 4: delivered, but the recipient is very slow (the write is held for c15Hold x VERIF_SLOW)
}
type c15Entry struct {
	E []byte
	U []byte
}
type c15Event struct {
	K       string     // connected | add | disconnected | gossip | done
	P       *c15Peer   `json:",omitempty"`
	Ps      []c15Peer  `json:",omitempty"`
	Lk      []c15Lk    `json:",omitempty"`
	Ann     []c15Ann   `json:",omitempty"`
	ReadOK  bool       `json:",omitempty"`
	Entries []c15Entry `json:",omitempty"`
	U       []byte     `json:",omitempty"`
	R       *c15Peer   `json:",omitempty"`
}
type c15In struct {
	Probes []common.Address
	Evs    []c15Event
	// concurrent run: goroutine i repeats Conc[i] (connected / add / disconnected over addresses that
	// no other list mentions) for RunMs milliseconds, Readers goroutines keep reading the views
	// overlapping calls: a schedule of starts / releases / atomic events (see c15RunOverlap)
	Acts []c15Act `json:",omitempty"`

	Conc    [][]c15Event `json:",omitempty"`
	Readers int          `json:",omitempty"`
	RunMs   int          `json:",omitempty"`
	// the discovery machine: a schedule of lists / releases of parked IsConnected answers / context
	// ends / dial completions / topology events (see c15DiscRun)
	GActs []c15GAct `json:",omitempty"`
}

// one action of a discovery-machine schedule
type c15GAct struct {
	K       string     // list | check | cancel | done | topo
	H       int        `json:",omitempty"`
	ReadOK  bool       `json:",omitempty"`
	Entries []c15Entry `json:",omitempty"`
	U       []byte     `json:",omitempty"`
	R       *c15Peer   `json:",omitempty"` // done: the peer Connect returns, or nil with
	Why     int        `json:",omitempty"` // the reason of the refusal: 0 undecodable, 1 self, 2 blocked, 3 unreachable
	Ev      *c15Event  `json:",omitempty"`
}

// what the driver sees during one action
type c15DEff struct {
	K     string // check | dial | add | return
	H     int
	Known bool     `json:",omitempty"`
	U     []byte   `json:",omitempty"`
	P     *c15Peer `json:",omitempty"`
	Code  int      `json:",omitempty"`
}
type c15Act struct {
	K   string // start | release | other
	C   int
	P   *c15Peer  `json:",omitempty"`
	Lk  []c15Lk   `json:",omitempty"`
	Ann []c15Ann  `json:",omitempty"`
	Ev  *c15Event `json:",omitempty"`
}
type c15CallObs struct {
	C    int
	Done bool
	Eff  []c15Eff
}
type c15Obs struct {
	Evs   []c15ObsEv
	Calls []c15CallObs `json:",omitempty"`
	GEff  [][]c15DEff  `json:",omitempty"`
	Peak  int          `json:",omitempty"`
	Stuck bool         `json:",omitempty"`
}
type c15Rec struct {
	A common.Address
	U []byte
}
type c15Eff struct {
	K    string     // announce | wire | dial | add
	To   *c15Peer   `json:",omitempty"`
	Recs []c15Rec   `json:",omitempty"`
	W    []c15Entry `json:",omitempty"`
	U    []byte     `json:",omitempty"`
	P    *c15Peer   `json:",omitempty"`
}
type c15ObsEv struct {
	Eff   []c15Eff
	Views [][]c15Peer
	Conn  []bool
	Api   [][]common.Address // GET /topology: connected_peers providers, bidders; nil when the request failed
}

func c15FromPeer(p p2p.Peer) c15Peer { return c15Peer{p.EthAddress, int(p.Type)} }
func (p c15Peer) peer() p2p.Peer     { return p2p.Peer{EthAddress: p.A, Type: p2p.PeerType(p.T)} }

// --- the recording world ------------------------------------------------------------------------

type c15Res struct {
	p   p2p.Peer
	err error
}
type c15Call struct {
	u  []byte
	ch chan c15Res
}
type c15Park struct {
	call int
	ch   chan struct{}
}
type c15World struct {
	gated       bool             // overlapping calls: every NewStream parks until released; effects are kept per call
	current     int              // the call that is running (one goroutine runs at a time)
	parked      map[int]*c15Park // call -> its parked NewStream
	callEff     map[int][]c15Eff
	quiet       bool          // concurrent runs: effects are not recorded
	latency     time.Duration // duration of a mode-3 write
	hold        time.Duration // duration of a mode-4 write
	mu          sync.Mutex
	eff         []c15Eff
	lk          map[c15Peer][]byte
	ann         map[c15Peer]int
	blocked     []*c15Call
	arrivals    int
	returns     int
	addCalls    int
	falseChecks int
	// discovery machine runs: IsConnected answers park per handler, everything seen is logged
	disc3       bool
	gidH        map[int64]int
	checkParked map[int]chan struct{}
	checksSeen  map[int]int
	returned    map[int]bool
	deff        []c15DEff
	peak        int
}

func c15Gid() int64 {
	var b [64]byte
	n := runtime.Stack(b[:], false)
	f := strings.Fields(string(b[:n]))
	if len(f) < 2 {
		return -1
	}
	id, _ := strconv.ParseInt(f[1], 10, 64)
	return id
}

func (w *c15World) record(e c15Eff) {
	w.mu.Lock()
	if w.gated {
		w.callEff[w.current] = append(w.callEff[w.current], e)
	} else if !w.quiet {
		w.eff = append(w.eff, e)
	}
	w.mu.Unlock()
}

// p2p.Addressbook
func (w *c15World) GetPeerInfo(p p2p.Peer) ([]byte, error) {
	w.mu.Lock()
	defer w.mu.Unlock()
	if u, ok := w.lk[c15FromPeer(p)]; ok {
		return append([]byte{}, u...), nil
	}
	return nil, p2p.ErrPeerNotFound
}

// p2p.Streamer
// Like the real transport, the fake honours its context: nothing is opened or written once the
// context is cancelled, and a slow write is abandoned when the context is cancelled meanwhile.
func (w *c15World) NewStream(ctx context.Context, p p2p.Peer, _ p2p.Header, _ p2p.StreamDesc) (p2p.Stream, error) {
	if err := ctx.Err(); err != nil {
		return nil, err
	}
	w.mu.Lock()
	if w.gated {
		pk := &c15Park{call: w.current, ch: make(chan struct{})}
		w.parked[pk.call] = pk
		w.mu.Unlock()
		<-pk.ch // released by the driver, which has made this call the current one again
		w.mu.Lock()
	}
	m := w.ann[c15FromPeer(p)]
	lat := w.latency
	w.mu.Unlock()
	if m == 1 {
		return nil, errors.New("c15: cannot open stream")
	}
	st := &c15OutStream{w: w, to: c15FromPeer(p), failWrite: m == 2}
	if m == 3 {
		st.latency = lat
	}
	if m == 4 {
		st.latency = w.hold
	}
	return st, nil
}

// discovery.P2PService
func (w *c15World) Connect(_ context.Context, u []byte) (p2p.Peer, error) {
	c := &c15Call{u: append([]byte{}, u...), ch: make(chan c15Res, 1)}
	w.mu.Lock()
	w.eff = append(w.eff, c15Eff{K: "dial", U: c.u})
	w.blocked = append(w.blocked, c)
	w.arrivals++
	if w.arrivals-w.returns > w.peak {
		w.peak = w.arrivals - w.returns
	}
	if w.disc3 {
		w.deff = append(w.deff, c15DEff{K: "dial", U: c.u})
	}
	w.mu.Unlock()
	r := <-c.ch
	w.mu.Lock()
	w.returns++
	w.mu.Unlock()
	return r.p, r.err
}

type c15OutStream struct {
	w         *c15World
	to        c15Peer
	failWrite bool
	latency   time.Duration
}

func (s *c15OutStream) ReadMsg(context.Context, proto.Message) error { return io.EOF }
func (s *c15OutStream) WriteMsg(ctx context.Context, m proto.Message) error {
	if err := ctx.Err(); err != nil {
		return err
	}
	if s.latency > 0 {
		select {
		case <-ctx.Done():
			return ctx.Err()
		case <-time.After(s.latency):
		}
	}
	pl, ok := m.(*discoverypb.PeerList)
	if !ok {
		s.w.record(c15Eff{K: "wire", To: &s.to, W: []c15Entry{{E: []byte("not a PeerList")}}})
		return nil
	}
	var es []c15Entry
	for _, p := range pl.Peers {
		es = append(es, c15Entry{E: append([]byte{}, p.EthAddress...), U: append([]byte{}, p.Underlay...)})
	}
	to := s.to
	s.w.record(c15Eff{K: "wire", To: &to, W: es})
	if s.failWrite {
		return errors.New("c15: write failed")
	}
	return nil
}
func (s *c15OutStream) Reset() error { return nil }
func (s *c15OutStream) Close() error { return nil }

type c15InStream struct {
	ok   bool
	list *discoverypb.PeerList
	w    *c15World // discovery machine runs: the handler's goroutine is made known to the world
	h    int
}

func (s *c15InStream) ReadMsg(_ context.Context, m proto.Message) error {
	if s.w != nil {
		s.w.mu.Lock()
		s.w.gidH[c15Gid()] = s.h
		s.w.mu.Unlock()
	}
	if !s.ok {
		return errors.New("c15: read failed")
	}
	pl, ok := m.(*discoverypb.PeerList)
	if !ok {
		return errors.New("c15: unexpected message type")
	}
	proto.Merge(pl, s.list)
	return nil
}
func (s *c15InStream) WriteMsg(context.Context, proto.Message) error { return nil }
func (s *c15InStream) Reset() error                                  { return nil }
func (s *c15InStream) Close() error                                  { return nil }

// tee between Topology and the real Discovery: records the call, then delegates
type c15Tee struct {
	w     *c15World
	inner topology.Announcer
}

func (a *c15Tee) BroadcastPeers(ctx context.Context, p p2p.Peer, infos []p2p.PeerInfo) error {
	to := c15FromPeer(p)
	var rs []c15Rec
	for _, i := range infos {
		rs = append(rs, c15Rec{i.EthAddress, append([]byte{}, i.Underlay...)})
	}
	a.w.record(c15Eff{K: "announce", To: &to, Recs: rs})
	return a.inner.BroadcastPeers(ctx, p, infos)
}

// what Discovery sees of the topology: records AddPeers arguments, then delegates
type c15Topo struct {
	w     *c15World
	inner *topology.Topology
}

func (t *c15Topo) AddPeers(ps ...p2p.Peer) {
	for _, p := range ps {
		q := c15FromPeer(p)
		t.w.record(c15Eff{K: "add", P: &q})
		if t.w.disc3 {
			t.w.mu.Lock()
			t.w.deff = append(t.w.deff, c15DEff{K: "add", P: &q})
			t.w.mu.Unlock()
		}
	}
	t.inner.AddPeers(ps...)
	t.w.mu.Lock()
	t.w.addCalls++
	t.w.mu.Unlock()
}
func (t *c15Topo) IsConnected(a common.Address) bool {
	if t.w.disc3 {
		// the answer is held back until the driver releases it; it is computed at that moment
		t.w.mu.Lock()
		h, ok := t.w.gidH[c15Gid()]
		var ch chan struct{}
		if ok {
			ch = make(chan struct{})
			t.w.checkParked[h] = ch
		}
		t.w.mu.Unlock()
		if ok {
			<-ch
			r := t.inner.IsConnected(a)
			t.w.mu.Lock()
			t.w.deff = append(t.w.deff, c15DEff{K: "check", H: h, Known: r})
			t.w.checksSeen[h]++
			t.w.mu.Unlock()
			return r
		}
	}
	r := t.inner.IsConnected(a)
	if !r {
		t.w.mu.Lock()
		t.w.falseChecks++
		t.w.mu.Unlock()
	}
	return r
}

func (w *c15World) waitFor(cond func() bool, d time.Duration) bool {
	deadline := time.Now().Add(d)
	for {
		w.mu.Lock()
		ok := cond()
		w.mu.Unlock()
		if ok {
			return true
		}
		if time.Now().After(deadline) {
			return false
		}
		time.Sleep(20 * time.Microsecond)
	}
}

var c15ViewRoles = []int{int(p2p.PeerTypeBootnode), int(p2p.PeerTypeProvider), int(p2p.PeerTypeBidder), -1}

// c15Sys is one wired system under test; next() lets the generator look at the driver's state
type c15Sys struct {
	api    http.Handler
	w      *c15World
	topo   *topology.Topology
	disc   *discovery.Discovery
	probes []common.Address
	slow   time.Duration
	marks  []int
	obs    []c15ObsEv
}

func c15New(probes []common.Address, slow int) *c15Sys {
	logger := slog.New(slog.NewTextHandler(io.Discard, nil))
	w := &c15World{lk: map[c15Peer][]byte{}, ann: map[c15Peer]int{}, latency: 5 * time.Millisecond * time.Duration(slow),
		hold: c15Hold * time.Duration(slow)}
	topo := topology.New(w, logger)
	disc := discovery.New(&c15Topo{w: w, inner: topo}, w, logger)
	topo.SetAnnouncer(&c15Tee{w: w, inner: disc})
	// the debug API as node.NewNode registers it: on the API server, over the same Topology and
	// the node's (real) libp2p service
	srv := apiserver.New("c15", logger)
	debugapi.RegisterAPI(srv, topo, c15P2P(), logger)
	return &c15Sys{api: srv.Router(), w: w, topo: topo, disc: disc, probes: probes, slow: time.Duration(slow)}
}

type c15Registry struct{}

func (c15Registry) CheckProviderRegistered(context.Context, common.Address) bool { return true }

var (
	c15P2POnce sync.Once
	c15P2PSvc  *libp2p.Service
)

// one real libp2p service for the whole run (the debug API handler reads Self and BlockedPeers from it)
func c15P2P() *libp2p.Service {
	c15P2POnce.Do(func() {
		key, err := crypto.GenerateKey()
		if err != nil {
			panic(err)
		}
		svc, err := libp2p.New(&libp2p.Options{
			KeySigner:  mockkeysigner.NewMockKeySigner(key, crypto.PubkeyToAddress(key.PublicKey)),
			Secret:     "c15",
			ListenPort: 0,
			ListenAddr: "127.0.0.1",
			PeerType:   p2p.PeerTypeBootnode,
			Register:   c15Registry{},
			Logger:     slog.New(slog.NewTextHandler(io.Discard, nil)),
		})
		if err != nil {
			panic(err)
		}
		c15P2PSvc = svc
	})
	return c15P2PSvc
}

func (s *c15Sys) queryAPI() [][]common.Address {
	rec := httptest.NewRecorder()
	s.api.ServeHTTP(rec, httptest.NewRequest(http.MethodGet, "/topology", nil))
	if rec.Code != http.StatusOK {
		return nil
	}
	var resp struct {
		ConnectedPeers map[string][]common.Address `json:"connected_peers"`
	}
	if err := json.Unmarshal(rec.Body.Bytes(), &resp); err != nil {
		return nil
	}
	return [][]common.Address{
		append([]common.Address{}, resp.ConnectedPeers["providers"]...),
		append([]common.Address{}, resp.ConnectedPeers["bidders"]...),
	}
}

func (s *c15Sys) blockedUnderlays() [][]byte {
	s.w.mu.Lock()
	defer s.w.mu.Unlock()
	var us [][]byte
	for _, c := range s.w.blocked {
		us = append(us, c.u)
	}
	sort.Slice(us, func(i, j int) bool { return bytes.Compare(us[i], us[j]) < 0 })
	return us
}

func (s *c15Sys) apply(ev c15Event) {
	w := s.w
	w.mu.Lock()
	s.marks = append(s.marks, len(w.eff))
	w.mu.Unlock()
	switch ev.K {
	case "connected":
		w.mu.Lock()
		w.lk = map[c15Peer][]byte{}
		for _, l := range ev.Lk {
			if _, dup := w.lk[l.P]; !dup { // first entry wins, as in the model's table lookup
				w.lk[l.P] = l.U
			}
		}
		w.ann = map[c15Peer]int{}
		for _, a := range ev.Ann {
			if _, dup := w.ann[a.P]; !dup {
				w.ann[a.P] = a.M
			}
		}
		w.mu.Unlock()
		s.topo.Connected(ev.P.peer())
	case "add":
		var ps []p2p.Peer
		for _, p := range ev.Ps {
			ps = append(ps, p.peer())
		}
		s.topo.AddPeers(ps...)
	case "disconnected":
		s.topo.Disconnected(ev.P.peer())
	case "gossip":
		pl := &discoverypb.PeerList{}
		for _, e := range ev.Entries {
			pl.Peers = append(pl.Peers, &discoverypb.PeerInfo{EthAddress: e.E, Underlay: e.U})
		}
		w.mu.Lock()
		f0, a0 := w.falseChecks, w.arrivals
		w.mu.Unlock()
		done := make(chan struct{})
		go func() {
			defer close(done)
			_ = s.disc.Streams()[0].Handler(context.Background(), ev.P.peer(), &c15InStream{ok: ev.ReadOK, list: pl})
		}()
		select {
		case <-done:
		case <-time.After(5 * time.Second * s.slow):
		}
		// positive synchronisation: one Connect call per address the list loop found unknown
		w.waitFor(func() bool { return w.arrivals-a0 >= w.falseChecks-f0 }, 2*time.Second*s.slow)
		time.Sleep(2 * time.Millisecond * s.slow) // a dial nobody announced would show up here
	case "done":
		var call *c15Call
		w.mu.Lock()
		for i, c := range w.blocked {
			if bytes.Equal(c.u, ev.U) {
				call = c
				w.blocked = append(w.blocked[:i:i], w.blocked[i+1:]...)
				break
			}
		}
		r0, c0 := w.returns, w.addCalls
		w.mu.Unlock()
		if call != nil {
			if ev.R != nil {
				call.ch <- c15Res{p: ev.R.peer()}
				w.waitFor(func() bool { return w.addCalls > c0 }, 2*time.Second*s.slow)
			} else {
				call.ch <- c15Res{err: errors.New("c15: unreachable")}
				w.waitFor(func() bool { return w.returns > r0 }, 2*time.Second*s.slow)
				time.Sleep(200 * time.Microsecond * s.slow)
			}
		}
	}
	o := c15ObsEv{}
	for _, r := range c15ViewRoles {
		var v []c15Peer
		for _, p := range s.topo.GetPeers(topology.Query{Type: p2p.PeerType(r)}) {
			v = append(v, c15FromPeer(p))
		}
		o.Views = append(o.Views, v)
	}
	for _, a := range s.probes {
		o.Conn = append(o.Conn, s.topo.IsConnected(a))
	}
	o.Api = s.queryAPI()
	s.obs = append(s.obs, o)
}

func (s *c15Sys) finish() []c15ObsEv {
	time.Sleep(5 * time.Millisecond * s.slow)
	w := s.w
	w.mu.Lock()
	eff := append([]c15Eff{}, w.eff...)
	blocked := w.blocked
	w.blocked = nil
	w.mu.Unlock()
	for i := range s.obs {
		hi := len(eff)
		if i+1 < len(s.marks) {
			hi = s.marks[i+1]
		}
		s.obs[i].Eff = eff[s.marks[i]:hi]
	}
	for _, c := range blocked {
		c.ch <- c15Res{err: errors.New("c15: shutdown")}
	}
	_ = s.disc.Close()
	return s.obs
}

func c15RunAny(in c15In, slow int) c15Obs {
	if len(in.GActs) > 0 {
		d := c15NewDisc(in.Probes, slow)
		for _, a := range in.GActs {
			d.do(a)
		}
		return d.finish()
	}
	if len(in.Acts) > 0 {
		return c15RunOverlap(in, slow)
	}
	return c15Obs{Evs: c15Run(in, slow)}
}

func c15Run(in c15In, slow int) []c15ObsEv {
	if len(in.Conc) > 0 {
		return c15RunConc(in, slow)
	}
	s := c15New(in.Probes, slow)
	for _, ev := range in.Evs {
		s.apply(ev)
	}
	return s.finish()
}

// c15RunConc drives one real Topology (wired as always) from several goroutines. Every call is
// made under a watchdog: if the goroutines have not all returned 5 s (x VERIF_SLOW) after they were
// told to stop, the run is a hang (nil observation) and the stuck system is abandoned.
func c15RunConc(in c15In, slow int) []c15ObsEv {
	s := c15New(in.Probes, slow)
	s.w.quiet = true
	var stop atomic.Bool
	var wg sync.WaitGroup
	for _, list := range in.Conc {
		list := list
		wg.Add(1)
		go func() {
			defer wg.Done()
			for pass := 0; pass == 0 || !stop.Load(); pass++ {
				for _, ev := range list {
					switch ev.K {
					case "connected":
						s.w.mu.Lock()
						for _, l := range ev.Lk {
							s.w.lk[l.P] = l.U
						}
						s.w.mu.Unlock()
						s.topo.Connected(ev.P.peer())
					case "add":
						var ps []p2p.Peer
						for _, p := range ev.Ps {
							ps = append(ps, p.peer())
						}
						s.topo.AddPeers(ps...)
					case "disconnected":
						s.topo.Disconnected(ev.P.peer())
					}
				}
			}
		}()
	}
	for i := 0; i < in.Readers; i++ {
		wg.Add(1)
		go func() {
			defer wg.Done()
			for !stop.Load() {
				_ = s.topo.GetPeers(topology.Query{Type: p2p.PeerTypeProvider})
				_ = s.topo.GetPeers(topology.Query{Type: p2p.PeerTypeBidder})
				for _, a := range s.probes {
					_ = s.topo.IsConnected(a)
				}
			}
		}()
	}
	time.Sleep(time.Duration(in.RunMs) * time.Millisecond)
	stop.Store(true)
	done := make(chan []c15ObsEv, 1)
	go func() {
		wg.Wait()
		s.apply(c15Event{K: "observe"})
		done <- s.obs
	}()
	select {
	case obs := <-done:
		_ = s.disc.Close()
		obs[0].Eff = nil
		return obs
	case <-time.After(5 * time.Second * time.Duration(slow)):
		return nil // stuck; the goroutines are left behind
	}
}

// c15RunOverlap: several Connected calls on shared addresses, overlapping under the driver's
// control. Each call runs in its own goroutine; whenever it reaches the transport (NewStream inside
// the real discovery.BroadcastPeers) it parks. The driver lets exactly one goroutine run at a time and
// waits until it has parked again or returned (positive synchronisation), so the schedule is the
// interleaving of the calls' critical sections.
func c15RunOverlap(in c15In, slow int) c15Obs {
	s := c15New(in.Probes, slow)
	w := s.w
	w.gated = true
	w.parked = map[int]*c15Park{}
	w.callEff = map[int][]c15Eff{}
	done := map[int]bool{}
	tables := map[int]c15Act{}
	var order []int
	setCurrent := func(c int) {
		a := tables[c]
		w.mu.Lock()
		w.current = c
		w.lk = map[c15Peer][]byte{}
		for _, l := range a.Lk {
			if _, dup := w.lk[l.P]; !dup {
				w.lk[l.P] = l.U
			}
		}
		w.ann = map[c15Peer]int{}
		for _, x := range a.Ann {
			if _, dup := w.ann[x.P]; !dup {
				w.ann[x.P] = x.M
			}
		}
		w.mu.Unlock()
	}
	settled := func(c int) bool { return w.parked[c] != nil || done[c] }
	hung := false
	for _, a := range in.Acts {
		if hung {
			break
		}
		switch a.K {
		case "start":
			if _, dup := tables[a.C]; dup {
				continue
			}
			tables[a.C] = a
			order = append(order, a.C)
			setCurrent(a.C)
			c, p := a.C, a.P.peer()
			go func() {
				s.topo.Connected(p)
				w.mu.Lock()
				done[c] = true
				w.mu.Unlock()
			}()
			hung = !w.waitFor(func() bool { return settled(c) }, 5*time.Second*s.slow)
		case "release":
			w.mu.Lock()
			pk := w.parked[a.C]
			delete(w.parked, a.C)
			w.mu.Unlock()
			if pk != nil {
				setCurrent(a.C)
				c := a.C
				close(pk.ch)
				hung = !w.waitFor(func() bool { return settled(c) }, 5*time.Second*s.slow)
			}
		case "other":
			w.mu.Lock()
			w.current = -1
			w.mu.Unlock()
			ch := make(chan struct{})
			ev := *a.Ev
			go func() {
				defer close(ch)
				switch ev.K {
				case "add":
					var ps []p2p.Peer
					for _, p := range ev.Ps {
						ps = append(ps, p.peer())
					}
					s.topo.AddPeers(ps...)
				case "disconnected":
					s.topo.Disconnected(ev.P.peer())
				}
			}()
			select {
			case <-ch:
			case <-time.After(5 * time.Second * s.slow):
				hung = true
			}
		}
	}
	var out c15Obs
	w.mu.Lock()
	for _, c := range order {
		out.Calls = append(out.Calls, c15CallObs{C: c, Done: done[c], Eff: append([]c15Eff{}, w.callEff[c]...)})
	}
	left := w.parked
	w.parked = map[int]*c15Park{}
	w.current = -2
	w.mu.Unlock()
	if !hung {
		fin := make(chan []c15ObsEv, 1)
		go func() {
			s.apply(c15Event{K: "observe"})
			fin <- s.obs
		}()
		select {
		case o := <-fin:
			out.Evs = o
		case <-time.After(5 * time.Second * s.slow):
		}
	}
	for _, pk := range left { // let whatever is still parked run out
		close(pk.ch)
	}
	_ = s.disc.Close()
	return out
}

// c15Parked lists the calls that are parked (generator support)
func (s *c15Sys) parkedCalls() []int {
	s.w.mu.Lock()
	defer s.w.mu.Unlock()
	var cs []int
	for c := range s.w.parked {
		cs = append(cs, c)
	}
	sort.Ints(cs)
	return cs
}

// --- the discovery machine ---------------------------------------------------------------------------
// The real Discovery over the fake P2P service (every Connect parks until a "done" action answers it)
// and a topology whose IsConnected answers park per handler until a "check" action releases them.
// The driver keeps the little state it needs to know which reaction to wait for (positively) after
// each action: whether the dispatcher holds a peer, how many dials run, which handler sits in its
// select.  A reaction that does not come within the watchdog limit ends the run (Stuck).
const c15Width = 10 // discovery.checkWorkers (unexported); the checker uses the constant regenerated from the source

type c15Disc struct {
	s        *c15Sys
	rem      map[int]int // entries a handler has not passed yet (head included)
	cancels  map[int]context.CancelFunc
	started  map[int]bool
	pending  bool // the dispatcher holds a peer and waits for a slot
	inflight int
	offerer  int // the handler that sits in its select, -1: none
	geff     [][]c15DEff
	mark     int
	stuck    bool
	limit    time.Duration
}

func c15NewDisc(probes []common.Address, slow int) *c15Disc {
	s := c15New(probes, slow)
	w := s.w
	w.disc3 = true
	w.gidH = map[int64]int{}
	w.checkParked = map[int]chan struct{}{}
	w.checksSeen = map[int]int{}
	w.returned = map[int]bool{}
	limit := 5 * time.Second * time.Duration(slow)
	if atomic.LoadInt32(&c15StuckRuns) >= 3 {
		// something is badly wrong with this tree (no run gets stuck on a healthy one): the remaining
		// runs are still made and reported, but do not wait as long for reactions that will not come
		limit = 500 * time.Millisecond * time.Duration(slow)
	}
	return &c15Disc{s: s, rem: map[int]int{}, cancels: map[int]context.CancelFunc{}, started: map[int]bool{}, offerer: -1,
		limit: limit}
}

var c15StuckRuns int32 // discovery-machine runs of this process that ended stuck

func (d *c15Disc) wait(cond func() bool) bool {
	if d.stuck {
		return false
	}
	if !d.s.w.waitFor(cond, d.limit) {
		d.stuck = true
		atomic.AddInt32(&c15StuckRuns, 1)
		return false
	}
	return true
}

// handler h has passed an entry: it parks at its next IsConnected or returns
func (d *c15Disc) passed(h int) {
	d.rem[h]--
	w := d.s.w
	if d.rem[h] > 0 {
		d.wait(func() bool { return w.checkParked[h] != nil })
	} else {
		d.wait(func() bool { return w.returned[h] })
	}
}

// the internal steps that are enabled now
func (d *c15Disc) dispatch() {
	w := d.s.w
	for !d.stuck {
		if d.pending {
			if d.inflight >= c15Width {
				return
			}
			d.wait(func() bool { return w.arrivals-w.returns == d.inflight+1 })
			d.inflight++
			d.pending = false
		} else if d.offerer >= 0 {
			h := d.offerer
			d.offerer = -1
			d.passed(h)
			d.pending = true
		} else {
			return
		}
	}
}

func (d *c15Disc) do(a c15GAct) {
	if d.stuck {
		return
	}
	w := d.s.w
	switch a.K {
	case "list":
		if d.started[a.H] {
			break
		}
		d.started[a.H] = true
		pl := &discoverypb.PeerList{}
		for _, e := range a.Entries {
			pl.Peers = append(pl.Peers, &discoverypb.PeerInfo{EthAddress: e.E, Underlay: e.U})
		}
		ctx, cancel := context.WithCancel(context.Background())
		d.cancels[a.H] = cancel
		h := a.H
		st := &c15InStream{ok: a.ReadOK, list: pl, w: w, h: h}
		from := p2p.Peer{Type: p2p.PeerTypeBootnode}
		go func() {
			err := d.s.disc.Streams()[0].Handler(ctx, from, st)
			code := 0
			switch {
			case err == nil:
			case errors.Is(err, context.Canceled):
				code = 2
			case strings.Contains(err.Error(), "InvalidArgument"):
				code = 1
			default:
				code = 9
			}
			w.mu.Lock()
			w.deff = append(w.deff, c15DEff{K: "return", H: h, Code: code})
			w.returned[h] = true
			w.mu.Unlock()
		}()
		if a.ReadOK && len(a.Entries) > 0 {
			d.rem[h] = len(a.Entries)
			d.wait(func() bool { return w.checkParked[h] != nil })
		} else {
			d.wait(func() bool { return w.returned[h] })
		}
	case "check":
		w.mu.Lock()
		ch := w.checkParked[a.H]
		delete(w.checkParked, a.H)
		n0 := w.checksSeen[a.H]
		w.mu.Unlock()
		if ch == nil {
			break
		}
		close(ch)
		if !d.wait(func() bool { return w.checksSeen[a.H] > n0 }) {
			break
		}
		w.mu.Lock()
		known := w.deff[len(w.deff)-1].Known
		for i := len(w.deff) - 1; i >= 0; i-- {
			if w.deff[i].K == "check" && w.deff[i].H == a.H {
				known = w.deff[i].Known
				break
			}
		}
		w.mu.Unlock()
		if known {
			d.passed(a.H)
		} else {
			d.offerer = a.H
			d.dispatch()
		}
	case "cancel":
		if c := d.cancels[a.H]; c != nil {
			c()
			if d.offerer == a.H && d.pending {
				d.offerer = -1
				d.rem[a.H] = 0
				d.wait(func() bool { return w.returned[a.H] })
			}
		}
	case "done":
		var call *c15Call
		w.mu.Lock()
		for i, c := range w.blocked {
			if bytes.Equal(c.u, a.U) {
				call = c
				w.blocked = append(w.blocked[:i:i], w.blocked[i+1:]...)
				break
			}
		}
		r0, c0 := w.returns, w.addCalls
		w.mu.Unlock()
		if call == nil {
			break
		}
		if a.R != nil {
			call.ch <- c15Res{p: a.R.peer()}
			d.wait(func() bool { return w.addCalls > c0 && w.returns > r0 })
		} else {
			call.ch <- c15Res{err: errors.New("c15: refused (" + strconv.Itoa(a.Why) + ")")}
			d.wait(func() bool { return w.returns > r0 })
		}
		d.inflight--
		d.dispatch()
	default:
		switch a.Ev.K {
		case "connected":
			w.mu.Lock()
			w.lk = map[c15Peer][]byte{}
			w.ann = map[c15Peer]int{}
			w.mu.Unlock()
			d.s.topo.Connected(a.Ev.P.peer())
		case "add":
			var ps []p2p.Peer
			for _, p := range a.Ev.Ps {
				ps = append(ps, p.peer())
			}
			d.s.topo.AddPeers(ps...)
		case "disconnected":
			d.s.topo.Disconnected(a.Ev.P.peer())
		}
	}
	if d.stuck {
		return
	}
	w.mu.Lock()
	d.geff = append(d.geff, append([]c15DEff{}, w.deff[d.mark:]...))
	d.mark = len(w.deff)
	w.mu.Unlock()
}

func (d *c15Disc) finish() c15Obs {
	s, w := d.s, d.s.w
	out := c15Obs{GEff: d.geff, Stuck: d.stuck}
	if !d.stuck {
		time.Sleep(2 * time.Millisecond * s.slow) // a dial or an add nobody expected would show up here
		w.mu.Lock()
		extra := append([]c15DEff{}, w.deff[d.mark:]...)
		w.mu.Unlock()
		if len(extra) > 0 && len(out.GEff) > 0 {
			out.GEff[len(out.GEff)-1] = append(out.GEff[len(out.GEff)-1], extra...)
		}
		o := c15ObsEv{}
		for _, r := range c15ViewRoles {
			var v []c15Peer
			for _, p := range s.topo.GetPeers(topology.Query{Type: p2p.PeerType(r)}) {
				v = append(v, c15FromPeer(p))
			}
			o.Views = append(o.Views, v)
		}
		for _, a := range s.probes {
			o.Conn = append(o.Conn, s.topo.IsConnected(a))
		}
		o.Api = s.queryAPI()
		out.Evs = []c15ObsEv{o}
	}
	w.mu.Lock()
	out.Peak = w.peak
	w.mu.Unlock()
	// shut the system down: end every context, answer every parked call until nothing moves
	for _, c := range d.cancels {
		c()
	}
	deadline := time.Now().Add(2 * time.Second)
	for time.Now().Before(deadline) {
		w.mu.Lock()
		for h, ch := range w.checkParked {
			close(ch)
			delete(w.checkParked, h)
		}
		blocked := w.blocked
		w.blocked = nil
		allBack := w.arrivals == w.returns+len(blocked)
		for h := range d.started {
			if !w.returned[h] {
				allBack = false
			}
		}
		w.mu.Unlock()
		for _, c := range blocked {
			c.ch <- c15Res{err: errors.New("c15: shutdown")}
		}
		if allBack && len(blocked) == 0 {
			break
		}
		time.Sleep(200 * time.Microsecond)
	}
	_ = s.disc.Close()
	return out
}

// random schedules, generated while the system runs (the generator looks at the driver's state):
// lists longer than the pool is wide, entries known / unknown / duplicate / garbage, dials completing
// in any order with every kind of answer, a handler stuck behind the full pool whose context ends,
// topology changes in between; most runs are drained at the end and then probed with a fresh list of
// width+1 unknown entries (exactly width dials must start: every slot has come back).
func c15DiscRandom(r *rand.Rand, slow int, k int) (c15In, c15Obs) {
	pool := c15NewPool(r)
	in := c15In{Probes: pool.probes}
	d := c15NewDisc(pool.probes, slow)
	act := func(a c15GAct) {
		in.GActs = append(in.GActs, a)
		d.do(a)
	}
	for i := r.Intn(4); i > 0; i-- {
		q := pool.pick(r)
		act(c15GAct{K: "topo", Ev: &c15Event{K: "connected", P: &q}})
	}
	serial := 0
	fresh := func() c15Entry {
		serial++
		a := c15RandAddr(r)
		return c15Entry{a.Bytes(), []byte("/m/" + strconv.Itoa(serial))}
	}
	nextH := 1
	newList := func(n int, onlyFresh bool) {
		a := c15GAct{K: "list", H: nextH, ReadOK: onlyFresh || r.Intn(12) != 0}
		nextH++
		for i := 0; i < n; i++ {
			if onlyFresh || r.Intn(3) != 0 {
				a.Entries = append(a.Entries, fresh())
			} else {
				e := pool.entry(r, a.Entries, i)
				serial++
				e.U = append(append([]byte{}, e.U...), []byte("#"+strconv.Itoa(serial))...)
				a.Entries = append(a.Entries, e)
			}
		}
		act(a)
	}
	lists := 1 + r.Intn(3)
	long := k%2 == 0 // every other case fills the pool
	steps := 10 + r.Intn(50)
	parkedHandlers := func() []int {
		d.s.w.mu.Lock()
		defer d.s.w.mu.Unlock()
		var hs []int
		for h := range d.s.w.checkParked {
			hs = append(hs, h)
		}
		sort.Ints(hs)
		return hs
	}
	doneAct := func(u []byte) c15GAct {
		a := c15GAct{K: "done", U: u, Why: r.Intn(4)}
		if r.Intn(100) < 45 {
			a.R = &c15Peer{c15RandAddr(r), 1 + r.Intn(2)}
			if r.Intn(4) == 0 {
				q := pool.pick(r)
				a.R = &q
			}
		}
		return a
	}
	for i := 0; i < steps && !d.stuck; i++ {
		hs := parkedHandlers()
		blocked := d.s.blockedUnderlays()
		x := r.Intn(100)
		switch {
		case lists > 0 && (len(hs) == 0 || x < 8):
			n := r.Intn(6)
			if long {
				n = 8 + r.Intn(10)
			}
			newList(n, false)
			lists--
		case x < 60 && len(hs) > 0 && d.offerer < 0:
			act(c15GAct{K: "check", H: hs[r.Intn(len(hs))]})
		case x < 66 && d.offerer >= 0 && d.pending:
			act(c15GAct{K: "cancel", H: d.offerer})
		case x < 72:
			q := pool.pick(r)
			ev := c15Event{K: []string{"connected", "disconnected", "add"}[r.Intn(3)], P: &q}
			if ev.K == "add" {
				ev.P = nil
				ev.Ps = []c15Peer{q, pool.pick(r)}
			}
			act(c15GAct{K: "topo", Ev: &ev})
		case len(blocked) > 0 && (x < 90 || len(hs) == 0 || d.offerer >= 0):
			act(doneAct(blocked[r.Intn(len(blocked))]))
		case x >= 97:
			act(c15GAct{K: "done", U: []byte("/nobody"), Why: 3})
		}
	}
	if r.Intn(10) < 7 && !d.stuck {
		// drain: let every handler finish and every dial return, in a random order
		for guard := 0; guard < 400 && !d.stuck; guard++ {
			hs := parkedHandlers()
			blocked := d.s.blockedUnderlays()
			if len(blocked) > 0 && (len(hs) == 0 || d.offerer >= 0 || r.Intn(2) == 0) {
				act(doneAct(blocked[r.Intn(len(blocked))]))
			} else if len(hs) > 0 && d.offerer < 0 {
				act(c15GAct{K: "check", H: hs[r.Intn(len(hs))]})
			} else {
				break
			}
		}
		if !d.stuck && d.inflight == 0 && !d.pending && d.offerer < 0 {
			newList(c15Width+1, true)
			for i := 0; i < c15Width+1 && !d.stuck; i++ {
				act(c15GAct{K: "check", H: nextH - 1})
			}
		}
	}
	return in, d.finish()
}

// --- Coq terms ------------------------------------------------------------------------------------

// Large literals are bound once per case with let (parsing a 160-bit numeral or a byte string
// is by far the most expensive part of evaluating a case file).
type c15Names struct {
	names map[string]string
	defs  []string
}

func (n *c15Names) bind(prefix, term string) string {
	if v, ok := n.names[term]; ok {
		return v
	}
	v := prefix + strconv.Itoa(len(n.names))
	n.names[term] = v
	n.defs = append(n.defs, "let "+v+" := "+term+" in ")
	return v
}

var c15N *c15Names // the case being printed (printing is single-threaded, under Emit's lock)

func coqBytesI(b []byte) string       { return c15N.bind("b", coqBytes(b)) }
func c15Addr(a common.Address) string { return c15N.bind("a", "0x"+hex.EncodeToString(a.Bytes())+"%N") }
func c15CoqPeer(p c15Peer) string {
	return c15N.bind("p", coqApp("mkPeer", c15Addr(p.A), coqZ(int64(p.T))))
}
func c15CoqOptPeer(p *c15Peer) string {
	if p == nil {
		return "None"
	}
	return coqOpt(true, c15CoqPeer(*p))
}
func c15CoqEntries(es []c15Entry) string {
	var l []string
	for _, e := range es {
		l = append(l, coqPair(coqBytesI(e.E), coqBytesI(e.U)))
	}
	return coqList(l)
}
func c15CoqEvent(ev c15Event) string {
	switch ev.K {
	case "connected":
		var lk, ann []string
		for _, l := range ev.Lk {
			lk = append(lk, coqPair(c15CoqPeer(l.P), coqBytesI(l.U)))
		}
		for _, a := range ev.Ann {
			ann = append(ann, coqPair(c15CoqPeer(a.P), coqN(uint64(a.M))))
		}
		return coqApp("Connected", c15CoqPeer(*ev.P), c15N.bind("t", "(("+coqList(lk)+") : list (peer * bytes))"),
			c15N.bind("f", "(("+coqList(ann)+") : list (peer * N))"))
	case "add":
		var ps []string
		for _, p := range ev.Ps {
			ps = append(ps, c15CoqPeer(p))
		}
		return coqApp("AddPeers", coqList(ps))
	case "disconnected":
		return coqApp("Disconnected", c15CoqPeer(*ev.P))
	case "gossip":
		return coqApp("Gossip", c15CoqPeer(*ev.P), coqBool(ev.ReadOK), c15CoqEntries(ev.Entries))
	default:
		return coqApp("ConnectDone", coqBytesI(ev.U), c15CoqOptPeer(ev.R))
	}
}
func c15CoqEff(e c15Eff) string {
	switch e.K {
	case "announce":
		var rs []string
		for _, r := range e.Recs {
			rs = append(rs, coqPair(c15Addr(r.A), coqBytesI(r.U)))
		}
		return coqApp("Announce", c15CoqPeer(*e.To), coqList(rs))
	case "wire":
		return coqApp("Wire", c15CoqPeer(*e.To), c15CoqEntries(e.W))
	case "dial":
		return coqApp("Dial", coqBytesI(e.U))
	default:
		return coqApp("Add", c15CoqPeer(*e.P))
	}
}
func c15CoqTables(lkIn []c15Lk, annIn []c15Ann) (string, string) {
	var lk, ann []string
	for _, l := range lkIn {
		lk = append(lk, coqPair(c15CoqPeer(l.P), coqBytesI(l.U)))
	}
	for _, a := range annIn {
		ann = append(ann, coqPair(c15CoqPeer(a.P), coqN(uint64(a.M))))
	}
	return c15N.bind("t", "(("+coqList(lk)+") : list (peer * bytes))"), c15N.bind("f", "(("+coqList(ann)+") : list (peer * N))")
}

func c15CoqCase(id int, in c15In, full c15Obs) string {
	obs := full.Evs
	c15N = &c15Names{names: map[string]string{}}
	var acts, calls []string
	for _, a := range in.Acts {
		switch a.K {
		case "start":
			lk, ann := c15CoqTables(a.Lk, a.Ann)
			acts = append(acts, coqApp("AStart", coqN(uint64(a.C)), c15CoqPeer(*a.P), lk, ann))
		case "release":
			acts = append(acts, coqApp("ARelease", coqN(uint64(a.C))))
		default:
			acts = append(acts, coqApp("AOther", c15CoqEvent(*a.Ev)))
		}
	}
	for _, c := range full.Calls {
		var eff []string
		for _, e := range c.Eff {
			eff = append(eff, c15CoqEff(e))
		}
		calls = append(calls, "("+coqN(uint64(c.C))+", "+coqBool(c.Done)+", ("+coqList(eff)+" : list effect))")
	}
	var pr, evs, os []string
	for _, a := range in.Probes {
		pr = append(pr, c15Addr(a))
	}
	mode := 0
	if len(in.Acts) > 0 {
		mode = 2
	}
	if len(in.GActs) > 0 {
		mode = 3
	}
	var gacts, geffs []string
	for _, a := range in.GActs {
		switch a.K {
		case "list":
			gacts = append(gacts, coqApp("GList", coqN(uint64(a.H)), coqBool(a.ReadOK), c15CoqEntries(a.Entries)))
		case "check":
			gacts = append(gacts, coqApp("GCheck", coqN(uint64(a.H))))
		case "cancel":
			gacts = append(gacts, coqApp("GCancel", coqN(uint64(a.H))))
		case "done":
			res := coqApp("DialErr", []string{"RUndecodable", "RSelf", "RBlocked", "RUnreachable"}[a.Why&3])
			if a.R != nil {
				res = coqApp("DialOk", c15CoqPeer(*a.R))
			}
			gacts = append(gacts, coqApp("GDone", coqBytesI(a.U), res))
		default:
			gacts = append(gacts, coqApp("GTopo", c15CoqEvent(*a.Ev)))
		}
	}
	for _, l := range full.GEff {
		var es []string
		for _, e := range l {
			switch e.K {
			case "check":
				es = append(es, coqApp("XCheck", coqN(uint64(e.H)), coqBool(e.Known)))
			case "dial":
				es = append(es, coqApp("XDial", coqBytesI(e.U)))
			case "add":
				es = append(es, coqApp("XAdd", c15CoqPeer(*e.P)))
			default:
				es = append(es, coqApp("XReturn", coqN(uint64(e.H)), coqN(uint64(e.Code))))
			}
		}
		geffs = append(geffs, "(("+coqList(es)+") : list deffect)")
	}
	disc := coqApp("mkDisc", "(("+coqList(gacts)+") : list gaction)", "(("+coqList(geffs)+") : list (list deffect))",
		coqN(uint64(full.Peak)), coqBool(full.Stuck))
	for _, ev := range in.Evs {
		evs = append(evs, c15CoqEvent(ev))
	}
	for _, list := range in.Conc { // one linearisation: every goroutine's list once, in turn
		mode = 1
		for _, ev := range list {
			evs = append(evs, c15CoqEvent(ev))
		}
	}
	for _, o := range obs {
		var eff, views, conn []string
		for _, e := range o.Eff {
			eff = append(eff, c15CoqEff(e))
		}
		for _, v := range o.Views {
			var ps []string
			for _, p := range v {
				ps = append(ps, c15CoqPeer(p))
			}
			views = append(views, c15N.bind("v", "(("+coqList(ps)+") : list peer)"))
		}
		for _, b := range o.Conn {
			conn = append(conn, coqBool(b))
		}
		var api []string
		for _, l := range o.Api {
			var as []string
			for _, a := range l {
				as = append(as, c15Addr(a))
			}
			api = append(api, "(("+coqList(as)+") : list addr)")
		}
		os = append(os, coqApp("mkObs", coqList(eff), c15N.bind("w", "(("+coqList(views)+") : list (list peer))"),
			c15N.bind("c", "(("+coqList(conn)+") : list bool)"), c15N.bind("g", "(("+coqList(api)+") : list (list addr))")))
	}
	roles := coqList([]string{coqZ(int64(p2p.PeerTypeBootnode)), coqZ(int64(p2p.PeerTypeProvider)), coqZ(int64(p2p.PeerTypeBidder))})
	body := coqRecord("id", coqN(uint64(id)), "c_mode", coqN(uint64(mode)), "c_roles", roles, "probes", coqList(pr), "evs", coqList(evs), "obs", coqList(os),
		"c_acts", "(("+coqList(acts)+") : list action)", "c_calls", "(("+coqList(calls)+") : list (N * bool * list effect))",
		"c_disc", disc)
	return "(" + strings.Join(c15N.defs, "") + body + ")"
}

// --- generators -------------------------------------------------------------------------------------

type c15Pool struct {
	peers  []c15Peer // 0-2 providers, 3-5 bidders, 6 bootnode, 7 role -1, 8 twin of provider 0 as bidder, 9 twin of bidder 3 as provider, 10 role 3
	extra  []common.Address
	probes []common.Address
}

func c15RandAddr(r *rand.Rand) common.Address {
	var a common.Address
	r.Read(a[:])
	switch r.Intn(6) {
	case 0: // small number: leading zero bytes
		for i := 0; i < 18; i++ {
			a[i] = 0
		}
	case 1:
		a[0] = 0
	}
	return a
}

func c15NewPool(r *rand.Rand) *c15Pool {
	p := &c15Pool{}
	seen := map[common.Address]bool{{}: true}
	fresh := func() common.Address {
		for {
			a := c15RandAddr(r)
			if !seen[a] {
				seen[a] = true
				return a
			}
		}
	}
	roles := []int{1, 1, 1, 2, 2, 2, 0, -1}
	for _, t := range roles {
		p.peers = append(p.peers, c15Peer{fresh(), t})
	}
	p.peers = append(p.peers, c15Peer{p.peers[0].A, 2}, c15Peer{p.peers[3].A, 1}, c15Peer{fresh(), 3})
	for i := 0; i < 3; i++ {
		p.extra = append(p.extra, fresh())
	}
	for _, q := range p.peers[:8] {
		p.probes = append(p.probes, q.A)
	}
	p.probes = append(p.probes, p.peers[10].A, p.extra[0], p.extra[1], common.Address{})
	return p
}

func c15Underlay(q c15Peer) []byte {
	return []byte("/ul/" + hex.EncodeToString(q.A[16:]) + "/" + string(rune('a'+q.T+1)))
}

func (p *c15Pool) pick(r *rand.Rand) c15Peer {
	switch x := r.Intn(20); {
	case x < 7:
		return p.peers[r.Intn(3)]
	case x < 13:
		return p.peers[3+r.Intn(3)]
	default:
		return p.peers[r.Intn(len(p.peers))]
	}
}

func (p *c15Pool) tables(r *rand.Rand, lkFail, annFail int) ([]c15Lk, []c15Ann) {
	var lk []c15Lk
	var ann []c15Ann
	for _, q := range p.peers {
		if r.Intn(100) >= lkFail {
			u := c15Underlay(q)
			if r.Intn(12) == 0 {
				u = []byte{} // a record with an empty underlay is still a record
			}
			lk = append(lk, c15Lk{q, u})
		}
		if r.Intn(100) < annFail {
			ann = append(ann, c15Ann{q, 1 + r.Intn(2)})
		} else if r.Intn(100) < 4 {
			ann = append(ann, c15Ann{q, 3})
		}
	}
	return lk, ann
}

func (p *c15Pool) entry(r *rand.Rand, prev []c15Entry, n int) c15Entry {
	switch x := r.Intn(20); {
	case x < 8: // a pool peer, as another node would announce it
		q := p.pick(r)
		return c15Entry{q.A.Bytes(), c15Underlay(q)}
	case x < 11: // unknown address
		a := p.extra[r.Intn(len(p.extra))]
		return c15Entry{a.Bytes(), []byte("/new/" + hex.EncodeToString(a[18:]))}
	case x < 14 && len(prev) > 0: // duplicate
		return prev[r.Intn(len(prev))]
	case x < 16: // garbage underlay
		u := make([]byte, r.Intn(6))
		r.Read(u)
		q := p.pick(r)
		return c15Entry{q.A.Bytes(), u}
	case x < 18: // over-long address field: only the last 20 bytes count
		pre := make([]byte, 1+r.Intn(14))
		r.Read(pre)
		q := p.pick(r)
		return c15Entry{append(pre, q.A.Bytes()...), c15Underlay(q)}
	case x < 19: // short / empty address field: left-padded
		q := p.pick(r)
		k := r.Intn(4)
		return c15Entry{append([]byte{}, q.A.Bytes()[20-k:]...), []byte("/short/" + string(rune('0'+n)))}
	default: // same address, different underlay
		q := p.pick(r)
		return c15Entry{q.A.Bytes(), []byte("/other/" + string(rune('0'+n)))}
	}
}

// result of a completed dial: usually the peer that owns the underlay, sometimes somebody else
func (p *c15Pool) result(r *rand.Rand, u []byte) *c15Peer {
	if r.Intn(100) < 35 {
		return nil
	}
	if r.Intn(100) < 70 {
		for _, q := range p.peers {
			if bytes.Equal(c15Underlay(q), u) {
				q := q
				return &q
			}
		}
	}
	switch r.Intn(3) {
	case 0:
		q := p.pick(r)
		return &q
	case 1:
		return &c15Peer{p.extra[r.Intn(len(p.extra))], []int{1, 2, 1, 2, 0, -1, 5}[r.Intn(7)]}
	default:
		return &c15Peer{c15RandAddr(r), 1 + r.Intn(2)}
	}
}

type c15Weights struct{ conn, add, disc, gossip, done, lkFail, annFail int }

var c15Classes = []struct {
	name string
	w    c15Weights
}{
	{"mixed", c15Weights{30, 8, 15, 22, 25, 25, 20}},
	{"announce", c15Weights{60, 10, 25, 3, 2, 40, 35}},
	{"gossip", c15Weights{15, 5, 10, 35, 35, 10, 5}},
	{"churn", c15Weights{40, 10, 40, 5, 5, 15, 10}},
}

func c15Random(r *rand.Rand, w c15Weights, slow int) (c15In, []c15ObsEv) {
	pool := c15NewPool(r)
	in := c15In{Probes: pool.probes}
	s := c15New(pool.probes, slow)
	n := 4 + r.Intn(14)
	for i := 0; i < n; i++ {
		var ev c15Event
		blocked := s.blockedUnderlays()
		x := r.Intn(w.conn + w.add + w.disc + w.gossip + w.done)
		switch {
		case x < w.conn:
			q := pool.pick(r)
			lk, ann := pool.tables(r, w.lkFail, w.annFail)
			ev = c15Event{K: "connected", P: &q, Lk: lk, Ann: ann}
		case x < w.conn+w.add:
			ev = c15Event{K: "add"}
			for k := r.Intn(4); k > 0; k-- {
				ev.Ps = append(ev.Ps, pool.pick(r))
			}
		case x < w.conn+w.add+w.disc:
			q := pool.pick(r)
			ev = c15Event{K: "disconnected", P: &q}
		case x < w.conn+w.add+w.disc+w.gossip && len(blocked) <= 4:
			q := pool.pick(r)
			ev = c15Event{K: "gossip", P: &q, ReadOK: r.Intn(10) != 0}
			for k := r.Intn(5); k > 0; k-- {
				ev.Entries = append(ev.Entries, pool.entry(r, ev.Entries, k))
			}
		default:
			if len(blocked) == 0 || r.Intn(15) == 0 {
				ev = c15Event{K: "done", U: []byte("/nobody"), R: &pool.peers[r.Intn(6)]}
			} else {
				u := blocked[r.Intn(len(blocked))]
				ev = c15Event{K: "done", U: u, R: pool.result(r, u)}
			}
		}
		in.Evs = append(in.Evs, ev)
		s.apply(ev)
	}
	return in, s.finish()
}

// A provider connects while several bidders are known; the announcement to one bidder fails at
// once, the deliveries to the others take a while: they must still arrive.
func c15AnnounceCtx(r *rand.Rand, slow int) (c15In, []c15ObsEv) {
	pool := c15NewPool(r)
	in := c15In{Probes: pool.probes}
	var lk []c15Lk
	for _, q := range pool.peers {
		lk = append(lk, c15Lk{q, c15Underlay(q)})
	}
	nb := 2 + r.Intn(2)
	for i := 0; i < nb; i++ {
		q := pool.peers[3+i]
		in.Evs = append(in.Evs, c15Event{K: "connected", P: &q, Lk: lk})
	}
	if r.Intn(2) == 0 {
		q := pool.peers[1]
		in.Evs = append(in.Evs, c15Event{K: "connected", P: &q, Lk: lk})
	}
	prov := pool.peers[0]
	bad := r.Intn(nb)
	var ann []c15Ann
	for i := 0; i < nb; i++ {
		if i == bad {
			ann = append(ann, c15Ann{pool.peers[3+i], 1 + r.Intn(2)})
		} else {
			ann = append(ann, c15Ann{pool.peers[3+i], 3})
		}
	}
	if r.Intn(3) == 0 {
		ann = append(ann, c15Ann{prov, 3})
	}
	in.Evs = append(in.Evs, c15Event{K: "connected", P: &prov, Lk: lk, Ann: ann})
	for k := r.Intn(3); k > 0; k-- {
		q := pool.pick(r)
		if r.Intn(2) == 0 {
			in.Evs = append(in.Evs, c15Event{K: "disconnected", P: &q})
		} else {
			l, a := pool.tables(r, 20, 20)
			in.Evs = append(in.Evs, c15Event{K: "connected", P: &q, Lk: l, Ann: a})
		}
	}
	return in, c15Run(in, slow)
}

// c15Hold: how long a very slow recipient (mode 4) keeps a write pending. Any shared deadline
// shorter than this that Connected might put on its announcements is observed as lost
// announcements; budgets above the hold are not observed.
var c15Hold = 3500 * time.Millisecond

// A provider connects while bidders and another provider are known; one recipient is very slow
// (the newcomer itself when slowNewcomer, else one of the bidders) while all others answer at
// once: every other recipient must still get its message.
func c15SlowRecipient(r *rand.Rand, slowNewcomer bool) c15In {
	pool := c15NewPool(r)
	in := c15In{Probes: pool.probes}
	var lk []c15Lk
	for _, q := range pool.peers {
		lk = append(lk, c15Lk{q, c15Underlay(q)})
	}
	for _, i := range []int{3, 4, 5, 1} {
		q := pool.peers[i]
		in.Evs = append(in.Evs, c15Event{K: "connected", P: &q, Lk: lk})
	}
	prov := pool.peers[0]
	slowOne := prov
	if !slowNewcomer {
		slowOne = pool.peers[3+r.Intn(3)]
	}
	in.Evs = append(in.Evs, c15Event{K: "connected", P: &prov, Lk: lk, Ann: []c15Ann{{slowOne, 4}}})
	return in
}

// Concurrent traffic on one Topology: every writer owns two addresses (in both roles).
func c15Concurrent(r *rand.Rand, runMs int) c15In {
	in := c15In{Readers: 2, RunMs: runMs}
	for g := 0; g < 4; g++ {
		a1, a2 := c15RandAddr(r), c15RandAddr(r)
		a1[1], a2[1] = byte(2*g+1), byte(2*g+2) // distinct across writers
		a1[19], a2[19] = byte(2*g+1), byte(2*g+2)
		own := []c15Peer{{a1, 1}, {a1, 2}, {a2, 1}, {a2, 2}, {a2, 0}}
		var lk []c15Lk
		for _, q := range own {
			lk = append(lk, c15Lk{q, c15Underlay(q)})
		}
		var list []c15Event
		for k := 6 + r.Intn(7); k > 0; k-- {
			q := own[r.Intn(len(own))]
			switch r.Intn(5) {
			case 0, 1:
				list = append(list, c15Event{K: "connected", P: &q, Lk: lk})
			case 2, 3:
				list = append(list, c15Event{K: "disconnected", P: &q})
			default:
				list = append(list, c15Event{K: "add", Ps: []c15Peer{q, own[r.Intn(len(own))]}})
			}
		}
		in.Conc = append(in.Conc, list)
		in.Probes = append(in.Probes, a1, a2)
	}
	return in
}

// Overlapping Connected calls on shared addresses: a random schedule of starts, releases and
// atomic disconnects / adds over 3 providers and 3 bidders (plus twins), then enough releases for
// every call to return.
func c15Overlap(r *rand.Rand) c15In {
	pool := c15NewPool(r)
	in := c15In{Probes: pool.probes}
	next := 0
	active := map[c15Peer]bool{}
	for k := 4 + r.Intn(10); k > 0; k-- {
		switch x := r.Intn(10); {
		case x < 4 || next == 0:
			q := pool.pick(r)
			if active[q] { // one running call per peer
				continue
			}
			active[q] = true
			lk, ann := pool.tables(r, 20, 15)
			for i := range ann {
				if ann[i].M == 3 {
					ann[i].M = 0
				}
			}
			in.Acts = append(in.Acts, c15Act{K: "start", C: next, P: &q, Lk: lk, Ann: ann})
			next++
		case x < 8:
			in.Acts = append(in.Acts, c15Act{K: "release", C: r.Intn(next)})
		case x < 9:
			q := pool.pick(r)
			in.Acts = append(in.Acts, c15Act{K: "other", Ev: &c15Event{K: "disconnected", P: &q}})
		default:
			in.Acts = append(in.Acts, c15Act{K: "other", Ev: &c15Event{K: "add", Ps: []c15Peer{pool.pick(r), pool.pick(r)}}})
		}
	}
	for round := 0; round < 8; round++ {
		for c := 0; c < next; c++ {
			in.Acts = append(in.Acts, c15Act{K: "release", C: c})
		}
	}
	return in
}

// Directed overlap: a provider Q is known; k bidders connect and their own message (Q's record) is
// still in flight when provider P connects; P is then released first. Every one of those bidders
// is in the view from its connect event on, so P's fan-out must reach it, and P must be told Q.
func c15OverlapDirected(r *rand.Rand) c15In {
	pool := c15NewPool(r)
	in := c15In{Probes: pool.probes}
	var lk []c15Lk
	for _, q := range pool.peers {
		lk = append(lk, c15Lk{q, c15Underlay(q)})
	}
	q := pool.peers[1]
	in.Acts = append(in.Acts, c15Act{K: "start", C: 0, P: &q, Lk: lk})
	nb := 1 + r.Intn(3)
	for i := 0; i < nb; i++ {
		b := pool.peers[3+i]
		in.Acts = append(in.Acts, c15Act{K: "start", C: 1 + i, P: &b, Lk: lk})
	}
	p := pool.peers[0]
	pc := 1 + nb
	in.Acts = append(in.Acts, c15Act{K: "start", C: pc, P: &p, Lk: lk})
	for i := 0; i <= nb; i++ { // P first: its message, then its whole fan-out
		in.Acts = append(in.Acts, c15Act{K: "release", C: pc})
	}
	for round := 0; round < 3; round++ {
		for c := 0; c <= pc; c++ {
			in.Acts = append(in.Acts, c15Act{K: "release", C: c})
		}
	}
	return in
}

func c15Exhaustive(depth int, f func(c15In)) {
	mk := func(b byte, t int) c15Peer {
		var a common.Address
		a[19] = b
		a[0] = b
		return c15Peer{a, t}
	}
	p1, p2, b1 := mk(1, 1), mk(2, 1), mk(3, 2)
	lk := []c15Lk{{p1, c15Underlay(p1)}, {b1, c15Underlay(b1)}} // p2 has no record
	alphabet := []c15Event{
		{K: "connected", P: &p1, Lk: lk},
		{K: "connected", P: &p2, Lk: lk},
		{K: "connected", P: &b1, Lk: lk, Ann: []c15Ann{{b1, 1}}},
		{K: "disconnected", P: &p1},
		{K: "disconnected", P: &b1},
		{K: "add", Ps: []c15Peer{p2, b1}},
	}
	probes := []common.Address{p1.A, p2.A, b1.A}
	var rec func(prefix []c15Event)
	rec = func(prefix []c15Event) {
		if len(prefix) > 0 {
			f(c15In{Probes: probes, Evs: append([]c15Event{}, prefix...)})
		}
		if len(prefix) == depth {
			return
		}
		for _, e := range alphabet {
			rec(append(prefix, e))
		}
	}
	rec(nil)
}

func TestVerifC15(t *testing.T) {
	e := vfOpen(t, 400)
	defer e.Close()
	defer func() {
		if c15P2PSvc != nil {
			_ = c15P2PSvc.Close()
		}
	}()
	emitAny := func(class string, in c15In, obs c15Obs) {
		e.Emit(class, in, obs, func(id int) string { return c15CoqCase(id, in, obs) })
	}
	emit := func(class string, in c15In, obs []c15ObsEv) { emitAny(class, in, c15Obs{Evs: obs}) }
	if e.Tier == "thorough" {
		c15Hold = 12 * time.Second
	}
	for _, raw := range e.Replay {
		var in c15In
		if err := json.Unmarshal(raw, &in); err != nil {
			t.Fatalf("bad replay input: %v", err)
		}
		emitAny("replay", in, c15RunAny(in, e.Slow))
	}
	if e.OnlyReplay() {
		return
	}
	// the slow-recipient cases take c15Hold each: they run beside everything else
	var slowWG sync.WaitGroup
	for _, newcomer := range []bool{true, false} {
		in := c15SlowRecipient(e.rng, newcomer)
		slowWG.Add(1)
		go func() {
			defer slowWG.Done()
			emit("slow-recipient", in, c15Run(in, e.Slow))
		}()
	}
	defer slowWG.Wait()
	depth := 3
	if e.Tier == "thorough" {
		depth = 4
	}
	c15Exhaustive(depth, func(in c15In) { emit("exhaustive", in, c15Run(in, e.Slow)) })
	for i := 0; i < e.N; i++ {
		c := c15Classes[i%len(c15Classes)]
		in, obs := c15Random(e.rng, c.w, e.Slow)
		emit(c.name, in, obs)
	}
	for i := 0; i < e.N/10; i++ {
		in, obs := c15AnnounceCtx(e.rng, e.Slow)
		emit("announce-ctx", in, obs)
	}
	for i := 0; i < e.N/8; i++ {
		in := c15Overlap(e.rng)
		if i < 6 {
			in = c15OverlapDirected(e.rng)
		}
		emitAny("overlap", in, c15RunAny(in, e.Slow))
	}
	for i := 0; i < e.N/8; i++ {
		in, obs := c15DiscRandom(e.rng, e.Slow, i)
		emitAny("discovery-machine", in, obs)
	}
	nc, runMs := 3, 150
	if e.Tier == "thorough" {
		nc, runMs = 8, 400
	}
	for i := 0; i < nc; i++ {
		in := c15Concurrent(e.rng, runMs)
		emit("concurrent", in, c15Run(in, e.Slow))
	}
}
