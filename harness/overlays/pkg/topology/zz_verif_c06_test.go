package topology_test

// C06 driver (9): peer types a remote can cause. A handshake with valid signatures and an unknown
// role string enrols Peer{Type: FromString(role)} = Peer{Type: -1}; that value reaches
// Topology.Connected (inbound, as the notifier) and Topology.AddPeers (outbound, from discovery).
// In-process under recover(): PeerType(t).String() / FromString on any text, and a real Topology
// fed with peers of known and unknown types. (The same path end to end, on the goroutines that
// really run it, is the E2UnknownRole class of the libp2p driver.)

import (
	"context"
	"encoding/json"
	"errors"
	"fmt"
	"io"
	"log/slog"
	"math/big"
	"testing"

	"github.com/ethereum/go-ethereum/common"
	"github.com/primevprotocol/mev-commit/pkg/p2p"
	"github.com/primevprotocol/mev-commit/pkg/topology"
)

const c06Pkg = "topology"

type c06In struct {
	Pkg   string
	Entry string  // peer-type | topology-peers
	Type  int64   `json:",omitempty"`
	Text  []byte  `json:",omitempty"` // peer-type: also FromString(Text)
	Types []int64 `json:",omitempty"` // topology-peers: one peer per entry
	Ops   []int   `json:",omitempty"` // per peer: 0 Connected, 1 AddPeers, 2 Connected then Disconnected
}

type c06Obs struct {
	Panic bool
	Res   int
	Note  string `json:",omitempty"`
}

type c06Book struct{}

func (c06Book) GetPeerInfo(p p2p.Peer) ([]byte, error) {
	if p.EthAddress[19]%2 == 0 {
		return nil, errors.New("c06: unknown peer")
	}
	return []byte(`{"ID":"x"}`), nil
}

type c06Announcer struct{ n int }

func (a *c06Announcer) BroadcastPeers(context.Context, p2p.Peer, []p2p.PeerInfo) error {
	a.n++
	if a.n%3 == 0 {
		return errors.New("c06: broadcast failed")
	}
	return nil
}

func c06Run(in c06In) (obs c06Obs, inp string) {
	defer func() {
		if r := recover(); r != nil {
			obs = c06Obs{Panic: true, Note: fmt.Sprint(r)}
		}
	}()
	if in.Entry == "peer-type" {
		inp = coqApp("EPeerType", coqZ(in.Type))
		s := p2p.PeerType(in.Type).String()
		t := p2p.FromString(string(in.Text))
		_ = p2p.FromString(s)
		obs.Note = fmt.Sprintf("%q %d", s, t)
		return
	}
	var ts []string
	for _, t := range in.Types {
		ts = append(ts, coqZ(t))
	}
	inp = coqApp("ETopologyPeers", coqList(ts))
	topo := topology.New(c06Book{}, slog.New(slog.NewTextHandler(io.Discard, &slog.HandlerOptions{Level: slog.LevelDebug})))
	topo.SetAnnouncer(&c06Announcer{})
	for i, t := range in.Types {
		p := p2p.Peer{EthAddress: common.BigToAddress(big.NewInt(int64(0x100 + i))), Type: p2p.PeerType(t)}
		op := 0
		if i < len(in.Ops) {
			op = in.Ops[i]
		}
		switch op {
		case 1:
			topo.AddPeers(p, p)
		case 2:
			topo.Connected(p)
			topo.Disconnected(p)
		default:
			topo.Connected(p)
		}
		_ = topo.GetPeers(topology.Query{Type: p2p.PeerType(t)})
		_ = topo.IsConnected(p.EthAddress)
	}
	return
}

func TestVerifC06(t *testing.T) {
	e := vfOpen(t, 200)
	defer e.Close()
	run := func(class string, in c06In) {
		obs, inp := c06Run(in)
		o := "OPanic"
		if !obs.Panic {
			o = coqApp("ONoPanic", coqN(uint64(obs.Res)))
		}
		e.Emit(class, in, obs, func(id int) string { return coqRecord("id", coqN(uint64(id)), "inp", inp, "obs", o) })
	}
	for _, raw := range e.Replay {
		var in c06In
		if err := json.Unmarshal(raw, &in); err != nil || in.Pkg != c06Pkg {
			continue
		}
		run("replay", in)
	}
	if e.OnlyReplay() {
		return
	}
	r := e.rng
	odd := []int64{-1, 3, 7, -2, 1 << 31, -(1 << 31), 1<<63 - 1, -(1 << 62), 255, 256}
	texts := []string{"bidder", "provider", "bootnode", "", "Provider", "bidderx", "unknown", "BIDDER", "\x00", "bidder\x00", "\xff\xfe"}
	for t := int64(-4); t <= 8; t++ {
		run("peer-type-small", c06In{Pkg: c06Pkg, Entry: "peer-type", Type: t, Text: []byte(texts[int(t+4)%len(texts)])})
	}
	for _, t := range odd {
		run("peer-type-odd", c06In{Pkg: c06Pkg, Entry: "peer-type", Type: t, Text: []byte(texts[r.Intn(len(texts))])})
	}
	for _, t := range append([]int64{0, 1, 2}, odd...) {
		for op := 0; op < 3; op++ {
			run("topology-single", c06In{Pkg: c06Pkg, Entry: "topology-peers", Types: []int64{t}, Ops: []int{op}})
			run("topology-after-known", c06In{Pkg: c06Pkg, Entry: "topology-peers", Types: []int64{1, 2, t, 1}, Ops: []int{0, 0, op, 0}})
		}
	}
	for i := 0; i < e.N/2; i++ {
		n := 1 + r.Intn(6)
		in := c06In{Pkg: c06Pkg, Entry: "topology-peers"}
		for k := 0; k < n; k++ {
			t := int64(r.Intn(3))
			if r.Intn(2) == 0 {
				t = odd[r.Intn(len(odd))]
			}
			in.Types = append(in.Types, t)
			in.Ops = append(in.Ops, r.Intn(3))
		}
		run("topology-random", in)
		run("peer-type-random", c06In{Pkg: c06Pkg, Entry: "peer-type", Type: r.Int63() - r.Int63(), Text: []byte(texts[r.Intn(len(texts))])})
	}
}
