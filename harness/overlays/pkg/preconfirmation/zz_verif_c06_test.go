package preconfirmation_test

// C06 driver (5/8): the preconfirmation protocol.
//   handle-bid      the provider's stream handler (Streams()[0].Handler) on hostile Bid frames, with the
//                   real preconfsigner, the real preconf contract binding over a fake chain client, a
//                   scripted allowance store and engine. Runs in the driver's goroutine under recover().
//   send-bid-reply  the bidder's SendBid against providers answering with hostile PreConfirmation
//                   frames. The per-provider goroutines cannot be recover()-ed, so these cases run in a
//                   child process (this test binary re-executed on the input file); a crash is attributed
//                   to the case in flight and the child restarted for the rest.

import (
	"bufio"
	"bytes"
	"context"
	"crypto/ecdsa"
	"encoding/json"
	"errors"
	"fmt"
	"io"
	"log/slog"
	"math"
	"math/big"
	"math/rand"
	"os"
	"os/exec"
	"path/filepath"
	"strconv"
	"strings"
	"testing"
	"time"

	"github.com/ethereum/go-ethereum/common"
	"github.com/ethereum/go-ethereum/core/types"
	"github.com/ethereum/go-ethereum/crypto"
	preconfpb "github.com/primevprotocol/mev-commit/gen/go/preconfirmation/v1"
	providerapiv1 "github.com/primevprotocol/mev-commit/gen/go/providerapi/v1"
	preconfcontract "github.com/primevprotocol/mev-commit/pkg/contracts/preconf"
	"github.com/primevprotocol/mev-commit/pkg/evmclient"
	mockkeysigner "github.com/primevprotocol/mev-commit/pkg/keysigner/mock"
	"github.com/primevprotocol/mev-commit/pkg/p2p"
	"github.com/primevprotocol/mev-commit/pkg/preconfirmation"
	"github.com/primevprotocol/mev-commit/pkg/signer/preconfsigner"
	"github.com/primevprotocol/mev-commit/pkg/topology"
	"google.golang.org/protobuf/encoding/protowire"
	"google.golang.org/protobuf/proto"
)

const c06Pkg = "preconfirmation"

type c06S struct {
	S string `json:"s"`
	N int    `json:"n,omitempty"`
}

func (s c06S) v() string {
	if s.N > 1 {
		return strings.Repeat(s.S, s.N)
	}
	return s.S
}

type c06B struct {
	Nil bool   `json:"nil,omitempty"`
	B   []byte `json:"b,omitempty"`
	N   int    `json:"n,omitempty"`
}

func (b c06B) v() []byte {
	if b.Nil {
		return nil
	}
	if b.N > 1 {
		return bytes.Repeat(b.B, b.N)
	}
	if b.B == nil {
		return []byte{}
	}
	return b.B
}

type c06Bid struct {
	Tx, Amt    c06S
	BN, DS, DE int64
	Dig, Sig   c06B
}

func (b *c06Bid) pb() *preconfpb.Bid {
	return &preconfpb.Bid{TxHash: b.Tx.v(), BidAmount: b.Amt.v(), BlockNumber: b.BN, DecayStartTimestamp: b.DS,
		DecayEndTimestamp: b.DE, Digest: b.Dig.v(), Signature: b.Sig.v()}
}

// wire form written field by field (proto.Marshal would refuse strings that are not UTF-8; a peer can
// still send them)
func (b *c06Bid) wire() []byte {
	var w []byte
	app := func(num protowire.Number, v []byte) {
		if len(v) > 0 {
			w = protowire.AppendBytes(protowire.AppendTag(w, num, protowire.BytesType), v)
		}
	}
	vi := func(num protowire.Number, v int64) {
		if v != 0 {
			w = protowire.AppendVarint(protowire.AppendTag(w, num, protowire.VarintType), uint64(v))
		}
	}
	app(1, []byte(b.Tx.v()))
	app(2, []byte(b.Amt.v()))
	vi(3, b.BN)
	app(4, b.Dig.v())
	app(5, b.Sig.v())
	vi(6, b.DS)
	vi(7, b.DE)
	return w
}

type c06Pre struct {
	Bid      *c06Bid
	Dig, Sig c06B
}

func (c *c06Pre) pb() *preconfpb.PreConfirmation {
	p := &preconfpb.PreConfirmation{Digest: c.Dig.v(), Signature: c.Sig.v()}
	if c.Bid != nil {
		p.Bid = c.Bid.pb()
	}
	return p
}

func (c *c06Pre) wire() []byte {
	var w []byte
	if c.Bid != nil {
		w = protowire.AppendBytes(protowire.AppendTag(w, 1, protowire.BytesType), c.Bid.wire())
	}
	if v := c.Dig.v(); len(v) > 0 {
		w = protowire.AppendBytes(protowire.AppendTag(w, 2, protowire.BytesType), v)
	}
	if v := c.Sig.v(); len(v) > 0 {
		w = protowire.AppendBytes(protowire.AppendTag(w, 3, protowire.BytesType), v)
	}
	return w
}

// one frame on a scripted stream: a failing read, raw bytes, or a structured message
type c06Frame struct {
	NewErr   bool    `json:",omitempty"` // send-bid-reply: NewStream fails
	WriteErr bool    `json:",omitempty"` // send-bid-reply: WriteMsg fails
	Eof      bool    `json:",omitempty"`
	Raw      []byte  `json:",omitempty"`
	Bid      *c06Bid `json:",omitempty"`
	Pre      *c06Pre `json:",omitempty"`
}

func (f c06Frame) wire() []byte {
	switch {
	case f.Bid != nil:
		return f.Bid.wire()
	case f.Pre != nil:
		return f.Pre.wire()
	}
	return f.Raw
}

type c06In struct {
	Pkg   string
	Entry string // handle-bid | send-bid-reply
	// handle-bid
	Role      int      `json:",omitempty"`
	Frame     c06Frame `json:",omitempty"`
	Allow     bool     `json:",omitempty"`
	Status    int32    `json:",omitempty"` // what the engine answers; -1: ProcessBid fails; -2: never answers
	StoreFail bool     `json:",omitempty"`
	WriteFail bool     `json:",omitempty"`
	// send-bid-reply: the call (a valid one) and one reply per provider
	Tx, Amt    string     `json:",omitempty"`
	BN, DS, DE int64      `json:",omitempty"`
	Replies    []c06Frame `json:",omitempty"`
}

type c06Obs struct {
	Panic     bool
	Res       int
	Delivered int    `json:",omitempty"`
	Note      string `json:",omitempty"`
}

// ---- summaries -------------------------------------------------------------------------------------------

func c06OptLen(b []byte) string { return coqOpt(b != nil, coqN(uint64(len(b)))) }

func c06AmtOK(s string) bool {
	a, ok := new(big.Int).SetString(s, 10)
	return ok && a.Sign() >= 0 && a.BitLen() <= 256
}

func c06SigOK(hash, sig []byte) bool {
	if len(sig) != 65 {
		return false
	}
	s := append([]byte{}, sig...)
	if s[64] >= 27 && s[64] <= 28 {
		s[64] -= 27
	}
	pub, err := crypto.SigToPub(hash, s)
	if err != nil {
		return false
	}
	return crypto.VerifySignature(crypto.FromECDSAPub(pub), hash, s[:64])
}

func c06HashBid(b *preconfpb.Bid) (h []byte) {
	defer func() {
		if r := recover(); r != nil {
			h = nil
		}
	}()
	h, err := preconfsigner.GetBidHash(b)
	if err != nil {
		return nil
	}
	return h
}

func c06HashPre(c *preconfpb.PreConfirmation) (h []byte) {
	defer func() {
		if r := recover(); r != nil {
			h = nil
		}
	}()
	h, err := preconfsigner.GetPreConfirmationHash(c)
	if err != nil {
		return nil
	}
	return h
}

func c06CoqBidIn(b *preconfpb.Bid) string {
	amtOK := c06AmtOK(b.BidAmount)
	var hashOK, sigOK bool
	if amtOK {
		if h := c06HashBid(b); h != nil && bytes.Equal(h, b.Digest) {
			hashOK = true
			sigOK = c06SigOK(h, b.Signature)
		}
	}
	return coqRecord("bi_dig", c06OptLen(b.Digest), "bi_sig", c06OptLen(b.Signature), "bi_amt_ok", coqBool(amtOK),
		"bi_hash_ok", coqBool(hashOK), "bi_sig_ok", coqBool(sigOK))
}

func c06CoqPreIn(c *preconfpb.PreConfirmation) string {
	bid := "None"
	var hashOK, sigOK bool
	if c.Bid != nil {
		bid = "(Some " + c06CoqBidIn(c.Bid) + ")"
		if c06AmtOK(c.Bid.BidAmount) {
			if h := c06HashPre(c); h != nil && bytes.Equal(h, c.Digest) {
				hashOK = true
				sigOK = c06SigOK(h, c.Signature)
			}
		}
	}
	return coqRecord("pi_bid", bid, "pi_dig", c06OptLen(c.Digest), "pi_sig", c06OptLen(c.Signature),
		"pi_hash_ok", coqBool(hashOK), "pi_sig_ok", coqBool(sigOK))
}

func c06CoqInput(in c06In) string {
	if in.Entry == "handle-bid" {
		read := "None"
		if !in.Frame.Eof {
			b := new(preconfpb.Bid)
			if proto.Unmarshal(in.Frame.wire(), b) == nil {
				read = "(Some " + c06CoqBidIn(b) + ")"
			}
		}
		return coqApp("EHandleBid", coqBool(p2p.PeerType(in.Role) == p2p.PeerTypeBidder), read, coqBool(in.Allow), coqZ(int64(in.Status)))
	}
	var rs []string
	for _, f := range in.Replies {
		if f.NewErr || f.WriteErr || f.Eof {
			rs = append(rs, "RpErr")
			continue
		}
		c := new(preconfpb.PreConfirmation)
		if proto.Unmarshal(f.wire(), c) != nil {
			rs = append(rs, "RpErr")
			continue
		}
		rs = append(rs, coqApp("RpFrame", c06CoqPreIn(c)))
	}
	return coqApp("ESendBidReply", coqList(rs))
}

// ---- fakes -------------------------------------------------------------------------------------------------

var c06ErrScripted = errors.New("c06: scripted failure")

type c06Stream struct {
	f         c06Frame
	writeFail bool
}

func (s *c06Stream) ReadMsg(ctx context.Context, m proto.Message) error {
	if s.f.Eof {
		return c06ErrScripted
	}
	return proto.Unmarshal(s.f.wire(), m)
}
func (s *c06Stream) WriteMsg(_ context.Context, m proto.Message) error {
	if s.writeFail || s.f.WriteErr {
		return c06ErrScripted
	}
	_, err := proto.Marshal(m)
	return err
}
func (s *c06Stream) Reset() error { return nil }
func (s *c06Stream) Close() error { return nil }

type c06Topo struct{ peers []p2p.Peer }

func (t *c06Topo) GetPeers(topology.Query) []p2p.Peer { return t.peers }

type c06Streamer struct{ replies map[common.Address]c06Frame }

func (s *c06Streamer) NewStream(_ context.Context, p p2p.Peer, _ p2p.Header, _ p2p.StreamDesc) (p2p.Stream, error) {
	f := s.replies[p.EthAddress]
	if f.NewErr {
		return nil, c06ErrScripted
	}
	return &c06Stream{f: f}, nil
}

type c06Store bool

func (a c06Store) CheckBidderAllowance(context.Context, common.Address) bool { return bool(a) }

type c06Engine struct{ status int32 }

func (p *c06Engine) ProcessBid(context.Context, *preconfpb.Bid) (chan providerapiv1.BidResponse_Status, error) {
	if p.status == -1 {
		return nil, c06ErrScripted
	}
	ch := make(chan providerapiv1.BidResponse_Status, 1)
	if p.status != -2 {
		ch <- providerapiv1.BidResponse_Status(p.status)
	}
	return ch, nil
}

type c06Chain struct{ fail bool }

func (c *c06Chain) Send(context.Context, *evmclient.TxRequest) (common.Hash, error) {
	if c.fail {
		return common.Hash{}, c06ErrScripted
	}
	return common.Hash{1}, nil
}
func (c *c06Chain) WaitForReceipt(context.Context, common.Hash) (*types.Receipt, error) {
	return nil, c06ErrScripted
}
func (c *c06Chain) Call(context.Context, *evmclient.TxRequest) ([]byte, error) {
	return nil, c06ErrScripted
}
func (c *c06Chain) CancelTx(context.Context, common.Hash) (common.Hash, error) {
	return common.Hash{}, c06ErrScripted
}

func c06Key(seed byte) *ecdsa.PrivateKey {
	k, err := crypto.ToECDSA(bytes.Repeat([]byte{seed}, 32))
	if err != nil {
		panic(err)
	}
	return k
}

var c06ProviderKey = c06Key(0x51)
var c06BidderKey = c06Key(0x52)

func c06SignerOf(k *ecdsa.PrivateKey) preconfsigner.Signer {
	return preconfsigner.NewSigner(mockkeysigner.NewMockKeySigner(k, crypto.PubkeyToAddress(k.PublicKey)))
}

func c06Logger() *slog.Logger { return slog.New(slog.NewTextHandler(io.Discard, nil)) }

// ---- running ------------------------------------------------------------------------------------------------

func c06RunHandleBid(in c06In) (obs c06Obs) {
	defer func() {
		if r := recover(); r != nil {
			obs = c06Obs{Panic: true, Note: fmt.Sprint(r)}
		}
	}()
	da := preconfcontract.New(common.HexToAddress("0xA1"), &c06Chain{fail: in.StoreFail}, c06Logger())
	p := preconfirmation.New(&c06Topo{}, &c06Streamer{}, c06SignerOf(c06ProviderKey), c06Store(in.Allow),
		&c06Engine{status: in.Status}, da, c06Logger())
	ctx, cancel := context.WithTimeout(context.Background(), 20*time.Second)
	if in.Status == -2 {
		cancel()
		ctx, cancel = context.WithTimeout(context.Background(), 30*time.Millisecond)
	}
	defer cancel()
	err := p.Streams()[0].Handler(ctx, p2p.Peer{EthAddress: common.HexToAddress("0xB1"), Type: p2p.PeerType(in.Role)},
		&c06Stream{f: in.Frame, writeFail: in.WriteFail})
	if err != nil {
		obs.Res = 1
		obs.Note = err.Error()
		if len(obs.Note) > 100 {
			obs.Note = obs.Note[:100]
		}
	}
	return
}

// c06RunSendBid must only be called in a child process: a panic in one of SendBid's goroutines ends it.
func c06RunSendBid(in c06In) (obs c06Obs) {
	defer func() {
		if r := recover(); r != nil {
			obs = c06Obs{Panic: true, Note: fmt.Sprint(r)}
		}
	}()
	topo := &c06Topo{}
	st := &c06Streamer{replies: map[common.Address]c06Frame{}}
	for i, f := range in.Replies {
		a := common.BigToAddress(big.NewInt(int64(0x1000 + i)))
		topo.peers = append(topo.peers, p2p.Peer{EthAddress: a, Type: p2p.PeerTypeProvider})
		st.replies[a] = f
	}
	p := preconfirmation.New(topo, st, c06SignerOf(c06BidderKey), c06Store(true), &c06Engine{}, nil, c06Logger())
	ctx, cancel := context.WithTimeout(context.Background(), 20*time.Second)
	defer cancel()
	ch, err := p.SendBid(ctx, in.Tx, in.Amt, in.BN, in.DS, in.DE)
	if err != nil {
		return c06Obs{Res: 1, Note: err.Error()}
	}
	for {
		select {
		case c, ok := <-ch:
			if !ok {
				return
			}
			if c != nil {
				obs.Delivered++
			}
		case <-ctx.Done():
			return c06Obs{Res: 2, Note: "channel not closed within 20 s"}
		}
	}
}

// ---- child process protocol --------------------------------------------------------------------------------------

type c06ChildLine struct {
	I     int     `json:"i"`
	Start bool    `json:"start,omitempty"`
	Obs   *c06Obs `json:"obs,omitempty"`
}

func c06Child(t *testing.T) {
	data, err := os.ReadFile(os.Getenv("VERIF_C06_CHILD_IN"))
	if err != nil {
		t.Fatalf("c06 child: %v", err)
	}
	from, _ := strconv.Atoi(os.Getenv("VERIF_C06_CHILD_FROM"))
	f, err := os.OpenFile(os.Getenv("VERIF_C06_CHILD_RES"), os.O_APPEND|os.O_CREATE|os.O_WRONLY, 0o644)
	if err != nil {
		t.Fatalf("c06 child: %v", err)
	}
	defer f.Close()
	put := func(l c06ChildLine) {
		b, _ := json.Marshal(l)
		f.Write(append(b, '\n'))
	}
	lines := strings.Split(strings.TrimSpace(string(data)), "\n")
	for i := from; i < len(lines); i++ {
		var in c06In
		if err := json.Unmarshal([]byte(lines[i]), &in); err != nil {
			t.Fatalf("c06 child: bad input %d: %v", i, err)
		}
		put(c06ChildLine{I: i, Start: true})
		obs := c06RunSendBid(in)
		put(c06ChildLine{I: i, Obs: &obs})
	}
}

func c06RunInChildren(t *testing.T, ins []c06In) []c06Obs {
	out := make([]c06Obs, len(ins))
	if len(ins) == 0 {
		return out
	}
	dir := filepath.Dir(os.Getenv("VERIF_OUT"))
	inPath := filepath.Join(dir, fmt.Sprintf("c06_%s_child_%d.in.jsonl", c06Pkg, os.Getpid()))
	resPath := filepath.Join(dir, fmt.Sprintf("c06_%s_child_%d.res.jsonl", c06Pkg, os.Getpid()))
	defer os.Remove(inPath)
	defer os.Remove(resPath)
	var sb strings.Builder
	for _, in := range ins {
		b, _ := json.Marshal(in)
		sb.Write(b)
		sb.WriteByte('\n')
	}
	if err := os.WriteFile(inPath, []byte(sb.String()), 0o644); err != nil {
		t.Fatalf("c06: %v", err)
	}
	from := 0
	for from < len(ins) {
		os.Remove(resPath)
		ctx, cancel := context.WithTimeout(context.Background(), 10*time.Minute)
		cmd := exec.CommandContext(ctx, os.Args[0], "-test.run", "^TestVerifC06$", "-test.count=1", "-test.timeout=0")
		cmd.Env = append(os.Environ(), "VERIF_C06_CHILD_IN="+inPath, "VERIF_C06_CHILD_RES="+resPath,
			"VERIF_C06_CHILD_FROM="+strconv.Itoa(from))
		outb, runErr := cmd.CombinedOutput()
		cancel()
		started, done := -1, from-1
		if f, err := os.Open(resPath); err == nil {
			sc := bufio.NewScanner(f)
			sc.Buffer(make([]byte, 1<<20), 1<<26)
			for sc.Scan() {
				var l c06ChildLine
				if json.Unmarshal(sc.Bytes(), &l) != nil {
					continue
				}
				if l.Start {
					started = l.I
				} else if l.Obs != nil && l.I >= 0 && l.I < len(ins) {
					out[l.I] = *l.Obs
					done = l.I
				}
			}
			f.Close()
		}
		if started > done { // the child died inside case [started]
			note := string(outb)
			if i := strings.Index(note, "panic:"); i >= 0 {
				note = note[i:]
			}
			if len(note) > 300 {
				note = note[:300]
			}
			out[started] = c06Obs{Panic: true, Note: note}
			done = started
		} else if done < from {
			t.Fatalf("c06: child made no progress from case %d: %v\n%s", from, runErr, outb)
		}
		from = done + 1
	}
	return out
}

// ---- hostile generators -----------------------------------------------------------------------------------------

func c06RandBytes(r *rand.Rand, n int) []byte {
	b := make([]byte, n)
	r.Read(b)
	return b
}

var c06Amounts = []c06S{{S: "1"}, {S: "0"}, {S: "1000000000000000000"}, {S: "007"}, {S: ""}, {S: "abc"}, {S: "-1"}, {S: "+5"},
	{S: "1e9"}, {S: "0x10"}, {S: " 1"}, {S: "١٢"}, {S: "1_000"}, {S: "\xff\xfe"},
	{S: "115792089237316195423570985008687907853269984665640564039457584007913129639935"},
	{S: "115792089237316195423570985008687907853269984665640564039457584007913129639936"},
	{S: "18446744073709551616"}, {S: "9", N: 5000}, {S: "x", N: 1 << 20}}

var c06Txs = []c06S{{S: "0xb7e1f9d2c3a45b6c7d8e9fa0b1c2d3e4f5a6b7c8d9e0f1a2b3c4d5e6f7a8b9c0"}, {S: ""}, {S: "a,b,,c"},
	{S: "\xff\xfe\x00"}, {S: "tx", N: 1 << 19}, {S: ","}}

var c06Ints = []int64{0, 1, -1, 2, math.MaxInt64, math.MinInt64, 1 << 32, -(1 << 40), 1700000000000}

func c06PickS(r *rand.Rand, l []c06S, honest int) c06S {
	if r.Intn(100) < honest {
		return l[0]
	}
	return l[r.Intn(len(l))]
}

func c06Sign(k *ecdsa.PrivateKey, h []byte) []byte {
	if len(h) != 32 {
		return nil
	}
	sig, err := crypto.Sign(h, k)
	if err != nil {
		return nil
	}
	sig[64] += 27
	return sig
}

func c06HostileBytes(r *rand.Rand, good []byte, want int) c06B {
	if good == nil {
		good = c06RandBytes(r, want)
	}
	switch r.Intn(11) {
	case 0:
		return c06B{Nil: true}
	case 1, 2: // every length 0..70
		n := r.Intn(71)
		b := append([]byte{}, good...)
		if n <= len(b) {
			return c06B{B: b[:n]}
		}
		return c06B{B: append(b, c06RandBytes(r, n-len(b))...)}
	case 3:
		return c06B{B: c06RandBytes(r, want)}
	case 4:
		return c06B{B: make([]byte, want)}
	case 5:
		return c06B{B: bytes.Repeat([]byte{0xff}, want)}
	case 6:
		return c06B{B: []byte{0xab}, N: []int{1000, 65536, 1 << 20}[r.Intn(3)]}
	case 7:
		b := append([]byte{}, good...)
		b[r.Intn(len(b))] ^= byte(1 << uint(r.Intn(8)))
		return c06B{B: b}
	case 8:
		b := append([]byte{}, good...)
		b[len(b)-1] = []byte{0, 1, 2, 3, 4, 26, 27, 28, 29, 30, 31, 255}[r.Intn(12)]
		return c06B{B: b}
	case 9:
		return c06B{B: good[:len(good)-1]}
	}
	return c06B{B: append(append([]byte{}, good...), byte(r.Intn(256)))}
}

func c06GenBid(r *rand.Rand, k *ecdsa.PrivateKey, hostility int) *c06Bid {
	b := &c06Bid{Tx: c06PickS(r, c06Txs, 100-hostility/2), Amt: c06PickS(r, c06Amounts, 100-hostility),
		BN: 10, DS: 1700000000000, DE: 1700000001000}
	if r.Intn(100) < hostility {
		b.BN, b.DS, b.DE = c06Ints[r.Intn(len(c06Ints))], c06Ints[r.Intn(len(c06Ints))], c06Ints[r.Intn(len(c06Ints))]
	}
	c06SignBid(b, k)
	h, sig := b.Dig.v(), b.Sig.v()
	if r.Intn(100) < hostility/2 {
		b.Dig = c06HostileBytes(r, h, 32)
	}
	if r.Intn(100) < hostility {
		b.Sig = c06HostileBytes(r, sig, 65)
	}
	return b
}

func c06SignBid(b *c06Bid, k *ecdsa.PrivateKey) {
	b.Dig, b.Sig = c06B{Nil: true}, c06B{Nil: true}
	h := c06HashBid(b.pb())
	sig := c06Sign(k, h)
	b.Dig = c06B{B: h, Nil: h == nil}
	b.Sig = c06B{B: sig, Nil: sig == nil}
}

func c06SignPre(c *c06Pre) {
	c.Dig, c.Sig = c06B{Nil: true}, c06B{Nil: true}
	h := c06HashPre(c.pb())
	sig := c06Sign(c06ProviderKey, h)
	c.Dig = c06B{B: h, Nil: h == nil}
	c.Sig = c06B{B: sig, Nil: sig == nil}
}

// c06GenPre: a hostile commitment around [sent] (the bid SendBid will have written) or around a bid
// of the generator's own.
func c06GenPre(r *rand.Rand, sent *c06Bid, hostility int) *c06Pre {
	c := &c06Pre{}
	switch x := r.Intn(100); {
	case x < 15:
	case x < 60:
		cp := *sent
		c.Bid = &cp
	default:
		c.Bid = c06GenBid(r, c06BidderKey, hostility)
	}
	c06SignPre(c)
	h, sig := c.Dig.v(), c.Sig.v()
	if c.Bid == nil {
		c.Dig = c06B{B: c06RandBytes(r, 32)}
		c.Sig = c06B{B: c06RandBytes(r, 65)}
	}
	if r.Intn(100) < hostility/2 {
		c.Dig = c06HostileBytes(r, h, 32)
	}
	if r.Intn(100) < hostility {
		c.Sig = c06HostileBytes(r, sig, 65)
	}
	return c
}

func c06HostileRaw(r *rand.Rand, honest []byte) c06Frame {
	switch r.Intn(6) {
	case 0:
		return c06Frame{Eof: true}
	case 1:
		return c06Frame{Raw: c06RandBytes(r, r.Intn(100))}
	case 2:
		if len(honest) > 1 {
			return c06Frame{Raw: honest[:1+r.Intn(len(honest)-1)]}
		}
		return c06Frame{Raw: []byte{}}
	case 3:
		return c06Frame{Raw: []byte{0x0a, 0xff, 0xff, 0xff, 0xff, 0x0f}}
	case 4: // field 1 as a varint instead of a length-delimited value, unknown fields, a group
		return c06Frame{Raw: [][]byte{{0x08, 0x01}, {0xf8, 0x07, 0x01}, {0x0b, 0x0c}, {0x1a, 0x00}, {0x0a, 0x00}}[r.Intn(5)]}
	}
	return c06Frame{Raw: []byte{}}
}

func c06ResizeSig(r *rand.Rand, sig []byte, n int) c06B {
	if n == 0 {
		return c06B{Nil: true}
	}
	if n <= len(sig) {
		return c06B{B: append([]byte{}, sig[:n]...)}
	}
	return c06B{B: append(append([]byte{}, sig...), c06RandBytes(r, n-len(sig))...)}
}

func TestVerifC06(t *testing.T) {
	if os.Getenv("VERIF_C06_CHILD_IN") != "" {
		c06Child(t)
		return
	}
	e := vfOpen(t, 200)
	defer e.Close()
	emit := func(class string, in c06In, obs c06Obs) {
		inp := c06CoqInput(in)
		o := "OPanic"
		if !obs.Panic {
			o = coqApp("ONoPanic", coqN(uint64(obs.Res)))
		}
		e.Emit(class, in, obs, func(id int) string { return coqRecord("id", coqN(uint64(id)), "inp", inp, "obs", o) })
	}
	type pending struct {
		class string
		in    c06In
	}
	var children []pending
	run := func(class string, in c06In) {
		if in.Entry == "handle-bid" {
			emit(class, in, c06RunHandleBid(in))
		} else {
			children = append(children, pending{class, in})
		}
	}
	flush := func() {
		ins := make([]c06In, len(children))
		for i, p := range children {
			ins[i] = p.in
		}
		for i, obs := range c06RunInChildren(t, ins) {
			emit(children[i].class, children[i].in, obs)
		}
		children = nil
	}
	for _, raw := range e.Replay {
		var in c06In
		if err := json.Unmarshal(raw, &in); err != nil || in.Pkg != c06Pkg {
			continue
		}
		run("replay", in)
	}
	flush()
	if e.OnlyReplay() {
		return
	}
	r := e.rng
	hb := func(f c06Frame) c06In {
		return c06In{Pkg: c06Pkg, Entry: "handle-bid", Role: int(p2p.PeerTypeBidder), Frame: f, Allow: true,
			Status: int32(providerapiv1.BidResponse_STATUS_ACCEPTED)}
	}
	// ---- handle-bid ----
	run("honest-bid", hb(c06Frame{Bid: c06GenBid(r, c06BidderKey, 0)}))
	for n := 0; n <= 70; n++ {
		b := c06GenBid(r, c06BidderKey, 0)
		b.Sig = c06ResizeSig(r, b.Sig.v(), n)
		run("sweep-bid-siglen", hb(c06Frame{Bid: b}))
	}
	// correctly signed bids (a peer signs whatever it likes) with short / empty / odd tx strings, with and
	// without allowance, accepted and rejected by the engine
	for n := 0; n <= 20; n++ {
		for _, allow := range []bool{false, true} {
			b := &c06Bid{Tx: c06S{S: strings.Repeat("a", n)}, Amt: c06S{S: "1000"}, BN: 10, DS: 1700000000000, DE: 1700000001000}
			if n%5 == 4 {
				b.Tx = c06S{S: strings.Repeat(",", n)}
			}
			c06SignBid(b, c06BidderKey)
			in := hb(c06Frame{Bid: b})
			in.Allow = allow
			if n%2 == 1 {
				in.Status = int32(providerapiv1.BidResponse_STATUS_REJECTED)
			}
			run("signed-short-tx", in)
		}
	}
	for _, b := range []*c06Bid{
		{Tx: c06S{S: "\u00e9\u00e9\u00e9\u00e9\u00e9\u00e9\u00e9\u00e9"}, Amt: c06S{S: "0"}},
		{Tx: c06S{S: "tx"}, Amt: c06S{S: "0"}, BN: -1, DS: -1, DE: -1},
		{Tx: c06S{S: "0x"}, Amt: c06S{S: "115792089237316195423570985008687907853269984665640564039457584007913129639935"}, BN: 1},
		{Tx: c06S{S: "t", N: 1 << 18}, Amt: c06S{S: "007"}, BN: 1 << 62},
	} {
		for _, allow := range []bool{false, true} {
			c06SignBid(b, c06BidderKey)
			cp := *b
			in := hb(c06Frame{Bid: &cp})
			in.Allow = allow
			run("signed-odd-fields", in)
		}
	}
	for _, role := range []int{0, 1, 2, 3, -1, 1 << 30} {
		in := hb(c06Frame{Bid: c06GenBid(r, c06BidderKey, 50)})
		in.Role = role
		run("roles", in)
	}
	for _, st := range []int32{0, 1, 2, 3, -5, 1 << 30, -1, -2} {
		in := hb(c06Frame{Bid: c06GenBid(r, c06BidderKey, 0)})
		in.Status = st
		run("engine-answers", in)
		in.StoreFail = true
		run("engine-answers", in)
		in.StoreFail, in.WriteFail = false, true
		run("engine-answers", in)
	}
	for i := 0; i < 2*e.N; i++ {
		b := c06GenBid(r, c06BidderKey, 60)
		in := hb(c06Frame{Bid: b})
		if r.Intn(4) == 0 {
			in.Frame = c06HostileRaw(r, b.wire())
		}
		in.Allow = r.Intn(5) > 0
		if r.Intn(6) == 0 {
			in.Status = []int32{0, 1, 2, 3, -1}[r.Intn(5)]
		}
		in.StoreFail = r.Intn(10) == 0
		run("hostile-bid-frame", in)
	}
	// ---- send-bid-reply ----
	sb := func(replies ...c06Frame) c06In {
		return c06In{Pkg: c06Pkg, Entry: "send-bid-reply", Tx: c06Txs[0].S, Amt: "1000", BN: 10, DS: 1700000000000, DE: 1700000001000,
			Replies: replies}
	}
	sent := &c06Bid{Tx: c06Txs[0], Amt: c06S{S: "1000"}, BN: 10, DS: 1700000000000, DE: 1700000001000}
	c06SignBid(sent, c06BidderKey)
	honest := func() *c06Pre { cp := *sent; c := &c06Pre{Bid: &cp}; c06SignPre(c); return c }
	run("honest-reply", sb(c06Frame{Pre: honest()}))
	run("failing-streams", sb(c06Frame{NewErr: true}, c06Frame{WriteErr: true}, c06Frame{Eof: true}, c06Frame{Pre: honest()}))
	for m := 0; m < 4; m++ {
		c := &c06Pre{}
		if m&1 != 0 {
			c.Dig = c06B{B: c06RandBytes(r, 32)}
		} else {
			c.Dig = c06B{Nil: true}
		}
		if m&2 != 0 {
			c.Sig = c06B{B: c06RandBytes(r, 65)}
		} else {
			c.Sig = c06B{Nil: true}
		}
		run("reply-nil-bid", sb(c06Frame{Pre: c}))
	}
	step := 1
	if e.Tier == "quick" {
		step = 6
	}
	for n := 0; n <= 70; n += step {
		c := honest()
		c.Sig = c06ResizeSig(r, c.Sig.v(), n)
		c2 := honest()
		c2.Bid.Sig = c06ResizeSig(r, c2.Bid.Sig.v(), n)
		c06SignPre(c2)
		run("sweep-reply-siglen", sb(c06Frame{Pre: c}, c06Frame{Pre: c2}))
	}
	for i := 0; i < e.N/2; i++ {
		k := 1 + r.Intn(4)
		fs := make([]c06Frame, k)
		for j := range fs {
			c := c06GenPre(r, sent, 60)
			fs[j] = c06Frame{Pre: c}
			if r.Intn(5) == 0 {
				fs[j] = c06HostileRaw(r, c.wire())
			}
		}
		run("hostile-replies", sb(fs...))
	}
	flush()
}
