package preconfirmation_test

// Correspondence driver for property C05 (DESIGN.md section 7, C05): the real
// Preconfirmation.SendBid with the real preconfsigner and the real topology.Topology, against
// scripted provider streams.  Every case is run in a child process (this test binary
// re-executing itself on a slice of the case file) because a panic inside one of SendBid's own
// goroutines cannot be recovered by a caller; the child that dies is restarted after the
// crashing case, which is observed as Ret = 2.
//
// Schedule.  Every scripted provider parks at exactly one gate (NewStream, WriteMsg or ReadMsg,
// depending on its class) until its abstract time is reached or the caller's context ends.  The
// driver releases the providers step by step and, after each step, waits until the released
// goroutines have *exited* (goroutine count, positive synchronisation), so the context is never
// cancelled while a released goroutine is still on its way to the result channel.

import (
	"bufio"
	"context"
	"crypto/ecdsa"
	"encoding/hex"
	"encoding/json"
	"errors"
	"fmt"
	"io"
	"log/slog"
	"math/rand"
	"os"
	"os/exec"
	"path/filepath"
	"regexp"
	"runtime"
	"sort"
	"strconv"
	"strings"
	"sync"
	"sync/atomic"
	"testing"
	"time"

	"github.com/ethereum/go-ethereum/common"
	"github.com/ethereum/go-ethereum/crypto"
	"github.com/libp2p/go-libp2p/core/peer"
	ma "github.com/multiformats/go-multiaddr"
	preconfpb "github.com/primevprotocol/mev-commit/gen/go/preconfirmation/v1"
	mockkeysigner "github.com/primevprotocol/mev-commit/pkg/keysigner/mock"
	"github.com/primevprotocol/mev-commit/pkg/p2p"
	"github.com/primevprotocol/mev-commit/pkg/p2p/libp2p"
	"github.com/primevprotocol/mev-commit/pkg/preconfirmation"
	signer "github.com/primevprotocol/mev-commit/pkg/signer/preconfsigner"
	"github.com/primevprotocol/mev-commit/pkg/topology"
	"google.golang.org/grpc/codes"
	"google.golang.org/grpc/status"
	"google.golang.org/protobuf/encoding/protowire"
	"google.golang.org/protobuf/proto"
)

// ---------------------------------------------------------------------------------------------
// case input
// ---------------------------------------------------------------------------------------------

type c05PeerIn struct {
	Key  string `json:"key"`  // hex private key; its address is the peer's EthAddress
	Type string `json:"type"` // "provider" | "bidder" | "bootnode"
	Kind string `json:"kind"` // reply class
	Var  int    `json:"var"`  // variant inside the class
	Time int    `json:"time"` // abstract time of the scripted event
}

type c05In struct {
	BidderKey  string      `json:"bidder_key"`
	OtherKey   string      `json:"other_key"`   // another bidder
	ForeignKey string      `json:"foreign_key"` // a key that belongs to no connected peer
	Tx         string      `json:"tx"`
	Amt        string      `json:"amt"`
	BN         int64       `json:"bn"`
	DS         int64       `json:"ds"`
	DE         int64       `json:"de"`
	Peers      []c05PeerIn `json:"peers"`
	Deadline   int         `json:"deadline"`
	// Real: class real-stream. The bidder and every provider are real libp2p.Service instances
	// on loopback, the providers' preconfirmation handler is scripted, the deadline is a real
	// context deadline. Abstract times: a provider with Time < Deadline acts at once, one with
	// Time >= Deadline only after the deadline has passed.
	Real bool `json:"real,omitempty"`
	// Race: class reply-at-deadline. The call is repeated Rounds times; in every round all gated
	// providers are released and the caller's context is cancelled within the same instant (both
	// orders and concurrently, zero to a millisecond apart). Whether a reply that becomes readable
	// at the deadline is still delivered is the scheduler's choice: it is recorded per round and
	// enters the Coq case as that provider's abstract time (1 = before the deadline 2, 2 = at it).
	Race *c05Race `json:"race,omitempty"`
	// Session: class session. That many calls are made one after the other on ONE Preconfirmation
	// and one signer in one process (whatever the signer package keeps between calls is kept);
	// call r (1-based) uses decay start DS + r - 1, and a provider of kind replay-sig answers call r
	// with the signature it made in call 1 (Var = r - 1).
	Session int `json:"session,omitempty"`
}

type c05Race struct {
	Rounds int `json:"rounds"`
}

var c05Kinds = []struct {
	kind string
	vars int
}{
	{"honest", 1}, {"honest-spoofprov", 3}, {"otherbid-fields", 5}, {"otherbid-otherkey", 2},
	{"samefields-resigned", 1}, {"samebid-vrespelled", 1}, {"samebid-amtrespelled", 2}, {"replay-sig", 3}, {"samebid-unknown", 1}, {"outer-unknown", 1},
	{"foreign-key", 1}, {"tamper", 8}, {"shortsig", 6}, {"nilparts", 4}, {"garbage", 4},
	{"errframe", 1}, {"silence", 1}, {"reset", 1}, {"eof", 1}, {"twoframes", 4},
	{"newstream-err", 1}, {"write-err", 1}, {"replay-peer", 1},
}

// ---------------------------------------------------------------------------------------------
// preparation: everything that is a function of the input alone (keys, frames, decoded frames)
// ---------------------------------------------------------------------------------------------

const (
	c05ModeFrames = iota
	c05ModeNewStreamErr
	c05ModeWriteErr
	c05ModeReadErr
	c05ModeErrFrame
	c05ModeSilence
)

type c05PeerPrep struct {
	in     c05PeerIn
	addr   common.Address
	typ    p2p.PeerType
	mode   int
	readEr error    // for c05ModeReadErr
	frames [][]byte // for c05ModeFrames
}

type c05Prep struct {
	in     c05In
	bidder signer.Signer
	peers  []*c05PeerPrep
}

func c05Key(h string) *ecdsa.PrivateKey {
	k, err := crypto.HexToECDSA(h)
	if err != nil {
		panic("c05: bad key in input: " + err.Error())
	}
	return k
}

func c05SignerOf(k *ecdsa.PrivateKey) signer.Signer {
	return signer.NewSigner(mockkeysigner.NewMockKeySigner(k, crypto.PubkeyToAddress(k.PublicKey)))
}

func c05CloneBid(b *preconfpb.Bid) *preconfpb.Bid { return proto.Clone(b).(*preconfpb.Bid) }

func c05Flip(b []byte, i int) []byte {
	o := append([]byte(nil), b...)
	if len(o) > 0 {
		o[i%len(o)] ^= 0x01
	}
	return o
}

func c05Marshal(m proto.Message) []byte {
	b, err := proto.MarshalOptions{AllowPartial: true, Deterministic: true}.Marshal(m)
	if err != nil {
		return nil
	}
	if b == nil {
		b = []byte{}
	}
	return b
}

// c05Prepare builds the environment of a case. It calls the real signer (to produce the
// providers' frames); a panic in there is turned into a frame-less peer (read error) so that
// preparation itself never crashes.
func c05Prepare(in c05In) *c05Prep {
	pr := &c05Prep{in: in, bidder: c05SignerOf(c05Key(in.BidderKey))}
	other := c05SignerOf(c05Key(in.OtherKey))
	foreign := c05SignerOf(c05Key(in.ForeignKey))
	// the bid the replies are built around: what the bidder's signer makes of the call's
	// arguments (signing is deterministic), or a fixed valid bid when the arguments are refused
	base, err := pr.bidder.ConstructSignedBid(in.Tx, in.Amt, in.BN, in.DS, in.DE)
	if err != nil {
		base, err = pr.bidder.ConstructSignedBid("fallback", "1", 1, 1, 2)
		if err != nil {
			panic("c05: cannot sign fallback bid: " + err.Error())
		}
	}
	honestOf := func(i int) *preconfpb.PreConfirmation {
		c, err := c05SignerOf(c05Key(in.Peers[i].Key)).ConstructPreConfirmation(c05CloneBid(base))
		if err != nil {
			panic("c05: honest commitment: " + err.Error())
		}
		return c
	}
	for i, pin := range in.Peers {
		key := c05Key(pin.Key)
		pp := &c05PeerPrep{in: pin, addr: crypto.PubkeyToAddress(key.PublicKey)}
		switch pin.Type {
		case "provider":
			pp.typ = p2p.PeerTypeProvider
		case "bidder":
			pp.typ = p2p.PeerTypeBidder
		default:
			pp.typ = p2p.PeerTypeBootnode
		}
		own := c05SignerOf(key)
		commit := func(s signer.Signer, b *preconfpb.Bid) *preconfpb.PreConfirmation {
			c, err := s.ConstructPreConfirmation(b)
			if err != nil {
				panic("c05: commitment: " + err.Error())
			}
			return c
		}
		otherBid := func(s signer.Signer, v int) *preconfpb.Bid {
			tx, amt, bn, ds, de := base.TxHash, base.BidAmount, base.BlockNumber, base.DecayStartTimestamp, base.DecayEndTimestamp
			switch v % 5 {
			case 0:
				amt = amt + "0"
			case 1:
				tx = tx + ",ff"
			case 2:
				bn++
			case 3:
				ds--
			default:
				de++
			}
			b, err := s.ConstructSignedBid(tx, amt, bn, ds, de)
			if err != nil {
				panic("c05: other bid: " + err.Error())
			}
			return b
		}
		frames := func(ms ...proto.Message) {
			pp.mode = c05ModeFrames
			for _, m := range ms {
				pp.frames = append(pp.frames, c05Marshal(m))
			}
		}
		func() {
			defer func() {
				if r := recover(); r != nil {
					pp.mode, pp.readEr, pp.frames = c05ModeReadErr, fmt.Errorf("prepare: %v", r), nil
				}
			}()
			switch pin.Kind {
			case "honest":
				frames(honestOf(i))
			case "honest-spoofprov":
				c := honestOf(i)
				switch pin.Var % 3 {
				case 0:
					c.ProviderAddress = common.HexToAddress("0x00000000000000000000000000000000000000aa").Bytes()
				case 1:
					c.ProviderAddress = []byte{1, 2, 3}
				default:
					c.ProviderAddress = crypto.PubkeyToAddress(c05Key(in.ForeignKey).PublicKey).Bytes()
				}
				frames(c)
			case "otherbid-fields":
				frames(commit(own, otherBid(pr.bidder, pin.Var)))
			case "otherbid-otherkey":
				frames(commit(own, otherBid(other, pin.Var)))
			case "samefields-resigned":
				b, err := other.ConstructSignedBid(base.TxHash, base.BidAmount, base.BlockNumber,
					base.DecayStartTimestamp, base.DecayEndTimestamp)
				if err != nil {
					panic(err)
				}
				frames(commit(own, b))
			case "samebid-vrespelled":
				b := c05CloneBid(base)
				if len(b.Signature) == 65 && b.Signature[64] >= 27 {
					b.Signature[64] -= 27
				}
				frames(commit(own, b))
			case "samebid-amtrespelled":
				// the same amount spelled differently: same digest, same signature, another field value
				b := c05CloneBid(base)
				a := strings.TrimPrefix(b.BidAmount, "+")
				if pin.Var%2 == 0 {
					b.BidAmount = "0" + a
				} else {
					b.BidAmount = "+0" + a
				}
				frames(commit(own, b))
			case "replay-sig":
				// a self-consistent commitment over the bid sent (right digest) that carries the
				// signature this provider made earlier in the session, over the bid whose decay start
				// was Var lower (Var = 0: the honest commitment)
				c := honestOf(i)
				if pin.Var > 0 {
					pb, err := pr.bidder.ConstructSignedBid(base.TxHash, base.BidAmount, base.BlockNumber,
						base.DecayStartTimestamp-int64(pin.Var), base.DecayEndTimestamp)
					if err != nil {
						panic(err)
					}
					c.Signature = commit(own, pb).Signature
				}
				frames(c)
			case "samebid-unknown":
				c := honestOf(i)
				c.Bid.ProtoReflect().SetUnknown(protowire.AppendVarint(protowire.AppendTag(nil, 100, protowire.VarintType), 7))
				frames(c)
			case "outer-unknown":
				c := honestOf(i)
				c.ProtoReflect().SetUnknown(protowire.AppendVarint(protowire.AppendTag(nil, 100, protowire.VarintType), 7))
				frames(c)
			case "foreign-key":
				frames(commit(foreign, c05CloneBid(base)))
			case "tamper":
				c := honestOf(i)
				switch pin.Var % 8 {
				case 0:
					c.Digest = c05Flip(c.Digest, 3)
				case 1:
					c.Signature = c05Flip(c.Signature, 5)
				case 2:
					c.Signature = c05Flip(c.Signature, 40)
				case 3:
					c.Signature = append([]byte(nil), c.Signature...)
					c.Signature[64] ^= 0x07 // 27 <-> 28
				case 4:
					c.Bid.Digest = c05Flip(c.Bid.Digest, 7)
				case 5:
					c.Bid.Signature = c05Flip(c.Bid.Signature, 9)
				case 6:
					c.Bid.BidAmount = c.Bid.BidAmount + "1"
				default:
					c.Bid.BlockNumber++
				}
				frames(c)
			case "shortsig":
				c := honestOf(i)
				switch pin.Var % 6 {
				case 0:
					c.Signature = c.Signature[:64]
				case 1:
					c.Signature = c.Signature[:1]
				case 2:
					c.Signature = []byte{}
				case 3:
					c.Signature = append(append([]byte(nil), c.Signature...), 0)
				case 4:
					c.Bid.Signature = c.Bid.Signature[:64]
				default:
					c.Bid.Signature = c.Bid.Signature[:10]
				}
				frames(c)
			case "nilparts":
				c := honestOf(i)
				switch pin.Var % 4 {
				case 0:
					c.Bid = nil
				case 1:
					c.Digest = nil
				case 2:
					c.Signature = nil
				default:
					c = &preconfpb.PreConfirmation{}
				}
				frames(c)
			case "garbage":
				r := rand.New(rand.NewSource(int64(pin.Var)*7919 + int64(i)))
				b := make([]byte, 1+r.Intn(60))
				r.Read(b)
				pp.mode, pp.frames = c05ModeFrames, [][]byte{b}
			case "errframe":
				pp.mode = c05ModeErrFrame
			case "silence":
				pp.mode = c05ModeSilence
			case "reset":
				pp.mode, pp.readEr = c05ModeReadErr, errors.New("stream reset")
			case "eof":
				pp.mode, pp.readEr = c05ModeReadErr, io.EOF
			case "twoframes":
				switch pin.Var % 4 {
				case 0:
					frames(honestOf(i), honestOf(i))
				case 1:
					frames(honestOf(i), commit(own, otherBid(pr.bidder, 2)))
				case 2:
					frames(commit(own, otherBid(pr.bidder, 2)), honestOf(i))
				default:
					frames(honestOf(i))
					pp.frames = append([][]byte{{0xff, 0xff, 0xff}}, pp.frames...)
				}
			case "newstream-err":
				pp.mode = c05ModeNewStreamErr
			case "write-err":
				pp.mode = c05ModeWriteErr
			case "replay-peer":
				j := (i + 1) % len(in.Peers)
				frames(honestOf(j))
			default:
				panic("c05: unknown reply class " + pin.Kind)
			}
		}()
		pr.peers = append(pr.peers, pp)
	}
	return pr
}

// ---------------------------------------------------------------------------------------------
// fakes: streamer and streams (no goroutines of their own)
// ---------------------------------------------------------------------------------------------

type c05FakePeer struct {
	prep     *c05PeerPrep
	rel      chan struct{}
	parked   int32
	mu       sync.Mutex
	contacts []*c05FakeStream
}

type c05Streamer struct {
	peers       map[common.Address]*c05FakePeer
	parkedTotal int32
	mu          sync.Mutex
	strangers   []common.Address
}

type c05FakeStream struct {
	fp     *c05FakePeer
	st     *c05Streamer
	mu     sync.Mutex
	writes [][]byte
	reads  int
}

func (fp *c05FakePeer) park(ctx context.Context, st *c05Streamer) bool {
	atomic.AddInt32(&fp.parked, 1)
	atomic.AddInt32(&st.parkedTotal, 1)
	defer atomic.AddInt32(&fp.parked, -1)
	select {
	case <-fp.rel:
		return true
	case <-ctx.Done():
		return false
	}
}

func (st *c05Streamer) NewStream(ctx context.Context, peer p2p.Peer, _ p2p.Header, _ p2p.StreamDesc) (p2p.Stream, error) {
	fp := st.peers[peer.EthAddress]
	if fp == nil {
		st.mu.Lock()
		st.strangers = append(st.strangers, peer.EthAddress)
		st.mu.Unlock()
		return nil, errors.New("peer not found")
	}
	s := &c05FakeStream{fp: fp, st: st}
	fp.mu.Lock()
	fp.contacts = append(fp.contacts, s)
	fp.mu.Unlock()
	if err := ctx.Err(); err != nil {
		return nil, err // like the real transport: no stream on an expired context
	}
	if fp.prep.mode == c05ModeNewStreamErr {
		if !fp.park(ctx, st) {
			return nil, ctx.Err()
		}
		return nil, errors.New("dial failed")
	}
	return s, nil
}

func (s *c05FakeStream) WriteMsg(ctx context.Context, m proto.Message) error {
	b := c05Marshal(m)
	s.mu.Lock()
	s.writes = append(s.writes, b)
	s.mu.Unlock()
	if err := ctx.Err(); err != nil {
		return err
	}
	if s.fp.prep.mode == c05ModeWriteErr {
		if !s.fp.park(ctx, s.st) {
			return ctx.Err()
		}
		return errors.New("write failed")
	}
	return nil
}

func (s *c05FakeStream) ReadMsg(ctx context.Context, m proto.Message) error {
	s.mu.Lock()
	idx := s.reads
	s.reads++
	s.mu.Unlock()
	if idx == 0 {
		if !s.fp.park(ctx, s.st) {
			return ctx.Err()
		}
	}
	switch s.fp.prep.mode {
	case c05ModeErrFrame:
		return status.Error(codes.Internal, "bid rejected")
	case c05ModeReadErr:
		return s.fp.prep.readEr
	case c05ModeFrames:
		if idx < len(s.fp.prep.frames) {
			return proto.Unmarshal(s.fp.prep.frames[idx], m)
		}
		return io.EOF
	}
	return errors.New("stream closed")
}

func (s *c05FakeStream) Close() error { return nil }
func (s *c05FakeStream) Reset() error { return nil }

// the node's signer: the real one, with its ConstructSignedBid calls recorded
type c05CsbCall struct {
	Tx  string `json:"tx"`
	Amt string `json:"amt"`
	BN  int64  `json:"bn"`
	DS  int64  `json:"ds"`
	DE  int64  `json:"de"`
	Out int    `json:"out"` // 0 ok, 1 error, 2 panic
	Bid []byte `json:"bid"` // marshalled answer
}

type c05Signer struct {
	signer.Signer
	mu    sync.Mutex
	calls []c05CsbCall
}

func (w *c05Signer) ConstructSignedBid(tx, amt string, bn, ds, de int64) (b *preconfpb.Bid, err error) {
	call := c05CsbCall{Tx: tx, Amt: amt, BN: bn, DS: ds, DE: de, Out: 2}
	defer func() {
		w.mu.Lock()
		w.calls = append(w.calls, call)
		w.mu.Unlock()
	}()
	b, err = w.Signer.ConstructSignedBid(tx, amt, bn, ds, de)
	if err != nil {
		call.Out = 1
	} else {
		call.Out, call.Bid = 0, c05Marshal(b)
	}
	return b, err
}

// ---------------------------------------------------------------------------------------------
// observation
// ---------------------------------------------------------------------------------------------

type c05Contact struct {
	Addr   string   `json:"addr"`
	Writes [][]byte `json:"writes"`
}

type c05Deliv struct {
	Step int    `json:"step"`
	Msg  []byte `json:"msg"` // marshalled PreConfirmation as received on the channel
}

type c05Obs struct {
	Ret       int          `json:"ret"` // 0 channel, 1 error, 2 crashed, 3 did not come to rest
	Csb       []c05CsbCall `json:"csb"`
	Contacted []c05Contact `json:"contacted"`
	Delivered []c05Deliv   `json:"delivered"`
	Closed    int          `json:"closed"` // step at which the channel was seen closed, -1 = never
	GorBack   bool         `json:"goroutines_back"`
	Note      string       `json:"note,omitempty"`
	// class reply-at-deadline: the distinct outcomes seen over the rounds (each a full observation
	// of one round); Late = indices of the peers whose reply was not delivered in that outcome
	// Inconclusive: the run says nothing about SendBid (slow machine, environment); the case is
	// emitted for the statistics and ignored by the comparison
	Inconclusive string   `json:"inconclusive,omitempty"`
	Variants     []c05Obs `json:"variants,omitempty"`
	Late     []int    `json:"late,omitempty"`
	Rounds   int      `json:"rounds,omitempty"`
}

func c05WaitCount(want int, limit time.Duration) bool {
	dl := time.Now().Add(limit)
	for i := 0; ; i++ {
		if runtime.NumGoroutine() <= want {
			return true
		}
		if time.Now().After(dl) {
			return false
		}
		if i < 200 {
			runtime.Gosched()
		} else {
			time.Sleep(50 * time.Microsecond)
		}
	}
}

// one node kept over the calls of a session
type c05SwapStreamer struct {
	mu  sync.Mutex
	cur p2p.Streamer
}

func (w *c05SwapStreamer) NewStream(ctx context.Context, pe p2p.Peer, h p2p.Header, d p2p.StreamDesc) (p2p.Stream, error) {
	w.mu.Lock()
	cur := w.cur
	w.mu.Unlock()
	return cur.NewStream(ctx, pe, h, d)
}

type c05SessionEnv struct {
	swap *c05SwapStreamer
	ws   *c05Signer
	svc  *preconfirmation.Preconfirmation
}

// the input of call r of a session
func c05SessionRound(in c05In, r int) c05In {
	out := in
	out.Session = 0
	out.DS = in.DS + int64(r-1)
	out.Peers = append([]c05PeerIn(nil), in.Peers...)
	for k := range out.Peers {
		if out.Peers[k].Kind == "replay-sig" {
			out.Peers[k].Var = r - 1
		}
	}
	return out
}

func c05RunSession(in c05In, slow int) (obs c05Obs) {
	obs.Closed = -1
	logger := slog.New(slog.NewTextHandler(io.Discard, nil))
	pr := c05Prepare(c05SessionRound(in, 1))
	topo := topology.New(nil, logger)
	for _, pp := range pr.peers {
		topo.Connected(p2p.Peer{EthAddress: pp.addr, Type: pp.typ})
	}
	env := &c05SessionEnv{swap: &c05SwapStreamer{}, ws: &c05Signer{Signer: pr.bidder}}
	env.svc = preconfirmation.New(topo, env.swap, env.ws, nil, nil, nil, logger)
	for r := 1; r <= in.Session; r++ {
		ro := c05RunCaseOn(env, c05SessionRound(in, r), slow)
		obs.Rounds = r
		obs.Variants = append(obs.Variants, ro)
		if ro.Ret != 0 {
			obs.Ret, obs.Note = ro.Ret, fmt.Sprintf("call %d of the session: %s", r, ro.Note)
			return obs
		}
	}
	obs.Closed, obs.GorBack = 2, true
	return obs
}

func c05RunCase(in c05In, slow int) (obs c05Obs) {
	if in.Race != nil {
		return c05RunRace(in, slow)
	}
	if in.Session > 0 {
		return c05RunSession(in, slow)
	}
	return c05RunCaseOn(nil, in, slow)
}

func c05RunCaseOn(env *c05SessionEnv, in c05In, slow int) (obs c05Obs) {
	obs.Closed = -1
	limit := time.Duration(slow) * 5 * time.Second
	pr := c05Prepare(in)
	logger := slog.New(slog.NewTextHandler(io.Discard, nil))
	st := &c05Streamer{peers: map[common.Address]*c05FakePeer{}}
	topo := topology.New(nil, logger)
	for _, pp := range pr.peers {
		st.peers[pp.addr] = &c05FakePeer{prep: pp, rel: make(chan struct{})}
		topo.Connected(p2p.Peer{EthAddress: pp.addr, Type: pp.typ})
	}
	ws := &c05Signer{Signer: pr.bidder}
	svc := preconfirmation.New(topo, st, ws, nil, nil, nil, logger)
	firstCall := 0
	if env != nil {
		// the session's node: same Preconfirmation, same signer; only the scripted streams are new
		env.swap.mu.Lock()
		env.swap.cur = st
		env.swap.mu.Unlock()
		ws, svc = env.ws, env.svc
		firstCall = len(ws.calls)
	}
	ctx, cancel := context.WithCancel(context.Background())
	defer cancel()
	if in.Deadline <= 0 {
		cancel() // the caller's context has already expired when the call is made
	}
	base := runtime.NumGoroutine()
	var ch chan *preconfpb.PreConfirmation
	var err error
	panicked := false
	func() {
		defer func() {
			if r := recover(); r != nil {
				panicked = true
				obs.Note = fmt.Sprint(r)
			}
		}()
		ch, err = svc.SendBid(ctx, in.Tx, in.Amt, in.BN, in.DS, in.DE)
	}()
	collect := func() {
		obs.Csb = append([]c05CsbCall(nil), ws.calls[firstCall:]...)
		for _, pp := range pr.peers {
			fp := st.peers[pp.addr]
			fp.mu.Lock()
			for _, s := range fp.contacts {
				s.mu.Lock()
				obs.Contacted = append(obs.Contacted, c05Contact{Addr: hex.EncodeToString(pp.addr.Bytes()),
					Writes: append([][]byte(nil), s.writes...)})
				s.mu.Unlock()
			}
			fp.mu.Unlock()
		}
		for _, a := range st.strangers {
			obs.Contacted = append(obs.Contacted, c05Contact{Addr: hex.EncodeToString(a.Bytes())})
		}
		sort.SliceStable(obs.Contacted, func(i, j int) bool { return obs.Contacted[i].Addr < obs.Contacted[j].Addr })
		sort.SliceStable(obs.Delivered, func(i, j int) bool {
			if obs.Delivered[i].Step != obs.Delivered[j].Step {
				return obs.Delivered[i].Step < obs.Delivered[j].Step
			}
			return string(obs.Delivered[i].Msg) < string(obs.Delivered[j].Msg)
		})
	}
	defer collect()
	if panicked {
		obs.Ret = 2
		return
	}
	if err != nil || ch == nil {
		obs.Ret = 1
		obs.GorBack = c05WaitCount(base, limit)
		if !obs.GorBack {
			obs.Ret = 3
		}
		return
	}
	closed := false
	drain := func(step int) {
		for !closed {
			select {
			case c, ok := <-ch:
				if !ok {
					closed = true
					obs.Closed = step
					return
				}
				obs.Delivered = append(obs.Delivered, c05Deliv{Step: step, Msg: c05Marshal(c)})
			default:
				return
			}
		}
	}
	// every goroutine of the call is parked at its gate (or, with an expired context, gone):
	// all live goroutines above the baseline, except the closing one, are counted as parked
	parkedNow := func() int {
		k := 0
		for _, fp := range st.peers {
			k += int(atomic.LoadInt32(&fp.parked))
		}
		return k
	}
	nprov := 0
	for _, pp := range pr.peers {
		if pp.typ == p2p.PeerTypeProvider {
			nprov++
		}
	}
	dl := time.Now().Add(time.Duration(slow) * 2 * time.Second)
	for time.Now().Before(dl) {
		n := runtime.NumGoroutine()
		if n <= base || parkedNow() == n-base-1 || int(atomic.LoadInt32(&st.parkedTotal)) >= nprov {
			break
		}
		time.Sleep(20 * time.Microsecond)
	}
	if in.Deadline > 0 {
		cur := runtime.NumGoroutine()
		times := map[int]bool{}
		for _, pp := range pr.peers {
			if pp.in.Time < in.Deadline && pp.mode != c05ModeSilence {
				times[pp.in.Time] = true
			}
		}
		var steps []int
		for t := range times {
			steps = append(steps, t)
		}
		sort.Ints(steps)
		for _, t := range steps {
			k := 0
			for _, pp := range pr.peers {
				if pp.in.Time == t && pp.mode != c05ModeSilence {
					fp := st.peers[pp.addr]
					k += int(atomic.LoadInt32(&fp.parked))
					close(fp.rel)
				}
			}
			if !c05WaitCount(cur-k, limit) {
				obs.Ret = 3
				obs.Note = fmt.Sprintf("released goroutines did not exit at step %d", t)
				return
			}
			cur -= k
			if parkedNow() == 0 {
				// every worker has been released and has exited: let the closing goroutine finish
				c05WaitCount(base, time.Duration(slow)*500*time.Millisecond)
			}
			drain(t)
		}
		cancel()
	}
	obs.GorBack = c05WaitCount(base, limit)
	d := in.Deadline
	if d < 0 {
		d = 0
	}
	drain(d)
	if !obs.GorBack {
		obs.Ret = 3
		obs.Note = "goroutines left after the deadline"
	}
	return
}

// ---------------------------------------------------------------------------------------------
// class reply-at-deadline
// ---------------------------------------------------------------------------------------------

func c05Spin(d time.Duration) {
	for t0 := time.Now(); time.Since(t0) < d; {
	}
}

func c05RunRace(in c05In, slow int) (obs c05Obs) {
	obs.Closed = -1
	limit := time.Duration(slow) * 5 * time.Second
	pr := c05Prepare(in)
	logger := slog.New(slog.NewTextHandler(io.Discard, nil))
	gaps := []time.Duration{0, time.Microsecond, 5 * time.Microsecond, 20 * time.Microsecond,
		100 * time.Microsecond, 400 * time.Microsecond, time.Millisecond}
	seen := map[string]bool{}
	nprov := 0
	for _, pp := range pr.peers {
		if pp.typ == p2p.PeerTypeProvider {
			nprov++
		}
	}
	for round := 0; round < in.Race.Rounds; round++ {
		obs.Rounds = round + 1
		var ro c05Obs
		ro.Closed = -1
		st := &c05Streamer{peers: map[common.Address]*c05FakePeer{}}
		topo := topology.New(nil, logger)
		for _, pp := range pr.peers {
			st.peers[pp.addr] = &c05FakePeer{prep: pp, rel: make(chan struct{})}
			topo.Connected(p2p.Peer{EthAddress: pp.addr, Type: pp.typ})
		}
		ws := &c05Signer{Signer: pr.bidder}
		svc := preconfirmation.New(topo, st, ws, nil, nil, nil, logger)
		ctx, cancel := context.WithCancel(context.Background())
		base := runtime.NumGoroutine()
		ch, err := svc.SendBid(ctx, in.Tx, in.Amt, in.BN, in.DS, in.DE)
		if err != nil || ch == nil {
			cancel()
			obs.Ret = 1
			obs.Csb = ws.calls
			return obs
		}
		// all workers parked at their gates
		dl := time.Now().Add(time.Duration(slow) * 2 * time.Second)
		for time.Now().Before(dl) {
			n, k := runtime.NumGoroutine(), 0
			for _, fp := range st.peers {
				k += int(atomic.LoadInt32(&fp.parked))
			}
			if n <= base || k >= n-base-1 || int(atomic.LoadInt32(&st.parkedTotal)) >= nprov {
				break
			}
			time.Sleep(20 * time.Microsecond)
		}
		release := func() {
			for _, pp := range pr.peers {
				if pp.mode != c05ModeSilence {
					close(st.peers[pp.addr].rel)
				}
			}
		}
		gap := gaps[(round/3)%len(gaps)]
		switch round % 3 {
		case 0: // the replies become readable, then the deadline fires
			release()
			c05Spin(gap)
			cancel()
		case 1: // the deadline fires, then the replies become readable
			cancel()
			c05Spin(gap)
			release()
		default: // both at once, from two goroutines
			var wg sync.WaitGroup
			start := make(chan struct{})
			wg.Add(2)
			go func() { defer wg.Done(); <-start; release() }()
			go func() { defer wg.Done(); <-start; c05Spin(gap / 4); cancel() }()
			close(start)
			wg.Wait()
		}
		// the result stream has to end
		tm := time.NewTimer(limit)
		open := true
		for open {
			select {
			case c, ok := <-ch:
				if !ok {
					open = false
					break
				}
				ro.Delivered = append(ro.Delivered, c05Deliv{Step: 1, Msg: c05Marshal(c)})
			case <-tm.C:
				obs.Ret = 3
				obs.Note = fmt.Sprintf("round %d: result channel not closed after the deadline", round)
				obs.Csb = ws.calls
				return obs
			}
		}
		tm.Stop()
		if !c05WaitCount(base, limit) {
			obs.Ret = 3
			obs.Note = fmt.Sprintf("round %d: goroutines left after the channel was closed", round)
			obs.Csb = ws.calls
			return obs
		}
		ro.GorBack = true
		ro.Csb = ws.calls
		for _, pp := range pr.peers {
			fp := st.peers[pp.addr]
			for _, s := range fp.contacts {
				ro.Contacted = append(ro.Contacted, c05Contact{Addr: hex.EncodeToString(pp.addr.Bytes()),
					Writes: append([][]byte(nil), s.writes...)})
			}
		}
		for _, a := range st.strangers {
			ro.Contacted = append(ro.Contacted, c05Contact{Addr: hex.EncodeToString(a.Bytes())})
		}
		sort.SliceStable(ro.Contacted, func(i, j int) bool { return ro.Contacted[i].Addr < ro.Contacted[j].Addr })
		sort.SliceStable(ro.Delivered, func(i, j int) bool { return string(ro.Delivered[i].Msg) < string(ro.Delivered[j].Msg) })
		// which providers' replies made it: a delivered value is attributed to the peer whose
		// first frame it is (provider address aside)
		used := make([]bool, len(ro.Delivered))
		allIn := true
		for i, pp := range pr.peers {
			got := false
			if pp.typ == p2p.PeerTypeProvider && pp.mode == c05ModeFrames && len(pp.frames) > 0 {
				want := new(preconfpb.PreConfirmation)
				if proto.Unmarshal(pp.frames[0], want) == nil {
					want.ProviderAddress = nil
					for j, d := range ro.Delivered {
						have := new(preconfpb.PreConfirmation)
						if used[j] || proto.Unmarshal(d.Msg, have) != nil {
							continue
						}
						have.ProviderAddress = nil
						if proto.Equal(want, have) {
							used[j], got = true, true
							break
						}
					}
				}
			}
			if !got {
				ro.Late = append(ro.Late, i)
				if pp.typ == p2p.PeerTypeProvider {
					allIn = false
				}
			}
		}
		ro.Closed = 2
		if allIn {
			ro.Closed = 1
		}
		sig, _ := json.Marshal([]interface{}{ro.Late, ro.Delivered, ro.Contacted})
		if !seen[string(sig)] {
			seen[string(sig)] = true
			obs.Variants = append(obs.Variants, ro)
		}
	}
	obs.Closed, obs.GorBack = 2, true
	return obs
}

// ---------------------------------------------------------------------------------------------
// class real-stream: the same call over real libp2p services
// ---------------------------------------------------------------------------------------------

// kinds that can be scripted through a real provider-side handler
var c05RealKinds = []string{"honest", "honest-spoofprov", "otherbid-fields", "samebid-vrespelled", "samebid-amtrespelled", "foreign-key",
	"tamper", "shortsig", "nilparts", "garbage", "errframe", "silence", "reset", "eof", "twoframes", "newstream-err"}

type c05Registry struct{}

func (c05Registry) CheckProviderRegistered(context.Context, common.Address) bool { return true }

// recording p2p.Streamer around the real service: which peers were dialled, what was written;
// reads go straight to the real stream
type c05RecStream struct {
	p2p.Stream
	addr     common.Address
	mu       sync.Mutex
	writes   [][]byte
	lateOpen bool // NewStream failed with the caller's context already over
}

func (s *c05RecStream) WriteMsg(ctx context.Context, m proto.Message) error {
	b := c05Marshal(m)
	s.mu.Lock()
	s.writes = append(s.writes, b)
	s.mu.Unlock()
	return s.Stream.WriteMsg(ctx, m)
}

type c05RecStreamer struct {
	inner    p2p.Streamer
	mu       sync.Mutex
	contacts []*c05RecStream
}

func (r *c05RecStreamer) NewStream(ctx context.Context, pe p2p.Peer, h p2p.Header, d p2p.StreamDesc) (p2p.Stream, error) {
	rs := &c05RecStream{addr: pe.EthAddress}
	r.mu.Lock()
	r.contacts = append(r.contacts, rs)
	r.mu.Unlock()
	st, err := r.inner.NewStream(ctx, pe, h, d)
	if err != nil {
		if ctx.Err() != nil {
			rs.mu.Lock()
			rs.lateOpen = true
			rs.mu.Unlock()
		}
		return nil, err
	}
	rs.Stream = st
	return rs, nil
}

// a message whose wire form is exactly [raw]
func c05RawMsg(raw []byte) proto.Message {
	m := &preconfpb.PreConfirmation{}
	m.ProtoReflect().SetUnknown(raw)
	return m
}

func c05ServiceInfo(svc *libp2p.Service) ([]byte, error) {
	self := svc.Self()
	id, err := peer.Decode(fmt.Sprint(self["Underlay"]))
	if err != nil {
		return nil, err
	}
	addrs, ok := self["Addresses"].([]ma.Multiaddr)
	if !ok || len(addrs) == 0 {
		return nil, errors.New("service reports no addresses")
	}
	return peer.AddrInfo{ID: id, Addrs: addrs}.MarshalJSON()
}

var errC05Setup = errors.New("c05: environment could not be set up")

// c05RunReal: skip != "" means the environment (services, connections) could not be built; such a
// case says nothing about SendBid and is not emitted.
func c05RunReal(in c05In, slow int) (obs c05Obs, skip string) {
	obs.Closed = -1
	pr := c05Prepare(in)
	logger := slog.New(slog.NewTextHandler(io.Discard, nil))
	deadline := time.Duration(slow) * 1200 * time.Millisecond
	lateAfter := deadline + time.Duration(slow)*400*time.Millisecond
	window := deadline + time.Duration(slow)*6*time.Second

	var closers []io.Closer
	var actMu sync.Mutex
	var acted []time.Time // when the handlers of the in-time providers had the bid and acted
	lateRel, endRel := make(chan struct{}), make(chan struct{})
	defer func() {
		close(endRel)
		done := make(chan struct{})
		go func() {
			for _, c := range closers {
				_ = c.Close()
			}
			close(done)
		}()
		select {
		case <-done:
		case <-time.After(time.Duration(slow) * 5 * time.Second):
		}
	}()

	mk := func(key *ecdsa.PrivateKey, typ p2p.PeerType) (*libp2p.Service, error) {
		var svc *libp2p.Service
		var err error
		for attempt := 0; attempt < 3; attempt++ {
			svc, err = libp2p.New(&libp2p.Options{
				KeySigner:  mockkeysigner.NewMockKeySigner(key, crypto.PubkeyToAddress(key.PublicKey)),
				Secret:     "verif-c05",
				PeerType:   typ,
				Register:   c05Registry{},
				ListenPort: 0,
				ListenAddr: "127.0.0.1",
				Logger:     logger,
			})
			if err == nil {
				closers = append(closers, svc)
				return svc, nil
			}
			time.Sleep(100 * time.Millisecond)
		}
		return nil, err
	}

	bidderSvc, err := mk(c05Key(in.BidderKey), p2p.PeerTypeBidder)
	if err != nil {
		return obs, "bidder service: " + err.Error()
	}
	topo := topology.New(bidderSvc, logger)
	bidderSvc.SetNotifier(topo) // as node.NewNode wires it: inbound peers reach the topology
	info, err := c05ServiceInfo(bidderSvc)
	if err != nil {
		return obs, "bidder address: " + err.Error()
	}

	desc := p2p.StreamDesc{Name: preconfirmation.ProtocolName, Version: preconfirmation.ProtocolVersion}
	for _, pp := range pr.peers {
		pp := pp
		if pp.typ != p2p.PeerTypeProvider {
			return obs, "real-stream cases contain providers only"
		}
		svc, err := mk(c05Key(pp.in.Key), p2p.PeerTypeProvider)
		if err != nil {
			return obs, "provider service: " + err.Error()
		}
		late := pp.in.Time >= in.Deadline
		if pp.mode != c05ModeNewStreamErr {
			d := desc
			d.Handler = func(ctx context.Context, _ p2p.Peer, st p2p.Stream) error {
				bid := new(preconfpb.Bid)
				if err := st.ReadMsg(ctx, bid); err != nil {
					return nil
				}
				if !late {
					actMu.Lock()
					acted = append(acted, time.Now())
					actMu.Unlock()
				}
				if late {
					select {
					case <-lateRel:
					case <-endRel:
						return nil
					}
				}
				switch pp.mode {
				case c05ModeSilence:
					<-endRel
					return nil
				case c05ModeErrFrame:
					return status.Error(codes.Internal, "bid rejected")
				case c05ModeReadErr:
					if pp.in.Kind == "eof" {
						return nil // the stream is closed without an answer
					}
					_ = st.Reset()
					return nil
				case c05ModeFrames:
					for _, fr := range pp.frames {
						if err := st.WriteMsg(ctx, c05RawMsg(fr)); err != nil {
							return nil
						}
					}
					return nil // the service closes the stream, as after a real handleBid
				}
				return nil
			}
			svc.AddStreamHandlers(d)
		}
		var cerr error
		for attempt := 0; attempt < 3; attempt++ {
			cctx, ccancel := context.WithTimeout(context.Background(), time.Duration(slow)*10*time.Second)
			_, cerr = svc.Connect(cctx, info)
			ccancel()
			if cerr == nil {
				break
			}
			time.Sleep(200 * time.Millisecond)
		}
		if cerr != nil {
			return obs, "connect: " + cerr.Error()
		}
	}
	// the bidder's topology has seen every provider (inbound handshakes completed)
	want := len(pr.peers)
	dl := time.Now().Add(time.Duration(slow) * 10 * time.Second)
	for len(topo.GetPeers(topology.Query{Type: p2p.PeerTypeProvider})) < want {
		if time.Now().After(dl) {
			return obs, "providers did not appear in the bidder's topology"
		}
		time.Sleep(5 * time.Millisecond)
	}

	allInTime := true
	for _, pp := range pr.peers {
		if pp.in.Time >= in.Deadline || pp.mode == c05ModeSilence {
			allInTime = false
		}
	}
	rec := &c05RecStreamer{inner: bidderSvc}
	ws := &c05Signer{Signer: pr.bidder}
	svc := preconfirmation.New(topo, rec, ws, nil, nil, nil, logger)
	collect := func() {
		obs.Csb = ws.calls
		rec.mu.Lock()
		for _, c := range rec.contacts {
			c.mu.Lock()
			obs.Contacted = append(obs.Contacted, c05Contact{Addr: hex.EncodeToString(c.addr.Bytes()),
				Writes: append([][]byte(nil), c.writes...)})
			c.mu.Unlock()
		}
		rec.mu.Unlock()
		sort.SliceStable(obs.Contacted, func(i, j int) bool { return obs.Contacted[i].Addr < obs.Contacted[j].Addr })
		sort.SliceStable(obs.Delivered, func(i, j int) bool {
			if obs.Delivered[i].Step != obs.Delivered[j].Step {
				return obs.Delivered[i].Step < obs.Delivered[j].Step
			}
			return string(obs.Delivered[i].Msg) < string(obs.Delivered[j].Msg)
		})
	}
	defer collect()

	ctx, cancel := context.WithTimeout(context.Background(), deadline)
	defer cancel()
	t0 := time.Now()
	var ch chan *preconfpb.PreConfirmation
	panicked := false
	func() {
		defer func() {
			if r := recover(); r != nil {
				panicked = true
				obs.Note = fmt.Sprint(r)
			}
		}()
		ch, err = svc.SendBid(ctx, in.Tx, in.Amt, in.BN, in.DS, in.DE)
	}()
	if panicked {
		obs.Ret = 2
		return obs, ""
	}
	if err != nil || ch == nil {
		obs.Ret = 1
		return obs, ""
	}
	lateOpen := func() bool {
		rec.mu.Lock()
		defer rec.mu.Unlock()
		for _, c := range rec.contacts {
			c.mu.Lock()
			l := c.lateOpen
			c.mu.Unlock()
			if l {
				return true
			}
		}
		return false
	}
	lateT := time.NewTimer(lateAfter)
	defer lateT.Stop()
	limit := time.NewTimer(window)
	defer limit.Stop()
	lateC := lateT.C
	for {
		select {
		case c, ok := <-ch:
			expired := ctx.Err() != nil
			if !ok {
				obs.GorBack = true
				if lateOpen() {
					// the class assumes streams are opened long before the deadline; a run in which
					// the deadline overtook NewStream maps to no abstract schedule
					return obs, "the deadline passed before a stream was open"
				}
				actMu.Lock()
				for _, at := range acted {
					if at.Sub(t0) > deadline/4 {
						actMu.Unlock()
						return obs, "a provider that answers in time had the bid only late: slow machine"
					}
				}
				actMu.Unlock()
				switch {
				case !expired:
					obs.Closed = 1 // closed while the context was alive: when the last answer came
				case allInTime:
					// every provider answers in time, yet the close was seen only after the deadline:
					// in-time close noticed late, or answers that lost against the deadline on a slow
					// machine -- no abstract schedule can be read off
					return obs, "close of an all-in-time case seen only after the deadline: slow machine"
				default:
					obs.Closed = in.Deadline
				}
				return obs, ""
			}
			if expired {
				return obs, "a delivery was received after the deadline had passed (final select or slow machine)"
			}
			obs.Delivered = append(obs.Delivered, c05Deliv{Step: 1, Msg: c05Marshal(c)})
		case <-lateC:
			close(lateRel)
			lateC = nil
		case <-limit.C:
			obs.Ret = 3
			obs.Note = fmt.Sprintf("result channel still open %v after the call, deadline %v", window, deadline)
			return obs, ""
		}
	}
}

// ---------------------------------------------------------------------------------------------
// child process protocol
// ---------------------------------------------------------------------------------------------

type c05ChildLine struct {
	I     int     `json:"i"`
	Start bool    `json:"start,omitempty"`
	Obs   *c05Obs `json:"obs,omitempty"`
	Skip  string  `json:"skip,omitempty"`
}

func c05Child(t *testing.T) {
	data, err := os.ReadFile(os.Getenv("VERIF_C05_CHILD_IN"))
	if err != nil {
		t.Fatalf("c05 child: %v", err)
	}
	from, _ := strconv.Atoi(os.Getenv("VERIF_C05_CHILD_FROM"))
	slow, _ := strconv.Atoi(os.Getenv("VERIF_SLOW"))
	if slow < 1 {
		slow = 1
	}
	f, err := os.OpenFile(os.Getenv("VERIF_C05_CHILD_RES"), os.O_APPEND|os.O_CREATE|os.O_WRONLY, 0o644)
	if err != nil {
		t.Fatalf("c05 child: %v", err)
	}
	defer f.Close()
	put := func(l c05ChildLine) {
		b, _ := json.Marshal(l)
		f.Write(append(b, '\n'))
	}
	lines := strings.Split(strings.TrimSpace(string(data)), "\n")
	if os.Getenv("VERIF_C05_CHILD_MODE") == "real" {
		// all cases at once, each on its own services; "only" restricts to one case
		only := -1
		if v := os.Getenv("VERIF_C05_CHILD_ONLY"); v != "" {
			only, _ = strconv.Atoi(v)
		}
		var mu sync.Mutex
		var wg sync.WaitGroup
		for i := range lines {
			if only >= 0 && i != only {
				continue
			}
			var in c05In
			if err := json.Unmarshal([]byte(lines[i]), &in); err != nil {
				t.Fatalf("c05 child: bad input %d: %v", i, err)
			}
			wg.Add(1)
			go func(i int, in c05In) {
				defer wg.Done()
				obs, skip := c05RunReal(in, slow)
				mu.Lock()
				defer mu.Unlock()
				if skip != "" {
					put(c05ChildLine{I: i, Skip: skip})
				} else {
					put(c05ChildLine{I: i, Obs: &obs})
				}
			}(i, in)
		}
		wg.Wait()
		return
	}
	for i := from; i < len(lines); i++ {
		var in c05In
		if err := json.Unmarshal([]byte(lines[i]), &in); err != nil {
			t.Fatalf("c05 child: bad input %d: %v", i, err)
		}
		put(c05ChildLine{I: i, Start: true})
		obs := c05RunCase(in, slow)
		put(c05ChildLine{I: i, Obs: &obs})
		if obs.Ret == 3 {
			return // stray goroutines: the parent restarts a clean process
		}
	}
}

// c05RunAll runs the inputs in child processes and returns one observation per input.
func c05RunAll(t *testing.T, dir string, ins []c05In, slow int) []c05Obs {
	out := make([]c05Obs, len(ins))
	if len(ins) == 0 {
		return out
	}
	inPath := filepath.Join(dir, fmt.Sprintf("c05_child_%d.in.jsonl", os.Getpid()))
	resPath := filepath.Join(dir, fmt.Sprintf("c05_child_%d.res.jsonl", os.Getpid()))
	defer os.Remove(inPath)
	defer os.Remove(resPath)
	var sb strings.Builder
	for _, in := range ins {
		b, _ := json.Marshal(in)
		sb.Write(b)
		sb.WriteByte('\n')
	}
	if err := os.WriteFile(inPath, []byte(sb.String()), 0o644); err != nil {
		t.Fatalf("c05: %v", err)
	}
	from := 0
	for from < len(ins) {
		os.Remove(resPath)
		ctx, cancel := context.WithTimeout(context.Background(), time.Duration(slow)*4*time.Minute)
		cmd := exec.CommandContext(ctx, os.Args[0], "-test.run", "^TestVerifC05$", "-test.count=1", "-test.timeout=0")
		cmd.Env = append(os.Environ(), "VERIF_C05_CHILD_IN="+inPath, "VERIF_C05_CHILD_RES="+resPath,
			"VERIF_C05_CHILD_FROM="+strconv.Itoa(from), "VERIF_SLOW="+strconv.Itoa(slow))
		outb, runErr := cmd.CombinedOutput()
		timedOut := ctx.Err() != nil
		cancel()
		started, done := -1, from-1
		if f, err := os.Open(resPath); err == nil {
			sc := bufio.NewScanner(f)
			sc.Buffer(make([]byte, 1<<20), 1<<26)
			for sc.Scan() {
				var l c05ChildLine
				if json.Unmarshal(sc.Bytes(), &l) != nil {
					continue
				}
				if l.Start {
					started = l.I
				} else if l.Obs != nil && l.I >= 0 && l.I < len(ins) {
					out[l.I] = *l.Obs
					done = l.I
				}
			}
			f.Close()
		}
		if started > done {
			// the child died (or was killed) inside case [started]
			note := string(outb)
			if i := strings.Index(note, "panic:"); i >= 0 {
				note = note[i:]
			}
			if len(note) > 300 {
				note = note[:300]
			}
			if strings.Contains(string(outb), "panic:") {
				out[started] = c05Obs{Ret: 2, Closed: -1, Note: note}
			} else {
				// killed, timed out as a whole (every wait inside a case has its own limit and
				// reports Ret 3 itself) or died without a Go panic: the environment, not SendBid
				out[started] = c05Obs{Closed: -1, Note: note,
					Inconclusive: fmt.Sprintf("child process ended without a result (timed out: %v)", timedOut)}
			}
			done = started
		} else if done < from {
			t.Fatalf("c05: child made no progress from case %d: %v\n%s", from, runErr, outb)
		}
		from = done + 1
	}
	return out
}

// c05RunAllReal runs the real-stream inputs concurrently in one child process (a second attempt
// runs whatever is left one case per process). ok[i] = false: the environment could not be built
// for that case (not emitted). A case in which the process died is observed as Ret 2, one that the
// wall-clock limit had to end as Ret 3.
func c05RunAllReal(t *testing.T, dir string, ins []c05In, slow int) ([]c05Obs, []bool) {
	out := make([]c05Obs, len(ins))
	ok := make([]bool, len(ins))
	have := make([]bool, len(ins))
	skipped := make([]string, len(ins))
	if len(ins) == 0 {
		return out, ok
	}
	inPath := filepath.Join(dir, fmt.Sprintf("c05_real_%d.in.jsonl", os.Getpid()))
	resPath := filepath.Join(dir, fmt.Sprintf("c05_real_%d.res.jsonl", os.Getpid()))
	defer os.Remove(inPath)
	defer os.Remove(resPath)
	var sb strings.Builder
	for _, in := range ins {
		b, _ := json.Marshal(in)
		sb.Write(b)
		sb.WriteByte('\n')
	}
	if err := os.WriteFile(inPath, []byte(sb.String()), 0o644); err != nil {
		t.Fatalf("c05: %v", err)
	}
	run := func(only int) (timedOut bool, output string) {
		os.Remove(resPath)
		ctx, cancel := context.WithTimeout(context.Background(), time.Duration(slow)*90*time.Second)
		defer cancel()
		cmd := exec.CommandContext(ctx, os.Args[0], "-test.run", "^TestVerifC05$", "-test.count=1", "-test.timeout=0")
		cmd.Env = append(os.Environ(), "VERIF_C05_CHILD_IN="+inPath, "VERIF_C05_CHILD_RES="+resPath,
			"VERIF_C05_CHILD_MODE=real", "VERIF_SLOW="+strconv.Itoa(slow))
		if only >= 0 {
			cmd.Env = append(cmd.Env, "VERIF_C05_CHILD_ONLY="+strconv.Itoa(only))
		}
		outb, _ := cmd.CombinedOutput()
		timedOut = ctx.Err() != nil
		if f, err := os.Open(resPath); err == nil {
			sc := bufio.NewScanner(f)
			sc.Buffer(make([]byte, 1<<20), 1<<26)
			for sc.Scan() {
				var l c05ChildLine
				if json.Unmarshal(sc.Bytes(), &l) != nil || l.I < 0 || l.I >= len(ins) || have[l.I] {
					continue
				}
				if l.Obs != nil {
					out[l.I], have[l.I] = *l.Obs, true
				} else if l.Skip != "" {
					skipped[l.I] = l.Skip
				}
			}
			f.Close()
		}
		return timedOut, string(outb)
	}
	// all cases side by side; whatever is inconclusive or missing after that is run once more on its
	// own (one case per process: less contention)
	run(-1)
	for i := range ins {
		ok[i] = true
		if have[i] {
			continue
		}
		skipped[i] = ""
		timedOut, output := run(i)
		if have[i] {
			continue
		}
		note := output
		if j := strings.Index(note, "panic:"); j >= 0 {
			note = note[j:]
		}
		if len(note) > 300 {
			note = note[:300]
		}
		switch {
		case skipped[i] != "":
			out[i] = c05Obs{Closed: -1, Inconclusive: skipped[i]}
		case strings.Contains(output, "panic:"):
			out[i] = c05Obs{Ret: 2, Closed: -1, Note: note} // the process died in a Go panic: the code under test
		default:
			// every wait inside a case has its own limit (and then reports Ret 3 itself): a process
			// that was killed or ended without a result is the environment
			out[i] = c05Obs{Closed: -1, Note: note,
				Inconclusive: fmt.Sprintf("child process ended without a result (timed out: %v)", timedOut)}
		}
		have[i] = true
	}
	return out, ok
}

// ---------------------------------------------------------------------------------------------
// Coq terms
// ---------------------------------------------------------------------------------------------

func c05CoqBid(b *preconfpb.Bid) string {
	return coqApp("mkBid", coqStr(b.TxHash), coqStr(b.BidAmount), coqZ(b.BlockNumber), coqZ(b.DecayStartTimestamp),
		coqZ(b.DecayEndTimestamp), coqBytes(b.Digest), coqBytes(b.Signature), coqBytes(b.ProtoReflect().GetUnknown()))
}

func c05CoqCommitment(c *preconfpb.PreConfirmation) string {
	bid := "None"
	if c.Bid != nil {
		bid = "(Some " + c05CoqBid(c.Bid) + ")"
	}
	return coqApp("mkCommitment", bid, coqBytes(c.Digest), coqBytes(c.Signature), coqBytes(c.ProviderAddress),
		coqBytes(c.ProtoReflect().GetUnknown()))
}

func c05CoqBidBytes(raw []byte) string {
	b := new(preconfpb.Bid)
	if err := proto.Unmarshal(raw, b); err != nil {
		return coqApp("mkBid", coqBytes(nil), coqBytes(nil), coqZ(0), coqZ(0), coqZ(0), coqBytes(nil), coqBytes(nil), coqBytes(raw))
	}
	return c05CoqBid(b)
}

// the real signer's answer on a decoded commitment, as a Coq [outcome bytes]
func c05CoqVerify(s signer.Signer, c *preconfpb.PreConfirmation) (term string) {
	defer func() {
		if r := recover(); r != nil {
			term = "Panic"
		}
	}()
	a, err := s.VerifyPreConfirmation(proto.Clone(c).(*preconfpb.PreConfirmation))
	if err != nil || a == nil {
		return "(Err 1%N)"
	}
	return "(Ok " + coqBytes(a.Bytes()) + ")"
}

var c05HexLit = regexp.MustCompile(`\(x "([0-9a-f]{24,})"\)`)

// c05Share let-binds byte strings that occur more than once in a case term.
func c05Share(term string) string {
	count := map[string]int{}
	var order []string
	for _, m := range c05HexLit.FindAllStringSubmatch(term, -1) {
		if count[m[1]] == 0 {
			order = append(order, m[1])
		}
		count[m[1]]++
	}
	var sb strings.Builder
	n := 0
	for _, h := range order {
		if count[h] < 2 {
			continue
		}
		name := "h" + strconv.Itoa(n)
		n++
		term = strings.ReplaceAll(term, `(x "`+h+`")`, name)
		fmt.Fprintf(&sb, `let %s := x "%s" in `, name, h)
	}
	if n == 0 {
		return term
	}
	return "(" + sb.String() + term + ")"
}

func c05CoqCase(id int, in c05In, obs c05Obs) string {
	pr := c05Prepare(in)
	verifier := c05SignerOf(c05Key(in.BidderKey))
	args := coqApp("mkArgs", coqStr(in.Tx), coqStr(in.Amt), coqZ(in.BN), coqZ(in.DS), coqZ(in.DE))
	// ConstructSignedBid as recorded inside SendBid; when the process died before it could be
	// reported, the real signer is asked here (it is deterministic)
	calls := obs.Csb
	if obs.Ret >= 2 && len(calls) == 0 {
		w := &c05Signer{Signer: pr.bidder}
		func() {
			defer func() { _ = recover() }()
			_, _ = w.ConstructSignedBid(in.Tx, in.Amt, in.BN, in.DS, in.DE)
		}()
		calls = w.calls
	}
	var csb []string
	for _, c := range calls {
		ans := "Panic"
		switch c.Out {
		case 0:
			ans = "(Ok " + c05CoqBidBytes(c.Bid) + ")"
		case 1:
			ans = "(Err 1%N)"
		}
		csb = append(csb, coqPair(coqApp("mkArgs", coqStr(c.Tx), coqStr(c.Amt), coqZ(c.BN), coqZ(c.DS), coqZ(c.DE)), ans))
	}
	var vtbl, view []string
	seen := map[string]bool{}
	addV := func(c *preconfpb.PreConfirmation) {
		k := string(c05Marshal(c))
		if !seen[k] {
			seen[k] = true
			vtbl = append(vtbl, coqPair(c05CoqCommitment(c), c05CoqVerify(verifier, c)))
		}
	}
	for _, pp := range pr.peers {
		reply := ""
		switch pp.mode {
		case c05ModeNewStreamErr:
			reply = "RNewStreamErr"
		case c05ModeWriteErr:
			reply = "RWriteErr"
		case c05ModeReadErr:
			reply = "RReadErr"
		case c05ModeErrFrame:
			reply = "RErrFrame"
		case c05ModeSilence:
			reply = "RSilence"
		default:
			// decoding oracle: the protobuf library decides whether a frame is a PreConfirmation
			var dec []*preconfpb.PreConfirmation
			for i, fr := range pp.frames {
				c := new(preconfpb.PreConfirmation)
				if err := proto.Unmarshal(fr, c); err != nil {
					if i == 0 {
						break
					}
					continue
				}
				dec = append(dec, c)
			}
			if len(dec) == 0 {
				reply = "RReadErr"
			} else {
				addV(dec[0])
				var rest []string
				for _, c := range dec[1:] {
					rest = append(rest, c05CoqCommitment(c))
				}
				reply = coqApp("RFrames", c05CoqCommitment(dec[0]), coqList(rest))
			}
		}
		ty := "TBootnode"
		switch pp.typ {
		case p2p.PeerTypeProvider:
			ty = "TProvider"
		case p2p.PeerTypeBidder:
			ty = "TBidder"
		}
		tm := pp.in.Time
		if tm < 0 {
			tm = 0
		}
		view = append(view, coqApp("mkPeer", coqBytes(pp.addr.Bytes()), ty, reply, coqN(uint64(tm))))
	}
	var contacted, delivered []string
	for _, ct := range obs.Contacted {
		a, _ := hex.DecodeString(ct.Addr)
		var ws []string
		for _, w := range ct.Writes {
			ws = append(ws, c05CoqBidBytes(w))
		}
		contacted = append(contacted, coqPair(coqBytes(a), coqList(ws)))
	}
	for _, d := range obs.Delivered {
		c := new(preconfpb.PreConfirmation)
		if err := proto.Unmarshal(d.Msg, c); err != nil {
			c = &preconfpb.PreConfirmation{}
			c.ProtoReflect().SetUnknown(d.Msg)
		}
		addV(c)
		delivered = append(delivered, coqPair(coqN(uint64(d.Step)), c05CoqCommitment(c)))
	}
	dl := in.Deadline
	if dl < 0 {
		dl = 0
	}
	term := coqRecord("id", coqN(uint64(id)), "args", args, "csb", coqList(csb), "vtbl", coqList(vtbl),
		"view", coqList(view), "deadline", coqN(uint64(dl)), "on_real", coqBool(in.Real),
		"inconclusive", coqBool(obs.Inconclusive != ""), "o_ret", coqN(uint64(obs.Ret)),
		"o_contacted", coqList(contacted), "o_delivered", coqList(delivered),
		"o_closed", coqOpt(obs.Closed >= 0, coqN(uint64(max(obs.Closed, 0)))))
	return c05Share(term)
}

// ---------------------------------------------------------------------------------------------
// generators
// ---------------------------------------------------------------------------------------------

func c05RandKey(r *rand.Rand) string {
	for {
		b := make([]byte, 32)
		r.Read(b)
		if _, err := crypto.ToECDSA(b); err == nil {
			return hex.EncodeToString(b)
		}
	}
}

type c05Gen struct {
	r    *rand.Rand
	keys []string // a pool of peer keys (distinct)
}

func (g *c05Gen) base() c05In {
	txs := []string{"0x3a7d9c1fe02b54a8d6c0f1b2e3a4958677665544332211000a0b0c0d0e0f1011", "aa,bb", "t", "0xdeadbeef,0xfeedface,0x01"}
	amts := []string{"1", "1000000000000000000", "007", "+5", "115792089237316195423570985008687907853269984665640564039457584007913129639935", "42"}
	in := c05In{BidderKey: g.keys[0], OtherKey: g.keys[1], ForeignKey: g.keys[2],
		Tx: txs[g.r.Intn(len(txs))], Amt: amts[g.r.Intn(len(amts))]}
	switch g.r.Intn(4) {
	case 0:
		in.BN, in.DS, in.DE = 1, 0, 0
	case 1:
		in.BN, in.DS, in.DE = 9223372036854775807, -5, 9223372036854775807
	default:
		in.BN, in.DS, in.DE = 1+g.r.Int63n(20000000), g.r.Int63n(1<<41), g.r.Int63n(1<<41)
	}
	return in
}

func (g *c05Gen) peer(i int, typ, kind string, v, t int) c05PeerIn {
	return c05PeerIn{Key: g.keys[3+i], Type: typ, Kind: kind, Var: v, Time: t}
}

func (g *c05Gen) randKind() (string, int) {
	// weighted towards the classes that reach the comparison of the embedded bid
	w := g.r.Intn(100)
	switch {
	case w < 22:
		return "honest", 0
	case w < 34:
		k := []string{"otherbid-fields", "otherbid-otherkey", "samefields-resigned", "samebid-vrespelled", "samebid-unknown",
			"samebid-amtrespelled", "replay-sig"}[g.r.Intn(7)]
		return k, g.r.Intn(8)
	default:
		k := c05Kinds[g.r.Intn(len(c05Kinds))]
		return k.kind, g.r.Intn(k.vars)
	}
}

func TestVerifC05(t *testing.T) {
	if os.Getenv("VERIF_C05_CHILD_IN") != "" {
		c05Child(t)
		return
	}
	e := vfOpen(t, 300)
	defer e.Close()
	dir := filepath.Dir(os.Getenv("VERIF_OUT"))

	type item struct {
		class string
		in    c05In
	}
	var items []item
	add := func(class string, in c05In) { items = append(items, item{class, in}) }

	for _, raw := range e.Replay {
		var in c05In
		if err := json.Unmarshal(raw, &in); err != nil {
			t.Fatalf("bad replay input: %v", err)
		}
		add("replay", in)
	}
	if !e.OnlyReplay() {
		g := &c05Gen{r: e.rng}
		seen := map[string]bool{}
		for len(g.keys) < 3+12 {
			k := c05RandKey(e.rng)
			if !seen[k] {
				seen[k] = true
				g.keys = append(g.keys, k)
			}
		}
		// sessions: several calls on one node; a provider replays its first signature on later,
		// self-consistent commitments.  Emitted first (see the emission of sessions below).
		for k, ks := range [][]string{{"replay-sig"}, {"honest", "replay-sig", "samebid-amtrespelled"}} {
			in := g.base()
			in.Tx = fmt.Sprintf("session-%d-%d", e.Seed, k)
			for j, kind := range ks {
				in.Peers = append(in.Peers, g.peer(j, "provider", kind, 0, 1))
			}
			in.Deadline, in.Session = 2, 3
			add("session", in)
		}
		// every reply class alone: answer before the deadline, at the deadline, expired context
		for _, k := range c05Kinds {
			for v := 0; v < k.vars; v++ {
				for _, dl := range []int{3, 1, 0} {
					if dl != 3 && v > 0 {
						continue
					}
					in := g.base()
					in.Peers = []c05PeerIn{g.peer(0, "provider", k.kind, v, 1), g.peer(1, "bidder", "honest", 0, 1)}
					in.Deadline = dl
					add("single:"+k.kind, in)
				}
			}
		}
		// an honest provider next to every class, in both arrival orders and simultaneously
		for _, k := range c05Kinds {
			for _, tt := range [][2]int{{1, 2}, {2, 1}, {1, 1}} {
				in := g.base()
				in.Peers = []c05PeerIn{g.peer(0, "provider", "honest", 0, tt[0]), g.peer(1, "provider", k.kind, g.r.Intn(k.vars), tt[1])}
				in.Deadline = 2 + g.r.Intn(2)
				add("pair:"+k.kind, in)
			}
		}
		// calls that must be refused: arguments the signer rejects, nobody to offer the bid to
		for i, bad := range []func(*c05In){
			func(in *c05In) { in.Tx = "" }, func(in *c05In) { in.Amt = "" }, func(in *c05In) { in.BN = 0 },
			func(in *c05In) { in.Amt = "abc" }, func(in *c05In) { in.Amt = "-1" },
			func(in *c05In) {
				in.Amt = "115792089237316195423570985008687907853269984665640564039457584007913129639936"
			},
			func(in *c05In) { in.Peers = nil },
			func(in *c05In) { in.Peers = []c05PeerIn{in.Peers[1]}; in.Peers[0].Type = "bidder" },
			func(in *c05In) { in.Peers = []c05PeerIn{in.Peers[0]}; in.Peers[0].Type = "bootnode" },
		} {
			in := g.base()
			in.Peers = []c05PeerIn{g.peer(0, "provider", "honest", 0, 1), g.peer(1, "provider", "silence", 0, 1)}
			in.Deadline = 2
			bad(&in)
			add("refused:"+strconv.Itoa(i), in)
		}
		// reply-at-deadline: valid replies released in the same instant as the deadline fires
		rounds := 60
		if e.Tier != "quick" {
			rounds = 210
		}
		for _, ks := range [][]string{{"honest"}, {"honest", "honest", "honest"},
			{"honest", "honest", "otherbid-fields", "silence"}, {"honest", "foreign-key", "twoframes", "errframe", "honest"}} {
			in := g.base()
			for j, k := range ks {
				in.Peers = append(in.Peers, g.peer(j, "provider", k, 0, 1))
			}
			in.Deadline, in.Race = 2, &c05Race{Rounds: rounds}
			add("reply-at-deadline", in)
		}
		// real-stream: real libp2p services on loopback, scripted provider handlers, a real deadline
		realCase := func(ps ...c05PeerIn) {
			in := g.base()
			in.Real, in.Deadline, in.Peers = true, 2, ps
			add("real-stream", in)
		}
		realCase(g.peer(0, "provider", "honest", 0, 1))
		realCase(g.peer(0, "provider", "silence", 0, 1))
		realCase(g.peer(0, "provider", "reset", 0, 1))
		realCase(g.peer(0, "provider", "garbage", 1, 1))
		realCase(g.peer(0, "provider", "honest", 0, 3)) // the answer comes after the deadline
		realCase(g.peer(0, "provider", "honest", 0, 1), g.peer(1, "provider", "silence", 0, 1))
		realCase(g.peer(0, "provider", "otherbid-fields", 0, 1), g.peer(1, "provider", "honest", 0, 3),
			g.peer(2, "provider", "errframe", 0, 1))
		realCase(g.peer(0, "provider", "newstream-err", 0, 1), g.peer(1, "provider", "honest", 0, 1))
		nreal := 0
		if e.Tier != "quick" {
			nreal = 4 + e.N/600
		}
		for i := 0; i < nreal; i++ {
			var ps []c05PeerIn
			for j := 0; j < 1+g.r.Intn(3); j++ {
				k := c05RealKinds[g.r.Intn(len(c05RealKinds))]
				tm := 1
				if k != "newstream-err" && g.r.Intn(3) == 0 {
					tm = 3
				}
				ps = append(ps, g.peer(j, "provider", k, g.r.Intn(8), tm))
			}
			realCase(ps...)
		}
		// random provider sets, scripts, arrival orders and deadlines
		for i := 0; i < e.N; i++ {
			in := g.base()
			np := g.r.Intn(9)
			if g.r.Intn(10) == 0 {
				np = 8
			}
			horizon := 1 + g.r.Intn(5)
			for j := 0; j < np; j++ {
				k, v := g.randKind()
				in.Peers = append(in.Peers, g.peer(j, "provider", k, v, g.r.Intn(horizon+1)))
			}
			for j := 0; j < g.r.Intn(3); j++ {
				typ := "bidder"
				if g.r.Intn(4) == 0 {
					typ = "bootnode"
				}
				k, v := g.randKind()
				in.Peers = append(in.Peers, g.peer(np+j, typ, k, v, g.r.Intn(horizon+1)))
			}
			g.r.Shuffle(len(in.Peers), func(a, b int) { in.Peers[a], in.Peers[b] = in.Peers[b], in.Peers[a] })
			in.Deadline = g.r.Intn(horizon + 3)
			add("random", in)
		}
	}

	// scripted-stream cases and real-stream cases run side by side, in separate processes
	var fake, real []c05In
	var fakeIdx, realIdx []int
	for i := range items {
		if items[i].in.Real {
			real, realIdx = append(real, items[i].in), append(realIdx, i)
		} else {
			fake, fakeIdx = append(fake, items[i].in), append(fakeIdx, i)
		}
	}
	obs := make([]c05Obs, len(items))
	emit := make([]bool, len(items))
	var wg sync.WaitGroup
	wg.Add(1)
	go func() {
		defer wg.Done()
		ro, rok := c05RunAllReal(t, dir, real, e.Slow)
		for k, i := range realIdx {
			obs[i], emit[i] = ro[k], rok[k]
		}
	}()
	fo := c05RunAll(t, dir, fake, e.Slow)
	for k, i := range fakeIdx {
		obs[i], emit[i] = fo[k], true
	}
	wg.Wait()
	for i := range items {
		if !emit[i] {
			continue
		}
		in, o := items[i].in, obs[i]
		if o.Inconclusive != "" {
			t.Logf("c05: %s case inconclusive: %s", items[i].class, o.Inconclusive)
			e.Emit("inconclusive:"+strings.SplitN(items[i].class, ":", 2)[0], in, o, func(id int) string { return c05CoqCase(id, in, o) })
			continue
		}
		if in.Session > 0 && o.Ret == 0 {
			// one case per call, the LAST call first: the parent asks the real signer about the
			// replayed signature before it has ever verified the commitment it was taken from
			for r := len(o.Variants); r >= 1; r-- {
				v, inR := o.Variants[r-1], c05SessionRound(in, r)
				v.Rounds = r
				e.Emit(items[i].class, in, v, func(id int) string { return c05CoqCase(id, inR, v) })
			}
			continue
		}
		if in.Race != nil && o.Ret == 0 {
			// one case per distinct outcome of the rounds; the recorded choice of the scheduler
			// (which replies were still delivered) fixes the abstract times
			for _, v := range o.Variants {
				v := v
				inV := in
				inV.Race, inV.Deadline = nil, 2
				inV.Peers = append([]c05PeerIn(nil), in.Peers...)
				for k := range inV.Peers {
					inV.Peers[k].Time = 1
				}
				for _, k := range v.Late {
					if k >= 0 && k < len(inV.Peers) {
						inV.Peers[k].Time = 2
					}
				}
				v.Rounds = o.Rounds
				e.Emit(items[i].class, in, v, func(id int) string { return c05CoqCase(id, inV, v) })
			}
			continue
		}
		e.Emit(items[i].class, in, o, func(id int) string { return c05CoqCase(id, in, o) })
	}
}
