package preconfirmation_test

// End-to-end harness of properties C01/C07 (DESIGN.md §3.3, "end-to-end drivers"): a REAL provider
// node assembled by node.NewNode, whose settlement chain and registries are one in-process JSON-RPC
// endpoint (httptest), whose engine is this harness talking to the node's own gRPC provider API, and
// whose bidder is a second real libp2p.Service on loopback that runs the real
// preconfirmation.SendBid over a recording p2p.Streamer (so the frames that crossed the wire are
// observed exactly). The sender's role is scriptable ("bidder" | "provider").
//
// Shares with zz_verif_c01_test.go: c01Bid, c01Send, c01Setup and the fixed keys.

import (
	"bytes"
	"context"
	"crypto/ecdsa"
	"crypto/elliptic"
	crand "crypto/rand"
	"crypto/x509"
	"crypto/x509/pkix"
	"encoding/json"
	"encoding/pem"
	"fmt"
	"io"
	"log/slog"
	"math/big"
	"net"
	"net/http"
	"net/http/httptest"
	"os"
	"path/filepath"
	"runtime"
	"runtime/pprof"
	"sort"
	"strconv"
	"strings"
	"sync"
	"testing"
	"time"

	"github.com/ethereum/go-ethereum/accounts/abi"
	"github.com/ethereum/go-ethereum/common"
	"github.com/ethereum/go-ethereum/common/hexutil"
	"github.com/ethereum/go-ethereum/core/types"
	"github.com/ethereum/go-ethereum/crypto"
	libp2pcrypto "github.com/libp2p/go-libp2p/core/crypto"
	"github.com/libp2p/go-libp2p/core/peer"
	ma "github.com/multiformats/go-multiaddr"
	bidderregistry "github.com/primevprotocol/contracts-abi/clients/BidderRegistry"
	providerregistry "github.com/primevprotocol/contracts-abi/clients/ProviderRegistry"
	preconfpb "github.com/primevprotocol/mev-commit/gen/go/preconfirmation/v1"
	providerapiv1 "github.com/primevprotocol/mev-commit/gen/go/providerapi/v1"
	"github.com/primevprotocol/mev-commit/pkg/node"
	"github.com/primevprotocol/mev-commit/pkg/p2p"
	"github.com/primevprotocol/mev-commit/pkg/p2p/libp2p"
	"github.com/primevprotocol/mev-commit/pkg/preconfirmation"
	"github.com/primevprotocol/mev-commit/pkg/signer/preconfsigner"
	"github.com/primevprotocol/mev-commit/pkg/topology"
	"google.golang.org/grpc"
	"google.golang.org/grpc/credentials"
	"google.golang.org/grpc/credentials/insecure"
	"google.golang.org/grpc/status"
	"google.golang.org/protobuf/proto"
)

// ---- API -----------------------------------------------------------------------------------------

type c01E2EIn struct {
	Role    string // "bidder" | "provider": the role the sending peer registers with
	Allow   bool   // bidder registry: allowance >= min allowance
	Engine  string // accept | reject | silent
	StoreOK bool   // eth_sendRawTransaction answers with the hash (true) or a JSON-RPC error (false)
	// transport-level failure of eth_sendRawTransaction (overrides StoreOK, no transaction is accepted):
	// "http503": every attempt is answered with HTTP 503; "close": the connection is closed without an answer
	StoreMode string `json:",omitempty"`
	Bid       c01Bid
}

type c01E2EObs struct {
	SentBid           *preconfpb.Bid             // the signed bid exactly as written to the stream
	BidderAddr        []byte                     // eth address of the sending peer
	EngineGot         []*providerapiv1.Bid       // bids the engine stream received
	RawTxs            []c01Send                  // every eth_sendRawTransaction seen by the chain endpoint
	Reply             *preconfpb.PreConfirmation // commitment frame read by the sender, nil if none
	RawTxsBeforeReply int                        // OK raw txs seen when the reply arrived
	PreconfContract   []byte                     // configured commitment-store address
	Err               string                     // harness problem (empty when the run itself worked)

	// informational only (never compare): how the sender's read ended when there was no reply
	ReplyErr  string
	ReplyCode int // grpc status code of ReplyErr (2 = Unknown for plain errors), -1 if no error
	ElapsedMs int64
	StartMs   int64    // time spent in node.NewNode
	TLS       bool     // the node ran with the fast-start certificate (see c01E2ETLS)
	Unserved  []string // JSON-RPC methods the node asked for that the endpoint does not serve
	Served    []string // JSON-RPC methods the node used, "method*count"
}

const (
	c01e2ePreconfAddr     = "0xC01E2E00000000000000000000000000000000A1"
	c01e2eProviderRegAddr = "0xC01E2E00000000000000000000000000000000B2"
	c01e2eBidderRegAddr   = "0xC01E2E00000000000000000000000000000000C3"
	c01e2eSecret          = "verif-e2e-secret"
	c01e2eChainID         = 31337
)

// ---- key signer (signs transactions for real, unlike c01Key) -------------------------------------------

type c01e2eKey struct{ key *ecdsa.PrivateKey }

func (k *c01e2eKey) SignHash(h []byte) ([]byte, error) { return crypto.Sign(h, k.key) }
func (k *c01e2eKey) SignTx(tx *types.Transaction, chainID *big.Int) (*types.Transaction, error) {
	return types.SignTx(tx, types.NewLondonSigner(chainID), k.key)
}
func (k *c01e2eKey) GetAddress() common.Address                { return crypto.PubkeyToAddress(k.key.PublicKey) }
func (k *c01e2eKey) GetPrivateKey() (*ecdsa.PrivateKey, error) { return k.key, nil }
func (k *c01e2eKey) ZeroPrivateKey(*ecdsa.PrivateKey)          {}
func (k *c01e2eKey) String() string                            { return "verif-e2e-key" }

// ---- the settlement chain + registries: one JSON-RPC endpoint ----------------------------------------

type c01e2eChain struct {
	mu        sync.Mutex
	allow     bool
	storeOK   bool
	storeMode string
	preconf   common.Address
	provReg   common.Address
	bidderReg common.Address
	selMinAllowance, selGetAllowance,
	selMinStake, selCheckStake []byte
	raw      []c01Send
	accepted uint64
	methods  map[string]int
	unserved map[string]int
	problems []string
	srv      *httptest.Server
}

type c01e2eReq struct {
	ID     json.RawMessage   `json:"id"`
	Method string            `json:"method"`
	Params []json.RawMessage `json:"params"`
}
type c01e2eRPCErr struct {
	Code    int    `json:"code"`
	Message string `json:"message"`
}
type c01e2eResp struct {
	Version string          `json:"jsonrpc"`
	ID      json.RawMessage `json:"id"`
	Result  interface{}     `json:"result"`
	Error   *c01e2eRPCErr   `json:"error,omitempty"`
}

func c01e2eNewChain(allow, storeOK bool) (*c01e2eChain, error) {
	c := &c01e2eChain{
		allow: allow, storeOK: storeOK,
		preconf:   common.HexToAddress(c01e2ePreconfAddr),
		provReg:   common.HexToAddress(c01e2eProviderRegAddr),
		bidderReg: common.HexToAddress(c01e2eBidderRegAddr),
		methods:   map[string]int{}, unserved: map[string]int{},
	}
	babi, err := bidderregistry.BidderregistryMetaData.GetAbi()
	if err != nil || babi == nil {
		return nil, fmt.Errorf("bidder registry abi: %v", err)
	}
	pabi, err := providerregistry.ProviderregistryMetaData.GetAbi()
	if err != nil || pabi == nil {
		return nil, fmt.Errorf("provider registry abi: %v", err)
	}
	for _, e := range []struct {
		dst  *[]byte
		abi  *abi.ABI
		name string
	}{
		{&c.selMinAllowance, babi, "minAllowance"}, {&c.selGetAllowance, babi, "getAllowance"},
		{&c.selMinStake, pabi, "minStake"}, {&c.selCheckStake, pabi, "checkStake"},
	} {
		m, ok := e.abi.Methods[e.name]
		if !ok {
			return nil, fmt.Errorf("abi method %s missing", e.name)
		}
		*e.dst = append([]byte{}, m.ID...)
	}
	c.srv = httptest.NewServer(http.HandlerFunc(c.serve))
	return c, nil
}

func (c *c01e2eChain) close() {
	c.srv.CloseClientConnections()
	c.srv.Close()
}

func (c *c01e2eChain) serve(w http.ResponseWriter, r *http.Request) {
	body, err := io.ReadAll(r.Body)
	if err != nil {
		http.Error(w, "read", http.StatusBadRequest)
		return
	}
	w.Header().Set("Content-Type", "application/json")
	trimmed := bytes.TrimSpace(body)
	if len(trimmed) > 0 && trimmed[0] == '[' {
		var reqs []c01e2eReq
		if err := json.Unmarshal(trimmed, &reqs); err != nil {
			http.Error(w, "parse", http.StatusBadRequest)
			return
		}
		out := make([]c01e2eResp, len(reqs))
		for i := range reqs {
			out[i] = c.answer(&reqs[i])
		}
		_ = json.NewEncoder(w).Encode(out)
		return
	}
	var req c01e2eReq
	if err := json.Unmarshal(trimmed, &req); err != nil {
		http.Error(w, "parse", http.StatusBadRequest)
		return
	}
	resp := c.answer(&req) // records the raw transaction (OK=false in the failure modes)
	if req.Method == "eth_sendRawTransaction" && c.storeMode != "" {
		switch c.storeMode {
		case "http503":
			http.Error(w, "verif: gateway unavailable", http.StatusServiceUnavailable)
			return
		case "close":
			if hj, ok := w.(http.Hijacker); ok {
				if conn, _, err := hj.Hijack(); err == nil {
					conn.Close()
					return
				}
			}
			http.Error(w, "verif: gateway unavailable", http.StatusServiceUnavailable)
			return
		}
	}
	_ = json.NewEncoder(w).Encode(resp)
}

func c01e2eWord(v uint64) string {
	return hexutil.Encode(common.LeftPadBytes(new(big.Int).SetUint64(v).Bytes(), 32))
}

func (c *c01e2eChain) answer(req *c01e2eReq) c01e2eResp {
	c.mu.Lock()
	defer c.mu.Unlock()
	c.methods[req.Method]++
	resp := c01e2eResp{Version: "2.0", ID: req.ID}
	fail := func(code int, msg string) c01e2eResp {
		resp.Error = &c01e2eRPCErr{Code: code, Message: msg}
		return resp
	}
	str := func(i int) string {
		var s string
		if i < len(req.Params) {
			_ = json.Unmarshal(req.Params[i], &s)
		}
		return s
	}
	switch req.Method {
	case "net_version":
		resp.Result = fmt.Sprintf("%d", c01e2eChainID)
	case "eth_chainId":
		resp.Result = hexutil.EncodeUint64(c01e2eChainID)
	case "eth_blockNumber":
		resp.Result = "0x10"
	case "eth_getTransactionCount":
		// pending: what this endpoint accepted; any block: nothing is ever mined, so the monitor
		// never asks for receipts and the accepted transactions simply stay pending
		if str(1) == "pending" {
			resp.Result = hexutil.EncodeUint64(c.accepted)
		} else {
			resp.Result = "0x0"
		}
	case "eth_gasPrice":
		resp.Result = "0x77359400" // 2 gwei
	case "eth_maxPriorityFeePerGas":
		resp.Result = "0x3b9aca00" // 1 gwei
	case "eth_estimateGas":
		resp.Result = "0x30d40"
	case "eth_feeHistory":
		resp.Result = map[string]interface{}{"oldestBlock": "0x10", "baseFeePerGas": []string{"0x3b9aca00", "0x3b9aca00"},
			"gasUsedRatio": []float64{0.5}, "reward": [][]string{{"0x3b9aca00"}}}
	case "eth_getBlockByNumber", "eth_getTransactionReceipt", "eth_getTransactionByHash":
		resp.Result = nil // JSON null: not found
	case "eth_call":
		var arg struct {
			To    *common.Address `json:"to"`
			Data  *hexutil.Bytes  `json:"data"`
			Input *hexutil.Bytes  `json:"input"`
		}
		if len(req.Params) == 0 || json.Unmarshal(req.Params[0], &arg) != nil || arg.To == nil {
			return fail(-32602, "verif: bad eth_call argument")
		}
		var data []byte
		if arg.Input != nil {
			data = *arg.Input
		} else if arg.Data != nil {
			data = *arg.Data
		}
		if len(data) < 4 {
			return fail(-32000, "verif: execution reverted (no selector)")
		}
		s := data[:4]
		switch {
		case *arg.To == c.bidderReg && bytes.Equal(s, c.selMinAllowance):
			resp.Result = c01e2eWord(10)
		case *arg.To == c.bidderReg && bytes.Equal(s, c.selGetAllowance):
			if c.allow {
				resp.Result = c01e2eWord(10) // exactly the minimum: allowed
			} else {
				resp.Result = c01e2eWord(9)
			}
		case *arg.To == c.provReg && bytes.Equal(s, c.selMinStake):
			resp.Result = c01e2eWord(10)
		case *arg.To == c.provReg && bytes.Equal(s, c.selCheckStake):
			resp.Result = c01e2eWord(11)
		default:
			c.problems = append(c.problems, fmt.Sprintf("eth_call to %s selector %x", arg.To.Hex(), s))
			return fail(-32000, "verif: execution reverted (unknown contract or selector)")
		}
	case "eth_sendRawTransaction":
		rawTx, err := hexutil.Decode(str(0))
		if err != nil {
			c.problems = append(c.problems, "eth_sendRawTransaction: undecodable hex")
			return fail(-32602, "verif: bad raw transaction hex")
		}
		tx := new(types.Transaction)
		if err := tx.UnmarshalBinary(rawTx); err != nil {
			c.problems = append(c.problems, "eth_sendRawTransaction: "+err.Error())
			c.raw = append(c.raw, c01Send{To: nil, Data: rawTx, OK: false})
			return fail(-32000, "verif: undecodable transaction")
		}
		var to []byte
		if tx.To() != nil {
			to = append([]byte{}, tx.To().Bytes()...)
		}
		seq := 0
		if c.storeOK {
			seq = int(c.accepted) + 1
		}
		c.raw = append(c.raw, c01Send{To: to, Data: append([]byte{}, tx.Data()...), OK: c.storeOK, Seq: seq})
		if !c.storeOK {
			return fail(-32000, "verif: scripted refusal")
		}
		c.accepted++
		resp.Result = tx.Hash().Hex()
	default:
		c.unserved[req.Method]++
		return fail(-32601, "verif: the method "+req.Method+" does not exist/is not available")
	}
	return resp
}

func (c *c01e2eChain) okCount() int {
	c.mu.Lock()
	defer c.mu.Unlock()
	n := 0
	for _, s := range c.raw {
		if s.OK {
			n++
		}
	}
	return n
}

// ---- sender side ------------------------------------------------------------------------------------------

type c01e2eRegistered struct{}

func (c01e2eRegistered) CheckProviderRegistered(context.Context, common.Address) bool { return true }

type c01e2eTopo struct{ peers []p2p.Peer }

func (t c01e2eTopo) GetPeers(q topology.Query) []p2p.Peer {
	out := []p2p.Peer{}
	for _, p := range t.peers {
		if p.Type == q.Type {
			out = append(out, p)
		}
	}
	return out
}

// records what the real SendBid writes to and reads from the wire
type c01e2eRec struct {
	inner p2p.Streamer
	chain *c01e2eChain
	mu    sync.Mutex
	sent  *preconfpb.Bid
	reply *preconfpb.PreConfirmation
	okPre int
	rdErr error
	nsErr error
}

func (r *c01e2eRec) NewStream(ctx context.Context, p p2p.Peer, h p2p.Header, d p2p.StreamDesc) (p2p.Stream, error) {
	st, err := r.inner.NewStream(ctx, p, h, d)
	if err != nil {
		r.mu.Lock()
		r.nsErr = err
		r.mu.Unlock()
		return nil, err
	}
	return &c01e2eRecStream{Stream: st, r: r}, nil
}

type c01e2eRecStream struct {
	p2p.Stream
	r *c01e2eRec
}

func (s *c01e2eRecStream) WriteMsg(ctx context.Context, m proto.Message) error {
	if b, ok := m.(*preconfpb.Bid); ok {
		s.r.mu.Lock()
		s.r.sent = proto.Clone(b).(*preconfpb.Bid)
		s.r.mu.Unlock()
	}
	return s.Stream.WriteMsg(ctx, m)
}

func (s *c01e2eRecStream) ReadMsg(ctx context.Context, m proto.Message) error {
	err := s.Stream.ReadMsg(ctx, m)
	s.r.mu.Lock()
	defer s.r.mu.Unlock()
	if err != nil {
		s.r.rdErr = err
		return err
	}
	if c, ok := m.(*preconfpb.PreConfirmation); ok && s.r.reply == nil {
		s.r.reply = proto.Clone(c).(*preconfpb.PreConfirmation)
		s.r.okPre = s.r.chain.okCount()
	}
	return nil
}

// ---- plumbing -------------------------------------------------------------------------------------------------

// n distinct free loopback TCP ports (held simultaneously, then released)
func c01e2ePorts(n int) ([]int, error) {
	ls := make([]net.Listener, 0, n)
	defer func() {
		for _, l := range ls {
			_ = l.Close()
		}
	}()
	ports := make([]int, 0, n)
	for i := 0; i < n; i++ {
		l, err := net.Listen("tcp", "127.0.0.1:0")
		if err != nil {
			return nil, err
		}
		ls = append(ls, l)
		ports = append(ports, l.Addr().(*net.TCPAddr).Port)
	}
	return ports, nil
}

func c01e2eLogger(tag string) *slog.Logger {
	if os.Getenv("VERIF_E2E_LOG") == "1" {
		return slog.New(slog.NewTextHandler(os.Stderr, &slog.HandlerOptions{Level: slog.LevelDebug})).With("verif", tag)
	}
	return slog.New(slog.NewTextHandler(io.Discard, nil))
}

func c01e2ePeerID(key *ecdsa.PrivateKey) (peer.ID, error) {
	k, err := libp2pcrypto.UnmarshalSecp256k1PrivateKey(common.LeftPadBytes(key.D.Bytes(), 32))
	if err != nil {
		return "", err
	}
	return peer.IDFromPrivateKey(k)
}

// ---- optional fast start ------------------------------------------------------------------------------------
//
// node.NewNode dials its own gRPC server with three strategies in turn (TLS with the system roots, TLS
// without verification, plaintext), each blocking for up to 5 s: a plaintext node therefore needs 10 s
// to start. With c01E2ETLS (env VERIF_E2E_TLS=1) the node is given a certificate for 127.0.0.1 that is
// self-signed by a per-process authority, and that authority is made the process' system root set
// (SSL_CERT_FILE is set only while crypto/x509 loads its roots, which happens once per process): the
// first strategy succeeds and the node starts in milliseconds. Everything else is unchanged; the
// engine then dials with TLS too. When the root set had been loaded earlier the mode silently falls
// back to the plaintext start.

var c01E2ETLS = os.Getenv("VERIF_E2E_TLS") == "1"

var (
	c01e2eTLSOnce               sync.Once
	c01e2eCertPEM, c01e2eKeyPEM []byte
	c01e2eTLSCreds              credentials.TransportCredentials
)

func c01e2eTLSSetup() {
	key, err := ecdsa.GenerateKey(elliptic.P256(), crand.Reader)
	if err != nil {
		return
	}
	tmpl := &x509.Certificate{
		SerialNumber: big.NewInt(0xC01E2E), Subject: pkix.Name{CommonName: "verif-e2e"},
		NotBefore: time.Now().Add(-time.Hour), NotAfter: time.Now().Add(24 * time.Hour),
		KeyUsage:    x509.KeyUsageDigitalSignature | x509.KeyUsageCertSign,
		ExtKeyUsage: []x509.ExtKeyUsage{x509.ExtKeyUsageServerAuth}, BasicConstraintsValid: true, IsCA: true,
		IPAddresses: []net.IP{net.IPv4(127, 0, 0, 1)}, DNSNames: []string{"localhost"},
	}
	der, err := x509.CreateCertificate(crand.Reader, tmpl, tmpl, &key.PublicKey, key)
	if err != nil {
		return
	}
	kder, err := x509.MarshalECPrivateKey(key)
	if err != nil {
		return
	}
	certPEM := pem.EncodeToMemory(&pem.Block{Type: "CERTIFICATE", Bytes: der})
	keyPEM := pem.EncodeToMemory(&pem.Block{Type: "EC PRIVATE KEY", Bytes: kder})
	dir, err := os.MkdirTemp("", "verif-e2e-ca")
	if err != nil {
		return
	}
	defer os.RemoveAll(dir)
	caFile := filepath.Join(dir, "ca.pem")
	if os.WriteFile(caFile, certPEM, 0o600) != nil {
		return
	}
	oldFile, hadFile := os.LookupEnv("SSL_CERT_FILE")
	oldDir, hadDir := os.LookupEnv("SSL_CERT_DIR")
	os.Setenv("SSL_CERT_FILE", caFile)
	os.Setenv("SSL_CERT_DIR", dir)
	_, _ = x509.SystemCertPool() // loads the process-wide root set now, if it was not loaded before
	if hadFile {
		os.Setenv("SSL_CERT_FILE", oldFile)
	} else {
		os.Unsetenv("SSL_CERT_FILE")
	}
	if hadDir {
		os.Setenv("SSL_CERT_DIR", oldDir)
	} else {
		os.Unsetenv("SSL_CERT_DIR")
	}
	// positive check: does a verification against the system roots (nil Roots) accept the certificate?
	cert, err := x509.ParseCertificate(der)
	if err != nil {
		return
	}
	if _, err := cert.Verify(x509.VerifyOptions{DNSName: "127.0.0.1"}); err != nil {
		return
	}
	pool := x509.NewCertPool()
	pool.AddCert(cert)
	c01e2eCertPEM, c01e2eKeyPEM = certPEM, keyPEM
	c01e2eTLSCreds = credentials.NewClientTLSFromCert(pool, "")
}

// certificate and key files for one node, "" "" when the fast start is off or unavailable
func c01e2eTLSFiles(t testing.TB) (string, string, credentials.TransportCredentials) {
	if !c01E2ETLS {
		return "", "", nil
	}
	c01e2eTLSOnce.Do(c01e2eTLSSetup)
	if c01e2eTLSCreds == nil {
		return "", "", nil
	}
	dir := t.TempDir()
	cf, kf := filepath.Join(dir, "cert.pem"), filepath.Join(dir, "key.pem")
	if os.WriteFile(cf, c01e2eCertPEM, 0o600) != nil || os.WriteFile(kf, c01e2eKeyPEM, 0o600) != nil {
		return "", "", nil
	}
	return cf, kf, c01e2eTLSCreds
}

// ---- one case -----------------------------------------------------------------------------------------------------

func c01RunE2E(t testing.TB, in c01E2EIn, slow int) (obs c01E2EObs) {
	c01Setup(t)
	if slow < 1 {
		slow = 1
	}
	begin := time.Now()
	obs = c01E2EObs{
		EngineGot: []*providerapiv1.Bid{}, RawTxs: []c01Send{}, ReplyCode: -1, Unserved: []string{}, Served: []string{},
		BidderAddr:      crypto.PubkeyToAddress(c01BidderKey.PublicKey).Bytes(),
		PreconfContract: common.HexToAddress(c01e2ePreconfAddr).Bytes(),
	}
	problems := []string{}
	problem := func(f string, a ...interface{}) { problems = append(problems, fmt.Sprintf(f, a...)) }
	defer func() {
		obs.ElapsedMs = time.Since(begin).Milliseconds()
		obs.Err = strings.Join(problems, "; ")
	}()

	var senderType p2p.PeerType
	switch in.Role {
	case "bidder":
		senderType = p2p.PeerTypeBidder
	case "provider":
		senderType = p2p.PeerTypeProvider
	default:
		problem("unknown role %q", in.Role)
		return
	}
	switch in.Engine {
	case "accept", "reject", "silent":
	default:
		problem("unknown engine %q", in.Engine)
		return
	}

	// 1. chain + registries
	chain, err := c01e2eNewChain(in.Allow, in.StoreOK && in.StoreMode == "")
	if chain != nil {
		chain.storeMode = in.StoreMode
	}
	if err != nil {
		problem("chain: %v", err)
		return
	}
	defer func() {
		chain.close()
		chain.mu.Lock()
		defer chain.mu.Unlock()
		for m := range chain.unserved {
			obs.Unserved = append(obs.Unserved, m)
		}
		sort.Strings(obs.Unserved)
		for m, n := range chain.methods {
			obs.Served = append(obs.Served, fmt.Sprintf("%s*%d", m, n))
		}
		sort.Strings(obs.Served)
	}()
	collect := func() {
		chain.mu.Lock()
		defer chain.mu.Unlock()
		obs.RawTxs = append([]c01Send{}, chain.raw...)
		for _, p := range chain.problems {
			problem("chain: %s", p)
		}
	}

	// 2. the provider node
	var (
		nd      *node.Node
		ports   []int
		rpcAddr string
	)
	nodeKey := &c01e2eKey{key: c01NodeKey}
	certFile, keyFile, tlsCreds := c01e2eTLSFiles(t)
	obs.TLS = tlsCreds != nil
	for attempt := 0; ; attempt++ {
		ports, err = c01e2ePorts(3)
		if err != nil {
			problem("ports: %v", err)
			return
		}
		rpcAddr = fmt.Sprintf("127.0.0.1:%d", ports[2])
		s0 := time.Now()
		nd, err = node.NewNode(&node.Options{
			Version:                  "verif",
			KeySigner:                nodeKey,
			Secret:                   c01e2eSecret,
			PeerType:                 "provider",
			Logger:                   c01e2eLogger("node"),
			P2PPort:                  ports[0],
			P2PAddr:                  "127.0.0.1",
			HTTPAddr:                 fmt.Sprintf("127.0.0.1:%d", ports[1]),
			RPCAddr:                  rpcAddr,
			PreconfContract:          c01e2ePreconfAddr,
			ProviderRegistryContract: c01e2eProviderRegAddr,
			BidderRegistryContract:   c01e2eBidderRegAddr,
			RPCEndpoint:              chain.srv.URL,
			TLSCertificateFile:       certFile,
			TLSPrivateKeyFile:        keyFile,
		})
		obs.StartMs = time.Since(s0).Milliseconds()
		if err == nil {
			break
		}
		if attempt >= 2 || !strings.Contains(err.Error(), "address already in use") {
			problem("NewNode: %v", err)
			return
		}
	}
	defer func() {
		if err := nd.Close(); err != nil {
			problem("node close: %v", err)
		}
	}()

	// 3. the engine, over the node's gRPC provider API
	engineCreds := insecure.NewCredentials()
	if tlsCreds != nil {
		engineCreds = tlsCreds
	}
	conn, err := grpc.Dial(rpcAddr, grpc.WithTransportCredentials(engineCreds))
	if err != nil {
		problem("grpc dial: %v", err)
		return
	}
	defer conn.Close()
	ectx, ecancel := context.WithCancel(context.Background())
	defer ecancel()
	api := providerapiv1.NewProviderClient(conn)
	recv, err := api.ReceiveBids(ectx, &providerapiv1.EmptyMessage{})
	if err != nil {
		problem("ReceiveBids: %v", err)
		return
	}
	decide, err := api.SendProcessedBids(ectx)
	if err != nil {
		problem("SendProcessedBids: %v", err)
		return
	}
	var emu sync.Mutex
	engineGot := []*providerapiv1.Bid{}
	engineErr := ""
	engineDone := make(chan struct{})
	go func() {
		defer close(engineDone)
		for {
			b, err := recv.Recv()
			if err != nil {
				return
			}
			emu.Lock()
			engineGot = append(engineGot, proto.Clone(b).(*providerapiv1.Bid))
			emu.Unlock()
			var st providerapiv1.BidResponse_Status
			switch in.Engine {
			case "accept":
				st = providerapiv1.BidResponse_STATUS_ACCEPTED
			case "reject":
				st = providerapiv1.BidResponse_STATUS_REJECTED
			default:
				continue // silent
			}
			if err := decide.Send(&providerapiv1.BidResponse{BidDigest: b.BidDigest, Status: st}); err != nil {
				emu.Lock()
				engineErr = err.Error()
				emu.Unlock()
				return
			}
		}
	}()
	defer func() {
		ecancel()
		select {
		case <-engineDone:
		case <-time.After(5 * time.Second):
			problem("engine goroutine did not stop")
		}
	}()

	// 4. the sender: a real libp2p service with the scripted role, connected over loopback
	senderKey := &c01e2eKey{key: c01BidderKey}
	svc, err := libp2p.New(&libp2p.Options{
		KeySigner:  senderKey,
		Secret:     c01e2eSecret,
		PeerType:   senderType,
		Register:   c01e2eRegistered{},
		ListenPort: 0,
		ListenAddr: "127.0.0.1",
		Logger:     c01e2eLogger("sender"),
	})
	if err != nil {
		problem("sender libp2p: %v", err)
		return
	}
	defer func() {
		if err := svc.Close(); err != nil {
			problem("sender close: %v", err)
		}
	}()
	pid, err := c01e2ePeerID(c01NodeKey)
	if err != nil {
		problem("peer id: %v", err)
		return
	}
	maddr, err := ma.NewMultiaddr(fmt.Sprintf("/ip4/127.0.0.1/tcp/%d", ports[0]))
	if err != nil {
		problem("multiaddr: %v", err)
		return
	}
	info, err := peer.AddrInfo{ID: pid, Addrs: []ma.Multiaddr{maddr}}.MarshalJSON()
	if err != nil {
		problem("addrinfo: %v", err)
		return
	}
	var provider p2p.Peer
	for attempt := 0; ; attempt++ {
		cctx, ccancel := context.WithTimeout(context.Background(), time.Duration(slow)*10*time.Second)
		provider, err = svc.Connect(cctx, info)
		ccancel()
		if err == nil {
			break
		}
		if attempt >= 2 {
			problem("connect: %v", err)
			return
		}
		time.Sleep(200 * time.Millisecond)
	}
	if provider.Type != p2p.PeerTypeProvider || provider.EthAddress != nodeKey.GetAddress() {
		problem("the node identified as %v %s", provider.Type, provider.EthAddress.Hex())
		return
	}

	// 5. the real SendBid over the recording streamer
	rec := &c01e2eRec{inner: svc, chain: chain}
	pc := preconfirmation.New(c01e2eTopo{peers: []p2p.Peer{provider}}, rec, preconfsigner.NewSigner(senderKey),
		nil, nil, nil, c01e2eLogger("sender-preconf"))
	// the handler gives the engine 5 s; the sender waits a bit longer than that
	sctx, scancel := context.WithTimeout(context.Background(), time.Duration(slow)*7*time.Second+3*time.Second)
	defer scancel()
	ch, err := pc.SendBid(sctx, in.Bid.TxHash, in.Bid.Amount, in.Bid.BN, in.Bid.DS, in.Bid.DE)
	if err != nil {
		problem("SendBid: %v", err)
		collect()
		return
	}
	verified := 0
	for range ch { // closed when the exchange with the provider is over (reply, error frame, reset or timeout)
		verified++
	}

	rec.mu.Lock()
	obs.SentBid = rec.sent
	obs.Reply = rec.reply
	obs.RawTxsBeforeReply = rec.okPre
	switch {
	case rec.nsErr != nil:
		obs.ReplyErr = "new stream: " + rec.nsErr.Error()
		obs.ReplyCode = int(status.Code(rec.nsErr))
	case rec.rdErr != nil:
		obs.ReplyErr = rec.rdErr.Error()
		obs.ReplyCode = int(status.Code(rec.rdErr))
	}
	rec.mu.Unlock()
	if obs.SentBid == nil && obs.ReplyErr == "" {
		problem("nothing was written to the stream")
	}
	emu.Lock()
	obs.EngineGot = append([]*providerapiv1.Bid{}, engineGot...)
	if engineErr != "" {
		problem("engine: %s", engineErr)
	}
	emu.Unlock()
	collect()
	_ = verified
	return
}

// ---- smoke test (only with VERIF_E2E_SMOKE=1) ------------------------------------------------------------------

func TestVerifC01E2ESmoke(t *testing.T) {
	if os.Getenv("VERIF_E2E_SMOKE") != "1" {
		t.Skip("set VERIF_E2E_SMOKE=1 to run the end-to-end smoke test")
	}
	bid := c01Bid{TxHash: strings.Repeat("ab", 32), Amount: "1000000", BN: 100, DS: 1700000000000, DE: 1700000012000}
	cases := []c01E2EIn{
		{Role: "bidder", Allow: true, Engine: "accept", StoreOK: true, Bid: bid},
		{Role: "bidder", Allow: true, Engine: "reject", StoreOK: true, Bid: bid},
		{Role: "bidder", Allow: false, Engine: "accept", StoreOK: true, Bid: bid},
		{Role: "bidder", Allow: true, Engine: "accept", StoreOK: false, Bid: bid},
		{Role: "provider", Allow: true, Engine: "accept", StoreOK: true, Bid: bid},
	}
	if os.Getenv("VERIF_E2E_SILENT") == "1" {
		cases = append(cases, c01E2EIn{Role: "bidder", Allow: true, Engine: "silent", StoreOK: true, Bid: bid})
	}
	// VERIF_E2E_PAR=k: k workers run the whole list concurrently (the drivers run cases in parallel)
	par := 1
	if v, err := strconv.Atoi(os.Getenv("VERIF_E2E_PAR")); err == nil && v > 1 {
		par = v
	}
	fds := func() int {
		es, _ := os.ReadDir("/proc/self/fd")
		return len(es)
	}
	t.Logf("before: %d goroutines, %d open files", runtime.NumGoroutine(), fds())
	var wg sync.WaitGroup
	for w := 0; w < par; w++ {
		wg.Add(1)
		go func(w int) {
			defer wg.Done()
			for i, in := range cases {
				c01e2eSmokeCase(t, w, i, in)
			}
		}(w)
	}
	wg.Wait()
	time.Sleep(500 * time.Millisecond)
	t.Logf("after: %d goroutines, %d open files", runtime.NumGoroutine(), fds())
	if os.Getenv("VERIF_E2E_DUMP") == "1" {
		_ = pprof.Lookup("goroutine").WriteTo(os.Stderr, 1)
	}
}

func c01e2eSmokeCase(t *testing.T, w, i int, in c01E2EIn) {
	obs := c01RunE2E(t, in, 1)
	toPreconf := 0
	for _, s := range obs.RawTxs {
		if bytes.Equal(s.To, obs.PreconfContract) {
			toPreconf++
		}
	}
	t.Logf("w%d case %d role=%s allow=%v engine=%s storeOK=%v: sent=%v engineGot=%d rawTxs=%d (toPreconf=%d) reply=%v okBeforeReply=%d replyCode=%d replyErr=%q unserved=%v served=%v tls=%v start=%dms total=%dms err=%q",
		w, i, in.Role, in.Allow, in.Engine, in.StoreOK, obs.SentBid != nil, len(obs.EngineGot), len(obs.RawTxs), toPreconf,
		obs.Reply != nil, obs.RawTxsBeforeReply, obs.ReplyCode, obs.ReplyErr, obs.Unserved, obs.Served, obs.TLS, obs.StartMs, obs.ElapsedMs, obs.Err)
	if obs.Err != "" {
		t.Errorf("w%d case %d: harness problem: %s", w, i, obs.Err)
	}
	if i == 0 {
		if obs.Reply == nil {
			t.Errorf("w%d case 0: no reply", w)
		}
		if toPreconf == 0 {
			t.Errorf("w%d case 0: no raw transaction to the preconf contract", w)
		}
		if obs.Reply != nil && (obs.SentBid == nil || !proto.Equal(obs.Reply.Bid, obs.SentBid)) {
			t.Errorf("w%d case 0: the reply is not for the bid sent", w)
		}
		if len(obs.EngineGot) != 1 {
			t.Errorf("w%d case 0: engine got %d bids", w, len(obs.EngineGot))
		}
		if obs.RawTxsBeforeReply != 1 {
			t.Errorf("w%d case 0: %d accepted raw transactions before the reply", w, obs.RawTxsBeforeReply)
		}
	} else if obs.Reply != nil {
		t.Errorf("w%d case %d: unexpected reply", w, i)
	}
}
