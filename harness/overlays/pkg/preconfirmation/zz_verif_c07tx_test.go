package preconfirmation_test

// Driver class "raw-tx" of property C07 (model/EvmTx.v): the real preconfcontract.StoreCommitment and the real
// evmclient.EvmClient (Send / newTx / getNonce) over evmclient.WrapEthClient(ethclient) talking JSON-RPC to an
// in-process endpoint with scripted answers, and the production keysigner.PrivateKeySigner. Every raw transaction
// that reaches eth_sendRawTransaction is decoded (types.Transaction.UnmarshalBinary) and emitted field by field,
// with the recovered sender, the eth_estimateGas argument and the order of the foreground calls, and with the bytes
// go-ethereum's signer hashes for it (0x02 and the RLP list of the payload fields; compared with model/EvmTxWire.v).

import (
	"context"
	"encoding/json"
	"fmt"
	"io"
	"math/big"
	"math/rand"
	"net/http"
	"net/http/httptest"
	"os"
	"path/filepath"
	"strings"
	"sync"
	"testing"

	"github.com/ethereum/go-ethereum/common"
	"github.com/ethereum/go-ethereum/common/hexutil"
	"github.com/ethereum/go-ethereum/core/types"
	"github.com/ethereum/go-ethereum/crypto"
	"github.com/ethereum/go-ethereum/ethclient"
	"github.com/ethereum/go-ethereum/rlp"
	"github.com/ethereum/go-ethereum/rpc"
	preconfpb "github.com/primevprotocol/mev-commit/gen/go/preconfirmation/v1"
	preconfcontract "github.com/primevprotocol/mev-commit/pkg/contracts/preconf"
	"github.com/primevprotocol/mev-commit/pkg/evmclient"
	"github.com/primevprotocol/mev-commit/pkg/keysigner"
)

// ---- inputs ---------------------------------------------------------------------------------------------

type c07TxStep struct {
	Kind string // "store": StoreCommitment(...) | "send": client.Send(request) | "send-nil-to": request with To == nil
	// store
	Amount    string `json:",omitempty"`
	BN        int64  `json:",omitempty"`
	DS        int64  `json:",omitempty"`
	DE        int64  `json:",omitempty"`
	TxHash    string `json:",omitempty"`
	BidSig    []byte `json:",omitempty"`
	CommitSig []byte `json:",omitempty"`
	// send
	To        []byte `json:",omitempty"`
	Data      []byte `json:",omitempty"`
	GasPrice  string `json:",omitempty"` // "" = nil
	GasLimit  uint64 `json:",omitempty"`
	GasFeeCap string `json:",omitempty"` // "" = nil
	Value     string `json:",omitempty"` // "" = nil
	// scripted answers ("" / negative = the call fails)
	Pending  int64 // eth_getTransactionCount(pending); -1 = error
	Est      int64 // eth_estimateGas; -1 = error
	Tip      string
	Price    string
	SignOK   bool
	SubmitOK bool
	// which of the texts a real node refuses a transaction with (index into c07RefusalTexts); the code must report
	// the failure whatever the text says (round 7: a retry on "nonce too low" that ended in a nil error)
	RefuseText int `json:",omitempty"`
}

var c07RefusalTexts = []string{"verif: scripted refusal", "nonce too low", "nonce too low: next nonce 7, tx nonce 3",
	"replacement transaction underpriced", "already known", "transaction underpriced",
	"insufficient funds for gas * price + value", "nonce too high", "exceeds block gas limit", "tx fee (1.00 ether) exceeds the configured cap (0.50 ether)"}

type c07TxIn struct {
	ChainID  uint64
	Contract []byte
	Steps    []c07TxStep
}

// ---- observations -----------------------------------------------------------------------------------------

type c07RawTx struct {
	Chain, Tip, FeeCap, Value string
	Nonce, Gas                uint64
	To                        []byte // nil = no destination
	Data                      []byte
	Type                      int
	Sender                    []byte
	Signed                    []byte // what the signer hashes: 0x02 and the RLP list of the nine payload fields
}
type c07CallMsg struct {
	From, To, Data []byte
	HasTo          bool
	Value          string // "" = absent
}
type c07StepObs struct {
	Ret      int // 0 nil, 1 error, 2 crash
	Raw      *c07RawTx
	RawCount int
	Est      *c07CallMsg
	Methods  []int
	Err      string // informational
}
type c07TxObs struct {
	Owner   []byte
	Steps   []c07StepObs
	Problem string // harness problem: reported as a mismatch
}

// ---- endpoint -------------------------------------------------------------------------------------------------

type c07Chain struct {
	mu      sync.Mutex
	chainID uint64
	cur     c07TxStep
	methods []int
	raws    []c07RawTx
	est     *c07CallMsg
	problem []string
	srv     *httptest.Server
}

func (c *c07Chain) serve(w http.ResponseWriter, r *http.Request) {
	body, err := io.ReadAll(r.Body)
	if err != nil {
		http.Error(w, "read", http.StatusBadRequest)
		return
	}
	w.Header().Set("Content-Type", "application/json")
	trimmed := strings.TrimSpace(string(body))
	if strings.HasPrefix(trimmed, "[") {
		var reqs []c01e2eReq
		if err := json.Unmarshal([]byte(trimmed), &reqs); err != nil {
			http.Error(w, "parse", http.StatusBadRequest)
			return
		}
		out := make([]c01e2eResp, len(reqs))
		for i := range reqs {
			out[i] = c.answer(&reqs[i])
		}
		_ = json.NewEncoder(w).Encode(out)
		return
	}
	var req c01e2eReq
	if err := json.Unmarshal([]byte(trimmed), &req); err != nil {
		http.Error(w, "parse", http.StatusBadRequest)
		return
	}
	_ = json.NewEncoder(w).Encode(c.answer(&req))
}

func c07Big(s string) (*big.Int, bool) {
	if s == "" {
		return nil, false
	}
	v, ok := new(big.Int).SetString(s, 10)
	return v, ok
}

func (c *c07Chain) answer(req *c01e2eReq) c01e2eResp {
	c.mu.Lock()
	defer c.mu.Unlock()
	resp := c01e2eResp{Version: "2.0", ID: req.ID}
	fail := func(msg string) c01e2eResp {
		resp.Error = &c01e2eRPCErr{Code: -32000, Message: msg}
		return resp
	}
	str := func(i int) string {
		var s string
		if i < len(req.Params) {
			_ = json.Unmarshal(req.Params[i], &s)
		}
		return s
	}
	switch req.Method {
	case "net_version":
		resp.Result = fmt.Sprintf("%d", c.chainID)
	case "eth_chainId":
		resp.Result = hexutil.EncodeUint64(c.chainID)
	case "eth_blockNumber":
		resp.Result = "0x10"
	case "eth_getTransactionCount":
		if str(1) != "pending" { // the monitor's NonceAt: nothing is ever confirmed
			resp.Result = "0x0"
			break
		}
		c.methods = append(c.methods, 1)
		if c.cur.Pending < 0 {
			return fail("verif: scripted failure")
		}
		resp.Result = hexutil.EncodeUint64(uint64(c.cur.Pending))
	case "eth_estimateGas":
		c.methods = append(c.methods, 2)
		var arg struct {
			From  *common.Address `json:"from"`
			To    *common.Address `json:"to"`
			Data  *hexutil.Bytes  `json:"data"`
			Input *hexutil.Bytes  `json:"input"`
			Value *hexutil.Big    `json:"value"`
		}
		if len(req.Params) == 0 || json.Unmarshal(req.Params[0], &arg) != nil {
			c.problem = append(c.problem, "eth_estimateGas: bad argument")
			return fail("verif: bad argument")
		}
		m := &c07CallMsg{}
		if arg.From != nil {
			m.From = arg.From.Bytes()
		}
		if arg.To != nil {
			m.To, m.HasTo = arg.To.Bytes(), true
		}
		if arg.Input != nil {
			m.Data = append([]byte{}, (*arg.Input)...)
		} else if arg.Data != nil {
			m.Data = append([]byte{}, (*arg.Data)...)
		}
		if arg.Value != nil {
			m.Value = (*big.Int)(arg.Value).String()
		}
		if c.est == nil {
			c.est = m
		}
		if c.cur.Est < 0 {
			return fail("verif: scripted failure")
		}
		resp.Result = hexutil.EncodeUint64(uint64(c.cur.Est))
	case "eth_maxPriorityFeePerGas":
		c.methods = append(c.methods, 3)
		v, ok := c07Big(c.cur.Tip)
		if !ok {
			return fail("verif: scripted failure")
		}
		resp.Result = hexutil.EncodeBig(v)
	case "eth_gasPrice":
		c.methods = append(c.methods, 4)
		v, ok := c07Big(c.cur.Price)
		if !ok {
			return fail("verif: scripted failure")
		}
		resp.Result = hexutil.EncodeBig(v)
	case "eth_getBlockByNumber", "eth_getTransactionReceipt", "eth_getTransactionByHash":
		resp.Result = nil
	case "eth_sendRawTransaction":
		c.methods = append(c.methods, 5)
		rawTx, err := hexutil.Decode(str(0))
		if err != nil {
			c.problem = append(c.problem, "eth_sendRawTransaction: undecodable hex")
			return fail("verif: bad raw transaction hex")
		}
		tx := new(types.Transaction)
		if err := tx.UnmarshalBinary(rawTx); err != nil {
			c.problem = append(c.problem, "eth_sendRawTransaction: "+err.Error())
			return fail("verif: undecodable transaction")
		}
		o := c07RawTx{Chain: tx.ChainId().String(), Tip: tx.GasTipCap().String(), FeeCap: tx.GasFeeCap().String(),
			Value: tx.Value().String(), Nonce: tx.Nonce(), Gas: tx.Gas(), Data: append([]byte{}, tx.Data()...), Type: int(tx.Type())}
		if tx.To() != nil {
			o.To = append([]byte{}, tx.To().Bytes()...)
		}
		if from, err := types.Sender(types.LatestSignerForChainID(tx.ChainId()), tx); err == nil {
			o.Sender = from.Bytes()
		}
		// the bytes go-ethereum signs, rebuilt from the decoded transaction and checked against the signer's hash
		if tx.Type() == types.DynamicFeeTxType {
			if enc, err := rlp.EncodeToBytes([]interface{}{tx.ChainId(), tx.Nonce(), tx.GasTipCap(), tx.GasFeeCap(), tx.Gas(), tx.To(), tx.Value(), tx.Data(), tx.AccessList()}); err != nil {
				c.problem = append(c.problem, "signing payload: "+err.Error())
			} else {
				o.Signed = append([]byte{2}, enc...)
				if crypto.Keccak256Hash(o.Signed) != types.LatestSignerForChainID(tx.ChainId()).Hash(tx) {
					c.problem = append(c.problem, "signing payload: its hash is not the hash the signer signs")
				}
			}
		}
		c.raws = append(c.raws, o)
		if !c.cur.SubmitOK {
			return fail(c07RefusalTexts[((c.cur.RefuseText%len(c07RefusalTexts))+len(c07RefusalTexts))%len(c07RefusalTexts)])
		}
		resp.Result = tx.Hash().Hex()
	default:
		return c01e2eResp{Version: "2.0", ID: req.ID, Error: &c01e2eRPCErr{Code: -32601, Message: "verif: the method " + req.Method + " does not exist/is not available"}}
	}
	return resp
}

// the production signer; SignTx can be made to fail (scripted)
type c07Signer struct {
	keysigner.KeySigner
	mu   sync.Mutex
	fail bool
}

func (s *c07Signer) SignTx(tx *types.Transaction, chainID *big.Int) (*types.Transaction, error) {
	s.mu.Lock()
	f := s.fail
	s.mu.Unlock()
	if f {
		return nil, fmt.Errorf("verif: scripted signer failure")
	}
	return s.KeySigner.SignTx(tx, chainID)
}

// ---- one case -----------------------------------------------------------------------------------------------------

func c07TxRun(t testing.TB, in c07TxIn) (obs c07TxObs) {
	obs = c07TxObs{Steps: []c07StepObs{}}
	dir, err := os.MkdirTemp("", "verif-c07tx-")
	if err != nil {
		obs.Problem = "tempdir: " + err.Error()
		return
	}
	defer os.RemoveAll(dir)
	pks, err := keysigner.NewPrivateKeySigner(filepath.Join(dir, "key"))
	if err != nil {
		obs.Problem = "key signer: " + err.Error()
		return
	}
	ks := &c07Signer{KeySigner: pks}
	obs.Owner = ks.GetAddress().Bytes()
	chain := &c07Chain{chainID: in.ChainID}
	chain.srv = httptest.NewServer(http.HandlerFunc(chain.serve))
	defer func() {
		chain.srv.CloseClientConnections()
		chain.srv.Close()
	}()
	rc, err := rpc.Dial(chain.srv.URL)
	if err != nil {
		obs.Problem = "rpc dial: " + err.Error()
		return
	}
	defer rc.Close()
	cli, err := evmclient.New(ks, evmclient.WrapEthClient(ethclient.NewClient(rc)), c01e2eLogger("c07tx"))
	if err != nil {
		obs.Problem = "evmclient.New: " + err.Error()
		return
	}
	defer cli.Close()
	pc := preconfcontract.New(common.BytesToAddress(in.Contract), cli, c01e2eLogger("c07tx-contract"))
	for _, st := range in.Steps {
		chain.mu.Lock()
		chain.cur, chain.methods, chain.raws, chain.est = st, nil, nil, nil
		chain.mu.Unlock()
		ks.mu.Lock()
		ks.fail = !st.SignOK
		ks.mu.Unlock()
		so := c07StepObs{}
		func() {
			defer func() {
				if r := recover(); r != nil {
					so.Ret, so.Err = 2, fmt.Sprint(r)
				}
			}()
			var err error
			switch st.Kind {
			case "store":
				amt, _ := new(big.Int).SetString(st.Amount, 10)
				err = pc.StoreCommitment(context.Background(), amt, uint64(st.BN), st.TxHash, uint64(st.DS), uint64(st.DE), st.BidSig, st.CommitSig)
			default:
				rq := &evmclient.TxRequest{CallData: st.Data, GasLimit: st.GasLimit}
				if st.Kind != "send-nil-to" {
					a := common.BytesToAddress(st.To)
					rq.To = &a
				}
				rq.GasPrice, _ = c07Big(st.GasPrice)
				rq.GasFeeCap, _ = c07Big(st.GasFeeCap)
				rq.Value, _ = c07Big(st.Value)
				_, err = cli.Send(context.Background(), rq)
			}
			if err != nil {
				so.Ret, so.Err = 1, err.Error()
			}
		}()
		chain.mu.Lock()
		so.Methods = append([]int{}, chain.methods...)
		so.RawCount = len(chain.raws)
		if len(chain.raws) > 0 {
			r := chain.raws[0]
			so.Raw = &r
		}
		so.Est = chain.est
		chain.mu.Unlock()
		obs.Steps = append(obs.Steps, so)
	}
	chain.mu.Lock()
	obs.Problem = strings.Join(chain.problem, "; ")
	chain.mu.Unlock()
	return
}

// ---- Coq term -------------------------------------------------------------------------------------------------------

func c07OptZ(s string) string {
	v, ok := c07Big(s)
	if !ok {
		return "None"
	}
	return "(Some " + coqBigZ(v) + ")"
}

func c07MustZ(s string) string {
	v, ok := c07Big(s)
	if !ok {
		return "(0)%Z"
	}
	return coqBigZ(v)
}

func c07TxCoq(id int, in c07TxIn, obs c07TxObs) string {
	steps := []string{}
	for i, st := range in.Steps {
		if i >= len(obs.Steps) {
			break
		}
		so := obs.Steps[i]
		var src string
		if st.Kind == "store" {
			pc := &preconfpb.PreConfirmation{Bid: &preconfpb.Bid{TxHash: st.TxHash, BidAmount: st.Amount, BlockNumber: st.BN,
				DecayStartTimestamp: st.DS, DecayEndTimestamp: st.DE, Signature: st.BidSig}, Signature: st.CommitSig}
			src = coqApp("SrcStore", c07MustZ(st.Amount), c01CoqPreconf(pc))
		} else {
			to := "None"
			if st.Kind != "send-nil-to" {
				to = "(Some " + coqBytes(common.BytesToAddress(st.To).Bytes()) + ")"
			}
			src = coqApp("SrcReq", coqRecord("EvmTx.rq_to", to, "EvmTx.rq_data", coqBytes(st.Data), "EvmTx.rq_price", c07OptZ(st.GasPrice),
				"EvmTx.rq_gas", coqN(st.GasLimit), "EvmTx.rq_feecap", c07OptZ(st.GasFeeCap), "EvmTx.rq_value", c07OptZ(st.Value)))
		}
		optN := func(v int64) string {
			if v < 0 {
				return "None"
			}
			return "(Some " + coqN(uint64(v)) + ")"
		}
		ans := coqRecord("EvmTx.a_pending", optN(st.Pending), "EvmTx.a_est", optN(st.Est), "EvmTx.a_tip", c07OptZ(st.Tip),
			"EvmTx.a_price", c07OptZ(st.Price), "EvmTx.a_sign", coqBool(st.SignOK), "EvmTx.a_submit", coqBool(st.SubmitOK))
		raw, typ, sender, signed := "None", "0%N", coqBytes(nil), coqBytes(nil)
		if so.Raw != nil {
			to := "None"
			if so.Raw.To != nil {
				to = "(Some " + coqBytes(so.Raw.To) + ")"
			}
			raw = "(Some " + coqRecord("EvmTx.tx_chain", c07MustZ(so.Raw.Chain), "EvmTx.tx_nonce", coqN(so.Raw.Nonce), "EvmTx.tx_tip", c07MustZ(so.Raw.Tip),
				"EvmTx.tx_feecap", c07MustZ(so.Raw.FeeCap), "EvmTx.tx_gas", coqN(so.Raw.Gas), "EvmTx.tx_to", to,
				"EvmTx.tx_value", c07MustZ(so.Raw.Value), "EvmTx.tx_data", coqBytes(so.Raw.Data)) + ")"
			typ, sender, signed = coqN(uint64(so.Raw.Type)), coqBytes(so.Raw.Sender), coqBytes(so.Raw.Signed)
		}
		est := "None"
		if so.Est != nil {
			to := "None"
			if so.Est.HasTo {
				to = "(Some " + coqBytes(so.Est.To) + ")"
			}
			est = "(Some " + coqRecord("EvmTx.cm_from", coqBytes(so.Est.From), "EvmTx.cm_to", to, "EvmTx.cm_data", coqBytes(so.Est.Data),
				"EvmTx.cm_value", c07OptZ(so.Est.Value)) + ")"
		}
		ms := []string{}
		for _, m := range so.Methods {
			ms = append(ms, coqN(uint64(m)))
		}
		steps = append(steps, coqRecord("s_src", src, "s_ans", ans, "s_ret", coqN(uint64(so.Ret)), "s_raw", raw,
			"s_raw_count", coqN(uint64(so.RawCount)), "s_type", typ, "s_sender", sender, "s_signed", signed, "s_est", est, "s_methods", coqList(ms)))
	}
	if obs.Problem != "" || len(obs.Steps) != len(in.Steps) {
		// harness problem: an impossible observation, so that the case shows up as a mismatch (never as a violation)
		steps = append(steps, coqRecord("s_src", coqApp("SrcReq", coqRecord("EvmTx.rq_to", "None", "EvmTx.rq_data", coqBytes(nil), "EvmTx.rq_price", "None",
			"EvmTx.rq_gas", "0%N", "EvmTx.rq_feecap", "None", "EvmTx.rq_value", "None")),
			"s_ans", coqRecord("EvmTx.a_pending", "None", "EvmTx.a_est", "None", "EvmTx.a_tip", "None", "EvmTx.a_price", "None", "EvmTx.a_sign", "false", "EvmTx.a_submit", "false"),
			"s_ret", "77%N", "s_raw", "None", "s_raw_count", "0%N", "s_type", "0%N", "s_sender", coqBytes(nil), "s_signed", coqBytes(nil), "s_est", "None", "s_methods", "[]"))
	}
	return coqApp("CTx", coqRecord("t_id", coqN(uint64(id)), "t_chain", coqBigZ(new(big.Int).SetUint64(in.ChainID)), "t_owner", coqBytes(obs.Owner),
		"t_contract", coqBytes(common.BytesToAddress(in.Contract).Bytes()), "t_steps", coqList(steps)))
}

// ---- generator ------------------------------------------------------------------------------------------------------

func c07Wei(r *rand.Rand) string {
	switch r.Intn(6) {
	case 0:
		return "0"
	case 1:
		return "1"
	case 2:
		return fmt.Sprintf("%d", 1+r.Int63n(1<<40))
	case 3: // above 2^64
		v := new(big.Int).Lsh(big.NewInt(1+r.Int63n(1<<30)), uint(40+r.Intn(40)))
		return v.String()
	default:
		return fmt.Sprintf("%d", 1000000000+r.Int63n(100000000000))
	}
}

func c07TxGenerate(r *rand.Rand) c07TxIn {
	in := c07TxIn{ChainID: []uint64{1, 17864, 31337, 1 << 40, 1<<63 + 5}[r.Intn(5)], Contract: c01Contract(r)}
	n := 2 + r.Intn(5)
	base := int64(0)
	switch r.Intn(4) {
	case 0:
		base = 0
	case 1:
		base = 1 + r.Int63n(50)
	case 2:
		base = 1000 + r.Int63n(40) // around the in-flight window (1024 beyond the confirmed nonce 0)
	default:
		base = r.Int63n(1 << 20)
		if base > 1024 {
			base = r.Int63n(1024)
		}
	}
	accepted := int64(0)
	for i := 0; i < n; i++ {
		st := c07TxStep{Kind: "store", SignOK: true, SubmitOK: true}
		// pending answer: in step with what was accepted, lagging, or jumped ahead (outside transactions)
		st.Pending = base + accepted
		switch r.Intn(8) {
		case 0:
			if st.Pending > 0 {
				st.Pending -= 1 + r.Int63n(st.Pending)
			}
		case 1:
			base += 1 + r.Int63n(5)
			st.Pending = base + accepted
		case 2:
			st.Pending = -1
		}
		st.Est = 21000 + r.Int63n(3000000)
		if r.Intn(10) == 0 {
			st.Est = -1
		}
		st.Tip, st.Price = c07Wei(r), c07Wei(r)
		if r.Intn(12) == 0 {
			st.Tip = ""
		}
		if r.Intn(12) == 0 {
			st.Price = ""
		}
		st.SignOK = r.Intn(12) != 0
		st.SubmitOK = r.Intn(6) != 0
		if !st.SubmitOK {
			st.RefuseText = r.Intn(len(c07RefusalTexts))
			if r.Intn(2) == 0 {
				st.RefuseText = 1 + r.Intn(2) // the texts a well-meant retry is most likely keyed on
			}
		}
		switch r.Intn(5) {
		case 0, 1, 2:
			b := c01GoodBid(r)
			st.Amount, st.BN, st.DS, st.DE, st.TxHash = strings.TrimLeft(b.Amount, "0"), b.BN, b.DS, b.DE, b.TxHash
			st.BidSig, st.CommitSig = make([]byte, 65), make([]byte, 65)
			r.Read(st.BidSig)
			r.Read(st.CommitSig)
			if r.Intn(6) == 0 { // odd lengths: dynamic-bytes padding
				st.BidSig = st.BidSig[:r.Intn(65)]
			}
		case 3:
			st.Kind = "send"
			st.To = c01Contract(r)
			st.Data = make([]byte, r.Intn(80))
			r.Read(st.Data)
			if r.Intn(2) == 0 {
				st.GasPrice = c07Wei(r)
			}
			if r.Intn(2) == 0 {
				st.GasLimit = uint64(21000 + r.Intn(1000000))
			}
			if r.Intn(2) == 0 {
				st.GasFeeCap = c07Wei(r)
			}
			if r.Intn(2) == 0 {
				st.Value = c07Wei(r)
			}
		default:
			st.Kind = "send"
			st.To = c01Contract(r)
			if r.Intn(4) == 0 {
				st.Kind = "send-nil-to"
				st.To = nil
			}
			st.Data = make([]byte, r.Intn(40))
			r.Read(st.Data)
			st.GasLimit = uint64(r.Intn(2)) * 50000
			if r.Intn(3) == 0 {
				st.Value = c07Wei(r)
			}
		}
		// does the model expect this step to be accepted? (only used to steer the next pending answers)
		if st.Pending >= 0 && st.SignOK && st.SubmitOK && st.Tip != "" && (st.Price != "" || st.GasPrice != "") && (st.Est >= 0 || st.GasLimit != 0) {
			accepted++
		}
		in.Steps = append(in.Steps, st)
	}
	return in
}

func init() {
	c07TxGen = func(r *rand.Rand) json.RawMessage {
		b, _ := json.Marshal(c07TxGenerate(r))
		return b
	}
	c07TxRunRaw = func(t testing.TB, raw json.RawMessage) (interface{}, func(id int) string) {
		var in c07TxIn
		if err := json.Unmarshal(raw, &in); err != nil {
			obs := c07TxObs{Problem: "bad input: " + err.Error()}
			return obs, func(id int) string { return c07TxCoq(id, in, obs) }
		}
		obs := c07TxRun(t, in)
		return obs, func(id int) string { return c07TxCoq(id, in, obs) }
	}
}
