package preconfirmation_test

// Driver of properties C01 and C07: the real handleBid (through Streams()[0].Handler) with the real
// preconfsigner and real keys (the provider key wrapped by a recording KeySigner), the real
// providerapi.Service with the real protovalidate validator as BidProcessor (the driver acts as the
// engine over fake gRPC streams), a scripted BidderStore, the real preconfcontract over a recording
// chain-client stub with scripted outcome, and a fake p2p.Stream.

import (
	"context"
	"crypto/ecdsa"
	"encoding/json"
	"errors"
	"fmt"
	"io"
	"log/slog"
	"math/big"
	"math/rand"
	"os"
	"strings"
	"sync"
	"sync/atomic"
	"testing"
	"time"

	"github.com/bufbuild/protovalidate-go"
	"github.com/ethereum/go-ethereum/common"
	"github.com/ethereum/go-ethereum/core/types"
	"github.com/ethereum/go-ethereum/crypto"
	preconfpb "github.com/primevprotocol/mev-commit/gen/go/preconfirmation/v1"
	providerapiv1 "github.com/primevprotocol/mev-commit/gen/go/providerapi/v1"
	preconfcontract "github.com/primevprotocol/mev-commit/pkg/contracts/preconf"
	"github.com/primevprotocol/mev-commit/pkg/evmclient"
	"github.com/primevprotocol/mev-commit/pkg/p2p"
	"github.com/primevprotocol/mev-commit/pkg/preconfirmation"
	providerapi "github.com/primevprotocol/mev-commit/pkg/rpc/provider"
	"github.com/primevprotocol/mev-commit/pkg/signer/preconfsigner"
	"google.golang.org/grpc"
	"google.golang.org/grpc/codes"
	"google.golang.org/grpc/status"
	"google.golang.org/protobuf/proto"
)

// ---- inputs --------------------------------------------------------------------------------------

type c01Bid struct {
	TxHash string
	Amount string
	BN     int64
	DS     int64
	DE     int64
}

type c01Handler struct {
	Role    int    // p2p.PeerType value of the sending peer
	ReadErr bool   // ReadMsg fails
	Bid     c01Bid // signed with the bidder key, then perturbed
	Tamper  string // "", amount, tx, bn, ds, de, digest, otherkey, malleate, v0, v29, nodigest, nosig, shortsig
	Allow   bool // allowance answer for the address that signed the bid (and for every other address but the peer's)
	// the transport peer's EthAddress differs from the bid's signer; AllowPeer is the store's answer for it
	PeerOther bool `json:",omitempty"`
	AllowPeer bool `json:",omitempty"`
	StoreOK bool
	WriteOK bool
	SignErr bool // the node key refuses to sign
}

// Engine: accept | reject | status0 | status3 | silent | no-take | accept-late | accept-twice |
//
//	accept-other | reject-then-accept | unknown-then-accept | equal-digests (two handlers, same bid) |
//	true-late | true-silent | true-early (outer context WITHOUT deadline: only the handler's own 5 s applies)
type c01In struct {
	H        c01Handler
	Engine   string
	Contract []byte // 20 bytes
	// end-to-end case (zz_verif_c01e2e_test.go): a real node.NewNode provider, chain endpoint, engine over
	// the node's gRPC API, a second libp2p peer as sender; H/Engine/Contract are unused then
	E2E *c01E2EIn `json:",omitempty"`
	// Engine "concurrent-store": handler 1 carries H.Bid, handlers 2.. carry Extra; all are accepted together
	// and meet inside the chain client's Send, which answers them in the order Release (handler numbers)
	Extra   []c01Bid `json:",omitempty"`
	Release []int    `json:",omitempty"`
	// class raw-tx of C07 (zz_verif_c07tx_test.go, present only in C07's overlay set): its own input, opaque here
	Tx json.RawMessage `json:",omitempty"`
}

// hooks filled in by zz_verif_c07tx_test.go when that file is part of the overlay set
var (
	c07TxGen func(r *rand.Rand) json.RawMessage
	c07TxRunRaw func(t testing.TB, raw json.RawMessage) (obs interface{}, coq func(id int) string)
)

// ---- observations -----------------------------------------------------------------------------------

type c01Send struct {
	To   []byte
	Data []byte
	OK   bool
	Seq  int // rank of this submission among the successful ones, in order of completion (0: it failed)
}
type c01Write struct {
	H           int
	C           *preconfpb.PreConfirmation
	SendsOKPrev int
}
type c01Obs struct {
	Rets    [][2]int
	Signed  [][]byte
	Sends   []c01Send
	Writes  []c01Write
	Pending int
	Asked   [][]byte // addresses the allowance store was asked about, in order
	Events  []string // Coq terms of the model events of this run
	// timed cases (outer context without deadline): the decision events EventsAfter were issued TimedAt ms
	// after the handler started; the checker orders them against the 5 s literal of Generated.v
	TimedAt     int // -1: not a timed case
	EventsAfter []string
	Inconclusive bool  // the schedule could not be realised (stalled runner): the case is dropped, not judged
	Mode        int    // 0: everything observed; 1: end-to-end (transactions and reply frame only)
	Contract    []byte `json:",omitempty"` // end-to-end: the configured contract
	Note        string `json:",omitempty"`
}

// ---- fakes ------------------------------------------------------------------------------------------

type c01Key struct {
	key    *ecdsa.PrivateKey
	mu     sync.Mutex
	signed [][]byte
	fail   bool
	record bool
}

func (k *c01Key) SignHash(h []byte) ([]byte, error) {
	if k.record {
		k.mu.Lock()
		k.signed = append(k.signed, append([]byte{}, h...))
		k.mu.Unlock()
	}
	if k.fail {
		return nil, errors.New("verif: signer refuses")
	}
	return crypto.Sign(h, k.key)
}
func (k *c01Key) SignTx(tx *types.Transaction, _ *big.Int) (*types.Transaction, error) { return tx, nil }
func (k *c01Key) GetAddress() common.Address                                           { return crypto.PubkeyToAddress(k.key.PublicKey) }
func (k *c01Key) GetPrivateKey() (*ecdsa.PrivateKey, error)                            { return k.key, nil }
func (k *c01Key) ZeroPrivateKey(*ecdsa.PrivateKey)                                     {}
func (k *c01Key) String() string                                                       { return "verif-key" }

// the allowance store answers per address and records which addresses it was asked about
type c01Store struct {
	allow     bool
	peer      common.Address
	peerOther bool
	allowPeer bool
	mu        sync.Mutex
	asked     [][]byte
}

func (s *c01Store) CheckBidderAllowance(_ context.Context, a common.Address) bool {
	s.mu.Lock()
	s.asked = append(s.asked, append([]byte{}, a.Bytes()...))
	s.mu.Unlock()
	if s.peerOther && a == s.peer {
		return s.allowPeer
	}
	return s.allow
}

type c01Evm struct {
	mu     sync.Mutex
	sends  []c01Send
	ok     bool
	okRank int
	// concurrent-store: every Send parks at ENTRY, before it reads any field of the request (as the real
	// EvmClient does: it takes its mutex and asks the node for the nonce first), announces itself on
	// arrived and continues when its turn channel is closed
	park    bool
	arrived chan chan struct{}
}

func (e *c01Evm) Send(_ context.Context, tx *evmclient.TxRequest) (common.Hash, error) {
	if e.park {
		turn := make(chan struct{})
		e.arrived <- turn
		select {
		case <-turn:
		case <-time.After(20 * time.Second):
		}
	}
	e.mu.Lock()
	defer e.mu.Unlock()
	var to []byte
	if tx.To != nil {
		to = append([]byte{}, tx.To.Bytes()...)
	}
	seq := 0
	if e.ok {
		e.okRank++
		seq = e.okRank
	}
	e.sends = append(e.sends, c01Send{To: to, Data: append([]byte{}, tx.CallData...), OK: e.ok, Seq: seq})
	if !e.ok {
		return common.Hash{}, errors.New("verif: chain client refuses")
	}
	return common.HexToHash("0x01"), nil
}
func (e *c01Evm) WaitForReceipt(context.Context, common.Hash) (*types.Receipt, error) {
	return nil, errors.New("unused")
}
func (e *c01Evm) Call(context.Context, *evmclient.TxRequest) ([]byte, error) {
	return nil, errors.New("unused")
}
func (e *c01Evm) CancelTx(context.Context, common.Hash) (common.Hash, error) {
	return common.Hash{}, errors.New("unused")
}
func (e *c01Evm) okSends() int {
	e.mu.Lock()
	defer e.mu.Unlock()
	n := 0
	for _, s := range e.sends {
		if s.OK {
			n++
		}
	}
	return n
}

var errC01Read = errors.New("verif: read error")
var errC01Write = errors.New("verif: write error")

type c01Stream struct {
	h       int
	bid     *preconfpb.Bid
	readErr bool
	writeOK bool
	evm     *c01Evm
	mu      *sync.Mutex
	writes  *[]c01Write
}

func (s *c01Stream) ReadMsg(_ context.Context, m proto.Message) error {
	if s.readErr {
		return errC01Read
	}
	proto.Merge(m, s.bid)
	return nil
}
func (s *c01Stream) WriteMsg(_ context.Context, m proto.Message) error {
	c, _ := proto.Clone(m).(*preconfpb.PreConfirmation)
	s.mu.Lock()
	*s.writes = append(*s.writes, c01Write{H: s.h, C: c, SendsOKPrev: s.evm.okSends()})
	s.mu.Unlock()
	if !s.writeOK {
		return errC01Write
	}
	return nil
}
func (s *c01Stream) Reset() error { return nil }
func (s *c01Stream) Close() error { return nil }

type c01RecvStream struct {
	grpc.ServerStream
	ctx context.Context
	got chan *providerapiv1.Bid
}

func (s *c01RecvStream) Context() context.Context { return s.ctx }
func (s *c01RecvStream) Send(b *providerapiv1.Bid) error {
	s.got <- b
	return io.EOF
}

type c01DecMsg struct {
	resp *providerapiv1.BidResponse
	err  error
}
type c01DecStream struct {
	grpc.ServerStream
	idle chan struct{}
	in   chan c01DecMsg
	ret  chan error
	dead bool
}

func (s *c01DecStream) Context() context.Context                       { return context.Background() }
func (s *c01DecStream) SendAndClose(*providerapiv1.EmptyMessage) error { return nil }
func (s *c01DecStream) Recv() (*providerapiv1.BidResponse, error) {
	s.idle <- struct{}{}
	m := <-s.in
	return m.resp, m.err
}

var (
	c01Once      sync.Once
	c01Validator *protovalidate.Validator
	c01BidderKey *ecdsa.PrivateKey
	c01OtherKey  *ecdsa.PrivateKey
	c01PeerKey   *ecdsa.PrivateKey
	c01NodeKey   *ecdsa.PrivateKey
)

func c01Setup(t testing.TB) {
	c01Once.Do(func() {
		v, err := protovalidate.New()
		if err != nil {
			t.Fatalf("validator: %v", err)
		}
		c01Validator = v
		mk := func(hexkey string) *ecdsa.PrivateKey {
			k, err := crypto.HexToECDSA(hexkey)
			if err != nil {
				t.Fatalf("key: %v", err)
			}
			return k
		}
		c01BidderKey = mk("b71c71a67e1177ad4e901695e1b4b9ee17ae16c6668d313eac2f96dbcda3f291")
		c01OtherKey = mk("4c0883a69102937d6231471b5dbb6204fe5129617082792ae468d01a3f362318")
		c01PeerKey = mk("2a871d0798f97d79848a013d4936a73bf4cc922c825d33c1cf7073dff6d409c6")
		c01NodeKey = mk("8f2a55949038a9610f50fb23b5883af3b4ecb3c3bb792cbcefbd1542c692be63")
	})
}

var c01CurveN, _ = new(big.Int).SetString("fffffffffffffffffffffffffffffffebaaedce6af48a03bbfd25e8cd0364141", 16)

// the signed bid as it arrives, after the perturbation named by Tamper
func c01MakeBid(h c01Handler) *preconfpb.Bid {
	key := c01BidderKey
	if h.Tamper == "otherkey" {
		key = c01OtherKey
	}
	sg := preconfsigner.NewSigner(&c01Key{key: key})
	bid, err := sg.ConstructSignedBid(h.Bid.TxHash, h.Bid.Amount, h.Bid.BN, h.Bid.DS, h.Bid.DE)
	if err != nil || bid == nil {
		// not signable (empty fields, amount outside the hashable range): send it unsigned
		return &preconfpb.Bid{TxHash: h.Bid.TxHash, BidAmount: h.Bid.Amount, BlockNumber: h.Bid.BN,
			DecayStartTimestamp: h.Bid.DS, DecayEndTimestamp: h.Bid.DE, Digest: []byte{1}, Signature: make([]byte, 65)}
	}
	switch h.Tamper {
	case "amount":
		bid.BidAmount = bid.BidAmount + "0"
	case "tx":
		bid.TxHash = bid.TxHash[:len(bid.TxHash)-1] + map[bool]string{true: "1", false: "0"}[bid.TxHash[len(bid.TxHash)-1] == '0']
	case "bn":
		bid.BlockNumber++
	case "ds":
		bid.DecayStartTimestamp++
	case "de":
		bid.DecayEndTimestamp++
	case "digest":
		bid.Digest = append([]byte{}, bid.Digest...)
		bid.Digest[5] ^= 1
	case "otherkey":
		// digest is right, the signature recovers to another address: still a valid bid of that other signer
	case "malleate":
		s := new(big.Int).SetBytes(bid.Signature[32:64])
		s.Sub(c01CurveN, s)
		copy(bid.Signature[32:64], common.LeftPadBytes(s.Bytes(), 32))
		bid.Signature[64] ^= 1 // 27 <-> 28
	case "v0":
		bid.Signature[64] -= 27
	case "v29":
		bid.Signature[64] = 29
	case "nodigest":
		bid.Digest = nil
	case "nosig":
		bid.Signature = nil
	case "shortsig":
		bid.Signature = bid.Signature[:64]
	}
	return bid
}

func c01Code(err error, panicked bool) int {
	switch {
	case panicked:
		return 9
	case err == nil:
		return 0
	case errors.Is(err, preconfirmation.ErrInvalidBidderTypeForBid):
		return 1
	case errors.Is(err, errC01Read):
		return 2
	case errors.Is(err, errC01Write):
		return 8
	case errors.Is(err, context.DeadlineExceeded) || errors.Is(err, context.Canceled):
		return 6
	}
	switch status.Code(err) {
	case codes.InvalidArgument:
		return 3
	case codes.FailedPrecondition:
		return 4
	case codes.Internal:
		return 7
	}
	return 5
}

func c01CoqBid(b *preconfpb.Bid) string {
	return coqRecord("b_tx", coqStr(b.TxHash), "b_amt", coqStr(b.BidAmount), "b_bn", coqZ(b.BlockNumber),
		"b_ds", coqZ(b.DecayStartTimestamp), "b_de", coqZ(b.DecayEndTimestamp), "b_dig", coqBytes(b.Digest),
		"b_sig", coqBytes(b.Signature))
}

func c01CoqPreconf(c *preconfpb.PreConfirmation) string {
	b := c.Bid
	if b == nil {
		b = &preconfpb.Bid{}
	}
	return coqRecord("c_bid", c01CoqBid(b), "c_dig", coqBytes(c.Digest), "c_sig", coqBytes(c.Signature))
}

// ---- one end-to-end case, projected to the same observation and event vocabulary ----------------------------

func c01RunE2ECase(t testing.TB, e2 c01E2EIn, slow int) c01Obs {
	c01Setup(t)
	o := c01RunE2E(t, e2, slow)
	obs := c01Obs{Rets: [][2]int{}, Signed: [][]byte{}, Sends: []c01Send{}, Writes: []c01Write{}, Events: []string{},
		TimedAt: -1, EventsAfter: []string{}, Mode: 1, Contract: o.PreconfContract, Note: o.Err}
	if o.Err != "" || o.SentBid == nil {
		obs.Mode = 2 // the harness itself failed (ports, start-up): reported as a mismatch, never as a violation
		return obs
	}
	ev := func(s string) { obs.Events = append(obs.Events, s) }
	bid := o.SentBid
	plain := preconfsigner.NewSigner(&c01Key{key: c01NodeKey})
	verify := "VErr"
	if a, err := plain.VerifyBid(proto.Clone(bid).(*preconfpb.Bid)); err == nil {
		verify = coqApp("VOk", coqBytes(a.Bytes()))
	}
	kterm := "KFail"
	if c, err := plain.ConstructPreConfirmation(proto.Clone(bid).(*preconfpb.Bid)); err == nil {
		kterm = coqApp("KOk", coqBytes(c.Digest), coqBytes(c.Signature))
	}
	role := map[string]int{"bidder": int(p2p.PeerTypeBidder), "provider": int(p2p.PeerTypeProvider)}[e2.Role]
	ev(coqApp("Arrive", "1%N", coqZ(int64(role)),
		coqRecord("o_read", "(Some "+c01CoqBid(bid)+")", "o_verify", verify, "o_allow", coqBool(e2.Allow))))
	if len(o.EngineGot) > 0 {
		ev(coqApp("EngineTake", "1%N"))
	}
	st := map[string]int64{"accept": 1, "reject": 2}[e2.Engine]
	if st != 0 {
		ev(coqApp("Lookup", "0%N", coqBytes(bid.Digest), coqZ(st)))
		ev(coqApp("Callback", "0%N"))
		ev(coqApp("TakeDecision", "1%N", kterm))
		ev(coqApp("StoreRes", "1%N", coqBool(e2.StoreOK && e2.StoreMode == "")))
		ev(coqApp("WriteRes", "1%N", "true"))
	}
	ev(coqApp("DeadlineFire", "1%N"))
	obs.Sends = append(obs.Sends, o.RawTxs...)
	if o.Reply != nil {
		obs.Writes = append(obs.Writes, c01Write{H: 1, C: o.Reply, SendsOKPrev: o.RawTxsBeforeReply})
	}
	return obs
}

// ---- several handlers accepted together, meeting inside the chain client ------------------------------------------

func c01RunConcurrent(t testing.TB, in c01In, slow int) c01Obs {
	c01Setup(t)
	logger := slog.New(slog.NewTextHandler(io.Discard, nil))
	ws := slow
	if ws > 2 {
		ws = 2
	}
	wait := time.Duration(ws) * 7 * time.Second
	obs := c01Obs{Rets: [][2]int{}, Signed: [][]byte{}, Sends: []c01Send{}, Writes: []c01Write{}, Events: []string{},
		TimedAt: -1, EventsAfter: []string{}}
	ev := func(s string) { obs.Events = append(obs.Events, s) }
	var wmu sync.Mutex

	node := &c01Key{key: c01NodeKey, record: true}
	signerAddr := crypto.PubkeyToAddress(c01BidderKey.PublicKey)
	store := &c01Store{allow: true, peer: signerAddr}
	evm := &c01Evm{ok: in.H.StoreOK, park: true, arrived: make(chan chan struct{}, 8)}
	api := providerapi.NewService(logger, nil, common.Address{}, nil, c01Validator)
	da := preconfcontract.New(common.BytesToAddress(in.Contract), evm, logger)
	p := preconfirmation.New(nil, nil, preconfsigner.NewSigner(node), store, api, da, logger)
	handler := p.Streams()[0].Handler
	plain := preconfsigner.NewSigner(&c01Key{key: c01NodeKey})

	specs := append([]c01Bid{in.H.Bid}, in.Extra...)
	n := len(specs)
	bids := make([]*preconfpb.Bid, n+1)
	kterms := make([]string, n+1)
	type hres struct{ h, code int }
	done := make(chan hres, 8)
	rets := map[int]int{}
	dec := &c01DecStream{idle: make(chan struct{}, 1), in: make(chan c01DecMsg), ret: make(chan error, 1)}
	go func() { dec.ret <- api.SendProcessedBids(dec) }()
	<-dec.idle
	ok := true
	for h := 1; h <= n && ok; h++ {
		hh := in.H
		hh.Bid, hh.Tamper = specs[h-1], ""
		bid := c01MakeBid(hh)
		bids[h] = bid
		verify := "VErr"
		if a, err := plain.VerifyBid(proto.Clone(bid).(*preconfpb.Bid)); err == nil {
			verify = coqApp("VOk", coqBytes(a.Bytes()))
		}
		kterms[h] = "KFail"
		if c, err := plain.ConstructPreConfirmation(proto.Clone(bid).(*preconfpb.Bid)); err == nil {
			kterms[h] = coqApp("KOk", coqBytes(c.Digest), coqBytes(c.Signature))
		}
		ev(coqApp("Arrive", coqN(uint64(h)), coqZ(int64(p2p.PeerTypeBidder)),
			coqRecord("o_read", "(Some "+c01CoqBid(bid)+")", "o_verify", verify, "o_allow", "true")))
		ctx, cancel := context.WithTimeout(context.Background(), 20*time.Second)
		st := &c01Stream{h: h, bid: bid, writeOK: in.H.WriteOK, evm: evm, mu: &wmu, writes: &obs.Writes}
		go func(h int) {
			defer cancel()
			code := 0
			func() {
				defer func() {
					if r := recover(); r != nil {
						code = 9
					}
				}()
				code = c01Code(handler(ctx, p2p.Peer{EthAddress: signerAddr, Type: p2p.PeerTypeBidder}, st), false)
			}()
			done <- hres{h, code}
		}(h)
		// the engine takes this bid
		rctx, rcancel := context.WithCancel(context.Background())
		rs := &c01RecvStream{ctx: rctx, got: make(chan *providerapiv1.Bid, 2)}
		rdone := make(chan error, 1)
		go func() { rdone <- api.ReceiveBids(&providerapiv1.EmptyMessage{}, rs) }()
		select {
		case <-rs.got:
			ev(coqApp("EngineTake", coqN(uint64(h))))
		case r := <-done:
			rets[r.h] = r.code
			ok = false
		case <-time.After(wait):
			ok = false
		}
		rcancel()
		<-rdone
	}
	// all accepted; every handler runs into Send and parks there
	turns := map[int]chan struct{}{}
	if ok {
		for h := 1; h <= n; h++ {
			ev(coqApp("Lookup", "0%N", coqBytes(bids[h].Digest), "(1)%Z"))
			ev(coqApp("Callback", "0%N"))
			dec.in <- c01DecMsg{resp: &providerapiv1.BidResponse{BidDigest: bids[h].Digest, Status: 1}}
			select {
			case <-dec.idle:
			case <-time.After(wait):
				ok = false
			}
			// handlers reach Send one after the other, so that the turn channels can be told apart
			select {
			case turn := <-evm.arrived:
				turns[h] = turn
			case <-time.After(wait):
				ok = false
			}
		}
	}
	order := in.Release
	if len(order) != n {
		order = nil
		for h := n; h >= 1; h-- {
			order = append(order, h)
		}
	}
	// the model's TakeDecision (status received, commitment built, Send called) in the order in which the
	// chain client gets to read the requests; then each Send returns and its handler writes
	for h := 1; h <= n; h++ {
		ev(coqApp("TakeDecision", coqN(uint64(h)), kterms[h]))
	}
	released := []int{}
	for _, h := range order {
		if turn, has := turns[h]; has {
			released = append(released, h)
			close(turn)
			select {
			case r := <-done:
				rets[r.h] = r.code
			case <-time.After(wait):
			}
		}
		ev(coqApp("StoreRes", coqN(uint64(h)), coqBool(in.H.StoreOK)))
		ev(coqApp("WriteRes", coqN(uint64(h)), coqBool(in.H.WriteOK)))
	}
	for _, turn := range turns { // safety net: nobody stays parked
		select {
		case <-turn:
		default:
			func() { defer func() { recover() }(); close(turn) }()
		}
	}
	select {
	case dec.in <- c01DecMsg{err: io.EOF}:
	case <-time.After(time.Second):
	}
	for h := 1; h <= n; h++ {
		if c, has := rets[h]; has {
			obs.Rets = append(obs.Rets, [2]int{h, c})
		} else {
			obs.Rets = append(obs.Rets, [2]int{h, 98})
		}
	}
	node.mu.Lock()
	obs.Signed = append(obs.Signed, node.signed...)
	node.mu.Unlock()
	// the k-th request the chain client read belongs to the k-th released handler; report the transactions in
	// the order in which the handlers called Send (1..n), which is the order of the model's HSend effects
	evm.mu.Lock()
	if len(evm.sends) == len(released) {
		for h := 1; h <= n; h++ {
			for k, rh := range released {
				if rh == h {
					obs.Sends = append(obs.Sends, evm.sends[k])
				}
			}
		}
	} else {
		obs.Sends = append(obs.Sends, evm.sends...)
	}
	evm.mu.Unlock()
	store.mu.Lock()
	obs.Asked = append([][]byte{}, store.asked...)
	store.mu.Unlock()
	return obs
}

// ---- one case -----------------------------------------------------------------------------------------

func c01Run(t testing.TB, in c01In, slow int) c01Obs {
	if in.E2E != nil {
		return c01RunE2ECase(t, *in.E2E, slow)
	}
	if in.Engine == "concurrent-store" {
		return c01RunConcurrent(t, in, slow)
	}
	c01Setup(t)
	logger := slog.New(slog.NewTextHandler(io.Discard, nil))
	short := time.Duration(slow) * 250 * time.Millisecond // deadline of cases that must time out
	long := 20 * time.Second
	// wall-clock limit of one blocking step of the driver (longer than the handler's own 5 s deadline, so a
	// handler that ends by that deadline is seen returning; anything slower is observed as a hang, code 98)
	ws := slow
	if ws > 2 {
		ws = 2
	}
	wait := time.Duration(ws) * 7 * time.Second

	node := &c01Key{key: c01NodeKey, record: true, fail: in.H.SignErr}
	peerAddr := crypto.PubkeyToAddress(c01BidderKey.PublicKey)
	if in.H.PeerOther {
		peerAddr = crypto.PubkeyToAddress(c01PeerKey.PublicKey)
	}
	store := &c01Store{allow: in.H.Allow, peer: peerAddr, peerOther: in.H.PeerOther, allowPeer: in.H.AllowPeer}
	evm := &c01Evm{ok: in.H.StoreOK}
	api := providerapi.NewService(logger, nil, common.Address{}, nil, c01Validator)
	da := preconfcontract.New(common.BytesToAddress(in.Contract), evm, logger)
	p := preconfirmation.New(nil, nil, preconfsigner.NewSigner(node), store, api, da, logger)
	handler := p.Streams()[0].Handler

	bid := c01MakeBid(in.H)
	digest := append([]byte{}, bid.Digest...)
	obs := c01Obs{Rets: [][2]int{}, Signed: [][]byte{}, Sends: []c01Send{}, Writes: []c01Write{}, Events: []string{},
		TimedAt: -1, EventsAfter: []string{}}
	var wmu sync.Mutex
	evSink := &obs.Events
	ev := func(s string) { *evSink = append(*evSink, s) }

	// oracle answers, from the real signer on the very message
	plain := preconfsigner.NewSigner(&c01Key{key: c01NodeKey})
	verify := "VErr"
	if a, err := plain.VerifyBid(proto.Clone(bid).(*preconfpb.Bid)); err == nil {
		verify = coqApp("VOk", coqBytes(a.Bytes()))
	}
	kterm := "KFail"
	if c, err := plain.ConstructPreConfirmation(proto.Clone(bid).(*preconfpb.Bid)); err == nil {
		if in.H.SignErr {
			kterm = coqApp("KSignFail", coqBytes(c.Digest))
		} else {
			kterm = coqApp("KOk", coqBytes(c.Digest), coqBytes(c.Signature))
		}
	}
	arrive := func(h int) string {
		read := "None"
		if !in.H.ReadErr {
			read = "(Some " + c01CoqBid(bid) + ")"
		}
		return coqApp("Arrive", coqN(uint64(h)), coqZ(int64(in.H.Role)),
			coqRecord("o_read", read, "o_verify", verify, "o_allow", coqBool(in.H.Allow)))
	}

	type hres struct {
		h    int
		code int
	}
	done := make(chan hres, 4)
	var outerCancel context.CancelFunc
	startHandler := func(h int, deadline time.Duration) {
		var ctx context.Context
		var cancel context.CancelFunc
		if deadline > 0 {
			ctx, cancel = context.WithTimeout(context.Background(), deadline)
		} else { // as in production: the stream wrapper's context has no deadline
			ctx, cancel = context.WithCancel(context.Background())
			outerCancel = cancel
		}
		st := &c01Stream{h: h, bid: bid, readErr: in.H.ReadErr, writeOK: in.H.WriteOK, evm: evm, mu: &wmu, writes: &obs.Writes}
		go func() {
			defer cancel()
			code := 0
			func() {
				defer func() {
					if r := recover(); r != nil {
						code = c01Code(nil, true)
					}
				}()
				err := handler(ctx, p2p.Peer{EthAddress: peerAddr, Type: p2p.PeerType(in.H.Role)}, st)
				code = c01Code(err, false)
			}()
			done <- hres{h, code}
		}()
	}
	rets := map[int]int{}
	waitDone := func() bool {
		select {
		case r := <-done:
			rets[r.h] = r.code
			return true
		case <-time.After(wait):
			return false
		}
	}
	// engine: one-shot receive; returns true when a bid was taken
	takeOne := func() bool {
		rctx, rcancel := context.WithCancel(context.Background())
		defer rcancel()
		rs := &c01RecvStream{ctx: rctx, got: make(chan *providerapiv1.Bid, 2)}
		rdone := make(chan error, 1)
		go func() { rdone <- api.ReceiveBids(&providerapiv1.EmptyMessage{}, rs) }()
		for {
			select {
			case <-rs.got:
				<-rdone
				return true
			case r := <-done:
				rets[r.h] = r.code
				rcancel()
				<-rdone
				// the handler may have been served in the same instant
				select {
				case <-rs.got:
					return true
				default:
					return false
				}
			case <-time.After(wait):
				rcancel()
				<-rdone
				return false
			}
		}
	}
	dec := &c01DecStream{idle: make(chan struct{}, 1), in: make(chan c01DecMsg), ret: make(chan error, 1)}
	go func() { dec.ret <- api.SendProcessedBids(dec) }()
	<-dec.idle
	feed := func(d []byte, st int32) {
		ev(coqApp("Lookup", "0%N", coqBytes(d), coqZ(int64(st))))
		ev(coqApp("Callback", "0%N"))
		if dec.dead {
			return
		}
		dec.in <- c01DecMsg{resp: &providerapiv1.BidResponse{BidDigest: d, Status: providerapiv1.BidResponse_Status(st)}}
		select {
		case <-dec.idle:
		case <-dec.ret:
			dec.dead = true
		case <-time.After(wait):
			dec.dead = true
		}
	}
	progress := func(h int) { // the handler's reaction to a decision, in model events
		ev(coqApp("TakeDecision", coqN(uint64(h)), kterm))
		ev(coqApp("StoreRes", coqN(uint64(h)), coqBool(in.H.StoreOK)))
		ev(coqApp("WriteRes", coqN(uint64(h)), coqBool(in.H.WriteOK)))
	}
	other := make([]byte, 32)
	for i := range other {
		other[i] = byte(0xA0 + i)
	}

	switch in.Engine {
	case "true-late", "true-silent", "true-early":
		ev(arrive(1))
		t0 := time.Now() // before the handler starts: a LOWER bound of the start of its 5 s context
		startHandler(1, 0)
		taken := takeOne()
		tTaken := time.Now() // the bid reached the engine after WithTimeout: an UPPER bound of that start
		if taken {
			ev(coqApp("EngineTake", "1%N"))
		} else {
			obs.Inconclusive = true // the hand-off itself did not happen in time: nothing to judge
		}
		at := map[string]int{"true-late": 5500, "true-early": 2000, "true-silent": 1000000000}[in.Engine]
		obs.TimedAt = at
		evSink = &obs.EventsAfter
		// late: 5.5 s after the upper bound (the handler's deadline has certainly passed by 0.5 s);
		// early: 2 s after the lower bound (certainly inside the 5 s, unless the runner stalled: see below)
		feedAt := tTaken.Add(time.Duration(at) * time.Millisecond)
		if in.Engine == "true-early" {
			feedAt = t0.Add(time.Duration(at) * time.Millisecond)
		}
		if in.Engine != "true-silent" {
			if _, finished := rets[1]; !finished {
				// keep collecting the handler's return while sleeping
				select {
				case r := <-done:
					rets[r.h] = r.code
					time.Sleep(time.Until(feedAt))
				case <-time.After(time.Until(feedAt)):
				}
			}
			if in.Engine == "true-early" && time.Since(t0) > 4*time.Second {
				obs.Inconclusive = true // stalled runner: the decision can no longer be placed before the deadline
			}
			feed(digest, 1)
			progress(1)
		}
		// the handler must have returned by its own deadline (5 s after its start, at the latest 5 s after
		// tTaken) plus a margin
		if _, finished := rets[1]; !finished {
			select {
			case r := <-done:
				rets[r.h] = r.code
			case <-time.After(time.Until(tTaken.Add(7500 * time.Millisecond))):
				rets[1] = 97 // still running 2.5 s after the deadline
				outerCancel()
				select {
				case <-done:
				case <-time.After(wait):
				}
			}
		}
		if outerCancel != nil {
			outerCancel()
		}
	case "no-take":
		ev(arrive(1))
		startHandler(1, short)
		waitDone()
		ev(coqApp("Abandon", "1%N"))
	case "equal-digests":
		ev(arrive(1))
		startHandler(1, 4*short)
		t1 := takeOne()
		if t1 {
			ev(coqApp("EngineTake", "1%N"))
		}
		ev(arrive(2))
		startHandler(2, long)
		t2 := false
		if _, finished := rets[1]; !finished || t1 {
			t2 = takeOne()
		}
		if t2 {
			ev(coqApp("EngineTake", "2%N"))
		}
		feed(digest, 1)
		progress(2)
		progress(1)
		for len(rets) < 2 {
			if !waitDone() {
				break
			}
		}
		ev(coqApp("DeadlineFire", "1%N"))
		ev(coqApp("DeadlineFire", "2%N"))
		feed(digest, 1)
	default:
		dl := long
		switch in.Engine {
		case "status0", "status3", "silent", "accept-late", "accept-other":
			dl = short
		}
		ev(arrive(1))
		startHandler(1, dl)
		taken := takeOne()
		if taken {
			ev(coqApp("EngineTake", "1%N"))
		}
		_, finished := rets[1]
		switch in.Engine {
		case "accept":
			feed(digest, 1)
			progress(1)
		case "reject":
			feed(digest, 2)
			progress(1)
		case "status0":
			feed(digest, 0)
			progress(1)
		case "status3":
			feed(digest, 3)
			progress(1)
		case "silent":
		case "accept-other":
			feed(other, 1)
			progress(1)
		case "accept-late":
			if !finished {
				waitDone()
				finished = true
			}
			ev(coqApp("DeadlineFire", "1%N"))
			feed(digest, 1)
			progress(1)
		case "accept-twice":
			feed(digest, 1)
			progress(1)
			if !finished {
				waitDone()
				finished = true
			}
			feed(digest, 1)
			progress(1)
		case "reject-then-accept":
			feed(digest, 2)
			progress(1)
			if !finished {
				waitDone()
				finished = true
			}
			feed(digest, 1)
			progress(1)
		case "unknown-then-accept":
			feed(other, 1)
			feed([]byte{}, 2)
			feed(digest, 1)
			progress(1)
		}
		if _, ok := rets[1]; !ok {
			waitDone()
		}
		ev(coqApp("DeadlineFire", "1%N"))
	}
	if !dec.dead {
		select {
		case dec.in <- c01DecMsg{err: io.EOF}:
		case <-time.After(time.Second):
		}
	}
	for _, h := range []int{1, 2} {
		if c, ok := rets[h]; ok {
			obs.Rets = append(obs.Rets, [2]int{h, c})
		} else if h == 1 || in.Engine == "equal-digests" {
			obs.Rets = append(obs.Rets, [2]int{h, 98}) // did not return: shows as a mismatch
		}
	}
	node.mu.Lock()
	obs.Signed = append(obs.Signed, node.signed...)
	node.mu.Unlock()
	evm.mu.Lock()
	obs.Sends = append(obs.Sends, evm.sends...)
	evm.mu.Unlock()
	obs.Pending = c01PendingOf(api)
	store.mu.Lock()
	obs.Asked = append([][]byte{}, store.asked...)
	store.mu.Unlock()
	return obs
}

// number of entries left in the service's map, observed through its behaviour: the service exports no
// accessor, so the external driver reports -1 (not compared) -- see c01Coq
func c01PendingOf(*providerapi.Service) int { return -1 }

func c01Coq(id int, in c01In, obs c01Obs) string {
	rets := []string{}
	for _, r := range obs.Rets {
		rets = append(rets, coqPair(coqN(uint64(r[0])), coqN(uint64(r[1]))))
	}
	signed := []string{}
	for _, d := range obs.Signed {
		signed = append(signed, coqBytes(d))
	}
	sends := []string{}
	seqs := []string{}
	for _, s := range obs.Sends {
		sends = append(sends, "("+coqBytes(s.To)+", "+coqBytes(s.Data)+", "+coqBool(s.OK)+")")
		seqs = append(seqs, coqN(uint64(s.Seq)))
	}
	writes := []string{}
	for _, w := range obs.Writes {
		writes = append(writes, coqRecord("wo_h", coqN(uint64(w.H)), "wo_c", c01CoqPreconf(w.C),
			"wo_sends_ok_before", coqN(uint64(w.SendsOKPrev))))
	}
	asked := []string{}
	for _, a := range obs.Asked {
		asked = append(asked, coqBytes(a))
	}
	timed := "None"
	if obs.TimedAt >= 0 {
		timed = "(Some " + coqN(uint64(obs.TimedAt)) + ")"
	}
	contract := in.Contract
	if obs.Mode != 0 {
		contract = obs.Contract
	}
	return coqRecord("id", coqN(uint64(id)), "mode", coqN(uint64(obs.Mode)), "contract", coqBytes(contract), "evs", coqList(obs.Events),
		"timed_at", timed, "evs_after", coqList(obs.EventsAfter),
		"ob", coqRecord("o_rets", coqList(rets), "o_signed", coqList(signed), "o_sends", coqList(sends), "o_send_seq", coqList(seqs),
			"o_writes", coqList(writes), "o_asked", coqList(asked), "o_pending", "0%N"))
}

// ---- generators -------------------------------------------------------------------------------------------

const c01Hex = "0123456789abcdefABCDEF" // both cases: the format rule allows them and the signature covers the exact spelling

func c01Hash(r *rand.Rand) string {
	b := make([]byte, 64)
	for i := range b {
		b[i] = c01Hex[r.Intn(len(c01Hex))]
	}
	return string(b)
}

func c01GoodBid(r *rand.Rand) c01Bid {
	// bundle sizes: mostly small; around 8 / 16 / 64 and a large one now and then (the engine bid, the
	// commitment and the calldata all carry the whole list)
	n := 1 + r.Intn(3)
	switch x := r.Intn(120); {
	case x < 36:
		n = []int{2, 8, 9, 10, 17}[r.Intn(5)]
	case x < 39:
		n = 64
	case x < 41:
		n = 200
	}
	hs := make([]string, n)
	for i := range hs {
		hs[i] = c01Hash(r)
	}
	amts := []string{"1", "2", "1000000000000000000", "9223372036854775807", "9223372036854775808",
		"18446744073709551615", "12345678901234567890", "0042"}
	amt := amts[r.Intn(len(amts))]
	if r.Intn(3) == 0 {
		amt = fmt.Sprintf("%d", r.Uint64()|1)
	}
	// distinct values in the three same-typed slots
	bn := 1 + r.Int63n(1<<40)
	return c01Bid{TxHash: strings.Join(hs, ","), Amount: amt, BN: bn, DS: bn + 1 + r.Int63n(1<<41), DE: bn + (1 << 42) + r.Int63n(1<<41)}
}

func c01FormatBreak(r *rand.Rand, b c01Bid) c01Bid {
	switch r.Intn(11) {
	case 0:
		b.Amount = "0"
	case 1:
		b.Amount = "18446744073709551616"
	case 2:
		b.Amount = []string{"+5", "-1", "1_0", "12a", " 1"}[r.Intn(5)]
	case 3:
		b.Amount = "340282366920938463463374607431768211456"
	case 4:
		b.TxHash = b.TxHash[:63]
	case 5:
		b.TxHash = b.TxHash + "a"
	case 6:
		b.TxHash = "z" + b.TxHash[1:]
	case 7:
		b.TxHash = b.TxHash + ","
	case 8:
		b.BN = []int64{-1, -1 << 62}[r.Intn(2)]
	case 9:
		b.DS = []int64{0, -5}[r.Intn(2)]
	default:
		b.DE = []int64{0, -5}[r.Intn(2)]
	}
	return b
}

var c01Engines = []string{"accept", "accept", "accept", "reject", "status0", "status3", "silent", "no-take",
	"accept-late", "accept-twice", "accept-other", "reject-then-accept", "unknown-then-accept", "equal-digests"}
var c01Tampers = []string{"amount", "tx", "bn", "ds", "de", "digest", "otherkey", "malleate", "v0", "v29", "nodigest", "nosig", "shortsig"}

func c01Contract(r *rand.Rand) []byte {
	b := make([]byte, 20)
	r.Read(b)
	return b
}

func c01Generate(r *rand.Rand, class string) c01In {
	h := c01Handler{Role: int(p2p.PeerTypeBidder), Bid: c01GoodBid(r), Allow: true, StoreOK: true, WriteOK: true}
	in := c01In{H: h, Engine: "accept", Contract: c01Contract(r)}
	switch class {
	case "accepted":
	case "role":
		in.H.Role = []int{int(p2p.PeerTypeProvider), int(p2p.PeerTypeBootnode), -1, 3}[r.Intn(4)]
	case "tamper":
		in.H.Tamper = c01Tampers[r.Intn(len(c01Tampers))]
	case "allowance":
		in.H.Allow = false
	case "raw-v": // accepted path with a bid signature whose recovery id is spelled 0/1 (VerifyBid accepts both)
		in.H.Tamper = "v0"
	case "concurrent-store":
		in.Engine = "concurrent-store"
		k := 1 + r.Intn(2)
		for i := 0; i < k; i++ {
			in.Extra = append(in.Extra, c01GoodBid(r))
		}
		perm := r.Perm(k + 1)
		for _, x := range perm {
			in.Release = append(in.Release, x+1)
		}
		if r.Intn(5) == 0 {
			in.H.StoreOK = false
		}
	case "peer-funded": // the transport peer is funded, the key that signed the bid is not
		in.H.PeerOther, in.H.AllowPeer, in.H.Allow = true, true, false
	case "signer-funded": // the signer is funded, the transport peer is not
		in.H.PeerOther, in.H.AllowPeer, in.H.Allow = true, false, true
	case "format":
		in.H.Bid = c01FormatBreak(r, in.H.Bid)
	case "read":
		in.H.ReadErr = true
	case "engine":
		in.Engine = c01Engines[3+r.Intn(len(c01Engines)-3)]
	case "store":
		in.H.StoreOK = false
	case "write":
		in.H.WriteOK = false
	case "signer":
		in.H.SignErr = true
	case "true-late", "true-silent", "true-early":
		in.Engine = class
	default: // matrix: independent draws of every dimension
		if r.Intn(4) == 0 {
			in.H.Role = []int{0, 1, 2, -1}[r.Intn(4)]
		}
		if r.Intn(3) == 0 {
			in.H.Tamper = c01Tampers[r.Intn(len(c01Tampers))]
		}
		if r.Intn(4) == 0 {
			in.H.Allow = false
		}
		if r.Intn(3) == 0 {
			in.H.PeerOther, in.H.AllowPeer = true, r.Intn(2) == 0
		}
		if r.Intn(4) == 0 {
			in.H.Bid = c01FormatBreak(r, in.H.Bid)
		}
		in.Engine = c01Engines[r.Intn(len(c01Engines))]
		in.H.StoreOK = r.Intn(3) != 0
		in.H.WriteOK = r.Intn(3) != 0
	}
	return in
}

// the end-to-end matrix {role} x {allowance} x {engine} x {store}
func c01E2EJobs(r *rand.Rand, tier string, quick int, c07 bool) []c01In {
	mk := func(role string, allow bool, engine string, store string) c01In {
		e := &c01E2EIn{Role: role, Allow: allow, Engine: engine, StoreOK: store == "ok", Bid: c01GoodBid(r)}
		if store == "http503" || store == "close" {
			e.StoreMode = store
		}
		return c01In{E2E: e}
	}
	if tier != "thorough" {
		if c07 {
			// accepted path (wrong commitment store shows); submission failing at the transport level (HTTP 503,
			// connection closed): only the production assembly (real ethclient adapter) is on that path
			return []c01In{mk("bidder", true, "accept", "ok"), mk("bidder", true, "accept", "http503"),
				mk("bidder", true, "accept", "close")}[:quick]
		}
		// accepted path, rejecting engine (auto-accepting processor shows), provider-role sender (missing role check shows)
		return []c01In{mk("bidder", true, "accept", "ok"), mk("bidder", true, "reject", "ok"), mk("provider", true, "accept", "ok")}[:quick]
	}
	out := []c01In{}
	for _, role := range []string{"bidder", "provider"} {
		for _, allow := range []bool{true, false} {
			for _, engine := range []string{"accept", "reject", "silent"} {
				for _, store := range []string{"ok", "rpc-error", "http503", "close"} {
					out = append(out, mk(role, allow, engine, store))
				}
			}
		}
	}
	return out
}

func c01Main(t *testing.T, classes []string, reps int, timed int, e2e int, c07 bool) {
	e := vfOpen(t, 20)
	defer e.Close()
	var emu sync.Mutex
	type job struct {
		class string
		in    c01In
	}
	jobs := []job{}
	for _, raw := range e.Replay {
		var in c01In
		if err := json.Unmarshal(raw, &in); err != nil {
			t.Fatalf("bad replay input: %v", err)
		}
		jobs = append(jobs, job{"replay", in})
	}
	if !e.OnlyReplay() {
		// end-to-end cases (about 10 s each, node.NewNode dials its own gRPC server with two failing TLS
		// strategies first) and the true-deadline cases (6-8 s each) start first and overlap with all the others
		if e2e > 0 {
			for _, in := range c01E2EJobs(e.rng, e.Tier, e2e, c07) {
				jobs = append(jobs, job{"e2e-node", in})
			}
		}
		for i := 0; i < timed; i++ {
			for _, c := range []string{"true-late", "true-silent", "true-early"} {
				jobs = append(jobs, job{c, c01Generate(e.rng, c)})
			}
		}
		for i := 0; i < e.N*reps; i++ {
			for _, c := range classes {
				jobs = append(jobs, job{c, c01Generate(e.rng, c)})
			}
		}
		// drawn last: the inputs of the classes above do not change for a given seed
		if c07 && c07TxGen != nil {
			for i := 0; i < e.N*reps; i++ {
				jobs = append(jobs, job{"raw-tx", c01In{Tx: c07TxGen(e.rng)}})
			}
		}
	}
	type txResult struct {
		obs interface{}
		coq func(id int) string
	}
	txResults := make([]txResult, len(jobs))
	// handlers of different cases are independent: run them in parallel, emit in input order
	results := make([]c01Obs, len(jobs))
	skipped := make([]bool, len(jobs))
	var hangs atomic.Int32
	sem := make(chan struct{}, 12)
	var wg sync.WaitGroup
	for i := range jobs {
		wg.Add(1)
		sem <- struct{}{}
		go func(i int) {
			defer wg.Done()
			defer func() { <-sem }()
			if hangs.Load() >= 5 { // a broken tree: do not wait out the limit of every remaining case
				skipped[i] = true
				return
			}
			if jobs[i].in.Tx != nil {
				if c07TxRunRaw == nil {
					skipped[i] = true
					return
				}
				o, f := c07TxRunRaw(t, jobs[i].in.Tx)
				txResults[i] = txResult{o, f}
				return
			}
			results[i] = c01Run(t, jobs[i].in, e.Slow)
			for _, r := range results[i].Rets {
				if r[1] == 97 || r[1] == 98 {
					hangs.Add(1)
					break
				}
			}
		}(i)
	}
	wg.Wait()
	emu.Lock()
	defer emu.Unlock()
	inconclusive := 0
	defer func() {
		if inconclusive > 0 {
			t.Logf("verif: %d case(s) inconclusive (schedule not realisable on this run), dropped", inconclusive)
		}
	}()
	for i, j := range jobs {
		if skipped[i] {
			continue
		}
		if results[i].Inconclusive {
			inconclusive++
			continue
		}
		obs := results[i]
		in := j.in
		if in.Tx != nil {
			e.Emit(j.class, in, txResults[i].obs, txResults[i].coq)
			continue
		}
		if c07 { // Check_C07.case is a sum: handler-level cases | raw-tx cases
			e.Emit(j.class, in, obs, func(id int) string { return "(CBase " + c01Coq(id, in, obs) + ")" })
			continue
		}
		e.Emit(j.class, in, obs, func(id int) string { return c01Coq(id, in, obs) })
	}
}

func TestVerifC01(t *testing.T) {
	c01Main(t, []string{"accepted", "raw-v", "role", "tamper", "tamper", "allowance", "peer-funded", "signer-funded", "format", "format", "read", "engine", "engine",
		"engine", "store", "write", "signer", "concurrent-store", "matrix", "matrix", "matrix"}, 1, map[bool]int{true: 4, false: 1}[os.Getenv("VERIF_TIER") == "thorough"], 3, false)
}

func TestVerifC07(t *testing.T) {
	c01Main(t, []string{"accepted", "accepted", "raw-v", "raw-v", "concurrent-store", "concurrent-store", "store", "write", "engine", "matrix"}, 2, 0, 3, true)
}
