package discovery_test

// C06 driver (4/8): the discovery protocol handler (Streams()[0].Handler = handlePeersList) on
// hostile PeerList values: any number of entries, addresses of any length, garbage / huge / absent
// underlays, undecodable bytes, messages of another type, failing reads, cancelled contexts.
// The worker that dials the gossiped underlays gets them through a recording fake; what the real
// Service.Connect does with garbage underlay bytes is covered by the libp2p driver (connect-underlay).

import (
	"bytes"
	"context"
	"encoding/json"
	"errors"
	"fmt"
	"io"
	"log/slog"
	"sync"
	"testing"
	"time"

	"github.com/ethereum/go-ethereum/common"
	discoverypb "github.com/primevprotocol/mev-commit/gen/go/discovery/v1"
	"github.com/primevprotocol/mev-commit/pkg/discovery"
	"github.com/primevprotocol/mev-commit/pkg/p2p"
	"google.golang.org/protobuf/encoding/protowire"
	"google.golang.org/protobuf/proto"
)

const c06Pkg = "discovery"

type c06PI struct {
	Addr  []byte `json:",omitempty"`
	AddrN int    `json:",omitempty"`
	Und   []byte `json:",omitempty"`
	UndN  int    `json:",omitempty"`
}

type c06In struct {
	Pkg       string
	Entry     string // peers-list
	Eof       bool   `json:",omitempty"`
	Raw       []byte `json:",omitempty"` // wire bytes used verbatim when Peers is nil
	Peers     []c06PI
	Connected bool // what Topology.IsConnected answers
	Cancel    bool // the handler's context is already cancelled
}

type c06Obs struct {
	Panic   bool
	Res     int
	Dialled int
	Note    string `json:",omitempty"`
}

func c06Rep(b []byte, n int) []byte {
	if n > 1 {
		return bytes.Repeat(b, n)
	}
	return b
}

func (in c06In) wire() []byte {
	if in.Peers == nil {
		return in.Raw
	}
	var out []byte
	for _, p := range in.Peers {
		var m []byte
		if a := c06Rep(p.Addr, p.AddrN); len(a) > 0 {
			m = protowire.AppendBytes(protowire.AppendTag(m, 1, protowire.BytesType), a)
		}
		if u := c06Rep(p.Und, p.UndN); len(u) > 0 {
			m = protowire.AppendBytes(protowire.AppendTag(m, 2, protowire.BytesType), u)
		}
		out = protowire.AppendBytes(protowire.AppendTag(out, 1, protowire.BytesType), m)
	}
	return out
}

type c06Stream struct {
	eof bool
	raw []byte
}

func (s *c06Stream) ReadMsg(_ context.Context, m proto.Message) error {
	if s.eof {
		return errors.New("c06: scripted read failure")
	}
	return proto.Unmarshal(s.raw, m)
}
func (s *c06Stream) WriteMsg(context.Context, proto.Message) error { return nil }
func (s *c06Stream) Reset() error                                  { return nil }
func (s *c06Stream) Close() error                                  { return nil }

type c06Topo struct{ connected bool }

func (t *c06Topo) AddPeers(...p2p.Peer)            {}
func (t *c06Topo) IsConnected(common.Address) bool { return t.connected }

type c06P2P struct {
	mu      sync.Mutex
	dialled int
}

func (s *c06P2P) NewStream(context.Context, p2p.Peer, p2p.Header, p2p.StreamDesc) (p2p.Stream, error) {
	return nil, errors.New("c06: not used")
}
func (s *c06P2P) Connect(context.Context, []byte) (p2p.Peer, error) {
	s.mu.Lock()
	s.dialled++
	s.mu.Unlock()
	return p2p.Peer{}, errors.New("c06: dial refused")
}

func c06Run(in c06In) (obs c06Obs, inp string) {
	raw := in.wire()
	inp = "(EPeersList None)"
	if !in.Eof {
		m := new(discoverypb.PeerList)
		if proto.Unmarshal(raw, m) == nil {
			var ps []string
			for _, p := range m.Peers {
				ps = append(ps, coqRecord("pe_addrlen", coqN(uint64(len(p.EthAddress))), "pe_underlay", coqN(uint64(len(p.Underlay)))))
			}
			inp = "(EPeersList (Some " + coqList(ps) + "))"
		}
	}
	sv := &c06P2P{}
	d := discovery.New(&c06Topo{connected: in.Connected}, sv, slog.New(slog.NewTextHandler(io.Discard, nil)))
	defer d.Close()
	ctx, cancel := context.WithTimeout(context.Background(), 20*time.Second)
	defer cancel()
	if in.Cancel {
		cancel()
	}
	func() {
		defer func() {
			if r := recover(); r != nil {
				obs = c06Obs{Panic: true, Note: fmt.Sprint(r)}
			}
		}()
		err := d.Streams()[0].Handler(ctx, p2p.Peer{Type: p2p.PeerTypeBootnode}, &c06Stream{eof: in.Eof, raw: raw})
		if err != nil {
			obs.Res = 1
		}
	}()
	sv.mu.Lock()
	obs.Dialled = sv.dialled
	sv.mu.Unlock()
	return
}

func TestVerifC06(t *testing.T) {
	e := vfOpen(t, 200)
	defer e.Close()
	run := func(class string, in c06In) {
		obs, inp := c06Run(in)
		o := "OPanic"
		if !obs.Panic {
			o = coqApp("ONoPanic", coqN(uint64(obs.Res)))
		}
		e.Emit(class, in, obs, func(id int) string { return coqRecord("id", coqN(uint64(id)), "inp", inp, "obs", o) })
	}
	for _, raw := range e.Replay {
		var in c06In
		if err := json.Unmarshal(raw, &in); err != nil || in.Pkg != c06Pkg {
			continue
		}
		run("replay", in)
	}
	if e.OnlyReplay() {
		return
	}
	r := e.rng
	rnd := func(n int) []byte { b := make([]byte, n); r.Read(b); return b }
	base := func(ps ...c06PI) c06In {
		if ps == nil {
			ps = []c06PI{}
		}
		return c06In{Pkg: c06Pkg, Entry: "peers-list", Peers: ps}
	}
	und := []byte(`{"ID":"16Uiu2HAm","Addrs":["/ip4/127.0.0.1/tcp/1"]}`)
	run("empty-list", base())
	run("read-fails", c06In{Pkg: c06Pkg, Entry: "peers-list", Eof: true})
	for n := 0; n <= 40; n++ {
		run("sweep-addrlen", base(c06PI{Addr: rnd(n), Und: und}))
	}
	run("huge-address", base(c06PI{Addr: []byte{7}, AddrN: 1 << 20, Und: und}))
	run("huge-underlay", base(c06PI{Addr: rnd(20), Und: []byte("x"), UndN: 1 << 20}))
	run("no-underlay", base(c06PI{Addr: rnd(20)}))
	run("empty-entry", base(c06PI{}, c06PI{}, c06PI{}))
	many := make([]c06PI, 600)
	for i := range many {
		many[i] = c06PI{Addr: rnd(20), Und: rnd(r.Intn(30))}
	}
	run("many-entries", base(many...))
	in := base(many[:50]...)
	in.Connected = true
	run("all-connected", in)
	in = base(many[:20]...)
	in.Cancel = true
	run("cancelled", in)
	// messages of another type / undecodable bytes / truncated
	run("wrong-type", c06In{Pkg: c06Pkg, Entry: "peers-list", Raw: protowire.AppendString(protowire.AppendTag(nil, 1, protowire.BytesType), "bidder")})
	run("wrong-type", c06In{Pkg: c06Pkg, Entry: "peers-list", Raw: protowire.AppendVarint(protowire.AppendTag(nil, 1, protowire.VarintType), 7)})
	run("undecodable", c06In{Pkg: c06Pkg, Entry: "peers-list", Raw: []byte{0x0a, 0xff, 0xff, 0xff, 0xff, 0x0f}})
	run("undecodable", c06In{Pkg: c06Pkg, Entry: "peers-list", Raw: []byte{0x0a, 0x05, 0x0a, 0x10, 1}})
	for i := 0; i < e.N; i++ {
		switch r.Intn(3) {
		case 0:
			run("random-bytes", c06In{Pkg: c06Pkg, Entry: "peers-list", Raw: rnd(r.Intn(64)), Connected: r.Intn(2) == 0})
		case 1:
			w := base(many[:1+r.Intn(5)]...).wire()
			run("truncated", c06In{Pkg: c06Pkg, Entry: "peers-list", Raw: w[:r.Intn(len(w))]})
		default:
			n := r.Intn(6)
			ps := make([]c06PI, n)
			for k := range ps {
				ps[k] = c06PI{Addr: rnd([]int{0, 1, 19, 20, 21, 32, 64}[r.Intn(7)]), Und: rnd([]int{0, 1, 10, 200}[r.Intn(4)])}
				if r.Intn(3) == 0 {
					ps[k].Und = [][]byte{und, []byte("{}"), []byte("null"), []byte(`{"ID":"x"}`), []byte(`{"Addrs":[""]}`)}[r.Intn(5)]
				}
			}
			in := base(ps...)
			in.Connected = r.Intn(4) == 0
			in.Cancel = r.Intn(8) == 0
			run("hostile-list", in)
		}
	}
}
