package discovery_test

// C06 driver (4/8): the discovery protocol handler (Streams()[0].Handler = handlePeersList) on
// hostile PeerList values: any number of entries, addresses of any length, garbage / huge / absent
// underlays, undecodable bytes, messages of another type, failing reads, cancelled contexts.
// The worker that dials the gossiped underlays gets them through a recording fake; what the real
// Service.Connect does with garbage underlay bytes is covered by the libp2p driver (connect-underlay).

import (
	"bufio"
	"bytes"
	"context"
	"encoding/json"
	"errors"
	"fmt"
	"io"
	"log/slog"
	"os"
	"os/exec"
	"path/filepath"
	"strconv"
	"strings"
	"sync"
	"testing"
	"time"

	"github.com/ethereum/go-ethereum/common"
	discoverypb "github.com/primevprotocol/mev-commit/gen/go/discovery/v1"
	"github.com/primevprotocol/mev-commit/pkg/discovery"
	"github.com/primevprotocol/mev-commit/pkg/p2p"
	"google.golang.org/protobuf/encoding/protowire"
	"google.golang.org/protobuf/proto"
)

const c06Pkg = "discovery"

type c06PI struct {
	Addr  []byte `json:",omitempty"`
	AddrN int    `json:",omitempty"`
	Und   []byte `json:",omitempty"`
	UndN  int    `json:",omitempty"`
}

type c06In struct {
	Pkg       string
	Entry     string // peers-list
	Eof       bool   `json:",omitempty"`
	Raw       []byte `json:",omitempty"` // wire bytes used verbatim when Peers is nil
	Peers     []c06PI
	Connected bool // what Topology.IsConnected answers
	Cancel    bool // the handler's context is already cancelled
	// stalled-workers: Stalled distinct unknown entries whose dials park until released; the handler's
	// context is cancelled while it is blocked behind the busy workers; Lists handlers run at once
	Stalled int `json:",omitempty"`
	Lists   int `json:",omitempty"`
	HoldMs  int `json:",omitempty"` // > 0: nobody cancels; the dials simply hang this long before they end
}

type c06Obs struct {
	Panic   bool
	Res     int
	Dialled int
	Note    string `json:",omitempty"`
}

func c06Rep(b []byte, n int) []byte {
	if n > 1 {
		return bytes.Repeat(b, n)
	}
	return b
}

func (in c06In) wire() []byte {
	if in.Peers == nil {
		return in.Raw
	}
	var out []byte
	for _, p := range in.Peers {
		var m []byte
		if a := c06Rep(p.Addr, p.AddrN); len(a) > 0 {
			m = protowire.AppendBytes(protowire.AppendTag(m, 1, protowire.BytesType), a)
		}
		if u := c06Rep(p.Und, p.UndN); len(u) > 0 {
			m = protowire.AppendBytes(protowire.AppendTag(m, 2, protowire.BytesType), u)
		}
		out = protowire.AppendBytes(protowire.AppendTag(out, 1, protowire.BytesType), m)
	}
	return out
}

type c06Stream struct {
	eof bool
	raw []byte
}

func (s *c06Stream) ReadMsg(_ context.Context, m proto.Message) error {
	if s.eof {
		return errors.New("c06: scripted read failure")
	}
	return proto.Unmarshal(s.raw, m)
}
func (s *c06Stream) WriteMsg(context.Context, proto.Message) error { return nil }
func (s *c06Stream) Reset() error                                  { return nil }
func (s *c06Stream) Close() error                                  { return nil }

type c06Topo struct{ connected bool }

func (t *c06Topo) AddPeers(...p2p.Peer)            {}
func (t *c06Topo) IsConnected(common.Address) bool { return t.connected }

type c06P2P struct {
	mu      sync.Mutex
	dialled int
	parked  int
	gate    chan struct{} // nil: dials fail at once; else they park until it is closed
}

func (s *c06P2P) NewStream(context.Context, p2p.Peer, p2p.Header, p2p.StreamDesc) (p2p.Stream, error) {
	return nil, errors.New("c06: not used")
}
func (s *c06P2P) Connect(context.Context, []byte) (p2p.Peer, error) {
	s.mu.Lock()
	s.dialled++
	g := s.gate
	if g != nil {
		s.parked++
	}
	s.mu.Unlock()
	if g != nil {
		<-g
		s.mu.Lock()
		s.parked--
		s.mu.Unlock()
	}
	return p2p.Peer{}, errors.New("c06: dial refused")
}
func (s *c06P2P) counts() (dialled, parked int) {
	s.mu.Lock()
	defer s.mu.Unlock()
	return s.dialled, s.parked
}

func c06Until(limit time.Duration, cond func() bool) bool {
	deadline := time.Now().Add(limit)
	for {
		if cond() {
			return true
		}
		if time.Now().After(deadline) {
			return false
		}
		time.Sleep(2 * time.Millisecond)
	}
}

func c06List(n, salt int) []byte {
	var ps []c06PI
	for i := 0; i < n; i++ {
		ps = append(ps, c06PI{Addr: []byte{byte(salt), byte(i >> 8), byte(i), 9, 9, 9, 9, 9, 9, 9, 9, 9, 9, 9, 9, 9, 9, 9, 9, 1},
			Und: []byte(fmt.Sprintf(`{"ID":"x%d-%d"}`, salt, i))})
	}
	return c06In{Peers: ps}.wire()
}

// c06RunStalled: all ten check workers are busy with dials that do not return, the handler (or several) is
// blocked behind them, its stream context is cancelled, then the dials end. The discovery service must
// survive (its workers run on goroutines of its own) and process a further list afterwards.
func c06RunStalled(in c06In, slow time.Duration) (obs c06Obs) {
	defer func() {
		if r := recover(); r != nil {
			obs = c06Obs{Panic: true, Note: fmt.Sprint(r)}
		}
	}()
	sv := &c06P2P{gate: make(chan struct{})}
	d := discovery.New(&c06Topo{}, sv, slog.New(slog.NewTextHandler(io.Discard, nil)))
	defer d.Close()
	lists := in.Lists
	if lists < 1 {
		lists = 1
	}
	ctx, cancel := context.WithCancel(context.Background())
	defer cancel()
	done := make(chan error, lists)
	for l := 0; l < lists; l++ {
		raw := c06List(in.Stalled, l+1)
		go func() {
			defer func() {
				if r := recover(); r != nil {
					done <- fmt.Errorf("handler panicked: %v", r)
				}
			}()
			done <- d.Streams()[0].Handler(ctx, p2p.Peer{Type: p2p.PeerTypeBootnode}, &c06Stream{raw: raw})
		}()
	}
	// all ten workers parked in Connect, and nothing else moves: the handlers are blocked behind them
	if !c06Until(10*time.Second*slow, func() bool { _, p := sv.counts(); return p >= 10 }) {
		return c06Obs{Res: 2, Note: "the ten workers never got busy"}
	}
	time.Sleep(60 * time.Millisecond * slow)
	if in.HoldMs > 0 {
		time.Sleep(time.Duration(in.HoldMs) * time.Millisecond) // the handlers stay blocked behind the workers
		close(sv.gate)
	} else {
		cancel() // the sender goes away
	}
	for l := 0; l < lists; l++ {
		select {
		case err := <-done:
			if err != nil && strings.HasPrefix(err.Error(), "handler panicked") {
				return c06Obs{Panic: true, Note: err.Error()}
			}
		case <-time.After(10 * time.Second * slow):
			return c06Obs{Res: 1, Note: "a handler did not return after its context was cancelled"}
		}
	}
	if in.HoldMs <= 0 {
		close(sv.gate) // the stalled dials end
	}
	// quiescence: no parked dial and the number of dials stable for a while
	last, stable := -1, 0
	c06Until(10*time.Second*slow, func() bool {
		n, p := sv.counts()
		if p == 0 && n == last {
			stable++
		} else {
			stable = 0
		}
		last = n
		time.Sleep(10 * time.Millisecond)
		return stable >= 15
	})
	// liveness: a further small list is processed (one more attempt with doubled deadlines before the service is
	// declared not serving)
	var note string
	for attempt := 1; attempt <= 2; attempt++ {
		before, _ := sv.counts()
		limit := time.Duration(attempt) * 10 * time.Second * slow
		pctx, pcancel := context.WithTimeout(context.Background(), limit)
		err := d.Streams()[0].Handler(pctx, p2p.Peer{Type: p2p.PeerTypeBootnode}, &c06Stream{raw: c06List(3, 200+attempt)})
		ok := err == nil && c06Until(limit, func() bool { n, _ := sv.counts(); return n >= before+3 })
		pcancel()
		if ok {
			n, _ := sv.counts()
			obs.Dialled = n
			return obs
		}
		if err != nil {
			note = fmt.Sprintf("a later list was refused (attempt %d): %v", attempt, err)
		} else {
			n, _ := sv.counts()
			note = fmt.Sprintf("a later list was not processed (attempt %d): %d of 3 entries dialled", attempt, n-before)
		}
	}
	return c06Obs{Res: 1, Note: note}
}

func c06Inp(in c06In) string {
	if in.Entry == "peers-list-stalled" {
		return coqApp("EPeersListStalled", coqN(uint64(in.Stalled)), coqN(uint64(in.Lists)))
	}
	inp := "(EPeersList None)"
	if !in.Eof {
		m := new(discoverypb.PeerList)
		if proto.Unmarshal(in.wire(), m) == nil {
			var ps []string
			for _, p := range m.Peers {
				ps = append(ps, coqRecord("pe_addrlen", coqN(uint64(len(p.EthAddress))), "pe_underlay", coqN(uint64(len(p.Underlay)))))
			}
			inp = "(EPeersList (Some " + coqList(ps) + "))"
		}
	}
	return inp
}

func c06Run(in c06In) (obs c06Obs, inp string) {
	if in.Entry == "peers-list-stalled" {
		slow, _ := strconv.Atoi(os.Getenv("VERIF_SLOW"))
		if slow < 1 {
			slow = 1
		}
		return c06RunStalled(in, time.Duration(slow)), c06Inp(in)
	}
	raw := in.wire()
	inp = "(EPeersList None)"
	if !in.Eof {
		m := new(discoverypb.PeerList)
		if proto.Unmarshal(raw, m) == nil {
			var ps []string
			for _, p := range m.Peers {
				ps = append(ps, coqRecord("pe_addrlen", coqN(uint64(len(p.EthAddress))), "pe_underlay", coqN(uint64(len(p.Underlay)))))
			}
			inp = "(EPeersList (Some " + coqList(ps) + "))"
		}
	}
	sv := &c06P2P{}
	d := discovery.New(&c06Topo{connected: in.Connected}, sv, slog.New(slog.NewTextHandler(io.Discard, nil)))
	defer d.Close()
	ctx, cancel := context.WithTimeout(context.Background(), 20*time.Second)
	defer cancel()
	if in.Cancel {
		cancel()
	}
	func() {
		defer func() {
			if r := recover(); r != nil {
				obs = c06Obs{Panic: true, Note: fmt.Sprint(r)}
			}
		}()
		err := d.Streams()[0].Handler(ctx, p2p.Peer{Type: p2p.PeerTypeBootnode}, &c06Stream{eof: in.Eof, raw: raw})
		if err != nil {
			obs.Res = 1
		}
	}()
	sv.mu.Lock()
	obs.Dialled = sv.dialled
	sv.mu.Unlock()
	return
}

// ---- child process protocol: discovery's dispatcher and workers are goroutines of its own, a panic there
// cannot be recovered by the driver, so every case runs in a child (this test binary re-executed on the input
// file); a crash is attributed to the case in flight and the child restarted for the rest -------------------

type c06ChildLine struct {
	I     int     `json:"i"`
	Start bool    `json:"start,omitempty"`
	Obs   *c06Obs `json:"obs,omitempty"`
}

func c06Child(t *testing.T) {
	data, err := os.ReadFile(os.Getenv("VERIF_C06_CHILD_IN"))
	if err != nil {
		t.Fatalf("c06 child: %v", err)
	}
	from, _ := strconv.Atoi(os.Getenv("VERIF_C06_CHILD_FROM"))
	f, err := os.OpenFile(os.Getenv("VERIF_C06_CHILD_RES"), os.O_APPEND|os.O_CREATE|os.O_WRONLY, 0o644)
	if err != nil {
		t.Fatalf("c06 child: %v", err)
	}
	defer f.Close()
	put := func(l c06ChildLine) {
		b, _ := json.Marshal(l)
		f.Write(append(b, '\n'))
	}
	lines := strings.Split(strings.TrimSpace(string(data)), "\n")
	for i := from; i < len(lines); i++ {
		var in c06In
		if err := json.Unmarshal([]byte(lines[i]), &in); err != nil {
			t.Fatalf("c06 child: bad input %d: %v", i, err)
		}
		put(c06ChildLine{I: i, Start: true})
		obs, _ := c06Run(in)
		put(c06ChildLine{I: i, Obs: &obs})
	}
}

func c06CrashNote(out string) string {
	lines := strings.Split(strings.TrimSpace(out), "\n")
	why := ""
	for _, l := range lines {
		if strings.HasPrefix(l, "fatal error:") || strings.HasPrefix(l, "panic:") {
			why = l
			break
		}
	}
	if len(lines) > 6 {
		lines = lines[len(lines)-6:]
	}
	note := why + " | ... " + strings.Join(lines, " / ")
	if len(note) > 600 {
		note = note[:600]
	}
	return note
}

func c06RunInChildren(ins []c06In, slow int) []c06Obs {
	out := make([]c06Obs, len(ins))
	if len(ins) == 0 {
		return out
	}
	dir := filepath.Dir(os.Getenv("VERIF_OUT"))
	inPath := filepath.Join(dir, fmt.Sprintf("c06_%s_child_%d.in.jsonl", c06Pkg, os.Getpid()))
	resPath := filepath.Join(dir, fmt.Sprintf("c06_%s_child_%d.res.jsonl", c06Pkg, os.Getpid()))
	defer os.Remove(inPath)
	defer os.Remove(resPath)
	var sb strings.Builder
	for _, in := range ins {
		b, _ := json.Marshal(in)
		sb.Write(b)
		sb.WriteByte('\n')
	}
	if err := os.WriteFile(inPath, []byte(sb.String()), 0o644); err != nil {
		for i := range out {
			out[i] = c06Obs{Res: 2, Note: "cannot write the child's input: " + err.Error()}
		}
		return out
	}
	from, stalled := 0, false
	for from < len(ins) {
		os.Remove(resPath)
		ctx, cancel := context.WithTimeout(context.Background(), time.Duration(slow)*10*time.Minute)
		cmd := exec.CommandContext(ctx, os.Args[0], "-test.run", "^TestVerifC06$", "-test.count=1", "-test.timeout=0")
		cmd.Env = append(os.Environ(), "VERIF_C06_CHILD_IN="+inPath, "VERIF_C06_CHILD_RES="+resPath,
			"VERIF_C06_CHILD_FROM="+strconv.Itoa(from), "VERIF_SLOW="+strconv.Itoa(slow))
		outb, runErr := cmd.CombinedOutput()
		cancel()
		started, done := -1, from-1
		if f, err := os.Open(resPath); err == nil {
			sc := bufio.NewScanner(f)
			sc.Buffer(make([]byte, 1<<20), 1<<26)
			for sc.Scan() {
				var l c06ChildLine
				if json.Unmarshal(sc.Bytes(), &l) != nil {
					continue
				}
				if l.Start {
					started = l.I
				} else if l.Obs != nil && l.I >= 0 && l.I < len(ins) {
					out[l.I] = *l.Obs
					done = l.I
				}
			}
			f.Close()
		}
		if started > done { // the child died inside case [started]
			out[started] = c06Obs{Panic: true, Note: c06CrashNote(string(outb))}
			done = started
		} else if done < from { // it never started case [from]: once more, then not classified
			if !stalled {
				stalled = true
				continue
			}
			out[from] = c06Obs{Res: 2, Note: fmt.Sprintf("child could not run this case: %v; %s", runErr, c06CrashNote(string(outb)))}
			done = from
		}
		stalled = false
		from = done + 1
	}
	return out
}

func TestVerifC06(t *testing.T) {
	if os.Getenv("VERIF_C06_CHILD_IN") != "" {
		c06Child(t)
		return
	}
	e := vfOpen(t, 200)
	defer e.Close()
	type pending struct {
		class string
		in    c06In
	}
	var queue []pending
	run := func(class string, in c06In) { queue = append(queue, pending{class, in}) }
	flush := func() {
		ins := make([]c06In, len(queue))
		for i, p := range queue {
			ins[i] = p.in
		}
		for i, obs := range c06RunInChildren(ins, e.Slow) {
			obs, in, class := obs, queue[i].in, queue[i].class
			inp := c06Inp(in)
			o := "OPanic"
			if !obs.Panic {
				o = coqApp("ONoPanic", coqN(uint64(obs.Res)))
			}
			e.Emit(class, in, obs, func(id int) string { return coqRecord("id", coqN(uint64(id)), "inp", inp, "obs", o) })
		}
		queue = nil
	}
	defer flush()
	for _, raw := range e.Replay {
		var in c06In
		if err := json.Unmarshal(raw, &in); err != nil || in.Pkg != c06Pkg {
			continue
		}
		if in.Entry == "peers-list-stalled" && (in.Stalled < 1 || in.Stalled > 2000 || in.Lists > 16 || in.HoldMs < 0 || in.HoldMs > 120000) {
			continue
		}
		run("replay", in)
	}
	if e.OnlyReplay() {
		return
	}
	r := e.rng
	rnd := func(n int) []byte { b := make([]byte, n); r.Read(b); return b }
	base := func(ps ...c06PI) c06In {
		if ps == nil {
			ps = []c06PI{}
		}
		return c06In{Pkg: c06Pkg, Entry: "peers-list", Peers: ps}
	}
	und := []byte(`{"ID":"16Uiu2HAm","Addrs":["/ip4/127.0.0.1/tcp/1"]}`)
	run("empty-list", base())
	run("read-fails", c06In{Pkg: c06Pkg, Entry: "peers-list", Eof: true})
	for n := 0; n <= 40; n++ {
		run("sweep-addrlen", base(c06PI{Addr: rnd(n), Und: und}))
	}
	run("huge-address", base(c06PI{Addr: []byte{7}, AddrN: 1 << 20, Und: und}))
	run("huge-underlay", base(c06PI{Addr: rnd(20), Und: []byte("x"), UndN: 1 << 20}))
	run("no-underlay", base(c06PI{Addr: rnd(20)}))
	run("empty-entry", base(c06PI{}, c06PI{}, c06PI{}))
	many := make([]c06PI, 600)
	for i := range many {
		many[i] = c06PI{Addr: rnd(20), Und: rnd(r.Intn(30))}
	}
	run("many-entries", base(many...))
	in := base(many[:50]...)
	in.Connected = true
	run("all-connected", in)
	in = base(many[:20]...)
	in.Cancel = true
	run("cancelled", in)
	// messages of another type / undecodable bytes / truncated
	run("wrong-type", c06In{Pkg: c06Pkg, Entry: "peers-list", Raw: protowire.AppendString(protowire.AppendTag(nil, 1, protowire.BytesType), "bidder")})
	run("wrong-type", c06In{Pkg: c06Pkg, Entry: "peers-list", Raw: protowire.AppendVarint(protowire.AppendTag(nil, 1, protowire.VarintType), 7)})
	run("undecodable", c06In{Pkg: c06Pkg, Entry: "peers-list", Raw: []byte{0x0a, 0xff, 0xff, 0xff, 0xff, 0x0f}})
	run("undecodable", c06In{Pkg: c06Pkg, Entry: "peers-list", Raw: []byte{0x0a, 0x05, 0x0a, 0x10, 1}})
	for i := 0; i < e.N; i++ {
		switch r.Intn(3) {
		case 0:
			run("random-bytes", c06In{Pkg: c06Pkg, Entry: "peers-list", Raw: rnd(r.Intn(64)), Connected: r.Intn(2) == 0})
		case 1:
			w := base(many[:1+r.Intn(5)]...).wire()
			run("truncated", c06In{Pkg: c06Pkg, Entry: "peers-list", Raw: w[:r.Intn(len(w))]})
		default:
			n := r.Intn(6)
			ps := make([]c06PI, n)
			for k := range ps {
				ps[k] = c06PI{Addr: rnd([]int{0, 1, 19, 20, 21, 32, 64}[r.Intn(7)]), Und: rnd([]int{0, 1, 10, 200}[r.Intn(4)])}
				if r.Intn(3) == 0 {
					ps[k].Und = [][]byte{und, []byte("{}"), []byte("null"), []byte(`{"ID":"x"}`), []byte(`{"Addrs":[""]}`)}[r.Intn(5)]
				}
			}
			in := base(ps...)
			in.Connected = r.Intn(4) == 0
			in.Cancel = r.Intn(8) == 0
			run("hostile-list", in)
		}
	}
	// all workers busy with stalled dials, the sender goes away, the dials end
	sizes := []int{11, 12, 25}
	if e.Tier == "thorough" {
		sizes = []int{11, 12, 13, 20, 21, 25, 30, 40}
	}
	for i, n := range sizes {
		run("stalled-workers", c06In{Pkg: c06Pkg, Entry: "peers-list-stalled", Stalled: n, Lists: 1 + i%2*2})
	}
	if e.Tier == "thorough" { // the dials hang for longer than any plausible internal deadline, nobody cancels
		run("stalled-workers-long-hold", c06In{Pkg: c06Pkg, Entry: "peers-list-stalled", Stalled: 14, Lists: 2, HoldMs: 33000})
	}
}
