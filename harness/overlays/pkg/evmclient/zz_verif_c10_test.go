package evmclient

// Correspondence driver for property C10 (shape of the cancellation replacement).
// Drives the real EvmClient.CancelTx against a scripted chain node (c10Node); the replacement that
// reaches SendTransaction is serialised and decoded again, and the decoded fields are what the Coq
// checker (check/Check_C10.v) sees.

import (
	"context"
	"crypto/ecdsa"
	"encoding/json"
	"errors"
	"fmt"
	"io"
	"log/slog"
	"math/big"
	"math/rand"
	"net/http"
	"net/http/httptest"
	"strings"
	"sync"
	"sync/atomic"
	"testing"

	"github.com/ethereum/go-ethereum"
	"github.com/ethereum/go-ethereum/common"
	"github.com/ethereum/go-ethereum/common/hexutil"
	"github.com/ethereum/go-ethereum/core/types"
	"github.com/ethereum/go-ethereum/crypto"
	"github.com/ethereum/go-ethereum/ethclient"
	"github.com/ethereum/go-ethereum/rpc"
)

// c10In is one CancelTx call (flat form) or, when Steps is set, a session of several operations on
// ONE client (state kept by the client or by the transport adapter between calls is then in play).
type c10In struct {
	T       string    `json:"t,omitempty"`     // transport: "" = scripted EVM implementation; "wire" = New(ks, WrapEthClient(ethclient over JSON-RPC/HTTP))
	Kind    string    `json:"kind,omitempty"`  // legacy | access | dynamic
	Nonce   uint64    `json:"nonce,omitempty"` // nonce of the original
	Tip     string    `json:"tip,omitempty"`   // decimal; dynamic only
	Fee     string    `json:"fee,omitempty"`   // decimal; gas price for legacy/access, fee cap for dynamic
	Foreign bool      `json:"foreign,omitempty"`
	State   string    `json:"state,omitempty"` // pending | mined | notfound | error | nil | nilpending
	Sug     string    `json:"sug,omitempty"`   // flat form: the node's suggested tip: decimal or "err"
	Sign    bool      `json:"sign,omitempty"`
	Sub     bool      `json:"sub,omitempty"`     // SendTransaction finally succeeds ...
	SubFail int       `json:"subFail,omitempty"` // ... after this many failing attempts (a client that does not retry sees only the first)
	ET      string    `json:"et,omitempty"`      // what a failing SendTransaction / SignTx / tip query says (c10ErrorKinds)
	Steps   []c10Step `json:"steps,omitempty"`
}

type c10Step struct {
	K   string `json:"k"`             // tip: the node's suggestion is Sug from now on | cancel: CancelTx of target C | send: a plain Send
	Sug string `json:"sug,omitempty"` // decimal or "err"
	C   *c10In `json:"c,omitempty"`
}

type c10Tx struct {
	Type  uint8  `json:"type"`
	Nonce uint64 `json:"nonce"`
	Chain string `json:"chain"`
	To    string `json:"to"` // hex, empty for contract creation
	Value string `json:"value"`
	Data  string `json:"data"`
	Gas   uint64 `json:"gas"`
	Tip   string `json:"tip"`
	Fee   string `json:"fee"`
}

type c10Obs struct {
	Attempts   int    `json:"attempts"` // replacements that reached SendTransaction in this CancelTx
	At         int    `json:"at"`       // index of the cancel step inside the session
	Sug        string `json:"sug"`      // what the node answers to a tip query at the moment of this CancelTx
	Sub        *c10Tx `json:"sub"`
	Acc        bool   `json:"acc"`
	OK         bool   `json:"ok"`
	NotFound   bool   `json:"notfound"`
	Panic      bool   `json:"panic"`
	PriceAsked bool   `json:"priceAsked"`
	OrigPrice  string `json:"origPrice"` // accessors of the original as the library reports them
	OrigFee    string `json:"origFee"`
	OrigTip    string `json:"origTip"`
	Owner      string `json:"owner"`
	ChainID    string `json:"chainID"`
}

var errC10Injected = errors.New("c10: injected failure")

// same text as go-ethereum's txpool.ErrReplaceUnderpriced / core.ErrNonceTooLow (those packages do not build offline)
var errC10Underpriced = errors.New("replacement transaction underpriced")

var c10ErrorKinds = []string{"", "underpriced", "wrapped-underpriced", "nonce-too-low", "already-known", "funds", "canceled",
	"deadline", "eof"}

func c10Failure(kind string) error {
	switch kind {
	case "underpriced":
		return errors.New("replacement transaction underpriced")
	case "wrapped-underpriced":
		return fmt.Errorf("c10: node refused the transaction: %w", errC10Underpriced)
	case "nonce-too-low":
		return errors.New("nonce too low")
	case "already-known":
		return errors.New("already known")
	case "funds":
		return errors.New("insufficient funds for gas * price + value")
	case "canceled":
		return context.Canceled
	case "deadline":
		return context.DeadlineExceeded
	case "eof":
		return io.EOF
	}
	return errC10Injected
}

const c10SuggestedPrice = 777

type c10Node struct {
	mu         sync.Mutex
	chainID    *big.Int
	in         c10In              // the CancelTx under way
	mode       string             // cancel | send
	sug        string             // current answer to a tip query
	sends      uint64             // plain transactions accepted so far (pending nonce of the account)
	lastSent   *types.Transaction // the last plain transaction the node received from this client
	orig       *types.Transaction
	sub        *c10Tx // the replacement judged: the accepted one, else the first submitted
	attempts   int
	acc        bool
	priceAsked bool
	problems   []string
}

type c10Batcher struct{}

func (c10Batcher) BatchCallContext(ctx context.Context, b []rpc.BatchElem) error {
	return errC10Injected
}

func (n *c10Node) Batcher() Batcher { return c10Batcher{} }
func (n *c10Node) NetworkID(ctx context.Context) (*big.Int, error) {
	return new(big.Int).Set(n.chainID), nil
}
func (n *c10Node) BlockNumber(ctx context.Context) (uint64, error) { return 0, errC10Injected }
func (n *c10Node) PendingNonceAt(ctx context.Context, account common.Address) (uint64, error) {
	n.mu.Lock()
	defer n.mu.Unlock()
	return n.sends, nil
}
func (n *c10Node) NonceAt(ctx context.Context, account common.Address, blockNumber *big.Int) (uint64, error) {
	return 0, errC10Injected
}
func (n *c10Node) SuggestGasPrice(ctx context.Context) (*big.Int, error) {
	n.mu.Lock()
	defer n.mu.Unlock()
	n.priceAsked = true
	return big.NewInt(c10SuggestedPrice), nil
}
func (n *c10Node) tipLocked() (*big.Int, error) {
	if n.sug == "err" {
		return nil, c10Failure(n.in.ET)
	}
	v, ok := new(big.Int).SetString(n.sug, 10)
	if !ok {
		n.problems = append(n.problems, "bad suggested tip "+n.sug)
		return nil, errC10Injected
	}
	return v, nil
}
func (n *c10Node) SuggestGasTipCap(ctx context.Context) (*big.Int, error) {
	n.mu.Lock()
	defer n.mu.Unlock()
	return n.tipLocked()
}
func (n *c10Node) EstimateGas(ctx context.Context, call ethereum.CallMsg) (uint64, error) {
	return 30000, nil
}
func (n *c10Node) SendTransaction(ctx context.Context, tx *types.Transaction) error {
	n.mu.Lock()
	defer n.mu.Unlock()
	return n.submitLocked(tx)
}
func (n *c10Node) submitLocked(tx *types.Transaction) error {
	if n.mode == "send" {
		n.sends++
		n.lastSent = tx
		return nil
	}
	n.attempts++
	raw, err := tx.MarshalBinary()
	if err != nil {
		n.problems = append(n.problems, "cannot serialise replacement: "+err.Error())
		return err
	}
	dec := new(types.Transaction)
	if err := dec.UnmarshalBinary(raw); err != nil {
		n.problems = append(n.problems, "cannot decode replacement: "+err.Error())
		return err
	}
	to := ""
	if dec.To() != nil {
		to = common.Bytes2Hex(dec.To().Bytes())
	}
	got := &c10Tx{Type: dec.Type(), Nonce: dec.Nonce(), Chain: dec.ChainId().String(), To: to,
		Value: dec.Value().String(), Data: common.Bytes2Hex(dec.Data()), Gas: dec.Gas(),
		Tip: dec.GasTipCap().String(), Fee: dec.GasFeeCap().String()}
	if n.sub == nil {
		n.sub = got
	}
	if n.acc {
		n.problems = append(n.problems, "a second replacement after the node accepted one")
	}
	if n.attempts <= n.in.SubFail || !n.in.Sub {
		return c10Failure(n.in.ET)
	}
	n.sub = got
	n.acc = true
	return nil
}
func (n *c10Node) CallContract(ctx context.Context, call ethereum.CallMsg, blockNumber *big.Int) ([]byte, error) {
	return nil, errC10Injected
}
func (n *c10Node) TransactionReceipt(ctx context.Context, txHash common.Hash) (*types.Receipt, error) {
	return nil, errC10Injected
}
func (n *c10Node) TransactionByHash(ctx context.Context, txHash common.Hash) (*types.Transaction, bool, error) {
	n.mu.Lock()
	defer n.mu.Unlock()
	switch n.in.State {
	case "pending":
		return n.orig, true, nil
	case "mined":
		return n.orig, false, nil
	case "notfound":
		return nil, false, ethereum.NotFound
	case "error":
		return nil, false, errC10Injected
	case "nil":
		return nil, false, nil
	case "garbage":
		return nil, false, errC10Injected
	case "nilpending":
		return nil, true, nil
	}
	n.problems = append(n.problems, "unknown state "+n.in.State)
	return nil, false, errC10Injected
}

// ---- the same node behind JSON-RPC over HTTP --------------------------------------------------

type c10RPCReq struct {
	ID     json.RawMessage   `json:"id"`
	Method string            `json:"method"`
	Params []json.RawMessage `json:"params"`
}

func (n *c10Node) answerRPC(r c10RPCReq) (interface{}, error) {
	n.mu.Lock()
	defer n.mu.Unlock()
	switch r.Method {
	case "net_version":
		return n.chainID.String(), nil
	case "eth_chainId":
		return hexutil.EncodeBig(n.chainID), nil
	case "eth_getTransactionCount":
		return hexutil.EncodeUint64(n.sends), nil
	case "eth_estimateGas":
		return hexutil.EncodeUint64(30000), nil
	case "eth_maxPriorityFeePerGas":
		v, err := n.tipLocked()
		if err != nil {
			return nil, err
		}
		return hexutil.EncodeBig(v), nil
	case "eth_gasPrice":
		n.priceAsked = true
		return hexutil.EncodeUint64(c10SuggestedPrice), nil
	case "eth_sendRawTransaction":
		var raw hexutil.Bytes
		if len(r.Params) < 1 || json.Unmarshal(r.Params[0], &raw) != nil {
			n.problems = append(n.problems, "eth_sendRawTransaction: bad parameters")
			return nil, errC10Injected
		}
		tx := new(types.Transaction)
		if err := tx.UnmarshalBinary(raw); err != nil {
			n.problems = append(n.problems, "eth_sendRawTransaction: undecodable transaction: "+err.Error())
			return nil, errC10Injected
		}
		if err := n.submitLocked(tx); err != nil {
			return nil, err
		}
		return tx.Hash().Hex(), nil
	case "eth_getTransactionByHash":
		switch n.in.State {
		case "pending", "mined":
			b, err := n.orig.MarshalJSON()
			if err != nil {
				n.problems = append(n.problems, "cannot encode original: "+err.Error())
				return nil, errC10Injected
			}
			m := map[string]interface{}{}
			_ = json.Unmarshal(b, &m)
			m["from"] = "0x00000000000000000000000000000000000000f1"
			if n.in.State == "mined" {
				m["blockNumber"] = "0x5"
				m["blockHash"] = "0x00000000000000000000000000000000000000000000000000000000000000b5"
				m["transactionIndex"] = "0x0"
			} else {
				m["blockNumber"] = nil
				m["blockHash"] = nil
				m["transactionIndex"] = nil
			}
			return m, nil
		case "notfound":
			return nil, nil // JSON null
		case "garbage":
			return map[string]interface{}{"blockNumber": nil, "hash": "0x00"}, nil // an object that is no transaction
		default:
			return nil, errC10Injected
		}
	}
	return nil, errC10Injected // eth_blockNumber, receipts, ...: not available
}

func (n *c10Node) ServeHTTP(w http.ResponseWriter, req *http.Request) {
	body, _ := io.ReadAll(req.Body)
	reply := func(r c10RPCReq) map[string]interface{} {
		res, err := n.answerRPC(r)
		out := map[string]interface{}{"jsonrpc": "2.0", "id": r.ID}
		if err != nil {
			out["error"] = map[string]interface{}{"code": -32000, "message": err.Error()}
		} else {
			out["result"] = res
		}
		return out
	}
	w.Header().Set("Content-Type", "application/json")
	if strings.HasPrefix(strings.TrimSpace(string(body)), "[") {
		var rs []c10RPCReq
		_ = json.Unmarshal(body, &rs)
		outs := make([]map[string]interface{}, 0, len(rs))
		for _, r := range rs {
			outs = append(outs, reply(r))
		}
		_ = json.NewEncoder(w).Encode(outs)
		return
	}
	var r c10RPCReq
	_ = json.Unmarshal(body, &r)
	_ = json.NewEncoder(w).Encode(reply(r))
}

type c10Signer struct {
	key  *ecdsa.PrivateKey
	node *c10Node
}

func (k *c10Signer) SignHash(data []byte) ([]byte, error) { return crypto.Sign(data, k.key) }
func (k *c10Signer) SignTx(tx *types.Transaction, chainID *big.Int) (*types.Transaction, error) {
	k.node.mu.Lock()
	ok := k.node.in.Sign || k.node.mode == "send"
	failure := c10Failure(k.node.in.ET)
	k.node.mu.Unlock()
	if !ok {
		return nil, failure
	}
	return types.SignTx(tx, types.NewLondonSigner(chainID), k.key)
}
func (k *c10Signer) GetAddress() common.Address                { return crypto.PubkeyToAddress(k.key.PublicKey) }
func (k *c10Signer) GetPrivateKey() (*ecdsa.PrivateKey, error) { return k.key, nil }
func (k *c10Signer) ZeroPrivateKey(key *ecdsa.PrivateKey)      {}
func (k *c10Signer) String() string                            { return "c10" }

func c10Big(s string) *big.Int {
	v, ok := new(big.Int).SetString(s, 10)
	if !ok {
		return big.NewInt(0)
	}
	return v
}

// one HTTP server for the whole run; requests go to the node of the history under way
var (
	c10Server     *httptest.Server
	c10ServerOnce sync.Once
	c10Current    atomic.Pointer[c10Node]
)

// c10Cancel is one CancelTx of a session: the effective flat input (Sug = the node's answer at that
// moment) and what was observed.
type c10Cancel struct {
	in  c10In
	obs c10Obs
}

func c10Steps(in c10In) []c10Step {
	if len(in.Steps) > 0 {
		return in.Steps
	}
	flat := in
	return []c10Step{{K: "tip", Sug: in.Sug}, {K: "cancel", C: &flat}}
}

func c10Run(t *testing.T, in c10In) ([]c10Cancel, []string) {
	key, err := crypto.ToECDSA(common.FromHex("0x4c0883a69102937d6231471b5dbb6204fe5129617082792ae468d01a3f362318"))
	if err != nil {
		t.Fatal(err)
	}
	wire := in.T == "wire"
	node := &c10Node{chainID: big.NewInt(31337), sug: "err", mode: "cancel"}
	ks := &c10Signer{key: key, node: node}
	var backend EVM = node
	if wire { // assembled as pkg/node does it
		c10Current.Store(node)
		c10ServerOnce.Do(func() {
			c10Server = httptest.NewServer(http.HandlerFunc(func(w http.ResponseWriter, r *http.Request) {
				c10Current.Load().ServeHTTP(w, r)
			}))
		})
		rc, err := rpc.DialContext(context.Background(), c10Server.URL)
		if err != nil {
			t.Fatalf("c10: dial: %v", err)
		}
		defer rc.Close()
		backend = WrapEthClient(ethclient.NewClient(rc))
	}
	client, err := New(ks, backend, slog.New(slog.NewTextHandler(io.Discard, nil)))
	if err != nil {
		t.Fatalf("c10: New: %v", err)
	}
	defer func() { _ = client.Close() }()
	owner := ks.GetAddress()
	other := common.HexToAddress("0x00000000000000000000000000000000000000c1")
	var out []c10Cancel
	for at, st := range c10Steps(in) {
		switch st.K {
		case "tip":
			node.mu.Lock()
			node.sug = st.Sug
			node.mu.Unlock()
		case "send":
			node.mu.Lock()
			node.mode = "send"
			node.mu.Unlock()
			_, _ = client.Send(context.Background(), &TxRequest{To: &other, CallData: []byte{7}, Value: big.NewInt(0),
				GasLimit: 50000, GasPrice: big.NewInt(3000000000)})
			node.mu.Lock()
			node.mode = "cancel"
			node.mu.Unlock()
		case "cancel":
			if st.C == nil {
				continue
			}
			c := *st.C
			c.Steps = nil
			origChain := big.NewInt(31337)
			if c.Foreign {
				origChain = big.NewInt(5)
			}
			var orig *types.Transaction
			node.mu.Lock()
			lastSent := node.lastSent
			node.mu.Unlock()
			switch {
			case c.Kind == "own" && lastSent != nil: // a transaction this very client sent earlier in the session
				orig = lastSent
				c.Nonce = orig.Nonce()
				if orig.ChainId().Cmp(node.chainID) != 0 {
					t.Errorf("c10: a transaction sent by this client carries chain id %v, client has %v", orig.ChainId(), node.chainID)
				}
			case c.Kind == "legacy":
				orig = types.NewTx(&types.LegacyTx{Nonce: c.Nonce, GasPrice: c10Big(c.Fee), Gas: 60000, To: &other,
					Value: big.NewInt(5), Data: []byte{0xde, 0xad}})
			case c.Kind == "access":
				orig = types.NewTx(&types.AccessListTx{ChainID: origChain, Nonce: c.Nonce, GasPrice: c10Big(c.Fee), Gas: 60000,
					To: &other, Value: big.NewInt(5), Data: []byte{0xde, 0xad}})
			default:
				orig = types.NewTx(&types.DynamicFeeTx{ChainID: origChain, Nonce: c.Nonce, GasTipCap: c10Big(c.Tip),
					GasFeeCap: c10Big(c.Fee), Gas: 60000, To: &other, Value: big.NewInt(5), Data: []byte{0xde, 0xad}})
			}
			if wire && orig != lastSent { // a node only serves signed transactions
				signed, err := types.SignTx(orig, types.LatestSignerForChainID(origChain), key)
				if err != nil {
					t.Fatalf("c10: signing the original: %v", err)
				}
				orig = signed
			}
			node.mu.Lock()
			c.Sug = node.sug
			node.in, node.orig, node.sub, node.acc, node.priceAsked, node.mode, node.attempts = c, orig, nil, false, false, "cancel", 0
			node.mu.Unlock()
			obs := c10Obs{At: at, Sug: c.Sug, OrigPrice: orig.GasPrice().String(), OrigFee: orig.GasFeeCap().String(),
				OrigTip: orig.GasTipCap().String(), Owner: common.Bytes2Hex(owner.Bytes()), ChainID: node.chainID.String()}
			func() {
				defer func() {
					if r := recover(); r != nil {
						obs.Panic = true
					}
				}()
				_, err := client.CancelTx(context.Background(), orig.Hash())
				obs.OK = err == nil
				obs.NotFound = err != nil && errors.Is(err, ethereum.NotFound)
			}()
			node.mu.Lock()
			obs.Sub, obs.Acc, obs.PriceAsked, obs.Attempts = node.sub, node.acc, node.priceAsked, node.attempts
			node.mu.Unlock()
			out = append(out, c10Cancel{in: c, obs: obs})
		}
	}
	return out, node.problems
}

// ---- Coq term ------------------------------------------------------------------------------

func c10Z(dec string) string { return "(" + dec + ")%Z" }

func c10Coq(id int, in c10In, o c10Obs) string {
	orig := coqRecord("o_nonce", c10Z(fmt.Sprint(in.Nonce)), "o_price", c10Z(o.OrigPrice), "o_fee", c10Z(o.OrigFee),
		"o_tip", c10Z(o.OrigTip))
	var lk string
	switch in.State {
	case "pending":
		lk = coqApp("LFound", "(Some "+orig+")", "true")
	case "mined":
		lk = coqApp("LFound", "(Some "+orig+")", "false")
	case "notfound":
		lk = coqApp("LErr", "true")
	case "nil":
		lk = coqApp("LFound", "None", "false")
	case "nilpending":
		lk = coqApp("LFound", "None", "true")
	default:
		lk = coqApp("LErr", "false")
	}
	tp := "TipErr"
	if in.Sug != "err" {
		tp = coqApp("TipOk", c10Z(in.Sug))
	}
	sub := "None"
	if o.Sub != nil {
		s := o.Sub
		sub = "(Some " + coqRecord("x_nonce", c10Z(fmt.Sprint(s.Nonce)), "x_chain", c10Z(s.Chain), "x_to", coqBytes(common.Hex2Bytes(s.To)),
			"x_value", c10Z(s.Value), "x_data", coqBytes(common.Hex2Bytes(s.Data)), "x_gas", c10Z(fmt.Sprint(s.Gas)),
			"x_tip", c10Z(s.Tip), "x_fee", c10Z(s.Fee)) + ")"
	}
	ob := coqRecord("b_sub", sub, "b_acc", coqBool(o.Acc), "b_ok", coqBool(o.OK), "b_notfound", coqBool(o.NotFound),
		"b_panic", coqBool(o.Panic))
	return coqRecord("id", coqN(uint64(id)),
		"cl", coqRecord("owner", coqBytes(common.Hex2Bytes(o.Owner)), "chain", c10Z(o.ChainID)),
		"lk", lk, "tp", tp, "pr", coqApp("PriceOk", c10Z(fmt.Sprint(c10SuggestedPrice))),
		"sg", coqBool(in.Sign), "sb", coqBool(in.Sub && in.SubFail == 0), "ob", ob)
}

// ---- generators ----------------------------------------------------------------------------

func c10Caps() []string {
	p := func(e uint) string { return new(big.Int).Lsh(big.NewInt(1), e).String() }
	return []string{"0", "1", "9", "10", "11", "99", p(63), p(64), p(200)}
}

func c10RandAmount(r *rand.Rand) string {
	caps := c10Caps()
	switch r.Intn(5) {
	case 0:
		return caps[r.Intn(len(caps))]
	case 1: // next to a boundary
		v := c10Big(caps[r.Intn(len(caps))])
		v.Add(v, big.NewInt(int64(r.Intn(5)-2)))
		if v.Sign() < 0 {
			v.SetInt64(0)
		}
		return v.String()
	case 2:
		return fmt.Sprint(r.Intn(1000))
	case 3: // gwei range
		return fmt.Sprint(r.Int63n(500000000000))
	default:
		v := new(big.Int).Rand(r, new(big.Int).Lsh(big.NewInt(1), uint(1+r.Intn(220))))
		return v.String()
	}
}

func TestVerifC10(t *testing.T) {
	e := vfOpen(t, 100)
	defer e.Close()
	defer func() {
		if c10Server != nil {
			c10Server.Close()
		}
	}()
	run := func(class string, in c10In) {
		cancels, problems := c10Run(t, in)
		if len(problems) > 0 {
			t.Errorf("c10 driver problem in class %s: %s (input %+v)", class, strings.Join(problems, "; "), in)
		}
		for _, c := range cancels {
			c := c
			if c.obs.OrigPrice != c.obs.OrigFee { // premise of C10_fee_exact, a fact about the library
				t.Errorf("c10: GasPrice() != GasFeeCap() for %+v", c.in)
			}
			// the input recorded is the whole session (a replay must rebuild the client's history)
			e.Emit(class, in, c.obs, func(id int) string { return c10Coq(id, c.in, c.obs) })
		}
	}
	for _, raw := range e.Replay {
		var in c10In
		if err := json.Unmarshal(raw, &in); err != nil {
			t.Fatalf("bad replay input: %v", err)
		}
		run("replay", in)
	}
	if e.OnlyReplay() {
		return
	}
	caps := c10Caps()
	sugs := append(append([]string{}, caps...), "err")
	// crossed caps, pending target
	for _, fee := range caps {
		for _, sug := range sugs {
			run("crossed-legacy", c10In{Kind: "legacy", Nonce: 7, Fee: fee, State: "pending", Sug: sug, Sign: true, Sub: true})
			for _, tip := range caps {
				run("crossed-dynamic", c10In{Kind: "dynamic", Nonce: 7, Tip: tip, Fee: fee, State: "pending", Sug: sug, Sign: true, Sub: true})
			}
		}
	}
	// states of the target x kinds x failure placement
	states := []string{"pending", "mined", "notfound", "error", "nil", "nilpending"}
	kinds := []string{"legacy", "access", "dynamic"}
	for _, st := range states {
		for _, k := range kinds {
			for _, sug := range []string{"err", "0", "11", caps[7]} {
				for _, f := range [][2]bool{{true, true}, {false, true}, {true, false}, {false, false}} {
					for _, foreign := range []bool{false, true} {
						run("state-"+st, c10In{Kind: k, Nonce: 3, Tip: "10", Fee: "99", Foreign: foreign, State: st, Sug: sug,
							Sign: f[0], Sub: f[1]})
					}
				}
			}
		}
	}
	// nonces
	for _, n := range []uint64{0, 1, 7, 1 << 32, 1 << 63, ^uint64(0) - 1, ^uint64(0)} {
		for _, k := range kinds {
			run("nonce", c10In{Kind: k, Nonce: n, Tip: "9", Fee: "11", State: "pending", Sug: "10", Sign: true, Sub: true})
		}
	}
	// random
	for i := 0; i < e.N; i++ {
		in := c10In{Kind: kinds[e.rng.Intn(3)], Nonce: e.rng.Uint64() >> uint(e.rng.Intn(64)), Tip: c10RandAmount(e.rng),
			Fee: c10RandAmount(e.rng), Foreign: e.rng.Intn(4) == 0, State: "pending", Sug: c10RandAmount(e.rng), Sign: true, Sub: true}
		if e.rng.Intn(5) == 0 {
			in.State = states[e.rng.Intn(len(states))]
		}
		if e.rng.Intn(8) == 0 {
			in.Sug = "err"
		}
		if e.rng.Intn(8) == 0 {
			in.Sign = false
		}
		if e.rng.Intn(8) == 0 {
			in.Sub = false
		}
		if e.rng.Intn(6) == 0 {
			in.SubFail, in.ET = 1+e.rng.Intn(3), c10ErrorKinds[e.rng.Intn(len(c10ErrorKinds))]
		}
		run("random", in)
	}
	// ---- the production assembly: New over WrapEthClient(ethclient) over JSON-RPC/HTTP -------------
	wireStates := []string{"pending", "mined", "notfound", "error"}
	i := 0
	for _, fee := range caps {
		for _, sug := range sugs {
			run("wire-crossed-legacy", c10In{T: "wire", Kind: "legacy", Nonce: 7, Fee: fee, State: "pending", Sug: sug, Sign: true, Sub: true})
			for _, tip := range caps {
				if i++; i%9 == 0 || e.Tier == "thorough" {
					run("wire-crossed-dynamic", c10In{T: "wire", Kind: "dynamic", Nonce: 7, Tip: tip, Fee: fee, State: "pending", Sug: sug, Sign: true, Sub: true})
				}
			}
		}
	}
	for _, st := range wireStates {
		for _, k := range kinds {
			for _, sug := range []string{"err", "11"} {
				for _, f := range [][2]bool{{true, true}, {false, true}, {true, false}} {
					run("wire-state-"+st, c10In{T: "wire", Kind: k, Nonce: 3, Tip: "10", Fee: "99", Foreign: k == "access", State: st, Sug: sug,
						Sign: f[0], Sub: f[1]})
				}
			}
		}
	}
	for _, k := range kinds {
		for _, f := range [][2]bool{{true, true}, {true, false}} {
			run("wire-state-garbage", c10In{T: "wire", Kind: k, Nonce: 3, Tip: "10", Fee: "99", State: "garbage", Sug: "11", Sign: f[0], Sub: f[1]})
		}
	}
	// SendTransaction of the replacement fails k times with every error text, then succeeds (or never):
	// what the node finally ACCEPTS is judged; a cancellation that returned an error must have had nothing accepted
	for _, tr := range []string{"", "wire"} {
		for _, et := range c10ErrorKinds {
			for k := 1; k <= 3; k++ {
				for _, final := range []bool{true, false} {
					for _, kind := range []string{"legacy", "dynamic"} {
						run("resubmit", c10In{T: tr, Kind: kind, Nonce: 4, Tip: "1000000000", Fee: "2000000000", State: "pending",
							Sug: "1000000000", Sign: true, Sub: final, SubFail: k, ET: et})
					}
				}
			}
			run("resubmit", c10In{T: tr, Kind: "dynamic", Nonce: 4, Tip: "7", Fee: "99", State: "pending", Sug: "err", Sign: true, Sub: true, ET: et})
			run("resubmit", c10In{T: tr, Kind: "dynamic", Nonce: 4, Tip: "7", Fee: "99", State: "pending", Sug: "11", Sign: false, Sub: true, ET: et})
		}
	}
	// the target is a transaction this client itself sent: same nonce AND same chain id as the original
	for _, tr := range []string{"", "wire"} {
		for _, sug := range []string{"1", "1000000000", "50000000000", "err"} {
			for _, st := range []string{"pending", "mined"} {
				run("own-original", c10In{T: tr, Steps: []c10Step{{K: "tip", Sug: "1000000000"}, {K: "send"}, {K: "send"}, {K: "tip", Sug: sug},
					{K: "cancel", C: &c10In{Kind: "own", State: st, Sign: true, Sub: true}}}})
			}
		}
	}
	// the SAME original cancelled twice on one client, the node's suggestion raised (or changed) in between:
	// the second replacement must follow the suggestion of its own moment
	for _, tr := range []string{"", "wire"} {
		for _, ch := range [][2]string{{"1000000000", "50000000000"}, {"1", "1000"}, {"0", caps[7]}, {"50000000000", "1000000000"}, {"1000000000", "err"}} {
			for _, kind := range []string{"own", "legacy", "access", "dynamic"} {
				tgt := func() *c10In {
					return &c10In{Kind: kind, Nonce: 6, Tip: "1000000000", Fee: "2000000000", State: "pending", Sign: true, Sub: true}
				}
				run("same-original-twice", c10In{T: tr, Steps: []c10Step{{K: "tip", Sug: "1000000000"}, {K: "send"}, {K: "tip", Sug: ch[0]},
					{K: "cancel", C: tgt()}, {K: "tip", Sug: ch[1]}, {K: "cancel", C: tgt()}, {K: "cancel", C: tgt()}}})
			}
		}
	}
	// sessions on one client: an earlier operation, then the node's suggestion changes, then CancelTx.
	// The replacement must follow what the node suggests at that moment; a failing query must refuse.
	gwei := "1000000000"
	target := func(kind, tip, fee string, n uint64) *c10In {
		return &c10In{Kind: kind, Nonce: n, Tip: tip, Fee: fee, State: "pending", Sign: true, Sub: true}
	}
	changes := [][2]string{{gwei, "50000000000"}, {"1", "2"}, {"0", caps[7]}, {"10", "11"}, {gwei, "err"}, {"err", gwei},
		{"50000000000", gwei}, {"11", "0"}, {gwei, gwei}, {"99", caps[8]}}
	for _, tr := range []string{"", "wire"} {
		cls := "session"
		if tr == "wire" {
			cls = "wire-session"
		}
		for _, ch := range changes {
			for _, warm := range []string{"cancel", "send"} {
				for _, kind := range []string{"legacy", "dynamic"} {
					steps := []c10Step{{K: "tip", Sug: ch[0]}}
					if warm == "send" {
						steps = append(steps, c10Step{K: "send"})
					} else {
						steps = append(steps, c10Step{K: "cancel", C: target(kind, "5", "20", 1)})
					}
					steps = append(steps, c10Step{K: "tip", Sug: ch[1]},
						c10Step{K: "cancel", C: target(kind, gwei, "2000000000", 2)},
						c10Step{K: "tip", Sug: ch[0]},
						c10Step{K: "cancel", C: target(kind, "0", "1", 3)})
					run(cls, c10In{T: tr, Steps: steps})
				}
			}
		}
		for j := 0; j < 10+e.N/20; j++ { // random sessions
			var steps []c10Step
			n := 2 + e.rng.Intn(5)
			for k := 0; k < n; k++ {
				sug := c10RandAmount(e.rng)
				if e.rng.Intn(5) == 0 {
					sug = "err"
				}
				steps = append(steps, c10Step{K: "tip", Sug: sug})
				if e.rng.Intn(4) == 0 {
					steps = append(steps, c10Step{K: "send"})
				}
				c := target(kinds[e.rng.Intn(3)], c10RandAmount(e.rng), c10RandAmount(e.rng), uint64(k))
				if e.rng.Intn(6) == 0 {
					c.State = wireStates[e.rng.Intn(len(wireStates))]
				}
				if e.rng.Intn(8) == 0 {
					c.Sign = false
				}
				if e.rng.Intn(8) == 0 {
					c.Sub = false
				}
				steps = append(steps, c10Step{K: "cancel", C: c})
			}
			run(cls+"-random", c10In{T: tr, Steps: steps})
		}
	}
}
