package evmclient

// C09 driver, part 2: gated schedules against a real EvmClient + txmonitor, run in child
// processes (a panic in a goroutine of the monitor kills the process and is observed as a crash).

import (
	"bufio"
	"context"
	"crypto/ecdsa"
	"encoding/json"
	"errors"
	"fmt"
	"io"
	"log/slog"
	"math/big"
	"math/rand"
	"os"
	"os/exec"
	"sort"
	"strings"
	"sync"
	"testing"
	"time"

	"github.com/ethereum/go-ethereum/common"
	"github.com/ethereum/go-ethereum/core/types"
	"github.com/ethereum/go-ethereum/crypto"
)

// ---- case description ---------------------------------------------------------------------------

type c09Step struct {
	Op string `json:"op"`
	H  int    `json:"h,omitempty"` // transaction index: the H-th successful send (1-based)
	A  uint64 `json:"a,omitempty"`
	B  uint64 `json:"b,omitempty"`
	K  string `json:"k,omitempty"`
}

type c09In struct {
	Transport string    `json:"transport"` // "mock" | "rpc"
	Batch     int       `json:"batch,omitempty"`
	Steps     []c09Step `json:"steps"`
}

type c09Waiter struct {
	ID   uint64   `json:"id"`
	Outs []string `json:"outs"` // Coq terms of type wout
}

type c09Obs struct {
	Items   []string    `json:"items"`
	Waiters []c09Waiter `json:"waiters"`
	Refused []uint64    `json:"refused"`
	GaveUp  []uint64    `json:"gaveup"`
	Crashed bool        `json:"crashed"`
	CloseOK bool        `json:"close_ok"`
	Panic   string      `json:"panic,omitempty"`
	Note    string      `json:"note,omitempty"`
}

// ---- signer ------------------------------------------------------------------------------------

type c09Signer struct{ key *ecdsa.PrivateKey }

func (s *c09Signer) SignHash(h []byte) ([]byte, error) { return crypto.Sign(h, s.key) }
func (s *c09Signer) SignTx(tx *types.Transaction, chainID *big.Int) (*types.Transaction, error) {
	return types.SignTx(tx, types.NewLondonSigner(chainID), s.key)
}
func (s *c09Signer) GetAddress() common.Address                { return crypto.PubkeyToAddress(s.key.PublicKey) }
func (s *c09Signer) GetPrivateKey() (*ecdsa.PrivateKey, error) { return s.key, nil }
func (s *c09Signer) ZeroPrivateKey(*ecdsa.PrivateKey)          {}
func (s *c09Signer) String() string                            { return "c09" }

// ---- one running case ------------------------------------------------------------------------------

type c09Run struct {
	in      c09In
	slow    int
	node    *c09Node
	rec     *c09Rec
	client  *EvmClient
	tm      *txmonitor
	emit    func(kind string, payload interface{}) // streamed to the parent
	logMu   sync.Mutex
	items   []string
	hashes  []common.Hash          // tx index-1 -> hash
	nonces  map[common.Hash]uint64 // nonce of every sent tx
	ids     map[common.Hash]uint64
	nextW   uint64
	intern  []uint64 // waiter ids of the client's own waiters
	expect  map[string]int
	wMu     sync.Mutex
	waiters map[uint64]*c09Waiter
	refused []uint64
	wg      sync.WaitGroup
	closing bool
	drainLg bool
	closeCh chan error
	lastAct time.Time
	dirty   bool           // a delivery may have happened since the client's own waiters were last logged
	ctxW    []c09CtxWaiter // WaitForReceipt callers with a context the driver can end
	gaveUp  []uint64
}

type c09CtxWaiter struct {
	w      uint64
	cancel context.CancelFunc
	done   chan struct{}
}

func (c *c09Run) settle() time.Duration { return time.Duration(25*c.slow) * time.Millisecond }

func (c *c09Run) log(item string) {
	c.logMu.Lock()
	c.items = append(c.items, item)
	c.lastAct = time.Now()
	if strings.Contains(item, "Proc") || strings.Contains(item, "Drain") || strings.Contains(item, "Sent") {
		c.dirty = true
	}
	c.logMu.Unlock()
	c.emit("item", item)
}

func (c *c09Run) hid(h common.Hash) uint64 {
	c.logMu.Lock()
	defer c.logMu.Unlock()
	if v, ok := c.ids[h]; ok {
		return v
	}
	v := uint64(900000 + len(c.ids))
	c.ids[h] = v
	return v
}

func (c *c09Run) txHash(idx int) common.Hash {
	if idx >= 1 && idx <= len(c.hashes) {
		return c.hashes[idx-1]
	}
	// a hash the client never sent
	h := common.BigToHash(big.NewInt(int64(7000000 + idx)))
	c.logMu.Lock()
	c.ids[h] = uint64(800000 + idx)
	c.logMu.Unlock()
	return h
}

func (c *c09Run) wkey(n uint64, h common.Hash) string { return fmt.Sprintf("%d/%s", n, h.Hex()) }

func (c *c09Run) registered(n uint64, h common.Hash) int {
	c.tm.mtx.Lock()
	defer c.tm.mtx.Unlock()
	return len(c.tm.waitMap[n][h])
}

func (c *c09Run) exited() bool {
	select {
	case <-c.tm.waitDone:
		return true
	default:
		return false
	}
}

// noteDrain logs the Drain event the first time the watch loop is seen to have returned.
func (c *c09Run) noteDrain() {
	if !c.drainLg && c.exited() {
		c.drainLg = true
		c.log("(Ev Drain)")
	}
}

// quiesce waits until the monitor neither runs nor is about to run: every call in progress is
// parked at a gate and nothing was logged for a settle interval.
func (c *c09Run) quiesce() {
	deadline := time.Now().Add(time.Duration(4*c.slow) * time.Second)
	for time.Now().Before(deadline) {
		time.Sleep(2 * time.Millisecond)
		c.rec.mu.Lock()
		act, la := c.rec.active, c.rec.lastAct
		c.rec.mu.Unlock()
		c.node.mu.Lock()
		na := c.node.activityAt
		c.node.mu.Unlock()
		c.logMu.Lock()
		ll := c.lastAct
		c.logMu.Unlock()
		parked := c.node.parkedCount("")
		last := la
		if na.After(last) {
			last = na
		}
		if ll.After(last) {
			last = ll
		}
		if act <= parked && time.Since(last) >= c.settle() {
			break
		}
	}
	// Elements of an answered batch that the monitor has not asked about individually: in the current
	// code that only happens while checkLoop is between two calls. Give it time before concluding that
	// they were skipped (the pre-fix code does skip them).
	if n, busy, since := c.rec.Unprocessed(); n > 0 && !busy {
		lim := since.Add(time.Duration(400*c.slow) * time.Millisecond)
		for time.Now().Before(lim) {
			time.Sleep(2 * time.Millisecond)
			if n2, busy2, _ := c.rec.Unprocessed(); n2 == 0 || busy2 {
				c.quiesce()
				return
			}
		}
	}
	c.rec.Flush()
	c.noteDrain()
	c.awaitInternal()
	c.internalRuns()
}

// awaitInternal waits (with a deadline) until the client's own waiter goroutines of the transactions
// whose outcome has been handed over have updated the pending list: they run asynchronously and are
// not tracked by the recorder. On the deadline the state is taken as it is.
func (c *c09Run) awaitInternal() {
	deadline := time.Now().Add(time.Duration(2500*c.slow) * time.Millisecond)
	for {
		c.rec.mu.Lock()
		n := len(c.rec.resolved)
		c.rec.mu.Unlock()
		if n == 0 {
			return
		}
		var late []common.Hash
		for _, ti := range c.client.PendingTxns() {
			h := common.HexToHash(ti.Hash)
			c.rec.mu.Lock()
			if c.rec.resolved[h] {
				late = append(late, h)
			}
			c.rec.mu.Unlock()
		}
		if len(late) == 0 {
			return
		}
		if time.Now().After(deadline) {
			c.rec.mu.Lock()
			for _, h := range late {
				delete(c.rec.resolved, h) // judged as observed; do not wait for it again
			}
			c.rec.mu.Unlock()
			return
		}
		time.Sleep(2 * time.Millisecond)
	}
}

// olderWaiters reports whether some waiter is registered below the confirmed nonce c.
func (c *c09Run) olderWaiters(nonce uint64) bool {
	c.tm.mtx.Lock()
	defer c.tm.mtx.Unlock()
	for k, v := range c.tm.waitMap {
		if k < nonce && len(v) > 0 {
			return true
		}
	}
	return false
}

// pollAndSettle releases one parked BlockNumber call and waits for the iteration, and for the check it
// hands over, to get going: a check that must ask the node is awaited with a deadline, not a sleep.
func (c *c09Run) pollAndSettle() {
	c.rec.mu.Lock()
	idle := c.rec.actChk == 0 && len(c.rec.pendEl) == 0
	begun := c.rec.batchBegun
	c.rec.nonceOK = false
	c.rec.mu.Unlock()
	c.node.release(c09KBlock)
	c.quiesce()
	c.rec.mu.Lock()
	ok, nv := c.rec.nonceOK, c.rec.nonceVal
	c.rec.mu.Unlock()
	if idle && ok && !c.exited() && c.olderWaiters(nv) {
		deadline := time.Now().Add(time.Duration(2500*c.slow) * time.Millisecond)
		for time.Now().Before(deadline) {
			c.rec.mu.Lock()
			b := c.rec.batchBegun
			c.rec.mu.Unlock()
			if b > begun {
				break
			}
			time.Sleep(2 * time.Millisecond)
		}
		c.quiesce()
	}
	c.sampleBusy()
}

// internalRuns logs the (by now finished) runs of the client's own waiter goroutines.
func (c *c09Run) internalRuns() {
	c.logMu.Lock()
	d := c.dirty
	c.dirty = false
	c.logMu.Unlock()
	if !d {
		return
	}
	for _, w := range c.intern {
		c.log(fmt.Sprintf("(Ev (InternalRun %s))", coqN(w)))
	}
	c.logMu.Lock()
	c.dirty = false
	c.logMu.Unlock()
}

func (c *c09Run) outcome(w uint64, o string) {
	c.wMu.Lock()
	c.waiters[w].Outs = append(c.waiters[w].Outs, o)
	c.wMu.Unlock()
	c.log(fmt.Sprintf("(ObsOut %s %s)", coqN(w), o)) // position of the arrival in the run
	c.emit("out", map[string]interface{}{"w": w, "o": o})
}

func (c *c09Run) classify(res Result) string {
	switch {
	case res.Err == nil && res.Receipt != nil:
		return coqApp("OReceipt", coqN(c.hid(res.Receipt.TxHash)), coqN(res.Receipt.Status))
	case errors.Is(res.Err, ErrTxnCancelled):
		return "OCancelled"
	case errors.Is(res.Err, ErrMonitorClosed):
		return "OClosed"
	}
	return coqApp("OReceipt", coqN(999999), coqN(999999)) // neither receipt nor error: not an outcome of the model
}

func (c *c09Run) newWaiter() uint64 {
	w := c.nextW
	c.nextW++
	c.wMu.Lock()
	c.waiters[w] = &c09Waiter{ID: w, Outs: []string{}}
	c.wMu.Unlock()
	return w
}

func (c *c09Run) waitRegistered(n uint64, h common.Hash, done <-chan struct{}) {
	k := c.wkey(n, h)
	c.expect[k]++
	deadline := time.Now().Add(time.Duration(2*c.slow) * time.Second)
	for time.Now().Before(deadline) {
		if c.registered(n, h) >= c.expect[k] {
			return
		}
		select {
		case <-done:
			c.expect[k]--
			return
		default:
		}
		if c.exited() {
			// after the drain a watcher is answered at once (or, before the repair, lost)
			time.Sleep(c.settle())
			if c.registered(n, h) < c.expect[k] {
				c.expect[k]--
			}
			return
		}
		time.Sleep(time.Millisecond)
	}
	c.expect[k]--
}

func (c *c09Run) resetExpect(n uint64, h common.Hash) {
	// entries disappear when notified; re-synchronise the expected count with reality
	c.expect[c.wkey(n, h)] = c.registered(n, h)
}

func (c *c09Run) step(s c09Step) {
	ctx := context.Background()
	switch s.Op {
	case "send", "sendfail", "cancel":
		c.node.mu.Lock()
		c.node.pending = s.A
		c.node.fail["send"] = s.Op == "sendfail"
		c.node.lastTx = nil
		c.node.mu.Unlock()
		var h common.Hash
		var err error
		if s.Op == "cancel" {
			// same-nonce replacement by the client itself
			h, err = c.client.CancelTx(ctx, c.txHash(s.H))
		} else {
			to := common.HexToAddress("0xc09")
			h, err = c.client.Send(ctx, &TxRequest{To: &to, CallData: []byte{byte(len(c.hashes))}, Value: big.NewInt(0)})
		}
		c.node.mu.Lock()
		c.node.fail["send"] = false
		tx := c.node.lastTx
		c.node.mu.Unlock()
		if err != nil {
			return
		}
		if tx == nil || tx.Hash() != h {
			c.log("(Ev (Sent 999998 0))") // the client reports a hash the node never received
			return
		}
		n := tx.Nonce()
		c.hashes = append(c.hashes, h)
		c.nonces[h] = n
		c.logMu.Lock()
		c.ids[h] = uint64(len(c.hashes))
		c.logMu.Unlock()
		c.resetExpect(n, h)
		c.log(fmt.Sprintf("(Ev (Sent %s %s))", coqN(uint64(len(c.hashes))), coqN(n)))
		// the goroutine started by waitForTxn registers the client's own waiter
		c.waitRegistered(n, h, nil)
		w := c.nextW
		c.nextW++
		c.intern = append(c.intern, w)
		c.log(fmt.Sprintf("(Ev (InternalWatch %s %s))", coqN(uint64(len(c.hashes))), coqN(n)))
		c.quiesce()
	case "trace":
		c.node.mu.Lock()
		c.node.traceMode = int(s.A)
		c.node.mu.Unlock()
	case "giveup":
		// end the context of the A-th cancellable WaitForReceipt caller that is still waiting
		if int(s.A) >= len(c.ctxW) {
			return
		}
		cw := c.ctxW[s.A]
		select {
		case <-cw.done:
			return // it already has its answer
		default:
		}
		cw.cancel()
		select {
		case <-cw.done:
		case <-time.After(time.Duration(2*c.slow) * time.Second):
		}
		c.wMu.Lock()
		left := len(c.waiters[cw.w].Outs) == 0
		c.wMu.Unlock()
		if left {
			c.gaveUp = append(c.gaveUp, cw.w)
			c.log(fmt.Sprintf("(Ev (GiveUp %s))", coqN(cw.w)))
		}
		c.quiesce()
	case "watch", "watchctx":
		h := c.txHash(s.H)
		w := c.newWaiter()
		wctx, wcancel := context.WithCancel(ctx)
		_ = wcancel
		n, known := c.nonces[h]
		if known {
			c.resetExpect(n, h)
		}
		c.log(fmt.Sprintf("(Ev (Watch %s))", coqN(c.hid(h))))
		done := make(chan struct{})
		c.wg.Add(1)
		go func() {
			defer c.wg.Done()
			rc, err := c.client.WaitForReceipt(wctx, h)
			switch {
			case err == nil:
				c.outcome(w, c.classify(Result{Receipt: rc}))
			case errors.Is(err, context.Canceled):
				// the caller left: not an outcome of the monitor
			case strings.Contains(err.Error(), "tx not found"):
				c.wMu.Lock()
				c.refused = append(c.refused, w)
				c.wMu.Unlock()
				c.emit("refused", w)
			default:
				c.outcome(w, c.classify(Result{Err: err}))
			}
			close(done)
		}()
		if s.Op == "watchctx" {
			c.ctxW = append(c.ctxW, c09CtxWaiter{w: w, cancel: wcancel, done: done})
		}
		if known {
			c.waitRegistered(n, h, done)
		} else {
			select {
			case <-done:
			case <-time.After(time.Duration(2*c.slow) * time.Second):
			}
		}
		c.quiesce()
	case "watchraw":
		h := c.txHash(s.H)
		n, known := c.nonces[h]
		if !known {
			n = s.A
		}
		w := c.newWaiter()
		c.resetExpect(n, h)
		c.log(fmt.Sprintf("(Ev (WatchRaw %s %s))", coqN(c.hid(h)), coqN(n)))
		ch, err := c.tm.watchTx(h, n)
		if err == nil {
			c.expect[c.wkey(n, h)] = c.registered(n, h)
			c.wg.Add(1)
			go func() {
				defer c.wg.Done()
				for res := range ch {
					c.outcome(w, c.classify(res))
				}
			}()
		}
		c.quiesce()
	case "block":
		c.node.mu.Lock()
		c.node.blockNum, c.node.confNonce = s.A, s.B
		c.node.mu.Unlock()
	case "mine":
		c.node.mu.Lock()
		c.node.receipts[c.txHash(s.H)] = s.A
		c.node.mu.Unlock()
	case "unmine":
		c.node.mu.Lock()
		delete(c.node.receipts, c.txHash(s.H))
		c.node.mu.Unlock()
	case "err":
		c.node.mu.Lock()
		c.node.errMode[c.txHash(s.H)] = int(s.A)
		c.node.mu.Unlock()
	case "fail":
		c.node.mu.Lock()
		c.node.fail[s.K] = s.A != 0
		c.node.mu.Unlock()
	case "hold":
		if s.K == c09KBlock {
			return
		}
		c.node.mu.Lock()
		c.node.hold[s.K] = s.A != 0
		c.node.mu.Unlock()
	case "poll":
		if c.exited() {
			return
		}
		if !c.awaitParked(c09KBlock, 80*time.Millisecond) {
			select { // the watch loop is idle in its select: what watchTx does for a new transaction
			case c.tm.newTxAdded <- struct{}{}:
			case <-time.After(time.Duration(700*c.slow) * time.Millisecond):
			}
			if !c.awaitParked(c09KBlock, time.Duration(700*c.slow)*time.Millisecond) {
				return
			}
		}
		c.pollAndSettle()
	case "tick":
		// a poll triggered by the ticker alone: no new-transaction signal is given
		if c.exited() {
			return
		}
		if !c.awaitParked(c09KBlock, time.Duration(900*c.slow)*time.Millisecond) {
			return
		}
		c.pollAndSettle()
	case "rel":
		if s.K == c09KReceipt && c.in.Transport == "rpc" && c.closing {
			return
		}
		if c.node.release(s.K) {
			c.quiesce()
			c.sampleBusy()
		}
	case "close":
		c.doClose()
	case "pend":
		c.samplePending()
	}
}

func (c *c09Run) awaitParked(kind string, d time.Duration) bool {
	deadline := time.Now().Add(d)
	for {
		if c.node.parkedCount(kind) > 0 {
			return true
		}
		if time.Now().After(deadline) {
			return false
		}
		time.Sleep(time.Millisecond)
	}
}

func (c *c09Run) doClose() {
	if c.closing {
		return
	}
	if c.in.Transport == "rpc" {
		// over HTTP the abort of an individual query races with the drain: finish those first
		c.node.mu.Lock()
		c.node.hold[c09KReceipt] = false
		c.node.mu.Unlock()
		for c.node.release(c09KReceipt) {
			c.quiesce()
		}
	}
	c.closing = true
	c.log("(Ev Close)")
	go func() { c.closeCh <- c.client.Close() }()
	// the watch loop returns unless it is parked in a call that ignores cancellation
	deadline := time.Now().Add(time.Duration(1500*c.slow) * time.Millisecond)
	for time.Now().Before(deadline) && !c.exited() {
		if c.node.parkedCount(c09KNonce) > 0 && c.in.Transport == "mock" {
			break
		}
		time.Sleep(time.Millisecond)
	}
	c.quiesce()
}

// sampleBusy records whether check() is inside a node query at this quiescent point.
func (c *c09Run) sampleBusy() {
	c.rec.mu.Lock()
	b := c.rec.actChk > 0
	c.rec.mu.Unlock()
	c.log("(ObsBusy " + coqBool(b) + ")")
}

func (c *c09Run) samplePending() {
	c.quiesce()
	c.sampleBusy()
	var l []string
	for _, ti := range c.client.PendingTxns() {
		l = append(l, coqN(c.hid(common.HexToHash(ti.Hash))))
	}
	sort.Strings(l)
	c.log("(ObsPending " + coqList(l) + ")")
}

func c09RunCase(in c09In, slow int, emit func(string, interface{})) c09Obs {
	c := &c09Run{in: in, slow: slow, emit: emit, nonces: map[common.Hash]uint64{}, ids: map[common.Hash]uint64{},
		expect: map[string]int{}, waiters: map[uint64]*c09Waiter{}, closeCh: make(chan error, 1), lastAct: time.Now()}
	saved := batchSize
	defer func() { batchSize = saved }()
	if in.Batch > 0 {
		batchSize = in.Batch
	}
	c.node = c09NewNode(in.Transport == "mock")
	var inner EVM
	cleanup := func() {}
	if in.Transport == "rpc" {
		ev, cl, err := c09Dial(c.node)
		if err != nil {
			return c09Obs{Note: "dial: " + err.Error()}
		}
		inner, cleanup = ev, cl
	} else {
		inner = &c09MockEVM{n: c.node}
	}
	defer cleanup()
	c.rec = &c09Rec{inner: inner, node: c.node, logf: c.log, hid: c.hid, lastAct: time.Now(),
		resolved: map[common.Hash]bool{}, stopped: func() bool { return c.tm != nil && c.exited() }}
	key, _ := crypto.HexToECDSA("4c0883a69102937d6231471b5dbb6204fe5129617082792ae468d01a3f362318")
	logger := slog.New(slog.NewTextHandler(io.Discard, nil))
	var evmForClient EVM = c.rec
	if _, ok := inner.(Debugger); ok {
		evmForClient = &c09RecDbg{c.rec}
	}
	client, err := New(&c09Signer{key}, evmForClient, logger)
	if err != nil {
		return c09Obs{Note: "new: " + err.Error()}
	}
	c.client, c.tm = client, client.monitor

	for _, s := range in.Steps {
		c.step(s)
	}
	// ---- wind down: shutdown, let every parked call finish, final sample --------------------------
	c.doClose()
	closeOK := false
	c.node.mu.Lock()
	for k := range c.node.hold {
		c.node.hold[k] = false
	}
	c.node.mu.Unlock()
	deadline := time.Now().Add(12 * time.Second)
	var cerr error
	got := false
	for time.Now().Before(deadline) && !got {
		for _, k := range []string{c09KBlock, c09KNonce, c09KBatch, c09KReceipt} {
			for c.node.release(k) {
			}
		}
		select {
		case cerr = <-c.closeCh:
			got = true
		case <-time.After(5 * time.Millisecond):
		}
	}
	closeOK = got && cerr == nil
	c.quiesce()
	c.samplePending()
	wdone := make(chan struct{})
	go func() { c.wg.Wait(); close(wdone) }()
	select {
	case <-wdone:
	case <-time.After(time.Duration(1500*c.slow) * time.Millisecond):
	}
	c.wMu.Lock()
	defer c.wMu.Unlock()
	obs := c09Obs{Items: c.items, CloseOK: closeOK, Refused: append([]uint64{}, c.refused...), GaveUp: append([]uint64{}, c.gaveUp...)}
	var ids []uint64
	for id := range c.waiters {
		ids = append(ids, id)
	}
	sort.Slice(ids, func(i, j int) bool { return ids[i] < ids[j] })
	for _, id := range ids {
		w := c.waiters[id]
		obs.Waiters = append(obs.Waiters, c09Waiter{ID: id, Outs: append([]string{}, w.Outs...)})
	}
	return obs
}

// ---- Coq term of a case -------------------------------------------------------------------------

func c09Coq(id int, in c09In, o c09Obs) string {
	tr := uint64(0)
	if in.Transport == "rpc" {
		tr = 1
	}
	var outs, refused []string
	for _, w := range o.Waiters {
		outs = append(outs, coqPair(coqN(w.ID), coqList(w.Outs)))
	}
	for _, r := range o.Refused {
		refused = append(refused, coqN(r))
	}
	var gave []string
	for _, r := range o.GaveUp {
		gave = append(gave, coqN(r))
	}
	return coqRecord("id", coqN(uint64(id)), "transport", coqN(tr), "items", coqList(o.Items),
		"outs", coqList(outs), "refusedw", coqList(refused), "gaveup", coqList(gave), "crashed", coqBool(o.Crashed), "close_ok", coqBool(o.CloseOK))
}

// ---- child process protocol ---------------------------------------------------------------------

type c09Line struct {
	Idx  int             `json:"idx"`
	Kind string          `json:"kind"` // begin | item | out | refused | end
	Data json.RawMessage `json:"data,omitempty"`
}

func c09Child(inPath, outPath string, slow int) {
	data, err := os.ReadFile(inPath)
	if err != nil {
		panic(err)
	}
	f, err := os.OpenFile(outPath, os.O_CREATE|os.O_WRONLY|os.O_APPEND, 0o644)
	if err != nil {
		panic(err)
	}
	defer f.Close()
	var mu sync.Mutex
	for _, ln := range strings.Split(string(data), "\n") {
		if strings.TrimSpace(ln) == "" {
			continue
		}
		var job struct {
			Idx int   `json:"idx"`
			In  c09In `json:"in"`
		}
		if err := json.Unmarshal([]byte(ln), &job); err != nil {
			panic(err)
		}
		write := func(kind string, payload interface{}) {
			d, _ := json.Marshal(payload)
			b, _ := json.Marshal(c09Line{Idx: job.Idx, Kind: kind, Data: d})
			mu.Lock()
			f.Write(append(b, '\n')) // unbuffered: survives a crash of this process
			mu.Unlock()
		}
		write("begin", nil)
		obs := c09RunCase(job.In, slow, write)
		write("end", obs)
	}
}

type c09Job struct {
	Idx int   `json:"idx"`
	In  c09In `json:"in"`
}

// c09RunJobs runs the jobs in one chain of child processes; a crashed child yields a crashed
// observation for the case it was running and is restarted behind it.
func c09RunJobs(t testing.TB, dir string, tag int, jobs []c09Job, slow int, results map[int]c09Obs, rmu *sync.Mutex) {
	round := 0
	for len(jobs) > 0 {
		round++
		inPath := fmt.Sprintf("%s/c09-%d-%d.in", dir, tag, round)
		outPath := fmt.Sprintf("%s/c09-%d-%d.out", dir, tag, round)
		var sb strings.Builder
		for _, j := range jobs {
			b, _ := json.Marshal(j)
			sb.Write(b)
			sb.WriteByte('\n')
		}
		if err := os.WriteFile(inPath, []byte(sb.String()), 0o644); err != nil {
			t.Errorf("c09: %v", err)
			return
		}
		cmd := exec.Command(os.Args[0], "-test.run", "^TestVerifC09$", "-test.timeout", "600s")
		cmd.Env = append(os.Environ(), "C09_CHILD_IN="+inPath, "C09_CHILD_OUT="+outPath, fmt.Sprintf("C09_SLOW=%d", slow))
		out, runErr := cmd.CombinedOutput()
		// read what the child managed to write
		type partial struct {
			items   []string
			outs    map[uint64][]string
			refused []uint64
			ended   bool
			obs     c09Obs
		}
		parts := map[int]*partial{}
		order := []int{}
		if f, err := os.Open(outPath); err == nil {
			sc := bufio.NewScanner(f)
			sc.Buffer(make([]byte, 1<<20), 1<<26)
			for sc.Scan() {
				var ln c09Line
				if json.Unmarshal(sc.Bytes(), &ln) != nil {
					continue
				}
				p := parts[ln.Idx]
				if p == nil {
					p = &partial{outs: map[uint64][]string{}}
					parts[ln.Idx] = p
					order = append(order, ln.Idx)
				}
				switch ln.Kind {
				case "item":
					var s string
					json.Unmarshal(ln.Data, &s)
					p.items = append(p.items, s)
				case "out":
					var o struct {
						W uint64 `json:"w"`
						O string `json:"o"`
					}
					json.Unmarshal(ln.Data, &o)
					p.outs[o.W] = append(p.outs[o.W], o.O)
				case "refused":
					var w uint64
					json.Unmarshal(ln.Data, &w)
					p.refused = append(p.refused, w)
				case "end":
					json.Unmarshal(ln.Data, &p.obs)
					p.ended = true
				}
			}
			f.Close()
		}
		done := 0
		crashedAt := -1
		for _, j := range jobs {
			p := parts[j.Idx]
			if p == nil {
				break
			}
			if p.ended {
				rmu.Lock()
				results[j.Idx] = p.obs
				rmu.Unlock()
				done++
				continue
			}
			crashedAt = j.Idx
			msg := ""
			for _, l := range strings.Split(string(out), "\n") {
				if strings.HasPrefix(l, "panic:") || strings.HasPrefix(l, "fatal error:") {
					msg = l
					break
				}
			}
			if msg == "" {
				t.Errorf("c09: child died without a Go panic while running case %d: %v\n%s", j.Idx, runErr, c09Tail(string(out)))
				return
			}
			o := c09Obs{Items: p.items, Crashed: true, Panic: msg, Refused: p.refused}
			var ids []uint64
			for w := range p.outs {
				ids = append(ids, w)
			}
			sort.Slice(ids, func(a, b int) bool { return ids[a] < ids[b] })
			for _, w := range ids {
				o.Waiters = append(o.Waiters, c09Waiter{ID: w, Outs: p.outs[w]})
			}
			rmu.Lock()
			results[j.Idx] = o
			rmu.Unlock()
			done++
			break
		}
		if crashedAt < 0 && done < len(jobs) {
			t.Errorf("c09: child stopped early (%d of %d cases): %v\n%s", done, len(jobs), runErr, c09Tail(string(out)))
			return
		}
		jobs = jobs[done:]
	}
}

func c09Tail(s string) string {
	if len(s) > 3000 {
		return s[len(s)-3000:]
	}
	return s
}

// ---- generators -----------------------------------------------------------------------------------

func c09St(op string, h int, a, b uint64, k string) c09Step {
	return c09Step{Op: op, H: h, A: a, B: b, K: k}
}

// hand-written schedules that sit on the decision points of the model
func c09Directed(tr string) []struct {
	class string
	in    c09In
} {
	S := c09St
	mk := func(class string, batch int, steps ...c09Step) struct {
		class string
		in    c09In
	} {
		return struct {
			class string
			in    c09In
		}{class, c09In{Transport: tr, Batch: batch, Steps: steps}}
	}
	return []struct {
		class string
		in    c09In
	}{
		mk("mined-ok", 0, S("send", 0, 0, 0, ""), S("watch", 1, 0, 0, ""), S("watchraw", 1, 0, 0, ""), S("mine", 1, 1, 0, ""),
			S("block", 0, 1, 1, ""), S("poll", 0, 0, 0, ""), S("pend", 0, 0, 0, "")),
		mk("mined-failed", 0, S("send", 0, 3, 0, ""), S("watch", 1, 0, 0, ""), S("mine", 1, 0, 0, ""),
			S("block", 0, 2, 4, ""), S("poll", 0, 0, 0, ""), S("pend", 0, 0, 0, ""), S("watch", 1, 0, 0, "")),
		mk("replaced", 0, S("send", 0, 0, 0, ""), S("watch", 1, 0, 0, ""), S("watchraw", 1, 0, 0, ""),
			S("block", 0, 1, 1, ""), S("poll", 0, 0, 0, ""), S("pend", 0, 0, 0, ""),
			S("watch", 1, 0, 0, ""), S("block", 0, 2, 1, ""), S("poll", 0, 0, 0, ""), S("pend", 0, 0, 0, "")),
		mk("not-yet", 0, S("send", 0, 5, 0, ""), S("watch", 1, 0, 0, ""), S("block", 0, 1, 5, ""), S("poll", 0, 0, 0, ""),
			S("pend", 0, 0, 0, ""), S("mine", 1, 1, 0, ""), S("block", 0, 2, 6, ""), S("poll", 0, 0, 0, ""), S("pend", 0, 0, 0, "")),
		mk("inflight-close", 0, S("send", 0, 0, 0, ""), S("watch", 1, 0, 0, ""), S("mine", 1, 1, 0, ""), S("hold", 0, 1, 0, c09KBatch),
			S("block", 0, 1, 1, ""), S("poll", 0, 0, 0, ""), S("close", 0, 0, 0, ""), S("watch", 1, 0, 0, ""), S("watchraw", 1, 0, 0, ""),
			S("rel", 0, 0, 0, c09KBatch), S("pend", 0, 0, 0, "")),
		mk("inflight-close-cancel", 0, S("send", 0, 0, 0, ""), S("send", 0, 1, 0, ""), S("watchraw", 1, 0, 0, ""), S("watch", 2, 0, 0, ""),
			S("hold", 0, 1, 0, c09KBatch), S("block", 0, 1, 2, ""), S("poll", 0, 0, 0, ""), S("close", 0, 0, 0, ""),
			S("watchraw", 2, 0, 0, ""), S("rel", 0, 0, 0, c09KBatch), S("pend", 0, 0, 0, "")),
		mk("watch-during-check", 0, S("send", 0, 0, 0, ""), S("send", 0, 1, 0, ""), S("watch", 1, 0, 0, ""), S("mine", 1, 1, 0, ""),
			S("hold", 0, 1, 0, c09KBatch), S("block", 0, 1, 2, ""), S("poll", 0, 0, 0, ""), S("watch", 1, 0, 0, ""), S("watch", 2, 0, 0, ""),
			S("block", 0, 2, 2, ""), S("poll", 0, 0, 0, ""), S("rel", 0, 0, 0, c09KBatch), S("pend", 0, 0, 0, ""),
			S("hold", 0, 0, 0, c09KBatch), S("block", 0, 3, 2, ""), S("poll", 0, 0, 0, ""), S("pend", 0, 0, 0, "")),
		mk("elem-error-fallback", 0, S("send", 0, 0, 0, ""), S("send", 0, 1, 0, ""), S("send", 0, 2, 0, ""), S("watch", 1, 0, 0, ""),
			S("watch", 2, 0, 0, ""), S("watch", 3, 0, 0, ""), S("err", 1, 1, 0, ""), S("err", 2, 1, 0, ""), S("err", 3, 2, 0, ""),
			S("mine", 1, 1, 0, ""), S("block", 0, 1, 3, ""), S("poll", 0, 0, 0, ""), S("pend", 0, 0, 0, ""),
			S("err", 3, 0, 0, ""), S("block", 0, 2, 3, ""), S("poll", 0, 0, 0, ""), S("pend", 0, 0, 0, "")),
		mk("fallback-held-watch", 2, S("send", 0, 0, 0, ""), S("send", 0, 1, 0, ""), S("watch", 1, 0, 0, ""), S("watch", 2, 0, 0, ""),
			S("err", 1, 1, 0, ""), S("err", 2, 1, 0, ""), S("hold", 0, 1, 0, c09KReceipt), S("block", 0, 1, 2, ""), S("poll", 0, 0, 0, ""),
			S("watch", 1, 0, 0, ""), S("watch", 2, 0, 0, ""), S("rel", 0, 0, 0, c09KReceipt), S("pend", 0, 0, 0, ""),
			S("rel", 0, 0, 0, c09KReceipt), S("pend", 0, 0, 0, "")),
		mk("call-errors", 0, S("send", 0, 0, 0, ""), S("watch", 1, 0, 0, ""), S("mine", 1, 1, 0, ""), S("fail", 0, 1, 0, c09KBlock),
			S("block", 0, 1, 1, ""), S("poll", 0, 0, 0, ""), S("fail", 0, 0, 0, c09KBlock), S("fail", 0, 1, 0, c09KNonce),
			S("poll", 0, 0, 0, ""), S("fail", 0, 0, 0, c09KNonce), S("fail", 0, 1, 0, c09KBatch), S("poll", 0, 0, 0, ""),
			S("pend", 0, 0, 0, ""), S("fail", 0, 0, 0, c09KBatch), S("block", 0, 2, 1, ""), S("poll", 0, 0, 0, ""), S("pend", 0, 0, 0, "")),
		mk("send-fails", 0, S("sendfail", 0, 0, 0, ""), S("pend", 0, 0, 0, ""), S("send", 0, 0, 0, ""), S("sendfail", 0, 1, 0, ""),
			S("watch", 2, 0, 0, ""), S("pend", 0, 0, 0, "")),
		mk("never-answered", 0, S("send", 0, 0, 0, ""), S("watch", 1, 0, 0, ""), S("hold", 0, 1, 0, c09KBatch), S("block", 0, 1, 1, ""),
			S("poll", 0, 0, 0, ""), S("block", 0, 2, 1, ""), S("poll", 0, 0, 0, ""), S("pend", 0, 0, 0, "")),
		mk("nonce-held-close", 0, S("send", 0, 0, 0, ""), S("watch", 1, 0, 0, ""), S("hold", 0, 1, 0, c09KNonce), S("block", 0, 1, 1, ""),
			S("poll", 0, 0, 0, ""), S("close", 0, 0, 0, ""), S("rel", 0, 0, 0, c09KNonce), S("watchraw", 1, 0, 0, ""), S("pend", 0, 0, 0, "")),
		mk("small-batches", 2, S("send", 0, 0, 0, ""), S("send", 0, 1, 0, ""), S("send", 0, 2, 0, ""), S("send", 0, 3, 0, ""), S("send", 0, 4, 0, ""),
			S("watch", 1, 0, 0, ""), S("watch", 2, 0, 0, ""), S("watch", 3, 0, 0, ""), S("watch", 4, 0, 0, ""), S("watch", 5, 0, 0, ""),
			S("mine", 1, 1, 0, ""), S("mine", 3, 0, 0, ""), S("mine", 5, 1, 0, ""), S("block", 0, 1, 5, ""), S("poll", 0, 0, 0, ""), S("pend", 0, 0, 0, "")),
		mk("reorg", 0, S("send", 0, 0, 0, ""), S("watch", 1, 0, 0, ""), S("mine", 1, 1, 0, ""), S("hold", 0, 1, 0, c09KBatch), S("block", 0, 1, 1, ""),
			S("poll", 0, 0, 0, ""), S("unmine", 1, 0, 0, ""), S("rel", 0, 0, 0, c09KBatch), S("pend", 0, 0, 0, "")),
		mk("client-cancel", 0, S("send", 0, 0, 0, ""), S("watch", 1, 0, 0, ""), S("cancel", 1, 0, 0, ""), S("watch", 2, 0, 0, ""),
			S("watchraw", 1, 0, 0, ""), S("pend", 0, 0, 0, ""), S("mine", 2, 1, 0, ""), S("block", 0, 1, 1, ""), S("poll", 0, 0, 0, ""),
			S("pend", 0, 0, 0, ""), S("watch", 1, 0, 0, ""), S("watch", 2, 0, 0, ""), S("block", 0, 2, 1, ""), S("poll", 0, 0, 0, ""),
			S("pend", 0, 0, 0, "")),
		mk("client-cancel-loses", 0, S("send", 0, 0, 0, ""), S("watch", 1, 0, 0, ""), S("cancel", 1, 0, 0, ""), S("watch", 2, 0, 0, ""),
			S("pend", 0, 0, 0, ""), S("mine", 1, 1, 0, ""), S("block", 0, 1, 1, ""), S("poll", 0, 0, 0, ""), S("pend", 0, 0, 0, "")),
		mk("client-cancel-mined", 0, S("send", 0, 0, 0, ""), S("mine", 1, 1, 0, ""), S("cancel", 1, 0, 0, ""), S("cancel", 7, 0, 0, ""),
			S("pend", 0, 0, 0, ""), S("block", 0, 1, 1, ""), S("poll", 0, 0, 0, ""), S("pend", 0, 0, 0, "")),
		mk("client-cancel-inflight", 0, S("send", 0, 0, 0, ""), S("watch", 1, 0, 0, ""), S("hold", 0, 1, 0, c09KBatch), S("block", 0, 1, 1, ""),
			S("poll", 0, 0, 0, ""), S("cancel", 1, 0, 0, ""), S("watch", 2, 0, 0, ""), S("mine", 2, 0, 0, ""), S("rel", 0, 0, 0, c09KBatch),
			S("pend", 0, 0, 0, ""), S("hold", 0, 0, 0, c09KBatch), S("block", 0, 2, 1, ""), S("poll", 0, 0, 0, ""), S("pend", 0, 0, 0, "")),
		mk("client-cancel-twice", 2, S("send", 0, 0, 0, ""), S("cancel", 1, 0, 0, ""), S("cancel", 2, 0, 0, ""), S("watch", 1, 0, 0, ""),
			S("watch", 2, 0, 0, ""), S("watch", 3, 0, 0, ""), S("pend", 0, 0, 0, ""), S("mine", 3, 1, 0, ""), S("block", 0, 1, 1, ""),
			S("poll", 0, 0, 0, ""), S("pend", 0, 0, 0, "")),
		// a waiter whose new-transaction signal is lost (watch loop busy) waits for the next NEW block
		mk("lost-signal", 0, S("send", 0, 0, 0, ""), S("hold", 0, 1, 0, c09KNonce), S("block", 0, 1, 0, ""), S("poll", 0, 0, 0, ""),
			S("watch", 1, 0, 0, ""), S("rel", 0, 0, 0, c09KNonce), S("hold", 0, 0, 0, c09KNonce), S("mine", 1, 1, 0, ""),
			S("block", 0, 1, 1, ""), S("tick", 0, 0, 0, ""), S("pend", 0, 0, 0, ""), S("tick", 0, 0, 0, ""), S("pend", 0, 0, 0, ""),
			S("block", 0, 2, 1, ""), S("tick", 0, 0, 0, ""), S("pend", 0, 0, 0, "")),
		// a MINED transaction whose receipt query fails inside the batch (JSON-RPC error object / no
		// response for the element): the individual query answers the receipt -> receipt, never "cancelled"
		mk("elem-error-mined", 0, S("send", 0, 0, 0, ""), S("send", 0, 1, 0, ""), S("watch", 1, 0, 0, ""), S("watch", 2, 0, 0, ""),
			S("mine", 1, 1, 0, ""), S("mine", 2, 0, 0, ""), S("err", 1, 1, 0, ""), S("err", 2, 3, 0, ""), S("block", 0, 1, 2, ""),
			S("poll", 0, 0, 0, ""), S("pend", 0, 0, 0, "")),
		// ... and when the individual query fails too: no outcome in this round, the receipt later
		mk("elem-error-mined-both-fail", 0, S("send", 0, 0, 0, ""), S("watch", 1, 0, 0, ""), S("watchraw", 1, 0, 0, ""), S("mine", 1, 1, 0, ""),
			S("err", 1, 2, 0, ""), S("block", 0, 1, 1, ""), S("poll", 0, 0, 0, ""), S("pend", 0, 0, 0, ""), S("block", 0, 2, 1, ""),
			S("poll", 0, 0, 0, ""), S("pend", 0, 0, 0, ""), S("err", 1, 0, 0, ""), S("block", 0, 3, 1, ""), S("poll", 0, 0, 0, ""), S("pend", 0, 0, 0, "")),
		// a failed batch is retried at the next block although the confirmed nonce did not move
		mk("batch-fails-then-next-block", 0, S("send", 0, 0, 0, ""), S("watch", 1, 0, 0, ""), S("mine", 1, 1, 0, ""), S("fail", 0, 1, 0, c09KBatch),
			S("block", 0, 1, 1, ""), S("poll", 0, 0, 0, ""), S("pend", 0, 0, 0, ""), S("fail", 0, 0, 0, c09KBatch), S("block", 0, 2, 1, ""),
			S("tick", 0, 0, 0, ""), S("pend", 0, 0, 0, "")),
		// a caller whose context ends leaves; everybody else on that transaction is unaffected
		mk("giveup-others-unaffected", 0, S("send", 0, 0, 0, ""), S("watchctx", 1, 0, 0, ""), S("watch", 1, 0, 0, ""), S("watchraw", 1, 0, 0, ""),
			S("giveup", 0, 0, 0, ""), S("pend", 0, 0, 0, ""), S("mine", 1, 1, 0, ""), S("block", 0, 1, 1, ""), S("poll", 0, 0, 0, ""), S("pend", 0, 0, 0, "")),
		mk("giveup-inflight", 0, S("send", 0, 0, 0, ""), S("watchctx", 1, 0, 0, ""), S("watch", 1, 0, 0, ""), S("hold", 0, 1, 0, c09KBatch),
			S("mine", 1, 0, 0, ""), S("block", 0, 1, 1, ""), S("poll", 0, 0, 0, ""), S("giveup", 0, 0, 0, ""), S("rel", 0, 0, 0, c09KBatch),
			S("pend", 0, 0, 0, "")),
		mk("giveup-replaced", 0, S("send", 0, 0, 0, ""), S("watch", 1, 0, 0, ""), S("watchctx", 1, 0, 0, ""), S("watchctx", 1, 0, 0, ""),
			S("giveup", 1, 0, 0, ""), S("block", 0, 1, 1, ""), S("poll", 0, 0, 0, ""), S("pend", 0, 0, 0, ""), S("giveup", 0, 0, 0, "")),
		mk("giveup-alone", 0, S("send", 0, 0, 0, ""), S("watchctx", 1, 0, 0, ""), S("giveup", 0, 0, 0, ""), S("mine", 1, 1, 0, ""),
			S("block", 0, 1, 1, ""), S("poll", 0, 0, 0, ""), S("pend", 0, 0, 0, ""), S("watch", 1, 0, 0, "")),
		// a reverted transaction (receipt status 0): its receipt is an outcome like any other, whatever
		// the node's debug API does (not available / failing / answering)
		mk("failed-receipt-no-debug-api", 0, S("send", 0, 0, 0, ""), S("watch", 1, 0, 0, ""), S("watchraw", 1, 0, 0, ""), S("mine", 1, 0, 0, ""),
			S("block", 0, 1, 1, ""), S("poll", 0, 0, 0, ""), S("pend", 0, 0, 0, "")),
		mk("failed-receipt-trace-error", 0, S("trace", 0, 2, 0, ""), S("send", 0, 0, 0, ""), S("send", 0, 1, 0, ""), S("watch", 1, 0, 0, ""),
			S("watch", 2, 0, 0, ""), S("mine", 1, 0, 0, ""), S("mine", 2, 1, 0, ""), S("block", 0, 1, 2, ""), S("poll", 0, 0, 0, ""), S("pend", 0, 0, 0, "")),
		mk("failed-receipt-trace-ok", 0, S("trace", 0, 1, 0, ""), S("send", 0, 0, 0, ""), S("watch", 1, 0, 0, ""), S("mine", 1, 0, 0, ""),
			S("err", 1, 1, 0, ""), S("block", 0, 1, 1, ""), S("poll", 0, 0, 0, ""), S("pend", 0, 0, 0, "")),
		// the node truncates the answer to a batch: three mined transactions, one element missing, one
		// without result -- each is asked again individually and gets its receipt, none is "cancelled"
		mk("batch-truncated-mined", 0, S("send", 0, 0, 0, ""), S("send", 0, 1, 0, ""), S("send", 0, 2, 0, ""), S("watch", 1, 0, 0, ""),
			S("watch", 2, 0, 0, ""), S("watch", 3, 0, 0, ""), S("mine", 1, 1, 0, ""), S("mine", 2, 1, 0, ""), S("mine", 3, 0, 0, ""),
			S("err", 2, 3, 0, ""), S("err", 3, 4, 0, ""), S("block", 0, 1, 3, ""), S("poll", 0, 0, 0, ""), S("pend", 0, 0, 0, "")),
		// the confirmed nonce goes back (reorg) after a round whose receipt batch failed: a transaction
		// whose nonce is not below the CURRENT confirmed nonce must not be looked up, let alone cancelled
		mk("nonce-reorg-after-failed-batch", 0, S("send", 0, 5, 0, ""), S("watch", 1, 0, 0, ""), S("watchraw", 1, 0, 0, ""),
			S("fail", 0, 1, 0, c09KBatch), S("block", 0, 1, 6, ""), S("poll", 0, 0, 0, ""), S("fail", 0, 0, 0, c09KBatch),
			S("block", 0, 2, 5, ""), S("poll", 0, 0, 0, ""), S("pend", 0, 0, 0, ""), S("mine", 1, 1, 0, ""), S("block", 0, 3, 6, ""),
			S("poll", 0, 0, 0, ""), S("pend", 0, 0, 0, "")),
		mk("nonce-reorg-plain", 0, S("send", 0, 2, 0, ""), S("watch", 1, 0, 0, ""), S("hold", 0, 1, 0, c09KNonce), S("block", 0, 1, 3, ""),
			S("poll", 0, 0, 0, ""), S("block", 0, 1, 2, ""), S("rel", 0, 0, 0, c09KNonce), S("pend", 0, 0, 0, ""), S("block", 0, 2, 2, ""),
			S("tick", 0, 0, 0, ""), S("pend", 0, 0, 0, ""), S("mine", 1, 1, 0, ""), S("block", 0, 3, 3, ""), S("tick", 0, 0, 0, ""), S("pend", 0, 0, 0, "")),
		mk("close-idle", 0, S("send", 0, 0, 0, ""), S("watch", 1, 0, 0, ""), S("watchraw", 1, 0, 0, ""), S("pend", 0, 0, 0, ""),
			S("hold", 0, 1, 0, c09KBatch), S("mine", 1, 1, 0, ""), S("block", 0, 1, 1, ""), S("poll", 0, 0, 0, ""), S("close", 0, 0, 0, ""),
			S("watch", 1, 0, 0, ""), S("rel", 0, 0, 0, c09KBatch)),
	}
}

// c09Exhaustive enumerates every schedule of at most k letters over a small alphabet, after the
// fixed prefix "send tx 1 (nonce 0); hold batch replies". Sequences that contain a letter which
// cannot apply (release before any poll, second close, poll after close, ...) are skipped.
func c09Exhaustive(k int, tr string) []c09In {
	letters := []byte("abcdef")
	var out []c09In
	var rec func(seq []byte)
	build := func(seq []byte) (c09In, bool) {
		in := c09In{Transport: tr, Steps: []c09Step{c09St("send", 0, 0, 0, ""), c09St("hold", 0, 1, 0, c09KBatch)}}
		blk := uint64(0)
		seenPoll, closed, mined := false, false, false
		var prev byte
		for _, x := range seq {
			switch x {
			case 'a':
				in.Steps = append(in.Steps, c09St("watch", 1, 0, 0, ""))
			case 'b':
				if closed {
					return in, false
				}
				blk++
				seenPoll = true
				in.Steps = append(in.Steps, c09St("block", 0, blk, 1, ""), c09St("poll", 0, 0, 0, ""))
			case 'c':
				if mined {
					return in, false
				}
				mined = true
				in.Steps = append(in.Steps, c09St("mine", 1, 1, 0, ""))
			case 'd':
				if !seenPoll {
					return in, false
				}
				in.Steps = append(in.Steps, c09St("rel", 0, 0, 0, c09KBatch))
			case 'e':
				if closed {
					return in, false
				}
				closed = true
				in.Steps = append(in.Steps, c09St("close", 0, 0, 0, ""))
			case 'f':
				if prev == 'f' {
					return in, false
				}
				in.Steps = append(in.Steps, c09St("pend", 0, 0, 0, ""))
			}
			prev = x
		}
		return in, true
	}
	rec = func(seq []byte) {
		if len(seq) > 0 {
			if in, ok := build(seq); ok {
				out = append(out, in)
			} else {
				return // every extension contains the same inapplicable letter
			}
		}
		if len(seq) == k {
			return
		}
		for _, l := range letters {
			rec(append(append([]byte{}, seq...), l))
		}
	}
	rec(nil)
	return out
}

func c09Random(r *rand.Rand, tr string) c09In {
	in := c09In{Transport: tr}
	if r.Intn(3) == 0 {
		in.Batch = 1 + r.Intn(3)
	}
	nsteps := 6 + r.Intn(14)
	sent := 0
	blk := uint64(0)
	pendingNonce := uint64(r.Intn(3))
	closed := false
	batchHeldOverClose := false
	holdBatch := false
	kinds := []string{c09KNonce, c09KBatch, c09KReceipt}
	nctx := 0
	add := func(s c09Step) { in.Steps = append(in.Steps, s) }
	if r.Intn(3) == 0 {
		add(c09St("trace", 0, uint64(r.Intn(3)), 0, ""))
	}
	add(c09St("send", 0, pendingNonce, 0, ""))
	sent++
	for i := 0; i < nsteps; i++ {
		x := r.Intn(100)
		switch {
		case x < 12:
			if r.Intn(8) == 0 {
				add(c09St("sendfail", 0, pendingNonce+uint64(sent), 0, ""))
			} else {
				add(c09St("send", 0, pendingNonce+uint64(sent)+uint64(r.Intn(2)*r.Intn(3)), 0, ""))
				sent++
			}
		case x < 30:
			if closed && !batchHeldOverClose {
				continue // a waiter after shutdown is only generated together with a reply in flight
			}
			h := 1 + r.Intn(sent)
			if r.Intn(10) == 0 {
				h = sent + 1 + r.Intn(2)
			}
			switch r.Intn(6) {
			case 0, 1:
				// one nonce per hash: through the client a hash determines its nonce; raw watchers with two
				// nonces for one hash make check() ask that hash twice and pick the bucket by map order
				r.Intn(4)
				add(c09St("watchraw", h, uint64(h%4), 0, ""))
			case 2:
				add(c09St("watchctx", h, 0, 0, ""))
				nctx++
			default:
				add(c09St("watch", h, 0, 0, ""))
			}
		case x < 45:
			blk += uint64(r.Intn(3))
			add(c09St("block", 0, blk, pendingNonce+uint64(r.Intn(sent+2)), ""))
			add(c09St("poll", 0, 0, 0, ""))
		case x < 49:
			add(c09St("poll", 0, 0, 0, ""))
		case x < 52:
			if nctx > 0 {
				add(c09St("giveup", 0, uint64(r.Intn(nctx)), 0, ""))
			} else {
				add(c09St("poll", 0, 0, 0, ""))
			}
		case x < 64:
			add(c09St("mine", 1+r.Intn(sent), uint64(r.Intn(2)), 0, ""))
		case x < 67:
			add(c09St("unmine", 1+r.Intn(sent), 0, 0, ""))
		case x < 73:
			add(c09St("err", 1+r.Intn(sent), uint64(r.Intn(5)), 0, ""))
		case x < 77:
			add(c09St("fail", 0, uint64(r.Intn(2)), 0, []string{c09KBlock, c09KNonce, c09KBatch}[r.Intn(3)]))
		case x < 85:
			k := kinds[r.Intn(3)]
			on := uint64(r.Intn(2))
			if k == c09KBatch {
				holdBatch = on == 1
			}
			add(c09St("hold", 0, on, 0, k))
		case x < 93:
			add(c09St("rel", 0, 0, 0, kinds[r.Intn(3)]))
		case x < 96:
			if !closed {
				// shutdown with a reply in flight whenever possible
				if r.Intn(4) != 0 && !holdBatch {
					add(c09St("hold", 0, 1, 0, c09KBatch))
					holdBatch = true
					blk++
					add(c09St("block", 0, blk, pendingNonce+uint64(sent), ""))
					add(c09St("poll", 0, 0, 0, ""))
				}
				batchHeldOverClose = holdBatch
				add(c09St("close", 0, 0, 0, ""))
				closed = true
			}
		default:
			add(c09St("pend", 0, 0, 0, ""))
		}
	}
	return in
}

// ---- entry point -----------------------------------------------------------------------------------

func TestVerifC09(t *testing.T) {
	if p := os.Getenv("C09_CHILD_IN"); p != "" {
		slow := 1
		fmt.Sscanf(os.Getenv("C09_SLOW"), "%d", &slow)
		if slow < 1 {
			slow = 1
		}
		c09Child(p, os.Getenv("C09_CHILD_OUT"), slow)
		return
	}
	e := vfOpen(t, 40)
	defer e.Close()
	type entry struct {
		class string
		in    c09In
	}
	var all []entry
	for _, raw := range e.Replay {
		var in c09In
		if err := json.Unmarshal(raw, &in); err != nil {
			t.Fatalf("bad replay input: %v", err)
		}
		all = append(all, entry{"replay", in})
	}
	if !e.OnlyReplay() {
		for _, tr := range []string{"mock", "rpc"} {
			for _, d := range c09Directed(tr) {
				all = append(all, entry{d.class + "/" + tr, d.in})
			}
		}
		if e.Tier == "thorough" {
			k := 5
			if s := os.Getenv("C09_K"); s != "" {
				fmt.Sscanf(s, "%d", &k)
			}
			for _, tr := range []string{"mock", "rpc"} {
				kk := k
				if tr == "mock" {
					kk = k + 1 // the function-mock transport is cheaper: one letter more
				}
				for _, in := range c09Exhaustive(kk, tr) {
					all = append(all, entry{fmt.Sprintf("exhaustive-%d/%s", kk, tr), in})
				}
			}
		}
		for i := 0; i < e.N; i++ {
			tr := "mock"
			if i%2 == 1 {
				tr = "rpc"
			}
			all = append(all, entry{"random/" + tr, c09Random(e.rng, tr)})
		}
	}
	dir, err := os.MkdirTemp("", "c09-")
	if err != nil {
		t.Fatal(err)
	}
	defer os.RemoveAll(dir)
	workers := 8
	if e.Tier == "thorough" {
		workers = 12
	}
	if len(all) < workers {
		workers = len(all)
	}
	results := map[int]c09Obs{}
	var rmu sync.Mutex
	var wg sync.WaitGroup
	for w := 0; w < workers; w++ {
		var jobs []c09Job
		for i := w; i < len(all); i += workers {
			jobs = append(jobs, c09Job{Idx: i, In: all[i].in})
		}
		wg.Add(1)
		go func(w int, jobs []c09Job) {
			defer wg.Done()
			c09RunJobs(t, dir, w, jobs, e.Slow, results, &rmu)
		}(w, jobs)
	}
	wg.Wait()
	for i, en := range all {
		o, ok := results[i]
		if !ok {
			t.Fatalf("c09: no result for case %d", i)
		}
		if o.Note != "" {
			t.Fatalf("c09: case %d could not run: %s", i, o.Note)
		}
		in := en.in
		e.Emit(en.class, in, o, func(id int) string { return c09Coq(id, in, o) })
	}
}
