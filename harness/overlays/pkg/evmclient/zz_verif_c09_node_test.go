package evmclient

// C09 driver, part 1: a gated chain node (function-mock transport and JSON-RPC-over-HTTP
// transport) and the recording EVM wrapper that logs what the monitor saw.

import (
	"context"
	"encoding/json"
	"errors"
	"fmt"
	"io"
	"math/big"
	"net/http"
	"net/http/httptest"
	"strings"
	"sync"
	"time"

	"github.com/ethereum/go-ethereum"
	"github.com/ethereum/go-ethereum/common"
	"github.com/ethereum/go-ethereum/common/hexutil"
	"github.com/ethereum/go-ethereum/core/types"
	"github.com/ethereum/go-ethereum/ethclient"
	"github.com/ethereum/go-ethereum/rpc"
)

const (
	c09KBlock   = "blocknum"
	c09KNonce   = "nonce"
	c09KBatch   = "batch"
	c09KReceipt = "receipt"
)

type c09Parked struct {
	kind string
	rel  chan struct{}
}

// c09Node is the scripted chain. All answers are functions of its state at release time.
type c09Node struct {
	mu         sync.Mutex
	blockNum   uint64
	confNonce  uint64
	pending    uint64
	receipts   map[common.Hash]uint64 // hash -> status
	errMode    map[common.Hash]int    // 1: batch element fails, 2: individual query fails too, 3: no response for the batch element, 4: response without result
	fail       map[string]bool        // kind -> whole call fails; "send" -> SendTransaction fails
	hold       map[string]bool        // kind -> park the call until released (blocknum: always)
	parked     []*c09Parked
	txs        map[common.Hash]*types.Transaction
	lastTx     *types.Transaction
	traceMode  int  // debug_traceTransaction: 0 = method not found (no debug API), 1 = ok, 2 = error
	ignoreCtx  bool // function mocks do not look at ctx for batch / receipt calls
	activityAt time.Time
	// what the node itself answered (wire truth), recorded at answer time: the recording wrapper
	// sits above evm.go's adapter and must not take the adapter's word for it
	batchTruth  map[common.Hash]c09Elem
	singleTruth map[common.Hash]c09Elem
}

func c09NewNode(ignoreCtx bool) *c09Node {
	return &c09Node{
		receipts: map[common.Hash]uint64{}, errMode: map[common.Hash]int{}, fail: map[string]bool{},
		hold: map[string]bool{c09KBlock: true}, txs: map[common.Hash]*types.Transaction{},
		ignoreCtx: ignoreCtx, activityAt: time.Now(),
		batchTruth: map[common.Hash]c09Elem{}, singleTruth: map[common.Hash]c09Elem{},
	}
}

func (n *c09Node) touch() { n.activityAt = time.Now() }

// gate parks the calling goroutine if the kind is held. Returns false if aborted by ctx.
func (n *c09Node) gate(ctx context.Context, kind string, honourCtx bool) bool {
	n.mu.Lock()
	n.touch()
	if !n.hold[kind] {
		n.mu.Unlock()
		return true
	}
	p := &c09Parked{kind: kind, rel: make(chan struct{})}
	n.parked = append(n.parked, p)
	n.mu.Unlock()
	var done <-chan struct{}
	if honourCtx {
		done = ctx.Done()
	}
	ok := true
	select {
	case <-p.rel:
	case <-done:
		ok = false
	}
	n.mu.Lock()
	for i, q := range n.parked {
		if q == p {
			n.parked = append(n.parked[:i], n.parked[i+1:]...)
			break
		}
	}
	n.touch()
	n.mu.Unlock()
	return ok
}

func (n *c09Node) parkedCount(kind string) int {
	n.mu.Lock()
	defer n.mu.Unlock()
	c := 0
	for _, p := range n.parked {
		if kind == "" || p.kind == kind {
			c++
		}
	}
	return c
}

// release lets the oldest parked call of that kind continue; false if none is parked.
func (n *c09Node) release(kind string) bool {
	n.mu.Lock()
	defer n.mu.Unlock()
	for _, p := range n.parked {
		if p.kind == kind {
			select {
			case <-p.rel:
				continue // already released, not yet gone
			default:
			}
			close(p.rel)
			n.touch()
			return true
		}
	}
	return false
}

func (n *c09Node) mkReceipt(h common.Hash, status uint64) *types.Receipt {
	return &types.Receipt{
		Type: types.DynamicFeeTxType, Status: status, CumulativeGasUsed: 21000, Logs: []*types.Log{},
		TxHash: h, GasUsed: 21000, BlockNumber: new(big.Int).SetUint64(1), BlockHash: common.HexToHash("0xb1"),
		EffectiveGasPrice: big.NewInt(1),
	}
}

var errC09Node = errors.New("c09 node: scripted failure")

// ---- answers (state read under the lock, after the gate) -------------------------------------

func (n *c09Node) ansBlockNumber(ctx context.Context) (uint64, error) {
	if !n.gate(ctx, c09KBlock, true) {
		return 0, ctx.Err()
	}
	if ctx.Err() != nil {
		return 0, ctx.Err()
	}
	n.mu.Lock()
	defer n.mu.Unlock()
	if n.fail[c09KBlock] {
		return 0, errC09Node
	}
	return n.blockNum, nil
}

func (n *c09Node) ansNonceAt(ctx context.Context) (uint64, error) {
	if !n.gate(ctx, c09KNonce, true) {
		return 0, ctx.Err()
	}
	if ctx.Err() != nil {
		return 0, ctx.Err()
	}
	n.mu.Lock()
	defer n.mu.Unlock()
	if n.fail[c09KNonce] {
		return 0, errC09Node
	}
	return n.confNonce, nil
}

// truth about one hash: 0 = receipt (status), 1 = no receipt, 2 = failing
func (n *c09Node) truthLocked(h common.Hash, individual bool) (int, uint64) {
	m := n.errMode[h]
	if m == 2 || ((m == 1 || m == 3 || m == 4) && !individual) {
		return 2, 0
	}
	if st, ok := n.receipts[h]; ok {
		return 0, st
	}
	return 1, 0
}

// ---- function-mock transport: the node IS the EVM ---------------------------------------------

type c09MockEVM struct{ n *c09Node }

func (m *c09MockEVM) Batcher() Batcher { return m }
func (m *c09MockEVM) BatchCallContext(ctx context.Context, b []rpc.BatchElem) error {
	if !m.n.gate(ctx, c09KBatch, !m.n.ignoreCtx) {
		return ctx.Err()
	}
	m.n.mu.Lock()
	defer m.n.mu.Unlock()
	if m.n.fail[c09KBatch] {
		return errC09Node
	}
	m.n.batchTruth = map[common.Hash]c09Elem{}
	for i := range b {
		h, _ := b[i].Args[0].(common.Hash)
		k, st := m.n.truthLocked(h, false)
		switch k {
		case 0:
			*(b[i].Result.(*types.Receipt)) = *m.n.mkReceipt(h, st)
			m.n.batchTruth[h] = c09Elem{h: h, kind: 0, st: st}
		case 1:
			b[i].Error = ethereum.NotFound // what function mocks return for a missing receipt
			m.n.batchTruth[h] = c09Elem{h: h, kind: 1}
		default:
			b[i].Error = errC09Node
			m.n.batchTruth[h] = c09Elem{h: h, kind: 3}
		}
	}
	return nil
}
func (m *c09MockEVM) NetworkID(ctx context.Context) (*big.Int, error) { return big.NewInt(1337), nil }
func (m *c09MockEVM) BlockNumber(ctx context.Context) (uint64, error) { return m.n.ansBlockNumber(ctx) }
func (m *c09MockEVM) PendingNonceAt(ctx context.Context, a common.Address) (uint64, error) {
	m.n.mu.Lock()
	defer m.n.mu.Unlock()
	return m.n.pending, nil
}
func (m *c09MockEVM) NonceAt(ctx context.Context, a common.Address, b *big.Int) (uint64, error) {
	return m.n.ansNonceAt(ctx)
}
func (m *c09MockEVM) SuggestGasPrice(ctx context.Context) (*big.Int, error) {
	return big.NewInt(100), nil
}
func (m *c09MockEVM) SuggestGasTipCap(ctx context.Context) (*big.Int, error) {
	return big.NewInt(2), nil
}
func (m *c09MockEVM) EstimateGas(ctx context.Context, call ethereum.CallMsg) (uint64, error) {
	return 21000, nil
}
func (m *c09MockEVM) SendTransaction(ctx context.Context, tx *types.Transaction) error {
	return m.n.acceptTx(tx)
}
func (m *c09MockEVM) CallContract(ctx context.Context, call ethereum.CallMsg, b *big.Int) ([]byte, error) {
	return nil, errC09Node
}
func (m *c09MockEVM) TransactionReceipt(ctx context.Context, h common.Hash) (*types.Receipt, error) {
	if !m.n.gate(ctx, c09KReceipt, !m.n.ignoreCtx) {
		return nil, ctx.Err()
	}
	m.n.mu.Lock()
	defer m.n.mu.Unlock()
	k, st := m.n.truthLocked(h, true)
	switch k {
	case 0:
		m.n.singleTruth[h] = c09Elem{h: h, kind: 0, st: st}
		return m.n.mkReceipt(h, st), nil
	case 1:
		m.n.singleTruth[h] = c09Elem{h: h, kind: 1}
		return nil, ethereum.NotFound
	}
	m.n.singleTruth[h] = c09Elem{h: h, kind: 3}
	return nil, errC09Node
}
func (m *c09MockEVM) TransactionByHash(ctx context.Context, h common.Hash) (*types.Transaction, bool, error) {
	m.n.mu.Lock()
	defer m.n.mu.Unlock()
	tx, ok := m.n.txs[h]
	if !ok {
		return nil, false, ethereum.NotFound
	}
	_, mined := m.n.receipts[h]
	return tx, !mined, nil
}

func (n *c09Node) acceptTx(tx *types.Transaction) error {
	n.mu.Lock()
	defer n.mu.Unlock()
	n.lastTx = tx
	if n.fail["send"] {
		return errC09Node
	}
	n.txs[tx.Hash()] = tx
	return nil
}

// ---- JSON-RPC transport: an HTTP server in front of the same node ------------------------------

type c09Req struct {
	JSONRPC string            `json:"jsonrpc"`
	ID      json.RawMessage   `json:"id"`
	Method  string            `json:"method"`
	Params  []json.RawMessage `json:"params"`
}
type c09RPCErr struct {
	Code    int    `json:"code"`
	Message string `json:"message"`
}
type c09Resp struct {
	JSONRPC string          `json:"jsonrpc"`
	ID      json.RawMessage `json:"id"`
	Result  interface{}     `json:"result"`
	Error   *c09RPCErr      `json:"error,omitempty"`
}

func (n *c09Node) serveOne(ctx context.Context, rq c09Req, inBatch bool) (c09Resp, bool) {
	rs := c09Resp{JSONRPC: "2.0", ID: rq.ID}
	fail := func() (c09Resp, bool) {
		rs.Error = &c09RPCErr{Code: -32000, Message: "c09 node: scripted failure"}
		return rs, true
	}
	switch rq.Method {
	case "net_version":
		rs.Result = "1337"
	case "eth_chainId":
		rs.Result = "0x539"
	case "eth_blockNumber":
		v, err := n.ansBlockNumber(ctx)
		if err != nil {
			if ctx.Err() != nil {
				return rs, false
			}
			return fail()
		}
		rs.Result = hexutil.EncodeUint64(v)
	case "eth_getTransactionCount":
		var tag string
		if len(rq.Params) > 1 {
			_ = json.Unmarshal(rq.Params[1], &tag)
		}
		if tag == "pending" {
			n.mu.Lock()
			rs.Result = hexutil.EncodeUint64(n.pending)
			n.mu.Unlock()
			break
		}
		v, err := n.ansNonceAt(ctx)
		if err != nil {
			if ctx.Err() != nil {
				return rs, false
			}
			return fail()
		}
		rs.Result = hexutil.EncodeUint64(v)
	case "eth_estimateGas":
		rs.Result = "0x5208"
	case "eth_maxPriorityFeePerGas":
		rs.Result = "0x2"
	case "eth_gasPrice":
		rs.Result = "0x64"
	case "eth_sendRawTransaction":
		var raw hexutil.Bytes
		if len(rq.Params) < 1 || json.Unmarshal(rq.Params[0], &raw) != nil {
			return fail()
		}
		tx := new(types.Transaction)
		if err := tx.UnmarshalBinary(raw); err != nil {
			return fail()
		}
		if err := n.acceptTx(tx); err != nil {
			return fail()
		}
		rs.Result = tx.Hash().Hex()
	case "debug_traceTransaction":
		n.mu.Lock()
		tm := n.traceMode
		n.mu.Unlock()
		switch tm {
		case 1:
			rs.Result = map[string]interface{}{"failed": true, "gas": 21000, "returnValue": ""}
		case 2:
			return fail()
		default:
			rs.Error = &c09RPCErr{Code: -32601, Message: "the method debug_traceTransaction does not exist/is not available"}
		}
	case "eth_getTransactionByHash":
		var h common.Hash
		if len(rq.Params) < 1 || json.Unmarshal(rq.Params[0], &h) != nil {
			return fail()
		}
		n.mu.Lock()
		tx, ok := n.txs[h]
		_, mined := n.receipts[h]
		n.mu.Unlock()
		if !ok {
			rs.Result = nil
			break
		}
		raw, err := tx.MarshalJSON()
		if err != nil {
			return fail()
		}
		m := map[string]interface{}{}
		if json.Unmarshal(raw, &m) != nil {
			return fail()
		}
		if mined {
			m["blockNumber"] = "0x1"
			m["blockHash"] = common.HexToHash("0xb1").Hex()
		} else {
			m["blockNumber"] = nil
			m["blockHash"] = nil
		}
		rs.Result = m
	case "eth_getTransactionReceipt":
		var h common.Hash
		if len(rq.Params) < 1 || json.Unmarshal(rq.Params[0], &h) != nil {
			return fail()
		}
		if !inBatch {
			if !n.gate(ctx, c09KReceipt, true) {
				return rs, false
			}
		}
		n.mu.Lock()
		k, st := n.truthLocked(h, !inBatch)
		var rc *types.Receipt
		if k == 0 {
			rc = n.mkReceipt(h, st)
		}
		el := c09Elem{h: h, kind: 3}
		switch {
		case k == 0:
			el = c09Elem{h: h, kind: 0, st: st}
		case k == 1 && inBatch:
			el.kind = 2 // JSON null inside a batch
		case k == 1:
			el.kind = 1 // JSON null to the individual query: ethclient reports NotFound
		}
		if inBatch {
			n.batchTruth[h] = el
		} else {
			n.singleTruth[h] = el
		}
		n.mu.Unlock()
		switch k {
		case 0:
			rs.Result = rc
		case 1:
			rs.Result = nil // JSON null: how a real node says "no receipt"
		default:
			return fail()
		}
	default:
		rs.Error = &c09RPCErr{Code: -32601, Message: "method not found: " + rq.Method}
	}
	return rs, true
}

func (n *c09Node) ServeHTTP(w http.ResponseWriter, r *http.Request) {
	body, err := io.ReadAll(r.Body)
	if err != nil {
		http.Error(w, "read", 400)
		return
	}
	ctx := r.Context()
	trim := strings.TrimSpace(string(body))
	w.Header().Set("Content-Type", "application/json")
	if strings.HasPrefix(trim, "[") {
		var rqs []c09Req
		if err := json.Unmarshal(body, &rqs); err != nil {
			http.Error(w, "parse", 400)
			return
		}
		if !n.gate(ctx, c09KBatch, true) {
			return
		}
		n.mu.Lock()
		fb := n.fail[c09KBatch]
		n.mu.Unlock()
		if fb {
			http.Error(w, "scripted batch failure", 500)
			return
		}
		n.mu.Lock()
		n.batchTruth = map[common.Hash]c09Elem{}
		n.mu.Unlock()
		out := make([]interface{}, 0, len(rqs))
		for _, rq := range rqs {
			if rq.Method == "eth_getTransactionReceipt" && len(rq.Params) > 0 {
				var h common.Hash
				if json.Unmarshal(rq.Params[0], &h) == nil {
					n.mu.Lock()
					em := n.errMode[h]
					if em == 3 || em == 4 {
						n.batchTruth[h] = c09Elem{h: h, kind: 3}
					}
					n.mu.Unlock()
					if em == 3 {
						continue // the response batch has no answer to this call (rpc.ErrMissingBatchResponse)
					}
					if em == 4 {
						// a response with neither result nor error (rpc.ErrNoResult)
						out = append(out, map[string]interface{}{"jsonrpc": "2.0", "id": rq.ID})
						continue
					}
				}
			}
			rs, ok := n.serveOne(ctx, rq, true)
			if !ok {
				return
			}
			out = append(out, rs)
		}
		_ = json.NewEncoder(w).Encode(out)
		return
	}
	var rq c09Req
	if err := json.Unmarshal(body, &rq); err != nil {
		http.Error(w, "parse", 400)
		return
	}
	rs, ok := n.serveOne(ctx, rq, false)
	if !ok {
		return
	}
	_ = json.NewEncoder(w).Encode(rs)
}

// c09Dial returns the production EVM implementation (WrapEthClient over ethclient over rpc.Client)
// talking to the node through a real HTTP JSON-RPC round trip.
func c09Dial(n *c09Node) (EVM, func(), error) {
	srv := httptest.NewServer(n)
	rc, err := rpc.DialHTTP(srv.URL)
	if err != nil {
		srv.Close()
		return nil, nil, err
	}
	ec := ethclient.NewClient(rc)
	return WrapEthClient(ec), func() { ec.Close(); srv.CloseClientConnections(); srv.Close() }, nil
}

// ---- the recording wrapper: what the monitor saw, in order ------------------------------------

type c09Elem struct {
	h    common.Hash
	kind int // 0 receipt, 1 NotFound sentinel, 2 null over the wire, 3 rpc error
	st   uint64
}

type c09Rec struct {
	inner   EVM
	node    *c09Node
	mu      sync.Mutex
	logf    func(item string) // appends one Coq item to the case log (takes its own lock)
	hid     func(common.Hash) uint64
	active  int
	actChk  int // active batch / receipt calls (checkLoop side)
	lastAct time.Time
	pendBlk *uint64
	drvLast uint64
	pendEl  []c09Elem
	// bookkeeping for wait-until synchronisation (never part of a case):
	stopped    func() bool          // the watch loop has returned: nothing is delivered any more
	resolved   map[common.Hash]bool // hashes whose element was handed over with a definite answer
	batchBegun int                  // receipt batches started so far
	nonceOK    bool                 // the last NonceAt call succeeded ...
	nonceVal   uint64               // ... with this value
	batchEnd   time.Time            // when the last batch returned
}

func (r *c09Rec) begin(chk bool) {
	r.mu.Lock()
	r.active++
	if chk {
		r.actChk++
	}
	r.lastAct = time.Now()
	r.mu.Unlock()
}
func (r *c09Rec) end(chk bool) {
	r.active--
	if chk {
		r.actChk--
	}
	r.lastAct = time.Now()
}

func c09Reply(e c09Elem) string {
	switch e.kind {
	case 0:
		return coqApp("RReceipt", coqN(e.st))
	case 1:
		return "RNotFound"
	case 2:
		return "RNullOverWire"
	}
	return "RRpcErr"
}

// procLocked logs that the head element is handed to the monitor (with the individual answer fb).
func (r *c09Rec) procLocked(fb string) {
	e := r.pendEl[0]
	r.pendEl = r.pendEl[1:]
	if e.kind <= 1 || strings.HasPrefix(fb, "(Some (RReceipt") || fb == "(Some RNotFound)" {
		if r.stopped == nil || !r.stopped() {
			r.resolved[e.h] = true // the client's own waiter of e.h will update the pending list
		}
	}
	r.logf("(ObsProc " + coqN(r.hid(e.h)) + " " + c09Reply(e) + ")")
	r.logf("(Ev (Proc " + fb + "))")
}

// flushBlkLocked records a BlockNumber answer that was not followed by a NonceAt call.
func (r *c09Rec) flushBlkLocked() {
	if r.pendBlk != nil {
		r.logf(fmt.Sprintf("(Ev (Poll (Some %s) None false))", coqN(*r.pendBlk)))
		r.pendBlk = nil
	}
}

// procLeadingLocked logs Proc for the leading elements that need no individual query.
func (r *c09Rec) procLeadingLocked() {
	for len(r.pendEl) > 0 && r.pendEl[0].kind <= 1 {
		r.procLocked("None")
	}
}

// Unprocessed reports elements of an answered batch that were not yet seen to be handed over, whether
// check() is inside a node call, and when the batch returned.
func (r *c09Rec) Unprocessed() (int, bool, time.Time) {
	r.mu.Lock()
	defer r.mu.Unlock()
	return len(r.pendEl), r.actChk > 0, r.batchEnd
}

// Flush is called by the driver at quiescence: elements the monitor skipped without asking.
func (r *c09Rec) Flush() {
	r.mu.Lock()
	defer r.mu.Unlock()
	if r.actChk == 0 {
		for len(r.pendEl) > 0 {
			r.procLocked("None")
		}
	}
}

func (r *c09Rec) Batcher() Batcher { return r }
func (r *c09Rec) BatchCallContext(ctx context.Context, b []rpc.BatchElem) error {
	r.begin(true)
	r.mu.Lock()
	r.batchBegun++
	r.mu.Unlock()
	err := r.inner.Batcher().BatchCallContext(ctx, b)
	r.mu.Lock()
	defer r.mu.Unlock()
	r.end(true)
	r.batchEnd = time.Now()
	// anything left over from an earlier batch was skipped by the monitor
	for len(r.pendEl) > 0 {
		r.procLocked("None")
	}
	if err != nil {
		r.logf("(Ev BatchFail)")
		return err
	}
	var terms []string
	for i := range b {
		h, _ := b[i].Args[0].(common.Hash)
		e := c09Elem{h: h}
		r.node.mu.Lock()
		te, known := r.node.batchTruth[h]
		r.node.mu.Unlock()
		switch {
		case known:
			e = te // what the node put on the wire for this element
		case b[i].Error == nil:
			e.kind = 0
			if rc, ok := b[i].Result.(*types.Receipt); ok && rc != nil {
				e.st = rc.Status
			}
		case errors.Is(b[i].Error, ethereum.NotFound):
			e.kind = 1
		default:
			r.node.mu.Lock()
			k, _ := r.node.truthLocked(h, false)
			r.node.mu.Unlock()
			if k == 1 {
				e.kind = 2
			} else {
				e.kind = 3
			}
		}
		r.pendEl = append(r.pendEl, e)
		terms = append(terms, coqPair(coqN(r.hid(h)), c09Reply(e)))
	}
	r.logf("(Ev (BatchReply " + coqList(terms) + "))")
	r.procLeadingLocked()
	return nil
}

func (r *c09Rec) TransactionReceipt(ctx context.Context, h common.Hash) (*types.Receipt, error) {
	r.begin(true)
	rc, err := r.inner.TransactionReceipt(ctx, h)
	r.mu.Lock()
	defer r.mu.Unlock()
	r.end(true)
	fb := "RRpcErr"
	r.node.mu.Lock()
	te, known := r.node.singleTruth[h]
	delete(r.node.singleTruth, h)
	r.node.mu.Unlock()
	switch {
	case err != nil && ctx.Err() != nil:
		// the call was cut by the shutdown: the monitor got no answer
	case known:
		fb = c09Reply(te)
	case err == nil && rc != nil:
		fb = coqApp("RReceipt", coqN(rc.Status))
	case errors.Is(err, ethereum.NotFound):
		fb = "RNotFound"
	}
	// elements before h that were skipped without an individual query
	for len(r.pendEl) > 0 && r.pendEl[0].h != h {
		r.procLocked("None")
	}
	if len(r.pendEl) > 0 {
		r.procLocked("(Some " + fb + ")")
		r.procLeadingLocked()
	}
	return rc, err
}

func (r *c09Rec) BlockNumber(ctx context.Context) (uint64, error) {
	r.begin(false)
	v, err := r.inner.BlockNumber(ctx)
	r.mu.Lock()
	defer r.mu.Unlock()
	r.end(false)
	r.flushBlkLocked()
	if err != nil {
		r.logf("(Ev (Poll None None false))")
		return v, err
	}
	vv := v
	r.pendBlk = &vv
	return v, nil
}

func (r *c09Rec) NonceAt(ctx context.Context, a common.Address, blk *big.Int) (uint64, error) {
	r.begin(false)
	v, err := r.inner.NonceAt(ctx, a, blk)
	r.mu.Lock()
	defer r.mu.Unlock()
	r.end(false)
	b := blk.Uint64()
	r.pendBlk = nil
	r.nonceOK, r.nonceVal = err == nil, v
	if err != nil {
		r.logf(fmt.Sprintf("(Ev (Poll (Some %s) None %s))", coqN(b), coqBool(b <= r.drvLast)))
		return v, err
	}
	r.logf(fmt.Sprintf("(Ev (Poll (Some %s) (Some %s) %s))", coqN(b), coqN(v), coqBool(b <= r.drvLast)))
	r.logf("(Ev CheckBegin)")
	r.drvLast = b
	return v, nil
}

func (r *c09Rec) NetworkID(ctx context.Context) (*big.Int, error) { return r.inner.NetworkID(ctx) }
func (r *c09Rec) PendingNonceAt(ctx context.Context, a common.Address) (uint64, error) {
	return r.inner.PendingNonceAt(ctx, a)
}
func (r *c09Rec) SuggestGasPrice(ctx context.Context) (*big.Int, error) {
	return r.inner.SuggestGasPrice(ctx)
}
func (r *c09Rec) SuggestGasTipCap(ctx context.Context) (*big.Int, error) {
	return r.inner.SuggestGasTipCap(ctx)
}
func (r *c09Rec) EstimateGas(ctx context.Context, call ethereum.CallMsg) (uint64, error) {
	return r.inner.EstimateGas(ctx, call)
}
func (r *c09Rec) SendTransaction(ctx context.Context, tx *types.Transaction) error {
	return r.inner.SendTransaction(ctx, tx)
}
func (r *c09Rec) CallContract(ctx context.Context, call ethereum.CallMsg, b *big.Int) ([]byte, error) {
	return r.inner.CallContract(ctx, call, b)
}
func (r *c09Rec) TransactionByHash(ctx context.Context, h common.Hash) (*types.Transaction, bool, error) {
	return r.inner.TransactionByHash(ctx, h)
}

// c09RecDbg is the recording wrapper for an EVM that implements Debugger (the production evm type
// does): the monitor's type assertion t.client.(Debugger) must see what it would see in production.
type c09RecDbg struct{ *c09Rec }

func (r *c09RecDbg) TraceTransaction(ctx context.Context, h common.Hash) (*TransactionTrace, error) {
	r.begin(true)
	tt, err := r.inner.(Debugger).TraceTransaction(ctx, h)
	r.mu.Lock()
	r.end(true)
	r.mu.Unlock()
	return tt, err
}
