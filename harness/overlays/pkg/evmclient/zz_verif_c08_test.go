package evmclient

// Correspondence driver for property C08 (nonces never reused or skipped, window bounded).
// Drives the real EvmClient.Send against a scripted chain node (c08Node) and a key signer with
// failure injection; records, per request, every oracle answer and what reached the node, in node
// arrival order, so that the Coq model (model/EvmSend.v) replays the same history.

import (
	"context"
	"crypto/ecdsa"
	"encoding/json"
	"errors"
	"fmt"
	"io"
	"log/slog"
	"math/big"
	"math/rand"
	"net/http"
	"net/http/httptest"
	"strings"
	"sync"
	"sync/atomic"
	"testing"
	"time"

	"github.com/ethereum/go-ethereum"
	"github.com/ethereum/go-ethereum/common"
	"github.com/ethereum/go-ethereum/common/hexutil"
	"github.com/ethereum/go-ethereum/core/types"
	"github.com/ethereum/go-ethereum/crypto"
	"github.com/ethereum/go-ethereum/ethclient"
	"github.com/ethereum/go-ethereum/rpc"
)

// ---- inputs --------------------------------------------------------------------------------

// c08SendIn scripts the answers for one Send.
type c08SendIn struct {
	PM   string `json:"pm"`  // pending answer: acc (true pending) | lag (true - PV) | out (PV outside txs first) | abs (PV) | err
	PV   uint64 `json:"pv"`  //
	Est  bool   `json:"est"` // EstimateGas succeeds
	Tip  bool   `json:"tip"` // SuggestGasTipCap succeeds
	GP   bool   `json:"gp"`  // SuggestGasPrice succeeds
	Sign bool   `json:"sign"`
	Sub  bool   `json:"sub"`          // SendTransaction succeeds
	ET   string `json:"et,omitempty"` // what a failing call of this request says (c08ErrorKinds); "" = a generic error
}

type c08OpIn struct {
	K     string      `json:"k"`     // send | burst | conf | restart
	Gas   bool        `json:"gas"`   // request carries a gas limit (send, burst)
	Price bool        `json:"price"` // request carries a gas price (send, burst)
	S     []c08SendIn `json:"s,omitempty"`
	CM    string      `json:"cm,omitempty"` // conf: abs (CV) | next (true pending - CV, floored at 0)
	CV    uint64      `json:"cv,omitempty"`
}

type c08In struct {
	T string `json:"t,omitempty"` // transport: "" = scripted EVM implementation handed to New;
	//                                       "wire" = the production assembly New(ks, WrapEthClient(ethclient over JSON-RPC/HTTP))
	Start uint64    `json:"start"` // account nonce at the beginning
	Ops   []c08OpIn `json:"ops"`
}

// ---- observations --------------------------------------------------------------------------

type c08Session struct {
	In       c08SendIn `json:"in"`
	Gas      bool      `json:"gas"`
	Price    bool      `json:"price"`
	Pending  *uint64   `json:"pending"`  // answer given (nil = error)
	ConfRead uint64    `json:"confRead"` // lastConfirmedNonce read before the request(s)
	Reached  *uint64   `json:"reached"`  // nonce of the transaction that reached SendTransaction
	Accepted bool      `json:"accepted"`
	OK       bool      `json:"ok"` // Send returned nil error
	hash     common.Hash
}

type c08ObsOp struct {
	K    string      `json:"k"` // send | conf | restart
	S    *c08Session `json:"s,omitempty"`
	Conf uint64      `json:"conf,omitempty"`
}

// ---- scripted node -------------------------------------------------------------------------

var errC08Injected = errors.New("c08: injected failure")

// same text as go-ethereum's core.ErrNonceTooLow (that package does not build offline)
var errC08NonceTooLow = errors.New("nonce too low")

// error values / texts a chain node (or the transport) answers with
var c08ErrorKinds = []string{"", "nonce-too-low", "wrapped-nonce-too-low", "underpriced", "already-known", "funds",
	"canceled", "deadline", "eof"}

func c08Failure(kind string) error {
	switch kind {
	case "nonce-too-low":
		return errors.New("nonce too low")
	case "wrapped-nonce-too-low":
		return fmt.Errorf("c08: node refused the transaction: %w", errC08NonceTooLow)
	case "underpriced":
		return errors.New("replacement transaction underpriced")
	case "already-known":
		return errors.New("already known")
	case "funds":
		return errors.New("insufficient funds for gas * price + value")
	case "canceled":
		return context.Canceled
	case "deadline":
		return context.DeadlineExceeded
	case "eof":
		return io.EOF
	}
	return errC08Injected
}

// failLocked: the error a failing call of the current request answers with
func (n *c08Node) failLocked() error {
	if n.cur == nil {
		return errC08Injected
	}
	return c08Failure(n.cur.In.ET)
}

type c08Node struct {
	mu       sync.Mutex
	chainID  *big.Int
	next     uint64 // true pending nonce of the account
	conf     uint64 // confirmed nonce answered to NonceAt
	block    uint64
	permit   bool // BlockNumber succeeds once
	queue    []*c08Session
	cur      *c08Session
	sessions []*c08Session
	problems []string
	// harness synchronisation with the monitor failed (loaded machine): the history is dropped from the comparison
	inconclusive []string
	draining     bool                   // receipts are being served (drain step)
	taken        map[common.Hash]uint64 // transactions the node accepted: hash -> nonce
	wire         bool                   // JSON-RPC transport: requests are delimited by the driver, answers are what goes on the wire
	reports      int                    // confirmed-nonce answers given for a block number (the monitor's NonceAt)
}

func (n *c08Node) problem(format string, a ...interface{}) {
	n.problems = append(n.problems, fmt.Sprintf(format, a...))
}

type c08Batcher struct{ n *c08Node }

// receipts are only served during a drain step; then every transaction the node took is mined
func (b c08Batcher) BatchCallContext(ctx context.Context, elems []rpc.BatchElem) error {
	n := b.n
	n.mu.Lock()
	defer n.mu.Unlock()
	if !n.draining {
		return errC08Injected
	}
	for i := range elems {
		h, ok := elems[i].Args[0].(common.Hash)
		if _, mined := n.taken[h]; !ok || !mined {
			elems[i].Error = ethereum.NotFound
			continue
		}
		if r, ok := elems[i].Result.(*types.Receipt); ok {
			*r = *n.receiptLocked(h)
		}
	}
	return nil
}

func (n *c08Node) receiptLocked(h common.Hash) *types.Receipt {
	return &types.Receipt{Type: types.DynamicFeeTxType, Status: types.ReceiptStatusSuccessful, CumulativeGasUsed: 21000,
		Logs: []*types.Log{}, TxHash: h, GasUsed: 21000, BlockNumber: new(big.Int).SetUint64(n.block),
		BlockHash: common.HexToHash("0xb10c"), EffectiveGasPrice: big.NewInt(1)}
}

func (n *c08Node) Batcher() Batcher { return c08Batcher{n} }
func (n *c08Node) NetworkID(ctx context.Context) (*big.Int, error) {
	return new(big.Int).Set(n.chainID), nil
}
func (n *c08Node) BlockNumber(ctx context.Context) (uint64, error) {
	n.mu.Lock()
	defer n.mu.Unlock()
	if !n.permit {
		return 0, errC08Injected
	}
	n.permit = false
	return n.block, nil
}
func (n *c08Node) NonceAt(ctx context.Context, account common.Address, blockNumber *big.Int) (uint64, error) {
	n.mu.Lock()
	defer n.mu.Unlock()
	n.reports++
	return n.conf, nil
}

// beginLocked makes s the current request and fixes the node's pending-nonce answer for it.
func (n *c08Node) beginLocked(s *c08Session) {
	n.cur = s
	n.sessions = append(n.sessions, s)
	var v uint64
	switch s.In.PM {
	case "err":
		return
	case "acc":
		v = n.next
	case "lag":
		if s.In.PV < n.next {
			v = n.next - s.In.PV
		}
	case "out":
		n.next += s.In.PV
		v = n.next
	case "abs":
		v = s.In.PV
	default:
		n.problem("unknown pending mode %q", s.In.PM)
		return
	}
	s.Pending = &v
}

func (n *c08Node) PendingNonceAt(ctx context.Context, account common.Address) (uint64, error) {
	n.mu.Lock()
	defer n.mu.Unlock()
	if len(n.queue) == 0 {
		// a query outside any scripted request (e.g. at construction): the true pending nonce
		return n.next, nil
	}
	s := n.queue[0]
	n.queue = n.queue[1:]
	n.beginLocked(s)
	if s.Pending == nil {
		return 0, n.failLocked()
	}
	return *s.Pending, nil
}
func (n *c08Node) current(call string) *c08Session {
	if n.cur == nil {
		n.problem("%s outside a request", call)
		return &c08Session{}
	}
	return n.cur
}
func (n *c08Node) SuggestGasPrice(ctx context.Context) (*big.Int, error) {
	n.mu.Lock()
	defer n.mu.Unlock()
	if !n.current("SuggestGasPrice").In.GP {
		return nil, n.failLocked()
	}
	return big.NewInt(2000000000), nil
}
func (n *c08Node) SuggestGasTipCap(ctx context.Context) (*big.Int, error) {
	n.mu.Lock()
	defer n.mu.Unlock()
	if !n.current("SuggestGasTipCap").In.Tip {
		return nil, n.failLocked()
	}
	return big.NewInt(1000000000), nil
}
func (n *c08Node) EstimateGas(ctx context.Context, call ethereum.CallMsg) (uint64, error) {
	n.mu.Lock()
	defer n.mu.Unlock()
	if !n.current("EstimateGas").In.Est {
		return 0, n.failLocked()
	}
	return 30000, nil
}
func (n *c08Node) SendTransaction(ctx context.Context, tx *types.Transaction) error {
	n.mu.Lock()
	defer n.mu.Unlock()
	return n.submitLocked(tx)
}
func (n *c08Node) submitLocked(tx *types.Transaction) error {
	s := n.current("SendTransaction")
	if s.Reached != nil {
		n.problem("two transactions submitted for one request")
	}
	if tx.ChainId().Cmp(n.chainID) != 0 {
		n.problem("transaction with chain id %v submitted by a client of chain %v", tx.ChainId(), n.chainID)
	}
	v := tx.Nonce()
	s.Reached = &v
	s.hash = tx.Hash()
	if !s.In.Sub {
		return n.failLocked()
	}
	s.Accepted = true
	if n.taken == nil {
		n.taken = map[common.Hash]uint64{}
	}
	n.taken[tx.Hash()] = v
	if v+1 > n.next && v+1 != 0 {
		n.next = v + 1
	}
	return nil
}
func (n *c08Node) CallContract(ctx context.Context, call ethereum.CallMsg, blockNumber *big.Int) ([]byte, error) {
	return nil, errC08Injected
}
func (n *c08Node) TransactionReceipt(ctx context.Context, txHash common.Hash) (*types.Receipt, error) {
	n.mu.Lock()
	defer n.mu.Unlock()
	if !n.draining {
		return nil, errC08Injected
	}
	if _, mined := n.taken[txHash]; !mined {
		return nil, ethereum.NotFound
	}
	return n.receiptLocked(txHash), nil
}
func (n *c08Node) TransactionByHash(ctx context.Context, txHash common.Hash) (*types.Transaction, bool, error) {
	return nil, false, errC08Injected
}

// ---- the same node behind JSON-RPC over HTTP --------------------------------------------------

type c08RPCReq struct {
	ID     json.RawMessage   `json:"id"`
	Method string            `json:"method"`
	Params []json.RawMessage `json:"params"`
}

func (n *c08Node) answerRPC(r c08RPCReq) (interface{}, error) {
	n.mu.Lock()
	defer n.mu.Unlock()
	switch r.Method {
	case "net_version":
		return n.chainID.String(), nil
	case "eth_chainId":
		return hexutil.EncodeBig(n.chainID), nil
	case "eth_blockNumber":
		if !n.permit {
			return nil, errC08Injected
		}
		n.permit = false
		return hexutil.EncodeUint64(n.block), nil
	case "eth_getTransactionCount":
		var tag string
		if len(r.Params) > 1 {
			_ = json.Unmarshal(r.Params[1], &tag)
		}
		if tag == "pending" {
			if n.cur == nil {
				return hexutil.EncodeUint64(n.next), nil
			}
			if n.cur.Pending == nil {
				return nil, n.failLocked()
			}
			return hexutil.EncodeUint64(*n.cur.Pending), nil
		}
		if tag != "latest" && tag != "" {
			n.reports++
		}
		return hexutil.EncodeUint64(n.conf), nil
	case "eth_estimateGas":
		if !n.current("eth_estimateGas").In.Est {
			return nil, n.failLocked()
		}
		return hexutil.EncodeUint64(30000), nil
	case "eth_maxPriorityFeePerGas":
		if !n.current("eth_maxPriorityFeePerGas").In.Tip {
			return nil, n.failLocked()
		}
		return hexutil.EncodeUint64(1000000000), nil
	case "eth_gasPrice":
		if !n.current("eth_gasPrice").In.GP {
			return nil, n.failLocked()
		}
		return hexutil.EncodeUint64(2000000000), nil
	case "eth_sendRawTransaction":
		var raw hexutil.Bytes
		if len(r.Params) < 1 || json.Unmarshal(r.Params[0], &raw) != nil {
			n.problem("eth_sendRawTransaction: bad parameters")
			return nil, errC08Injected
		}
		tx := new(types.Transaction)
		if err := tx.UnmarshalBinary(raw); err != nil {
			n.problem("eth_sendRawTransaction: undecodable transaction: %v", err)
			return nil, errC08Injected
		}
		if err := n.submitLocked(tx); err != nil {
			return nil, err
		}
		return tx.Hash().Hex(), nil
	case "eth_getTransactionReceipt":
		var h common.Hash
		if !n.draining || len(r.Params) < 1 || json.Unmarshal(r.Params[0], &h) != nil {
			return nil, errC08Injected
		}
		if _, mined := n.taken[h]; !mined {
			return nil, nil // JSON null
		}
		b, err := n.receiptLocked(h).MarshalJSON()
		if err != nil {
			n.problem("cannot encode receipt: %v", err)
			return nil, errC08Injected
		}
		m := map[string]interface{}{}
		_ = json.Unmarshal(b, &m)
		return m, nil
	case "eth_getTransactionByHash", "eth_call":
		return nil, errC08Injected
	}
	return nil, fmt.Errorf("c08: method %s not served", r.Method)
}

func (n *c08Node) ServeHTTP(w http.ResponseWriter, req *http.Request) {
	body, _ := io.ReadAll(req.Body)
	reply := func(r c08RPCReq) map[string]interface{} {
		res, err := n.answerRPC(r)
		out := map[string]interface{}{"jsonrpc": "2.0", "id": r.ID}
		if err != nil {
			out["error"] = map[string]interface{}{"code": -32000, "message": err.Error()}
		} else {
			out["result"] = res
		}
		return out
	}
	w.Header().Set("Content-Type", "application/json")
	trimmed := strings.TrimSpace(string(body))
	if strings.HasPrefix(trimmed, "[") {
		var rs []c08RPCReq
		_ = json.Unmarshal(body, &rs)
		outs := make([]map[string]interface{}, 0, len(rs))
		for _, r := range rs {
			outs = append(outs, reply(r))
		}
		_ = json.NewEncoder(w).Encode(outs)
		return
	}
	var r c08RPCReq
	_ = json.Unmarshal(body, &r)
	_ = json.NewEncoder(w).Encode(reply(r))
}

// key signer: real London signatures, failure injected per request by the node's script
type c08Signer struct {
	key  *ecdsa.PrivateKey
	node *c08Node
}

func (k *c08Signer) SignHash(data []byte) ([]byte, error) { return crypto.Sign(data, k.key) }
func (k *c08Signer) SignTx(tx *types.Transaction, chainID *big.Int) (*types.Transaction, error) {
	k.node.mu.Lock()
	ok := k.node.current("SignTx").In.Sign
	failure := k.node.failLocked()
	k.node.mu.Unlock()
	if !ok {
		return nil, failure
	}
	return types.SignTx(tx, types.NewLondonSigner(chainID), k.key)
}
func (k *c08Signer) GetAddress() common.Address                { return crypto.PubkeyToAddress(k.key.PublicKey) }
func (k *c08Signer) GetPrivateKey() (*ecdsa.PrivateKey, error) { return k.key, nil }
func (k *c08Signer) ZeroPrivateKey(key *ecdsa.PrivateKey)      {}
func (k *c08Signer) String() string                            { return "c08" }

// one HTTP server for the whole run; requests go to the node of the history under way
var (
	c08Server     *httptest.Server
	c08ServerOnce sync.Once
	c08Current    atomic.Pointer[c08Node]
)

// c08Poll lets the monitor make one poll (BlockNumber, NonceAt for that block, store) and returns once it
// has completed; it reports whether the node actually answered a confirmed-nonce query. A poll whose
// transport failed half way is repeated by the caller.
func c08Poll(node *c08Node, client *EvmClient, slow int) bool {
	node.mu.Lock()
	node.block++
	node.permit = true
	reportsBefore := node.reports
	node.mu.Unlock()
	// wake the monitor; the second hand-over is only taken once the first round has completed
	if !c08Kick(client, slow) || !c08Kick(client, slow) {
		node.mu.Lock()
		node.inconclusive = append(node.inconclusive, "monitor did not take the wake-up")
		node.mu.Unlock()
	}
	node.mu.Lock()
	defer node.mu.Unlock()
	node.permit = false
	return node.reports > reportsBefore
}

// ---- running one history -------------------------------------------------------------------

func c08Kick(c *EvmClient, slow int) bool {
	select {
	case c.monitor.newTxAdded <- struct{}{}:
		return true
	case <-time.After(time.Duration(10*slow) * time.Second):
		return false
	}
}

func c08Run(t *testing.T, in c08In, slow int) ([]c08ObsOp, []string, bool) {
	key, err := crypto.ToECDSA(common.FromHex("0x4c0883a69102937d6231471b5dbb6204fe5129617082792ae468d01a3f362318"))
	if err != nil {
		t.Fatal(err)
	}
	node := &c08Node{chainID: big.NewInt(31337), next: in.Start, wire: in.T == "wire"}
	ks := &c08Signer{key: key, node: node}
	logger := slog.New(slog.NewTextHandler(io.Discard, nil))
	owner := ks.GetAddress()
	var rpcClient *rpc.Client
	if node.wire {
		c08Current.Store(node)
		c08ServerOnce.Do(func() {
			c08Server = httptest.NewServer(http.HandlerFunc(func(w http.ResponseWriter, r *http.Request) {
				c08Current.Load().ServeHTTP(w, r)
			}))
		})
	}
	newClient := func() *EvmClient {
		var backend EVM = node
		if node.wire { // assembled as pkg/node does it
			if rpcClient != nil {
				rpcClient.Close()
			}
			rc, err := rpc.DialContext(context.Background(), c08Server.URL)
			if err != nil {
				t.Fatalf("c08: dial: %v", err)
			}
			rpcClient = rc
			backend = WrapEthClient(ethclient.NewClient(rc))
		}
		c, err := New(ks, backend, logger)
		if err != nil {
			t.Fatalf("c08: New: %v", err)
		}
		return c
	}
	client := newClient()
	defer func() {
		_ = client.Close()
		if rpcClient != nil {
			rpcClient.Close()
		}
	}()
	var obs []c08ObsOp
	mkReq := func(op c08OpIn) *TxRequest {
		r := &TxRequest{To: &owner, CallData: []byte{1, 2, 3}, Value: big.NewInt(0)}
		if op.Gas {
			r.GasLimit = 50000
		}
		if op.Price {
			r.GasPrice = big.NewInt(3000000000)
		}
		return r
	}
	for _, op := range in.Ops {
		switch op.K {
		case "send", "burst", "send-seq":
			if len(op.S) == 0 {
				continue
			}
			if op.K == "send" && len(op.S) != 1 {
				op.S = op.S[:1]
			}
			confRead := client.monitor.lastConfirmedNonce.Load()
			node.mu.Lock()
			first := len(node.sessions)
			if !node.wire {
				for _, s := range op.S {
					node.queue = append(node.queue, &c08Session{In: s, Gas: op.Gas, Price: op.Price, ConfRead: confRead})
				}
			}
			node.mu.Unlock()
			type res struct {
				h   common.Hash
				err error
			}
			results := make([]res, len(op.S))
			var wg sync.WaitGroup
			for i := range op.S {
				if node.wire {
					// one request at a time; the node's pending count for this request is fixed now and is
					// what goes on the wire to whoever asks with the "pending" tag
					node.mu.Lock()
					node.beginLocked(&c08Session{In: op.S[i], Gas: op.Gas, Price: op.Price,
						ConfRead: client.monitor.lastConfirmedNonce.Load()})
					node.mu.Unlock()
					h, err := client.Send(context.Background(), mkReq(op))
					results[i] = res{h, err}
					node.mu.Lock()
					node.cur = nil
					node.mu.Unlock()
					continue
				}
				wg.Add(1)
				go func(i int) {
					defer wg.Done()
					h, err := client.Send(context.Background(), mkReq(op))
					results[i] = res{h, err}
				}(i)
				if op.K != "burst" {
					wg.Wait()
				}
			}
			wg.Wait()
			node.mu.Lock()
			if len(node.queue) != 0 || len(node.sessions) != first+len(op.S) {
				node.problem("requests and node sessions out of step: queue=%d sessions=%d", len(node.queue), len(node.sessions)-first)
				node.queue = nil
			}
			ss := node.sessions[first:]
			node.cur = nil
			node.mu.Unlock()
			// attribute the results of Send to the sessions: a nil error carries the hash of the
			// transaction the node accepted in that session
			okHashes := map[common.Hash]int{}
			unmatchedOK := 0
			for _, r := range results {
				if r.err == nil {
					okHashes[r.h]++
				}
			}
			for _, s := range ss {
				if s.Accepted && okHashes[s.hash] > 0 {
					okHashes[s.hash]--
					s.OK = true
				}
			}
			for _, c := range okHashes {
				unmatchedOK += c
			}
			for _, s := range ss { // a nil error without a matching submission: show it on a session
				if unmatchedOK > 0 && !s.OK {
					s.OK = true
					unmatchedOK--
				}
			}
			for _, s := range ss {
				obs = append(obs, c08ObsOp{K: "send", S: s})
			}
		case "conf":
			node.mu.Lock()
			v := op.CV
			if op.CM == "next" {
				v = 0
				if op.CV < node.next {
					v = node.next - op.CV
				}
			}
			node.conf = v
			node.mu.Unlock()
			reported := false
			for try := 0; try < 5 && !reported; try++ {
				reported = c08Poll(node, client, slow)
			}
			if !reported {
				// the monitor may still pick the value up later: nothing after this point can be compared
				node.mu.Lock()
				node.inconclusive = append(node.inconclusive, "monitor did not ask for the confirmed nonce")
				node.mu.Unlock()
				return obs, nil, true
			}
			obs = append(obs, c08ObsOp{K: "conf", Conf: v})
		case "drain":
			// everything the node took is mined; blocks advance until the monitor has delivered every
			// receipt and the client's pending list is observed empty
			node.mu.Lock()
			node.draining = true
			v := node.next
			node.conf = v
			node.mu.Unlock()
			empty := false
			for round := 0; round < 40 && !empty; round++ {
				if !c08Poll(node, client, slow) {
					continue // transport hiccup: nothing was reported, poll again
				}
				obs = append(obs, c08ObsOp{K: "conf", Conf: v})
				deadline := time.Now().Add(time.Duration(250*slow) * time.Millisecond)
				for {
					if empty = len(client.PendingTxns()) == 0; empty || time.Now().After(deadline) {
						break
					}
					time.Sleep(time.Millisecond)
				}
			}
			if !empty {
				node.mu.Lock()
				node.inconclusive = append(node.inconclusive, fmt.Sprintf("pending list did not drain: %d left", len(client.PendingTxns())))
				node.mu.Unlock()
			}
			node.mu.Lock()
			node.draining = false
			node.mu.Unlock()
		case "restart":
			_ = client.Close() // the old process is gone before the new one starts
			client = newClient()
			obs = append(obs, c08ObsOp{K: "restart"})
		}
	}
	node.mu.Lock()
	defer node.mu.Unlock()
	return obs, node.problems, len(node.inconclusive) > 0
}

// ---- Coq term ------------------------------------------------------------------------------

func c08CoqOptN(v *uint64) string {
	if v == nil {
		return "None"
	}
	return "(Some " + coqN(*v) + ")"
}

func c08Coq(id int, obs []c08ObsOp) string {
	var items []string
	for _, o := range obs {
		switch o.K {
		case "send":
			s := o.S
			rq := coqRecord("gas_given", coqBool(s.Gas), "price_given", coqBool(s.Price))
			a := coqRecord("pending", c08CoqOptN(s.Pending), "est_ok", coqBool(s.In.Est), "tip_ok", coqBool(s.In.Tip),
				"price_ok", coqBool(s.In.GP), "sign_ok", coqBool(s.In.Sign), "submit_ok", coqBool(s.In.Sub))
			res := "NoTx"
			if s.Reached != nil {
				if s.Accepted {
					res = coqApp("Accepted", coqN(*s.Reached))
				} else {
					res = coqApp("Rejected", coqN(*s.Reached))
				}
			}
			items = append(items, coqApp("CSend", rq, a, coqN(s.ConfRead), res, coqBool(s.OK)))
		case "conf":
			items = append(items, coqApp("CConf", coqN(o.Conf)))
		case "restart":
			items = append(items, "CRestart")
		}
	}
	return coqRecord("id", coqN(uint64(id)), "ops", coqList(items))
}

// ---- generators ----------------------------------------------------------------------------

func c08OK(pm string, pv uint64) c08SendIn {
	return c08SendIn{PM: pm, PV: pv, Est: true, Tip: true, GP: true, Sign: true, Sub: true}
}
func c08Send(gas, price bool, s c08SendIn) c08OpIn {
	return c08OpIn{K: "send", Gas: gas, Price: price, S: []c08SendIn{s}}
}

func c08RandSend(r *rand.Rand, failRate int) c08SendIn {
	s := c08OK("acc", 0)
	switch r.Intn(10) {
	case 0, 1:
		s.PM, s.PV = "lag", uint64(1+r.Intn(4))
	case 2:
		s.PM, s.PV = "out", uint64(1+r.Intn(3))
	case 3:
		s.PM, s.PV = "abs", uint64(r.Intn(6))
	case 4:
		s.PM, s.PV = "abs", 0
	}
	fail := func() bool { return r.Intn(100) < failRate }
	if fail() {
		s.PM = "err"
	}
	s.Est, s.Tip, s.GP, s.Sign, s.Sub = !fail(), !fail(), !fail(), !fail(), !fail()
	if r.Intn(2) == 0 {
		s.ET = c08ErrorKinds[r.Intn(len(c08ErrorKinds))]
	}
	return s
}

func c08RandHistory(r *rand.Rand) c08In {
	in := c08In{}
	switch r.Intn(4) {
	case 0:
		in.Start = 0
	case 1:
		in.Start = uint64(r.Intn(3))
	case 2:
		in.Start = uint64(r.Intn(2000))
	default:
		in.Start = r.Uint64() >> uint(8+r.Intn(40))
	}
	n := 1 + r.Intn(60)
	failRate := []int{0, 3, 10, 30}[r.Intn(4)]
	for i := 0; i < n; i++ {
		gas, price := r.Intn(2) == 0, r.Intn(2) == 0
		switch x := r.Intn(20); {
		case x < 13:
			in.Ops = append(in.Ops, c08Send(gas, price, c08RandSend(r, failRate)))
		case x < 15:
			k := 2 + r.Intn(5)
			op := c08OpIn{K: "burst", Gas: gas, Price: price}
			for j := 0; j < k; j++ {
				op.S = append(op.S, c08RandSend(r, failRate))
			}
			in.Ops = append(in.Ops, op)
		case x < 18:
			if r.Intn(3) == 0 {
				in.Ops = append(in.Ops, c08OpIn{K: "conf", CM: "abs", CV: uint64(r.Intn(3000))})
			} else {
				in.Ops = append(in.Ops, c08OpIn{K: "conf", CM: "next", CV: uint64(r.Intn(4))})
			}
		default:
			if r.Intn(3) == 0 {
				in.Ops = append(in.Ops, c08OpIn{K: "drain"})
			} else {
				in.Ops = append(in.Ops, c08OpIn{K: "restart"})
			}
		}
	}
	return in
}

// histories around the window boundary lastConfirmedNonce + maxSentTxs (and its uint64 wrap)
func c08WindowHistory(r *rand.Rand) c08In {
	in := c08In{}
	confs := []uint64{0, 1, 5, 1000, 1 << 32, 1<<63 - 1, 1 << 63, ^uint64(0) - 5000, ^uint64(0) - 1026, ^uint64(0) - 1023,
		^uint64(0) - 1022, ^uint64(0) - 1, ^uint64(0)}
	conf := confs[r.Intn(len(confs))]
	if r.Intn(3) > 0 {
		in.Ops = append(in.Ops, c08OpIn{K: "conf", CM: "abs", CV: conf})
	} else {
		conf = 0
	}
	lim := conf + maxSentTxs // wraps like the code
	n := 2 + r.Intn(8)
	for i := 0; i < n; i++ {
		d := uint64(r.Intn(5))
		var p uint64
		switch r.Intn(5) {
		case 0:
			p = lim - d
		case 1:
			p = lim + 1 + d
		case 2:
			p = lim
		case 3:
			p = conf + d
		default:
			p = uint64(r.Intn(3000))
		}
		if p == ^uint64(0) { // nonce 2^64-1 is outside the claim (no larger nonce exists)
			p--
		}
		s := c08OK("abs", p)
		if r.Intn(6) == 0 {
			s.Sub = false
		}
		in.Ops = append(in.Ops, c08Send(true, true, s))
		if r.Intn(4) == 0 {
			nc := confs[r.Intn(len(confs))]
			if r.Intn(2) == 0 {
				nc = uint64(r.Intn(2100))
			}
			in.Ops = append(in.Ops, c08OpIn{K: "conf", CM: "abs", CV: nc})
			conf = nc
			lim = conf + maxSentTxs
		}
		if r.Intn(10) == 0 {
			in.Ops = append(in.Ops, c08OpIn{K: "restart"})
			conf, lim = 0, maxSentTxs
		}
	}
	return in
}

// one failing call (single or repeated), then a clean retry
func c08FailureHistories() []c08In {
	var out []c08In
	for _, start := range []uint64{0, 7} {
		for call := 0; call < 6; call++ {
			for rep := 1; rep <= 2; rep++ {
				for _, shape := range [][2]bool{{false, false}, {true, true}, {true, false}, {false, true}} {
					in := c08In{Start: start}
					in.Ops = append(in.Ops, c08Send(shape[0], shape[1], c08OK("acc", 0)))
					for k := 0; k < rep; k++ {
						s := c08OK("acc", 0)
						switch call {
						case 0:
							s.PM = "err"
						case 1:
							s.Est = false
						case 2:
							s.Tip = false
						case 3:
							s.GP = false
						case 4:
							s.Sign = false
						case 5:
							s.Sub = false
						}
						in.Ops = append(in.Ops, c08Send(shape[0], shape[1], s))
					}
					in.Ops = append(in.Ops, c08Send(shape[0], shape[1], c08OK("acc", 0)))
					in.Ops = append(in.Ops, c08Send(shape[0], shape[1], c08OK("lag", 1)))
					out = append(out, in)
				}
			}
		}
	}
	return out
}

// stale and zero pending answers on fresh and used accounts, with restarts
func c08StaleHistories() []c08In {
	var out []c08In
	for _, start := range []uint64{0, 1, 2, 100} {
		for _, pm := range []c08SendIn{c08OK("abs", 0), c08OK("abs", 1), c08OK("lag", 1), c08OK("lag", 2), c08OK("lag", 1000), c08OK("acc", 0)} {
			for n := 2; n <= 4; n++ {
				in := c08In{Start: start}
				in.Ops = append(in.Ops, c08Send(false, false, c08OK("acc", 0)))
				for i := 1; i < n; i++ {
					in.Ops = append(in.Ops, c08Send(false, false, pm))
				}
				out = append(out, in)
				// the same with a restart before the last request, answered accurately / with the stale answer
				for _, after := range []c08SendIn{c08OK("acc", 0), pm} {
					in2 := c08In{Start: start, Ops: append([]c08OpIn{}, in.Ops...)}
					in2.Ops = append(in2.Ops, c08OpIn{K: "restart"}, c08Send(false, false, after), c08Send(false, false, pm))
					out = append(out, in2)
				}
			}
		}
	}
	// fresh account, every answer 0 (the history of KNOWN_FINDINGS C08)
	out = append(out, c08In{Start: 0, Ops: []c08OpIn{c08Send(false, false, c08OK("abs", 0)), c08Send(false, false, c08OK("abs", 0)),
		c08Send(false, false, c08OK("abs", 0))}})
	return out
}

// what a failing call SAYS must not matter: every error text / value at every call, followed by
// stale, equal and fresh pending answers
func c08ErrorTextHistories() []c08In {
	var out []c08In
	follow := []c08SendIn{c08OK("lag", 1), c08OK("lag", 2), c08OK("abs", 0), c08OK("acc", 0), c08OK("out", 1)}
	for _, et := range c08ErrorKinds {
		for call := 0; call < 6; call++ {
			for _, f := range follow {
				in := c08In{Start: 5}
				for i := 0; i < 3; i++ {
					in.Ops = append(in.Ops, c08Send(false, false, c08OK("acc", 0)))
				}
				s := c08OK("acc", 0)
				s.ET = et
				switch call {
				case 0:
					s.PM = "err"
				case 1:
					s.Est = false
				case 2:
					s.Tip = false
				case 3:
					s.GP = false
				case 4:
					s.Sign = false
				case 5:
					s.Sub = false
				}
				in.Ops = append(in.Ops, c08Send(false, false, s), c08Send(false, false, f), c08Send(false, false, f),
					c08Send(false, false, c08OK("acc", 0)))
				out = append(out, in)
			}
		}
	}
	return out
}

// everything sent is mined and its receipt collected (pending list observed empty), THEN stale,
// equal or fresh pending answers; also with a failure or a restart after the drain
func c08DrainHistories() []c08In {
	var out []c08In
	follow := []c08SendIn{c08OK("lag", 1), c08OK("lag", 2), c08OK("lag", 1000), c08OK("abs", 0), c08OK("acc", 0), c08OK("out", 2)}
	for _, start := range []uint64{0, 5} {
		for _, k := range []int{1, 3} {
			for _, f := range follow {
				for variant := 0; variant < 3; variant++ {
					in := c08In{Start: start}
					for i := 0; i < k; i++ {
						in.Ops = append(in.Ops, c08Send(true, true, c08OK("acc", 0)))
					}
					in.Ops = append(in.Ops, c08OpIn{K: "drain"})
					switch variant {
					case 1: // a failed request between the drain and the stale answer
						s := c08OK("acc", 0)
						s.Sub, s.ET = false, "nonce-too-low"
						in.Ops = append(in.Ops, c08Send(true, true, s))
					case 2: // two rounds
						in.Ops = append(in.Ops, c08Send(true, true, f), c08OpIn{K: "drain"})
					}
					in.Ops = append(in.Ops, c08Send(true, true, f), c08Send(true, true, f), c08Send(true, true, c08OK("acc", 0)))
					out = append(out, in)
				}
			}
		}
	}
	return out
}

// a client (re)started while the account has an unconfirmed backlog: confirmed c, pending c+k.
// The window must stay anchored at what the node REPORTED as confirmed (c), whatever the pending nonce is.
func c08BacklogHistories(long bool) []c08In {
	var out []c08In
	sends := func(n int, s c08SendIn) []c08OpIn {
		var ops []c08OpIn
		for i := 0; i < n; i++ {
			ops = append(ops, c08Send(true, true, s))
		}
		return ops
	}
	for _, c := range []uint64{0, 10, 5000} {
		for _, k := range []uint64{1, 20, 1000, 1024, 2000} {
			for _, restart := range []bool{false, true} {
				in := c08In{Start: c + k}
				in.Ops = append(in.Ops, c08OpIn{K: "conf", CM: "abs", CV: c})
				if restart {
					in.Ops = append(in.Ops, sends(2, c08OK("acc", 0))...)
					in.Ops = append(in.Ops, c08OpIn{K: "restart"}, c08OpIn{K: "conf", CM: "abs", CV: c})
				}
				switch {
				case k >= 1000 && k <= 1024: // walk up to and across c+1024
					in.Ops = append(in.Ops, sends(int(1024-k)+6, c08OK("acc", 0))...)
				case k > 1024: // already beyond: everything must be refused
					in.Ops = append(in.Ops, sends(4, c08OK("acc", 0))...)
				default: // outside transactions push the pending nonce just across c+1024
					in.Ops = append(in.Ops, sends(2, c08OK("acc", 0))...)
					in.Ops = append(in.Ops, c08Send(true, true, c08OK("out", 1024-k-2)))
					in.Ops = append(in.Ops, sends(3, c08OK("acc", 0))...)
				}
				// the backlog confirms: the window moves on
				in.Ops = append(in.Ops, c08OpIn{K: "conf", CM: "next", CV: 0})
				in.Ops = append(in.Ops, sends(2, c08OK("acc", 0))...)
				out = append(out, in)
				if long && k < 1000 && c == 10 { // no jumps: one transaction after the other up to the limit
					in2 := c08In{Start: c + k}
					in2.Ops = append(in2.Ops, c08OpIn{K: "conf", CM: "abs", CV: c})
					if restart {
						in2.Ops = append(in2.Ops, c08OpIn{K: "restart"}, c08OpIn{K: "conf", CM: "abs", CV: c})
					}
					in2.Ops = append(in2.Ops, sends(int(1024-k)+5, c08OK("acc", 0))...)
					out = append(out, in2)
				}
			}
		}
	}
	return out
}

// restart-heavy sequential histories for the JSON-RPC transport: submissions stay unconfirmed in the
// pool (confirmed count below pending), outside transactions, lag, failures
func c08WireHistory(r *rand.Rand) c08In {
	in := c08In{T: "wire", Start: uint64(r.Intn(4)) * uint64(r.Intn(300))}
	if r.Intn(2) == 0 {
		in.Ops = append(in.Ops, c08OpIn{K: "conf", CM: "next", CV: uint64(r.Intn(3))})
	}
	n := 3 + r.Intn(14)
	failRate := []int{0, 0, 5, 20}[r.Intn(4)]
	for i := 0; i < n; i++ {
		switch x := r.Intn(10); {
		case x < 6:
			in.Ops = append(in.Ops, c08Send(r.Intn(2) == 0, r.Intn(2) == 0, c08RandSend(r, failRate)))
		case x < 7:
			in.Ops = append(in.Ops, c08OpIn{K: "conf", CM: "next", CV: uint64(r.Intn(5))})
		case x < 8:
			in.Ops = append(in.Ops, c08OpIn{K: "drain"})
		default:
			in.Ops = append(in.Ops, c08OpIn{K: "restart"})
			if r.Intn(2) == 0 {
				in.Ops = append(in.Ops, c08Send(true, true, c08OK("acc", 0)))
			}
		}
	}
	return in
}

func c08OnWire(in c08In) c08In {
	out := c08In{T: "wire", Start: in.Start}
	for _, op := range in.Ops {
		if op.K == "burst" {
			op.K = "send-seq"
		}
		out.Ops = append(out.Ops, op)
	}
	return out
}

// all histories of exactly n operations over a small alphabet
func c08Exhaustive(n int, emit func(c08In)) {
	alphabet := []c08OpIn{
		c08Send(true, true, c08OK("acc", 0)),
		c08Send(true, true, c08OK("abs", 0)),
		c08Send(true, true, c08OK("lag", 1)),
		c08Send(true, true, c08OK("out", 2)),
		c08Send(true, true, c08SendIn{PM: "acc", Est: true, Tip: true, GP: true, Sign: true, Sub: false}),
		c08Send(true, true, c08SendIn{PM: "out", PV: 1, Est: true, Tip: false, GP: true, Sign: true, Sub: true}),
		c08Send(true, true, c08SendIn{PM: "err", Est: true, Tip: true, GP: true, Sign: true, Sub: true}),
		{K: "restart"},
	}
	idx := make([]int, n)
	for {
		in := c08In{Start: 0}
		for _, i := range idx {
			in.Ops = append(in.Ops, alphabet[i])
		}
		emit(in)
		k := n - 1
		for k >= 0 {
			idx[k]++
			if idx[k] < len(alphabet) {
				break
			}
			idx[k] = 0
			k--
		}
		if k < 0 {
			return
		}
	}
}

func TestVerifC08(t *testing.T) {
	e := vfOpen(t, 100)
	defer e.Close()
	defer func() {
		if c08Server != nil {
			c08Server.Close()
		}
	}()
	total, dropped := 0, map[string]int{}
	defer func() {
		n := 0
		for _, c := range dropped {
			n += c
		}
		t.Logf("c08: %d histories run, %d inconclusive (dropped from the comparison): %v", total, n, dropped)
		if n*20 > total+20 { // more than ~5%%: the run says too little
			t.Errorf("c08: too many inconclusive histories: %d of %d", n, total)
		}
	}()
	run := func(class string, in c08In) {
		obs, problems, inconclusive := c08Run(t, in, e.Slow)
		total++
		if inconclusive && len(problems) == 0 {
			obs, problems, inconclusive = c08Run(t, in, 2*e.Slow) // once more, with longer deadlines
		}
		if inconclusive && len(problems) == 0 {
			dropped[class]++
			return
		}
		if len(problems) > 0 {
			t.Errorf("c08 driver problem in class %s: %s (input %+v)", class, strings.Join(problems, "; "), in)
		}
		e.Emit(class, in, obs, func(id int) string { return c08Coq(id, obs) })
	}
	for _, raw := range e.Replay {
		var in c08In
		if err := json.Unmarshal(raw, &in); err != nil {
			t.Fatalf("bad replay input: %v", err)
		}
		run("replay", in)
	}
	if e.OnlyReplay() {
		return
	}
	for _, in := range c08StaleHistories() {
		run("stale-pending", in)
	}
	for _, in := range c08FailureHistories() {
		run("failure-at-each-call", in)
	}
	for n := 1; n <= 3; n++ {
		c08Exhaustive(n, func(in c08In) { run("exhaustive-small", in) })
	}
	if e.Tier == "thorough" {
		c08Exhaustive(4, func(in c08In) { run("exhaustive-small", in) })
		c08Exhaustive(5, func(in c08In) { run("exhaustive-small", in) })
	}
	thorough := e.Tier == "thorough"
	for _, in := range c08BacklogHistories(thorough) {
		run("restart-with-backlog", in)
	}
	for _, in := range c08ErrorTextHistories() {
		run("error-text", in)
	}
	for i, in := range c08ErrorTextHistories() {
		if i%5 == 2 || thorough {
			run("wire-error-text", c08OnWire(in))
		}
	}
	for _, in := range c08DrainHistories() {
		run("drain-then-stale", in)
	}
	for i, in := range c08DrainHistories() {
		if i%3 == 0 || thorough {
			run("wire-drain-then-stale", c08OnWire(in))
		}
	}
	// the production assembly: New over WrapEthClient(ethclient) over JSON-RPC/HTTP
	for _, in := range c08BacklogHistories(false) {
		if in.Start-in.Ops[0].CV >= 1000 || thorough {
			run("wire-restart-with-backlog", c08OnWire(in))
		}
	}
	for i, in := range c08StaleHistories() {
		if i%6 == 0 || thorough {
			run("wire-stale-pending", c08OnWire(in))
		}
	}
	for i, in := range c08FailureHistories() {
		if i%8 == 0 || thorough {
			run("wire-failure-at-each-call", c08OnWire(in))
		}
	}
	for i := 0; i < 40+e.N/10; i++ {
		run("wire-restart-heavy", c08WireHistory(e.rng))
	}
	for i := 0; i < e.N; i++ {
		run("random-history", c08RandHistory(e.rng))
	}
	for i := 0; i < e.N/2; i++ {
		run("window-boundary", c08WindowHistory(e.rng))
	}
}
