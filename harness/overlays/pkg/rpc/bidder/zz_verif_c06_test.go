package bidderapi_test

// C06 driver (6/8): the bidder node end to end above the transport -- the real bidder API service
// (SendBid: validation, forwarding, the loop mapping every surfaced commitment to the API message,
// which reads resp.Bid.*) on top of the real preconfirmation.SendBid and the real preconfsigner,
// with providers that answer hostile PreConfirmation frames (no embedded bid, signatures of every
// length, unparsable amounts, undecodable bytes, failing streams). A panic of VerifyPreConfirmation
// inside SendBid's goroutines is caught by a recording wrapper around the signer (and reported as
// the case's observation); the mapping loop runs in the driver's goroutine under recover().

import (
	"bytes"
	"context"
	"crypto/ecdsa"
	"encoding/json"
	"errors"
	"fmt"
	"io"
	"log/slog"
	"math"
	"math/big"
	"math/rand"
	"strings"
	"sync"
	"testing"
	"time"

	"github.com/bufbuild/protovalidate-go"
	"github.com/ethereum/go-ethereum/common"
	"github.com/ethereum/go-ethereum/crypto"
	bidderapiv1 "github.com/primevprotocol/mev-commit/gen/go/bidderapi/v1"
	preconfpb "github.com/primevprotocol/mev-commit/gen/go/preconfirmation/v1"
	providerapiv1 "github.com/primevprotocol/mev-commit/gen/go/providerapi/v1"
	mockkeysigner "github.com/primevprotocol/mev-commit/pkg/keysigner/mock"
	"github.com/primevprotocol/mev-commit/pkg/p2p"
	"github.com/primevprotocol/mev-commit/pkg/preconfirmation"
	bidderapi "github.com/primevprotocol/mev-commit/pkg/rpc/bidder"
	"github.com/primevprotocol/mev-commit/pkg/signer/preconfsigner"
	"github.com/primevprotocol/mev-commit/pkg/topology"
	"google.golang.org/grpc"
	"google.golang.org/protobuf/encoding/protowire"
	"google.golang.org/protobuf/proto"
)

const c06Pkg = "bidderapi"

type c06S struct {
	S string `json:"s"`
	N int    `json:"n,omitempty"`
}

func (s c06S) v() string {
	if s.N > 1 {
		return strings.Repeat(s.S, s.N)
	}
	return s.S
}

type c06B struct {
	Nil bool   `json:"nil,omitempty"`
	B   []byte `json:"b,omitempty"`
	N   int    `json:"n,omitempty"`
}

func (b c06B) v() []byte {
	if b.Nil {
		return nil
	}
	if b.N > 1 {
		return bytes.Repeat(b.B, b.N)
	}
	if b.B == nil {
		return []byte{}
	}
	return b.B
}

type c06Bid struct {
	Tx, Amt    c06S
	BN, DS, DE int64
	Dig, Sig   c06B
}

func (b *c06Bid) pb() *preconfpb.Bid {
	return &preconfpb.Bid{TxHash: b.Tx.v(), BidAmount: b.Amt.v(), BlockNumber: b.BN, DecayStartTimestamp: b.DS,
		DecayEndTimestamp: b.DE, Digest: b.Dig.v(), Signature: b.Sig.v()}
}

// wire form written field by field (proto.Marshal would refuse strings that are not UTF-8; a peer can
// still send them)
func (b *c06Bid) wire() []byte {
	var w []byte
	app := func(num protowire.Number, v []byte) {
		if len(v) > 0 {
			w = protowire.AppendBytes(protowire.AppendTag(w, num, protowire.BytesType), v)
		}
	}
	vi := func(num protowire.Number, v int64) {
		if v != 0 {
			w = protowire.AppendVarint(protowire.AppendTag(w, num, protowire.VarintType), uint64(v))
		}
	}
	app(1, []byte(b.Tx.v()))
	app(2, []byte(b.Amt.v()))
	vi(3, b.BN)
	app(4, b.Dig.v())
	app(5, b.Sig.v())
	vi(6, b.DS)
	vi(7, b.DE)
	return w
}

type c06Pre struct {
	Bid      *c06Bid
	Dig, Sig c06B
}

func (c *c06Pre) pb() *preconfpb.PreConfirmation {
	p := &preconfpb.PreConfirmation{Digest: c.Dig.v(), Signature: c.Sig.v()}
	if c.Bid != nil {
		p.Bid = c.Bid.pb()
	}
	return p
}

func (c *c06Pre) wire() []byte {
	var w []byte
	if c.Bid != nil {
		w = protowire.AppendBytes(protowire.AppendTag(w, 1, protowire.BytesType), c.Bid.wire())
	}
	if v := c.Dig.v(); len(v) > 0 {
		w = protowire.AppendBytes(protowire.AppendTag(w, 2, protowire.BytesType), v)
	}
	if v := c.Sig.v(); len(v) > 0 {
		w = protowire.AppendBytes(protowire.AppendTag(w, 3, protowire.BytesType), v)
	}
	return w
}


type c06Frame struct {
	NewErr   bool    `json:",omitempty"`
	WriteErr bool    `json:",omitempty"`
	Eof      bool    `json:",omitempty"`
	Raw      []byte  `json:",omitempty"`
	Pre      *c06Pre `json:",omitempty"`
}

func (f c06Frame) wire() []byte {
	if f.Pre != nil {
		return f.Pre.wire()
	}
	return f.Raw
}

type c06In struct {
	Pkg      string
	Entry    string // bidder-api-commitments
	Replies  []c06Frame
	SendFail int // index of the first srv.Send that fails (-1: none)
}

type c06Obs struct {
	Panic    bool
	Res      int
	Streamed int
	Note     string `json:",omitempty"`
}

// ---- summaries -------------------------------------------------------------------------------------------

func c06OptLen(b []byte) string { return coqOpt(b != nil, coqN(uint64(len(b)))) }

func c06AmtOK(s string) bool {
	a, ok := new(big.Int).SetString(s, 10)
	return ok && a.Sign() >= 0 && a.BitLen() <= 256
}

func c06SigOK(hash, sig []byte) bool {
	if len(sig) != 65 {
		return false
	}
	s := append([]byte{}, sig...)
	if s[64] >= 27 && s[64] <= 28 {
		s[64] -= 27
	}
	pub, err := crypto.SigToPub(hash, s)
	if err != nil {
		return false
	}
	return crypto.VerifySignature(crypto.FromECDSAPub(pub), hash, s[:64])
}

func c06HashBid(b *preconfpb.Bid) (h []byte) {
	defer func() {
		if r := recover(); r != nil {
			h = nil
		}
	}()
	h, err := preconfsigner.GetBidHash(b)
	if err != nil {
		return nil
	}
	return h
}

func c06HashPre(c *preconfpb.PreConfirmation) (h []byte) {
	defer func() {
		if r := recover(); r != nil {
			h = nil
		}
	}()
	h, err := preconfsigner.GetPreConfirmationHash(c)
	if err != nil {
		return nil
	}
	return h
}

func c06CoqBidIn(b *preconfpb.Bid) string {
	amtOK := c06AmtOK(b.BidAmount)
	var hashOK, sigOK bool
	if amtOK {
		if h := c06HashBid(b); h != nil && bytes.Equal(h, b.Digest) {
			hashOK = true
			sigOK = c06SigOK(h, b.Signature)
		}
	}
	return coqRecord("bi_dig", c06OptLen(b.Digest), "bi_sig", c06OptLen(b.Signature), "bi_amt_ok", coqBool(amtOK),
		"bi_hash_ok", coqBool(hashOK), "bi_sig_ok", coqBool(sigOK))
}

func c06CoqPreIn(c *preconfpb.PreConfirmation) string {
	bid := "None"
	var hashOK, sigOK bool
	if c.Bid != nil {
		bid = "(Some " + c06CoqBidIn(c.Bid) + ")"
		if c06AmtOK(c.Bid.BidAmount) {
			if h := c06HashPre(c); h != nil && bytes.Equal(h, c.Digest) {
				hashOK = true
				sigOK = c06SigOK(h, c.Signature)
			}
		}
	}
	return coqRecord("pi_bid", bid, "pi_dig", c06OptLen(c.Digest), "pi_sig", c06OptLen(c.Signature),
		"pi_hash_ok", coqBool(hashOK), "pi_sig_ok", coqBool(sigOK))
}


func c06CoqInput(in c06In) string {
	var rs []string
	for _, f := range in.Replies {
		if f.NewErr || f.WriteErr || f.Eof {
			rs = append(rs, "RpErr")
			continue
		}
		c := new(preconfpb.PreConfirmation)
		if proto.Unmarshal(f.wire(), c) != nil {
			rs = append(rs, "RpErr")
			continue
		}
		rs = append(rs, coqApp("RpFrame", c06CoqPreIn(c)))
	}
	return coqApp("EApiCommitments", coqList(rs))
}

// ---- fakes ---------------------------------------------------------------------------------------------------

var c06ErrScripted = errors.New("c06: scripted failure")

type c06Stream struct{ f c06Frame }

func (s *c06Stream) ReadMsg(ctx context.Context, m proto.Message) error {
	if s.f.Eof {
		return c06ErrScripted
	}
	return proto.Unmarshal(s.f.wire(), m)
}
func (s *c06Stream) WriteMsg(_ context.Context, m proto.Message) error {
	if s.f.WriteErr {
		return c06ErrScripted
	}
	_, err := proto.Marshal(m)
	return err
}
func (s *c06Stream) Reset() error { return nil }
func (s *c06Stream) Close() error { return nil }

type c06Topo struct{ peers []p2p.Peer }

func (t *c06Topo) GetPeers(topology.Query) []p2p.Peer { return t.peers }

type c06Streamer struct{ replies map[common.Address]c06Frame }

func (s *c06Streamer) NewStream(_ context.Context, p p2p.Peer, _ p2p.Header, _ p2p.StreamDesc) (p2p.Stream, error) {
	f := s.replies[p.EthAddress]
	if f.NewErr {
		return nil, c06ErrScripted
	}
	return &c06Stream{f: f}, nil
}

type c06Store bool

func (a c06Store) CheckBidderAllowance(context.Context, common.Address) bool { return bool(a) }

type c06Engine struct{}

func (p *c06Engine) ProcessBid(context.Context, *preconfpb.Bid) (chan providerapiv1.BidResponse_Status, error) {
	return nil, c06ErrScripted
}

// the real signer; a panic of VerifyPreConfirmation (it runs in a goroutine of SendBid that the
// driver cannot recover) is recorded and turned into an error
type c06Signer struct {
	preconfsigner.Signer
	mu     sync.Mutex
	panics []string
}

func (s *c06Signer) VerifyPreConfirmation(c *preconfpb.PreConfirmation) (a *common.Address, err error) {
	defer func() {
		if r := recover(); r != nil {
			s.mu.Lock()
			s.panics = append(s.panics, fmt.Sprint(r))
			s.mu.Unlock()
			a, err = nil, c06ErrScripted
		}
	}()
	return s.Signer.VerifyPreConfirmation(c)
}

type c06Registry struct{}

func (c06Registry) PrepayAllowance(context.Context, *big.Int) error { return nil }
func (c06Registry) GetAllowance(context.Context, common.Address) (*big.Int, error) {
	return big.NewInt(1), nil
}
func (c06Registry) GetMinAllowance(context.Context) (*big.Int, error)          { return big.NewInt(1), nil }
func (c06Registry) CheckBidderAllowance(context.Context, common.Address) bool { return true }

type c06Srv struct {
	grpc.ServerStream
	ctx      context.Context
	n        int
	failAt   int
	streamed int
}

func (s *c06Srv) Context() context.Context { return s.ctx }
func (s *c06Srv) Send(c *bidderapiv1.Commitment) error {
	k := s.n
	s.n++
	if k == s.failAt {
		return c06ErrScripted
	}
	if _, err := proto.Marshal(c); err != nil {
		return err
	}
	s.streamed++
	return nil
}

func c06Key(seed byte) *ecdsa.PrivateKey {
	k, err := crypto.ToECDSA(bytes.Repeat([]byte{seed}, 32))
	if err != nil {
		panic(err)
	}
	return k
}

var c06ProviderKey = c06Key(0x51)
var c06BidderKey = c06Key(0x52)

func c06Logger() *slog.Logger { return slog.New(slog.NewTextHandler(io.Discard, nil)) }

const c06TxHex = "b7e1f9d2c3a45b6c7d8e9fa0b1c2d3e4f5a6b7c8d9e0f1a2b3c4d5e6f7a8b9c0"

var c06Validator *protovalidate.Validator

func c06Run(in c06In) (obs c06Obs) {
	sg := &c06Signer{Signer: preconfsigner.NewSigner(mockkeysigner.NewMockKeySigner(c06BidderKey, crypto.PubkeyToAddress(c06BidderKey.PublicKey)))}
	topo := &c06Topo{}
	st := &c06Streamer{replies: map[common.Address]c06Frame{}}
	for i, f := range in.Replies {
		a := common.BigToAddress(big.NewInt(int64(0x1000 + i)))
		topo.peers = append(topo.peers, p2p.Peer{EthAddress: a, Type: p2p.PeerTypeProvider})
		st.replies[a] = f
	}
	sender := preconfirmation.New(topo, st, sg, c06Store(true), &c06Engine{}, nil, c06Logger())
	svc := bidderapi.NewService(sender, common.HexToAddress("0x01"), c06Registry{}, c06Validator, c06Logger())
	ctx, cancel := context.WithTimeout(context.Background(), 20*time.Second)
	defer cancel()
	srv := &c06Srv{ctx: ctx, failAt: in.SendFail}
	func() {
		defer func() {
			if r := recover(); r != nil {
				obs = c06Obs{Panic: true, Note: fmt.Sprint(r)}
			}
		}()
		err := svc.SendBid(&bidderapiv1.Bid{TxHashes: []string{c06TxHex}, Amount: "1000", BlockNumber: 10,
			DecayStartTimestamp: 1700000000000, DecayEndTimestamp: 1700000001000}, srv)
		if err != nil {
			obs.Res = 1
			obs.Note = err.Error()
			if len(obs.Note) > 100 {
				obs.Note = obs.Note[:100]
			}
		}
	}()
	obs.Streamed = srv.streamed
	sg.mu.Lock()
	if len(sg.panics) > 0 {
		obs = c06Obs{Panic: true, Note: "VerifyPreConfirmation: " + sg.panics[0], Streamed: srv.streamed}
	}
	sg.mu.Unlock()
	return
}

func c06RandBytes(r *rand.Rand, n int) []byte {
	b := make([]byte, n)
	r.Read(b)
	return b
}

var c06Amounts = []c06S{{S: "1"}, {S: "0"}, {S: "1000000000000000000"}, {S: "007"}, {S: ""}, {S: "abc"}, {S: "-1"}, {S: "+5"},
	{S: "1e9"}, {S: "0x10"}, {S: " 1"}, {S: "١٢"}, {S: "1_000"}, {S: "\xff\xfe"},
	{S: "115792089237316195423570985008687907853269984665640564039457584007913129639935"},
	{S: "115792089237316195423570985008687907853269984665640564039457584007913129639936"},
	{S: "18446744073709551616"}, {S: "9", N: 5000}, {S: "x", N: 1 << 20}}

var c06Txs = []c06S{{S: "0xb7e1f9d2c3a45b6c7d8e9fa0b1c2d3e4f5a6b7c8d9e0f1a2b3c4d5e6f7a8b9c0"}, {S: ""}, {S: "a,b,,c"},
	{S: "\xff\xfe\x00"}, {S: "tx", N: 1 << 19}, {S: ","}}

var c06Ints = []int64{0, 1, -1, 2, math.MaxInt64, math.MinInt64, 1 << 32, -(1 << 40), 1700000000000}

func c06PickS(r *rand.Rand, l []c06S, honest int) c06S {
	if r.Intn(100) < honest {
		return l[0]
	}
	return l[r.Intn(len(l))]
}

func c06Sign(k *ecdsa.PrivateKey, h []byte) []byte {
	if len(h) != 32 {
		return nil
	}
	sig, err := crypto.Sign(h, k)
	if err != nil {
		return nil
	}
	sig[64] += 27
	return sig
}

func c06HostileBytes(r *rand.Rand, good []byte, want int) c06B {
	if good == nil {
		good = c06RandBytes(r, want)
	}
	switch r.Intn(11) {
	case 0:
		return c06B{Nil: true}
	case 1, 2: // every length 0..70
		n := r.Intn(71)
		b := append([]byte{}, good...)
		if n <= len(b) {
			return c06B{B: b[:n]}
		}
		return c06B{B: append(b, c06RandBytes(r, n-len(b))...)}
	case 3:
		return c06B{B: c06RandBytes(r, want)}
	case 4:
		return c06B{B: make([]byte, want)}
	case 5:
		return c06B{B: bytes.Repeat([]byte{0xff}, want)}
	case 6:
		return c06B{B: []byte{0xab}, N: []int{1000, 65536, 1 << 20}[r.Intn(3)]}
	case 7:
		b := append([]byte{}, good...)
		b[r.Intn(len(b))] ^= byte(1 << uint(r.Intn(8)))
		return c06B{B: b}
	case 8:
		b := append([]byte{}, good...)
		b[len(b)-1] = []byte{0, 1, 2, 3, 4, 26, 27, 28, 29, 30, 31, 255}[r.Intn(12)]
		return c06B{B: b}
	case 9:
		return c06B{B: good[:len(good)-1]}
	}
	return c06B{B: append(append([]byte{}, good...), byte(r.Intn(256)))}
}

func c06GenBid(r *rand.Rand, k *ecdsa.PrivateKey, hostility int) *c06Bid {
	b := &c06Bid{Tx: c06PickS(r, c06Txs, 100-hostility/2), Amt: c06PickS(r, c06Amounts, 100-hostility),
		BN: 10, DS: 1700000000000, DE: 1700000001000}
	if r.Intn(100) < hostility {
		b.BN, b.DS, b.DE = c06Ints[r.Intn(len(c06Ints))], c06Ints[r.Intn(len(c06Ints))], c06Ints[r.Intn(len(c06Ints))]
	}
	c06SignBid(b, k)
	h, sig := b.Dig.v(), b.Sig.v()
	if r.Intn(100) < hostility/2 {
		b.Dig = c06HostileBytes(r, h, 32)
	}
	if r.Intn(100) < hostility {
		b.Sig = c06HostileBytes(r, sig, 65)
	}
	return b
}

func c06SignBid(b *c06Bid, k *ecdsa.PrivateKey) {
	b.Dig, b.Sig = c06B{Nil: true}, c06B{Nil: true}
	h := c06HashBid(b.pb())
	sig := c06Sign(k, h)
	b.Dig = c06B{B: h, Nil: h == nil}
	b.Sig = c06B{B: sig, Nil: sig == nil}
}

func c06SignPre(c *c06Pre) {
	c.Dig, c.Sig = c06B{Nil: true}, c06B{Nil: true}
	h := c06HashPre(c.pb())
	sig := c06Sign(c06ProviderKey, h)
	c.Dig = c06B{B: h, Nil: h == nil}
	c.Sig = c06B{B: sig, Nil: sig == nil}
}

// c06GenPre: a hostile commitment around [sent] (the bid SendBid will have written) or around a bid
// of the generator's own.
func c06GenPre(r *rand.Rand, sent *c06Bid, hostility int) *c06Pre {
	c := &c06Pre{}
	switch x := r.Intn(100); {
	case x < 15:
	case x < 60:
		cp := *sent
		c.Bid = &cp
	default:
		c.Bid = c06GenBid(r, c06BidderKey, hostility)
	}
	c06SignPre(c)
	h, sig := c.Dig.v(), c.Sig.v()
	if c.Bid == nil {
		c.Dig = c06B{B: c06RandBytes(r, 32)}
		c.Sig = c06B{B: c06RandBytes(r, 65)}
	}
	if r.Intn(100) < hostility/2 {
		c.Dig = c06HostileBytes(r, h, 32)
	}
	if r.Intn(100) < hostility {
		c.Sig = c06HostileBytes(r, sig, 65)
	}
	return c
}

func c06ResizeSig(r *rand.Rand, sig []byte, n int) c06B {
	if n == 0 {
		return c06B{Nil: true}
	}
	if n <= len(sig) {
		return c06B{B: append([]byte{}, sig[:n]...)}
	}
	return c06B{B: append(append([]byte{}, sig...), c06RandBytes(r, n-len(sig))...)}
}


func TestVerifC06(t *testing.T) {
	e := vfOpen(t, 200)
	defer e.Close()
	var err error
	if c06Validator, err = protovalidate.New(); err != nil {
		t.Fatal(err)
	}
	run := func(class string, in c06In) c06Obs {
		obs := c06Run(in)
		inp := c06CoqInput(in)
		o := "OPanic"
		if !obs.Panic {
			o = coqApp("ONoPanic", coqN(uint64(obs.Res)))
		}
		e.Emit(class, in, obs, func(id int) string { return coqRecord("id", coqN(uint64(id)), "inp", inp, "obs", o) })
		return obs
	}
	for _, raw := range e.Replay {
		var in c06In
		if err := json.Unmarshal(raw, &in); err != nil || in.Pkg != c06Pkg {
			continue
		}
		run("replay", in)
	}
	if e.OnlyReplay() {
		return
	}
	r := e.rng
	sb := func(replies ...c06Frame) c06In {
		return c06In{Pkg: c06Pkg, Entry: "bidder-api-commitments", Replies: replies, SendFail: -1}
	}
	sent := &c06Bid{Tx: c06S{S: c06TxHex}, Amt: c06S{S: "1000"}, BN: 10, DS: 1700000000000, DE: 1700000001000}
	c06SignBid(sent, c06BidderKey)
	honest := func() *c06Pre { cp := *sent; c := &c06Pre{Bid: &cp}; c06SignPre(c); return c }
	// control: the honest reply is surfaced and mapped (also validates the driver's own call)
	if obs := run("honest-reply", sb(c06Frame{Pre: honest()}, c06Frame{Pre: honest()})); obs.Panic || obs.Res != 0 || obs.Streamed != 2 {
		t.Fatalf("c06: honest control not streamed: %+v", obs)
	}
	in := sb(c06Frame{Pre: honest()}, c06Frame{Pre: honest()}, c06Frame{Pre: honest()})
	in.SendFail = 1
	run("client-stream-fails", in)
	run("failing-streams", sb(c06Frame{NewErr: true}, c06Frame{WriteErr: true}, c06Frame{Eof: true}, c06Frame{Pre: honest()}))
	for m := 0; m < 4; m++ {
		c := &c06Pre{Dig: c06B{Nil: true}, Sig: c06B{Nil: true}}
		if m&1 != 0 {
			c.Dig = c06B{B: c06RandBytes(r, 32)}
		}
		if m&2 != 0 {
			c.Sig = c06B{B: c06RandBytes(r, 65)}
		}
		run("reply-nil-bid", sb(c06Frame{Pre: c}, c06Frame{Pre: honest()}))
	}
	for n := 0; n <= 70; n++ {
		c := honest()
		c.Sig = c06ResizeSig(r, c.Sig.v(), n)
		c2 := honest()
		c2.Bid.Sig = c06ResizeSig(r, c2.Bid.Sig.v(), n)
		c06SignPre(c2)
		run("sweep-reply-siglen", sb(c06Frame{Pre: c}, c06Frame{Pre: c2}))
	}
	for i := 0; i < e.N; i++ {
		k := 1 + r.Intn(4)
		fs := make([]c06Frame, k)
		for j := range fs {
			c := c06GenPre(r, sent, 60)
			fs[j] = c06Frame{Pre: c}
			switch r.Intn(10) {
			case 0:
				fs[j] = c06Frame{Raw: c06RandBytes(r, r.Intn(100))}
			case 1:
				w := c.wire()
				fs[j] = c06Frame{Raw: w[:r.Intn(len(w)+1)]}
			case 2:
				fs[j] = c06Frame{Eof: true}
			}
		}
		in := sb(fs...)
		if r.Intn(6) == 0 {
			in.SendFail = r.Intn(2)
		}
		run("hostile-replies", in)
	}
}
