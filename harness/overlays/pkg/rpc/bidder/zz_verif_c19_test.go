package bidderapi_test

// Correspondence driver for property C19 (see /verif/DESIGN.md section 7, C19).
// Real bidderapi.Service + real protovalidate validator (constructed as node.NewNode does:
// protovalidate.New() without options), a recording PreconfSender and a fake server stream;
// plus the validator alone on the provider-side messages and a dump of the buf.validate rule
// texts from the compiled descriptors (all of model/Rules.v is validated here).

import (
	"context"
	"encoding/hex"
	"encoding/json"
	"errors"
	"io"
	"log/slog"
	"math"
	"math/rand"
	"net"
	"sort"
	"strconv"
	"strings"
	"sync"
	"testing"
	"time"
	"unicode/utf8"

	"buf.build/gen/go/bufbuild/protovalidate/protocolbuffers/go/buf/validate"
	"github.com/bufbuild/protovalidate-go"
	"github.com/ethereum/go-ethereum/common"
	bidderapiv1 "github.com/primevprotocol/mev-commit/gen/go/bidderapi/v1"
	preconfpb "github.com/primevprotocol/mev-commit/gen/go/preconfirmation/v1"
	providerapiv1 "github.com/primevprotocol/mev-commit/gen/go/providerapi/v1"
	bidderapi "github.com/primevprotocol/mev-commit/pkg/rpc/bidder"
	"google.golang.org/grpc"
	"google.golang.org/grpc/codes"
	"google.golang.org/grpc/credentials/insecure"
	"google.golang.org/grpc/status"
	"google.golang.org/grpc/test/bufconn"
	"google.golang.org/protobuf/proto"
	"google.golang.org/protobuf/reflect/protoreflect"
)

// ---- inputs (JSON; strings are kept as byte slices so that invalid UTF-8 replays exactly) ----

type c19Req struct {
	Nil    bool
	Hashes [][]byte
	Amount []byte
	BN     int64
	DS     int64
	DE     int64
}

type c19PBid struct {
	Tx     []byte
	Amount []byte
	BN     int64
	DS     int64
	DE     int64
	Digest []byte
	Sig    []byte
}

type c19Pre struct {
	Nil    bool
	Bid    *c19PBid
	Digest []byte
	Sig    []byte
	Prov   []byte
}

type c19ProvBid struct {
	Hashes [][]byte
	Amount []byte
	BN     int64
	Digest []byte
	DS     int64
	DE     int64
}

type c19In struct {
	Kind      string // send | grpc | ruletext | provbid | provresp | amount
	Req       *c19Req     `json:",omitempty"`
	SenderErr bool        `json:",omitempty"`
	Pre       []c19Pre    `json:",omitempty"`
	FailAt    int         // -1: the stream never fails
	PB        *c19ProvBid `json:",omitempty"`
	Digest    []byte      `json:",omitempty"`
	Status    int32       `json:",omitempty"`
	Msg       string      `json:",omitempty"`
	Amount    []byte      `json:",omitempty"`
}

// ---- observations -----------------------------------------------------------------------------

type c19Call struct {
	Tx     []byte
	Amount []byte
	BN     int64
	DS     int64
	DE     int64
}

type c19Commit struct {
	Txs       [][]byte
	Amount    []byte
	BN        int64
	BidDigest []byte
	BidSig    []byte
	Digest    []byte
	Sig       []byte
	Prov      []byte
	DS        int64
	DE        int64
}

type c19Obs struct {
	Verdict  int // 0 nil, 1 validation error, 2 runtime error, 3 other
	Res      int // 0 nil, 1 InvalidArgument, 2 Internal, 3 the stream's own error, 4 panic, 5 other
	Calls    []c19Call
	Streamed []c19Commit
	Fields   [][2]string `json:",omitempty"`
	Note     string      `json:",omitempty"`
}

// ---- fakes ---------------------------------------------------------------------------------------

var errC19Stream = errors.New("c19: stream send failure")

type c19Stream struct {
	grpc.ServerStream
	ctx    context.Context
	failAt int
	sent   []*bidderapiv1.Commitment
}

func (s *c19Stream) Context() context.Context { return s.ctx }
func (s *c19Stream) Send(c *bidderapiv1.Commitment) error {
	s.sent = append(s.sent, proto.Clone(c).(*bidderapiv1.Commitment))
	if s.failAt >= 0 && len(s.sent)-1 == s.failAt {
		return errC19Stream
	}
	return nil
}

type c19Sender struct {
	mu    sync.Mutex
	calls []c19Call
	fail  bool
	pre   []*preconfpb.PreConfirmation
}

func (s *c19Sender) SendBid(_ context.Context, tx string, amount string, bn, ds, de int64) (chan *preconfpb.PreConfirmation, error) {
	s.mu.Lock()
	defer s.mu.Unlock()
	s.calls = append(s.calls, c19Call{[]byte(tx), []byte(amount), bn, ds, de})
	if s.fail {
		return nil, errors.New("c19: sender failure")
	}
	ch := make(chan *preconfpb.PreConfirmation, len(s.pre))
	for _, p := range s.pre {
		ch <- p
	}
	close(ch)
	return ch, nil
}

func (s *c19Sender) set(fail bool, pre []*preconfpb.PreConfirmation) {
	s.mu.Lock()
	defer s.mu.Unlock()
	s.calls, s.fail, s.pre = nil, fail, pre
}

func (s *c19Sender) taken() []c19Call {
	s.mu.Lock()
	defer s.mu.Unlock()
	return append([]c19Call{}, s.calls...)
}

// ---- conversions -------------------------------------------------------------------------------

func c19Strs(bs [][]byte) []string {
	if bs == nil {
		return nil
	}
	out := make([]string, len(bs))
	for i, b := range bs {
		out[i] = string(b)
	}
	return out
}

func c19Bid(r *c19Req) *bidderapiv1.Bid {
	if r == nil || r.Nil {
		return nil
	}
	return &bidderapiv1.Bid{TxHashes: c19Strs(r.Hashes), Amount: string(r.Amount), BlockNumber: r.BN,
		DecayStartTimestamp: r.DS, DecayEndTimestamp: r.DE}
}

func c19Preconfs(ps []c19Pre) []*preconfpb.PreConfirmation {
	out := make([]*preconfpb.PreConfirmation, len(ps))
	for i, p := range ps {
		if p.Nil {
			continue
		}
		pc := &preconfpb.PreConfirmation{Digest: p.Digest, Signature: p.Sig, ProviderAddress: p.Prov}
		if p.Bid != nil {
			pc.Bid = &preconfpb.Bid{TxHash: string(p.Bid.Tx), BidAmount: string(p.Bid.Amount), BlockNumber: p.Bid.BN,
				DecayStartTimestamp: p.Bid.DS, DecayEndTimestamp: p.Bid.DE, Digest: p.Bid.Digest, Signature: p.Bid.Sig}
		}
		out[i] = pc
	}
	return out
}

func c19Commits(cs []*bidderapiv1.Commitment) []c19Commit {
	out := []c19Commit{}
	for _, c := range cs {
		txs := [][]byte{}
		for _, t := range c.TxHashes {
			txs = append(txs, []byte(t))
		}
		out = append(out, c19Commit{txs, []byte(c.BidAmount), c.BlockNumber, []byte(c.ReceivedBidDigest),
			[]byte(c.ReceivedBidSignature), []byte(c.CommitmentDigest), []byte(c.CommitmentSignature),
			[]byte(c.ProviderAddress), c.DecayStartTimestamp, c.DecayEndTimestamp})
	}
	return out
}

func c19Verdict(err error) int {
	if err == nil {
		return 0
	}
	switch err.(type) {
	case *protovalidate.ValidationError:
		return 1
	case *protovalidate.RuntimeError:
		return 2
	}
	return 3
}

func c19ResCode(err error) int {
	if err == nil || err == io.EOF {
		return 0
	}
	if errors.Is(err, errC19Stream) {
		return 3
	}
	switch status.Code(err) {
	case codes.InvalidArgument:
		return 1
	case codes.Internal:
		return 2
	}
	return 5
}

// ---- Coq printers ----------------------------------------------------------------------------------

func c19CoqBytesList(bs [][]byte) string {
	items := make([]string, len(bs))
	for i, b := range bs {
		items[i] = coqBytes(b)
	}
	return coqList(items)
}

func c19CoqReq(r *c19Req) string {
	if r == nil || r.Nil {
		return "None"
	}
	return coqOpt(true, coqRecord("r_txs", c19CoqBytesList(r.Hashes), "r_amount", coqBytes(r.Amount),
		"r_bn", coqZ(r.BN), "r_ds", coqZ(r.DS), "r_de", coqZ(r.DE)))
}

func c19CoqAns(fail bool, ps []c19Pre) string {
	if fail {
		return "SenderFails"
	}
	items := make([]string, len(ps))
	for i, p := range ps {
		if p.Nil {
			items[i] = "None"
			continue
		}
		bid := "None"
		if p.Bid != nil {
			bid = coqOpt(true, coqRecord("pb_tx", coqBytes(p.Bid.Tx), "pb_amount", coqBytes(p.Bid.Amount),
				"pb_bn", coqZ(p.Bid.BN), "pb_ds", coqZ(p.Bid.DS), "pb_de", coqZ(p.Bid.DE),
				"pb_digest", coqBytes(p.Bid.Digest), "pb_sig", coqBytes(p.Bid.Sig)))
		}
		items[i] = coqOpt(true, coqRecord("pc_bid", bid, "pc_digest", coqBytes(p.Digest), "pc_sig", coqBytes(p.Sig),
			"pc_prov", coqBytes(p.Prov)))
	}
	return coqApp("SenderReturns", coqList(items))
}

func c19CoqCalls(cs []c19Call) string {
	items := make([]string, len(cs))
	for i, c := range cs {
		items[i] = coqRecord("f_txs", coqBytes(c.Tx), "f_amount", coqBytes(c.Amount), "f_bn", coqZ(c.BN),
			"f_ds", coqZ(c.DS), "f_de", coqZ(c.DE))
	}
	return coqList(items)
}

func c19CoqCommits(cs []c19Commit) string {
	items := make([]string, len(cs))
	for i, c := range cs {
		items[i] = coqRecord("cm_txs", c19CoqBytesList(c.Txs), "cm_amount", coqBytes(c.Amount), "cm_bn", coqZ(c.BN),
			"cm_bid_digest", coqBytes(c.BidDigest), "cm_bid_sig", coqBytes(c.BidSig), "cm_digest", coqBytes(c.Digest),
			"cm_sig", coqBytes(c.Sig), "cm_prov", coqBytes(c.Prov), "cm_ds", coqZ(c.DS), "cm_de", coqZ(c.DE))
	}
	return coqList(items)
}

// ---- rule texts from the compiled descriptors ---------------------------------------------------------

func c19RenderValue(fd protoreflect.FieldDescriptor, v protoreflect.Value) string {
	switch fd.Kind() {
	case protoreflect.BoolKind:
		return strconv.FormatBool(v.Bool())
	case protoreflect.StringKind:
		return v.String()
	case protoreflect.BytesKind:
		return hex.EncodeToString(v.Bytes())
	case protoreflect.EnumKind:
		return strconv.FormatInt(int64(v.Enum()), 10)
	case protoreflect.MessageKind, protoreflect.GroupKind:
		return "{" + c19RenderMsg(v.Message(), ",") + "}"
	case protoreflect.Uint32Kind, protoreflect.Uint64Kind, protoreflect.Fixed32Kind, protoreflect.Fixed64Kind:
		return strconv.FormatUint(v.Uint(), 10)
	case protoreflect.FloatKind, protoreflect.DoubleKind:
		return strconv.FormatFloat(v.Float(), 'g', -1, 64)
	default:
		return strconv.FormatInt(v.Int(), 10)
	}
}

// populated fields in field-number order; a cel Constraint's human-readable "message" is projected away
func c19RenderMsg(m protoreflect.Message, sep string) string {
	type fv struct {
		fd protoreflect.FieldDescriptor
		v  protoreflect.Value
	}
	var fs []fv
	m.Range(func(fd protoreflect.FieldDescriptor, v protoreflect.Value) bool {
		fs = append(fs, fv{fd, v})
		return true
	})
	sort.Slice(fs, func(i, j int) bool { return fs[i].fd.Number() < fs[j].fd.Number() })
	var parts []string
	for _, f := range fs {
		name := string(f.fd.Name())
		if m.Descriptor().FullName() == "buf.validate.Constraint" && name == "message" {
			continue
		}
		switch {
		case f.fd.IsList():
			l := f.v.List()
			if f.fd.Kind() == protoreflect.MessageKind {
				for i := 0; i < l.Len(); i++ {
					parts = append(parts, name+c19RenderValue(f.fd, l.Get(i)))
				}
			} else {
				items := make([]string, l.Len())
				for i := range items {
					items[i] = c19RenderValue(f.fd, l.Get(i))
				}
				parts = append(parts, name+"=["+strings.Join(items, ",")+"]")
			}
		case f.fd.IsMap():
			parts = append(parts, name+"=<map>")
		case f.fd.Kind() == protoreflect.MessageKind:
			parts = append(parts, name+c19RenderValue(f.fd, f.v))
		default:
			parts = append(parts, name+"="+c19RenderValue(f.fd, f.v))
		}
	}
	if len(m.GetUnknown()) > 0 {
		parts = append(parts, "unknown="+hex.EncodeToString(m.GetUnknown()))
	}
	return strings.Join(parts, sep)
}

func c19FieldRule(fd protoreflect.FieldDescriptor) string {
	opts := fd.Options()
	if opts == nil {
		return ""
	}
	om := opts.ProtoReflect()
	if !om.IsValid() {
		return ""
	}
	text := ""
	if proto.HasExtension(opts, validate.E_Field) {
		fc, ok := proto.GetExtension(opts, validate.E_Field).(*validate.FieldConstraints)
		if !ok || fc == nil {
			return "unreadable"
		}
		text = c19RenderMsg(fc.ProtoReflect(), ";")
	}
	// an option the linked validate package could not parse would hide a rule: make it visible
	// (field 1159 = buf.validate.field; unknown bytes of other extensions are ignored)
	if unk := om.GetUnknown(); len(unk) > 0 && strings.Contains(hex.EncodeToString(unk), "ba48") {
		text += ";unparsed-validate-option"
	}
	return text
}

func c19MessageRules(md protoreflect.MessageDescriptor) [][2]string {
	out := [][2]string{}
	fds := md.Fields()
	for i := 0; i < fds.Len(); i++ {
		out = append(out, [2]string{string(fds.Get(i).Name()), c19FieldRule(fds.Get(i))})
	}
	// message-level constraints and oneof constraints would be extra rules: report them as pseudo fields
	if o := md.Options(); o != nil && o.ProtoReflect().IsValid() && proto.HasExtension(o, validate.E_Message) {
		if mc, ok := proto.GetExtension(o, validate.E_Message).(*validate.MessageConstraints); ok && mc != nil {
			if t := c19RenderMsg(mc.ProtoReflect(), ";"); t != "" {
				out = append(out, [2]string{"<message>", t})
			}
		}
	}
	return out
}

var c19Messages = map[string]proto.Message{
	"bidderapi.v1.Bid":            &bidderapiv1.Bid{},
	"bidderapi.v1.PrepayRequest":  &bidderapiv1.PrepayRequest{},
	"providerapi.v1.Bid":          &providerapiv1.Bid{},
	"providerapi.v1.BidResponse":  &providerapiv1.BidResponse{},
	"providerapi.v1.StakeRequest": &providerapiv1.StakeRequest{},
}

// ---- generators -----------------------------------------------------------------------------------------

const c19HexLower = "0123456789abcdef"
const c19HexUpper = "0123456789ABCDEF"
const c19HexMixed = "0123456789abcdefABCDEF"

func c19Rand(r *rand.Rand, alphabet string, n int) []byte {
	b := make([]byte, n)
	for i := range b {
		b[i] = alphabet[r.Intn(len(alphabet))]
	}
	return b
}

func c19ValidHash(r *rand.Rand) []byte {
	switch r.Intn(4) {
	case 0:
		return c19Rand(r, c19HexUpper, 64)
	case 1:
		return c19Rand(r, c19HexMixed, 64)
	}
	return c19Rand(r, c19HexLower, 64)
}

// characters adjacent to the three ranges of [a-fA-F0-9] and other usual suspects
var c19BadChars = []byte{'/', ':', '@', 'G', '`', 'g', ' ', '\n', '\t', ',', 'x', 'X', 0x00, 0x7f, 0x80, 0xff, '-', '+', '.'}

const c19HashClasses = 16

func c19HashClass(r *rand.Rand, class int) []byte {
	switch class {
	case 0:
		return c19Rand(r, c19HexLower, 63)
	case 1:
		return c19Rand(r, c19HexMixed, 65)
	case 2:
		return []byte{}
	case 3: // one character just outside the class, at a random position
		h := c19ValidHash(r)
		h[r.Intn(64)] = c19BadChars[r.Intn(len(c19BadChars))]
		return h
	case 4:
		return append([]byte("0x"), c19Rand(r, c19HexLower, 62)...)
	case 5:
		return append([]byte("0x"), c19Rand(r, c19HexLower, 64)...)
	case 6:
		return append(c19ValidHash(r), '\n')
	case 7:
		return append([]byte{'\n'}, c19Rand(r, c19HexLower, 63)...)
	case 8: // 64 bytes, 63 runes
		return append(c19Rand(r, c19HexLower, 62), "é"...)
	case 9: // 65 bytes, 64 runes
		return append(c19Rand(r, c19HexLower, 63), "é"...)
	case 10: // two hashes in one element
		return append(append(c19ValidHash(r), ','), c19ValidHash(r)...)
	case 11:
		return c19Rand(r, c19HexMixed, r.Intn(131))
	case 12: // 64 fullwidth digits
		return []byte(strings.Repeat("０", 64))
	case 13: // 64 Arabic-Indic digits
		return []byte(strings.Repeat("٣", 64))
	case 14:
		return c19Rand(r, c19HexLower, 128)
	default: // random bytes of length 64
		b := make([]byte, 64)
		r.Read(b)
		return b
	}
}

var c19Amounts = []string{"0", "00", "0000000000000000000", "1", "9", "10", "007", "0000000000000000000000001",
	"9223372036854775807", "9223372036854775808", "18446744073709551614", "18446744073709551615",
	"18446744073709551616", "18446744073709551617", "018446744073709551615", "018446744073709551616",
	"99999999999999999999", "100000000000000000000", "340282366920938463463374607431768211456",
	"115792089237316195423570985008687907853269984665640564039457584007913129639941",
	"+5", "-1", "-0", "+0", "", " ", "1 ", " 1", "1\n", "\n1", "1\r\n", "1\t", "1 2", "٣", "١٢٣", "１", "1e3", "1E3", "0x1", "0X1F",
	"1_0", "1,0", "1.0", "1.", ".1", "abc", "1a", "a1", "\xff", "1\xff", "1\x00", "\x001", "0b1", "0o7", "١", "12345678901234567890"}

func c19Amount(r *rand.Rand) []byte {
	switch r.Intn(6) {
	case 0:
		return []byte(c19Amounts[r.Intn(len(c19Amounts))])
	case 1: // random digit run around the 20-digit boundary
		return c19Rand(r, "0123456789", 18+r.Intn(5))
	case 2: // 2^64 + k for small k (both signs)
		k := int64(r.Intn(7) - 3)
		if k < 0 {
			return []byte(strconv.FormatUint(math.MaxUint64-uint64(-k)+1, 10))
		}
		return []byte("1844674407370955161" + strconv.FormatInt(6+k, 10))
	case 3: // leading zeros
		return append(c19Rand(r, "0", 1+r.Intn(30)), c19Rand(r, "0123456789", r.Intn(21))...)
	case 4:
		return c19Rand(r, "0123456789+- \n_.eExX", 1+r.Intn(6))
	}
	return c19Rand(r, "0123456789", 1+r.Intn(19))
}

func c19ValidAmount(r *rand.Rand) []byte {
	switch r.Intn(4) {
	case 0:
		return []byte(strconv.FormatUint(r.Uint64()|1, 10))
	case 1:
		return []byte("18446744073709551615")
	case 2:
		return append(c19Rand(r, "0", r.Intn(4)), strconv.FormatUint(uint64(1+r.Intn(1000)), 10)...)
	}
	return []byte(strconv.FormatUint(uint64(1+r.Int63n(1e18)), 10))
}

var c19Ints = []int64{0, 1, -1, 2, -2, math.MaxInt64, math.MinInt64, math.MaxInt64 - 1, math.MinInt64 + 1,
	math.MaxInt32, math.MinInt32, 1 << 32, -(1 << 32), 123456}

func c19Int(r *rand.Rand) int64 {
	switch r.Intn(4) {
	case 0:
		return c19Ints[r.Intn(len(c19Ints))]
	case 1:
		return int64(r.Uint64())
	case 2:
		return int64(r.Intn(5)) - 2
	}
	return 1 + r.Int63()
}

func c19ValidInt(r *rand.Rand) int64 {
	switch r.Intn(4) {
	case 0:
		return 1
	case 1:
		return math.MaxInt64
	}
	return 1 + r.Int63n(math.MaxInt64)
}

func c19ValidReq(r *rand.Rand) *c19Req {
	n := 1
	switch r.Intn(10) {
	case 0, 1:
		n = 2
	case 2, 3:
		n = 1 + r.Intn(5)
	case 4:
		n = 1 + r.Intn(12)
	case 5:
		if r.Intn(4) == 0 {
			n = 20 + r.Intn(40) // many hashes
		}
	}
	hs := make([][]byte, n)
	for i := range hs {
		hs[i] = c19ValidHash(r)
	}
	return &c19Req{Hashes: hs, Amount: c19ValidAmount(r), BN: c19ValidInt(r), DS: c19ValidInt(r), DE: c19ValidInt(r)}
}

// valid requests whose hash list repeats entries: the property hands over "exactly the request's
// values with the hashes joined in order", repeats included
const c19DupModes = 7

func c19DupReq(r *rand.Rand, mode int) *c19Req {
	req := c19ValidReq(r)
	a, b, c := c19ValidHash(r), c19ValidHash(r), c19ValidHash(r)
	cp := func(h []byte) []byte { return append([]byte{}, h...) }
	switch mode {
	case 0: // adjacent repeat
		req.Hashes = [][]byte{cp(a), cp(a)}
	case 1: // non-adjacent repeat
		req.Hashes = [][]byte{cp(a), cp(b), cp(a)}
	case 2: // all equal, 2..40 entries
		n := 2 + r.Intn(39)
		req.Hashes = make([][]byte, n)
		for i := range req.Hashes {
			req.Hashes[i] = cp(a)
		}
	case 3: // case variants are different strings; one true repeat among them
		lo, up := []byte(strings.ToLower(string(a))), []byte(strings.ToUpper(string(a)))
		mixed := cp(lo)
		for i := range mixed {
			if i%2 == 0 {
				mixed[i] = up[i]
			}
		}
		req.Hashes = [][]byte{lo, up, mixed, cp(lo)}
		r.Shuffle(len(req.Hashes), func(i, j int) { req.Hashes[i], req.Hashes[j] = req.Hashes[j], req.Hashes[i] })
	case 4: // 2..40 entries drawn from a pool of 1..3 hashes
		pool := [][]byte{a, b, c}[:1+r.Intn(3)]
		n := 2 + r.Intn(39)
		req.Hashes = make([][]byte, n)
		for i := range req.Hashes {
			req.Hashes[i] = cp(pool[r.Intn(len(pool))])
		}
		req.Hashes[n-1] = cp(req.Hashes[0])
	case 5: // a longer list of distinct hashes whose first entry comes back at the end
		req.Hashes = append(req.Hashes, cp(b), cp(c), cp(req.Hashes[0]))
	default: // runs: a a b b b c a
		req.Hashes = [][]byte{cp(a), cp(a), cp(b), cp(b), cp(b), cp(c), cp(a)}
	}
	return req
}

func c19BadHashes(r *rand.Rand, hs [][]byte) [][]byte {
	switch r.Intn(5) {
	case 0:
		return [][]byte{}
	case 1:
		return nil
	}
	out := append([][]byte{}, hs...)
	out[r.Intn(len(out))] = c19HashClass(r, r.Intn(c19HashClasses))
	return out
}

func c19Bytes(r *rand.Rand) []byte {
	var n int
	switch r.Intn(8) {
	case 0:
		return nil
	case 1:
		n = 0
	case 2:
		n = 20
	case 3:
		n = 32
	case 4:
		n = 65
	case 5:
		n = 1
	default:
		n = r.Intn(71)
	}
	b := make([]byte, n)
	r.Read(b)
	return b
}

func c19Answer(r *rand.Rand, req *c19Req) (fail bool, pre []c19Pre, failAt int) {
	failAt = -1
	if r.Intn(10) == 0 {
		return true, nil, -1
	}
	k := r.Intn(4)
	many := r.Intn(25) == 0
	if many {
		k = 5 + r.Intn(20)
	}
	joined := []byte{}
	if req != nil && !req.Nil {
		joined = []byte(strings.Join(c19Strs(req.Hashes), ","))
	}
	for i := 0; i < k; i++ {
		if r.Intn(40) == 0 {
			pre = append(pre, c19Pre{Nil: true})
			continue
		}
		p := c19Pre{Digest: c19Bytes(r), Sig: c19Bytes(r), Prov: c19Bytes(r)}
		if r.Intn(25) != 0 {
			b := &c19PBid{BN: c19Int(r), DS: c19Int(r), DE: c19Int(r), Digest: c19Bytes(r), Sig: c19Bytes(r)}
			pick := r.Intn(6)
			if many && pick < 2 {
				pick = 3 // keep long streams small
			}
			switch pick {
			case 0, 1:
				b.Tx = joined
			case 2:
				b.Tx = []byte([]string{"", ",", ",,", "a,", ",a", "a,,b", "a", "0x12,0x34", "é,\xff"}[r.Intn(9)])
			case 3:
				b.Tx = c19Rand(r, "ab,01", r.Intn(12))
			case 4:
				b.Tx = []byte(string(c19ValidHash(r)) + "," + string(c19ValidHash(r)) + "," + string(c19ValidHash(r)))
			default:
				b.Tx = c19ValidHash(r)
			}
			if r.Intn(2) == 0 && req != nil && !req.Nil {
				b.Amount, b.BN, b.DS, b.DE = req.Amount, req.BN, req.DS, req.DE
			} else {
				b.Amount = c19Amount(r)
			}
			p.Bid = b
		}
		pre = append(pre, p)
	}
	if r.Intn(5) == 0 {
		failAt = r.Intn(k + 1)
	}
	return false, pre, failAt
}

// an answer of n >= 2 complete commitments whose embedded bids differ pairwise in every field
// (and whose own digest/signature/address differ too); valid UTF-8, so expressible over gRPC
func c19DistinctAnswer(r *rand.Rand, n int) []c19Pre {
	pre := make([]c19Pre, n)
	nz := func(k int) []byte { // non-empty, different for different k
		b := make([]byte, 1+r.Intn(40))
		r.Read(b)
		return append([]byte{byte(k)}, b...)
	}
	for i := range pre {
		hs := make([]string, 1+i%3)
		for j := range hs {
			hs[j] = string(c19ValidHash(r))
		}
		pre[i] = c19Pre{Digest: nz(i), Sig: nz(i), Prov: nz(i), Bid: &c19PBid{
			Tx: []byte(strings.Join(hs, ",")), Amount: []byte(strconv.Itoa(1000 + 7*i + r.Intn(5))),
			BN: int64(10 + i), DS: int64(1000 + 3*i), DE: int64(5000 - 11*i), Digest: nz(i), Sig: nz(i)}}
	}
	return pre
}

func c19ValidUTF8(in c19In) bool {
	if in.Req == nil || in.Req.Nil || !utf8.Valid(in.Req.Amount) {
		return false
	}
	for _, h := range in.Req.Hashes {
		if !utf8.Valid(h) {
			return false
		}
	}
	for _, p := range in.Pre {
		if p.Nil || p.Bid == nil || !utf8.Valid(p.Bid.Tx) || !utf8.Valid(p.Bid.Amount) {
			return false
		}
	}
	return true
}

// ---- the driver ----------------------------------------------------------------------------------------------

func TestVerifC19(t *testing.T) {
	e := vfOpen(t, 500)
	defer e.Close()

	validator, err := protovalidate.New()
	if err != nil {
		t.Fatalf("validator: %v", err)
	}
	logger := slog.New(slog.NewTextHandler(io.Discard, nil))
	sender := &c19Sender{}
	svc := bidderapi.NewService(sender, common.Address{}, nil, validator, logger)

	// the same service behind a real gRPC server (bufconn), for the "grpc" class
	lis := bufconn.Listen(1 << 20)
	server := grpc.NewServer()
	bidderapiv1.RegisterBidderServer(server, svc)
	go func() { _ = server.Serve(lis) }()
	conn, err := grpc.DialContext(context.Background(), "bufnet",
		grpc.WithContextDialer(func(context.Context, string) (net.Conn, error) { return lis.Dial() }),
		grpc.WithTransportCredentials(insecure.NewCredentials()))
	if err != nil {
		t.Fatalf("dial: %v", err)
	}
	client := bidderapiv1.NewBidderClient(conn)
	defer func() {
		conn.Close()
		server.Stop()
		lis.Close()
	}()

	runSend := func(in c19In) c19Obs {
		bid := c19Bid(in.Req)
		obs := c19Obs{Calls: []c19Call{}, Streamed: []c19Commit{}}
		obs.Verdict = c19Verdict(validator.Validate(bid))
		sender.set(in.SenderErr, c19Preconfs(in.Pre))
		if in.Kind == "grpc" {
			ctx, cancel := context.WithTimeout(context.Background(), 20*time.Second)
			defer cancel()
			stream, err := client.SendBid(ctx, bid)
			var got []*bidderapiv1.Commitment
			for err == nil {
				var c *bidderapiv1.Commitment
				c, err = stream.Recv()
				if err == nil {
					got = append(got, c)
				}
			}
			obs.Res = c19ResCode(err)
			if obs.Res == 5 {
				obs.Note = err.Error()
			}
			obs.Calls = sender.taken()
			obs.Streamed = c19Commits(got)
			return obs
		}
		st := &c19Stream{ctx: context.Background(), failAt: in.FailAt}
		func() {
			defer func() {
				if r := recover(); r != nil {
					obs.Res = 4
				}
			}()
			err := svc.SendBid(bid, st)
			obs.Res = c19ResCode(err)
			if obs.Res == 5 {
				obs.Note = err.Error()
			}
		}()
		obs.Calls = sender.taken()
		obs.Streamed = c19Commits(st.sent)
		return obs
	}

	run := func(class string, in c19In) {
		switch in.Kind {
		case "send", "grpc":
			if in.Kind == "grpc" && (in.FailAt >= 0 || !c19ValidUTF8(in)) {
				in.Kind = "send" // not expressible on the wire; keep the case on the direct path
			}
			obs := runSend(in)
			e.Emit(class, in, obs, func(id int) string {
				return coqRecord("id", coqN(uint64(id)), "body", coqApp("PSend", c19CoqReq(in.Req),
					c19CoqAns(in.SenderErr, in.Pre), coqOpt(in.FailAt >= 0, coqNat(in.FailAt)),
					coqN(uint64(obs.Verdict)), coqN(uint64(obs.Res)), c19CoqCalls(obs.Calls), c19CoqCommits(obs.Streamed)))
			})
		case "ruletext":
			obs := c19Obs{}
			if m, ok := c19Messages[in.Msg]; ok {
				obs.Fields = c19MessageRules(m.ProtoReflect().Descriptor())
			}
			items := make([]string, len(obs.Fields))
			for i, f := range obs.Fields {
				items[i] = coqPair(coqStr(f[0]), coqStr(f[1]))
			}
			e.Emit(class, in, obs, func(id int) string {
				return coqRecord("id", coqN(uint64(id)), "body", coqApp("PRuleText", coqStr(in.Msg), coqList(items)))
			})
		case "provbid":
			p := in.PB
			obs := c19Obs{Verdict: c19Verdict(validator.Validate(&providerapiv1.Bid{TxHashes: c19Strs(p.Hashes),
				BidAmount: string(p.Amount), BlockNumber: p.BN, BidDigest: p.Digest, DecayStartTimestamp: p.DS,
				DecayEndTimestamp: p.DE}))}
			e.Emit(class, in, obs, func(id int) string {
				return coqRecord("id", coqN(uint64(id)), "body", coqApp("PProvBid", c19CoqBytesList(p.Hashes),
					coqBytes(p.Amount), coqZ(p.BN), coqBytes(p.Digest), coqZ(p.DS), coqZ(p.DE), coqN(uint64(obs.Verdict))))
			})
		case "provresp":
			obs := c19Obs{Verdict: c19Verdict(validator.Validate(&providerapiv1.BidResponse{BidDigest: in.Digest,
				Status: providerapiv1.BidResponse_Status(in.Status)}))}
			e.Emit(class, in, obs, func(id int) string {
				return coqRecord("id", coqN(uint64(id)), "body", coqApp("PProvResp", coqBytes(in.Digest),
					coqZ(int64(in.Status)), coqN(uint64(obs.Verdict))))
			})
		case "amount":
			var m proto.Message
			if in.Msg == "bidderapi.v1.PrepayRequest" {
				m = &bidderapiv1.PrepayRequest{Amount: string(in.Amount)}
			} else {
				m = &providerapiv1.StakeRequest{Amount: string(in.Amount)}
			}
			obs := c19Obs{Verdict: c19Verdict(validator.Validate(m))}
			e.Emit(class, in, obs, func(id int) string {
				return coqRecord("id", coqN(uint64(id)), "body", coqApp("PAmount", coqStr(in.Msg), coqBytes(in.Amount),
					coqN(uint64(obs.Verdict))))
			})
		default:
			t.Fatalf("bad input kind %q", in.Kind)
		}
	}

	for _, raw := range e.Replay {
		in := c19In{FailAt: -1}
		if err := json.Unmarshal(raw, &in); err != nil {
			t.Fatalf("bad replay input: %v", err)
		}
		run("replay", in)
	}
	if e.OnlyReplay() {
		return
	}
	r := e.rng

	// 1. rule texts of the five published messages
	for _, m := range []string{"bidderapi.v1.Bid", "bidderapi.v1.PrepayRequest", "providerapi.v1.Bid",
		"providerapi.v1.BidResponse", "providerapi.v1.StakeRequest"} {
		run("rule-text", c19In{Kind: "ruletext", Msg: m, FailAt: -1})
	}

	send := func(class string, req *c19Req, kind string) {
		fail, pre, failAt := c19Answer(r, req)
		run(class, c19In{Kind: kind, Req: req, SenderErr: fail, Pre: pre, FailAt: failAt})
	}

	// 2. boundaries, one field at a time from a valid request (independent of N)
	for _, a := range c19Amounts {
		req := c19ValidReq(r)
		req.Amount = []byte(a)
		send("amount-boundary", req, "send")
		run("prepay-stake", c19In{Kind: "amount", Msg: "bidderapi.v1.PrepayRequest", Amount: []byte(a), FailAt: -1})
		run("prepay-stake", c19In{Kind: "amount", Msg: "providerapi.v1.StakeRequest", Amount: []byte(a), FailAt: -1})
	}
	for c := 0; c < c19HashClasses; c++ {
		for pos := 0; pos < 2; pos++ {
			req := c19ValidReq(r)
			if pos == 0 {
				req.Hashes = [][]byte{c19HashClass(r, c)}
			} else {
				req.Hashes = append(req.Hashes, c19HashClass(r, c))
			}
			send("hash-boundary", req, "send")
		}
	}
	for _, bc := range c19BadChars {
		for _, pos := range []int{0, 31, 63} {
			req := c19ValidReq(r)
			h := c19ValidHash(r)
			h[pos] = bc
			req.Hashes[len(req.Hashes)-1] = h
			send("hash-boundary", req, "send")
		}
	}
	send("hash-boundary", &c19Req{Hashes: [][]byte{}, Amount: []byte("1"), BN: 1, DS: 1, DE: 1}, "send")
	send("hash-boundary", &c19Req{Hashes: nil, Amount: []byte("1"), BN: 1, DS: 1, DE: 1}, "send")
	for _, z := range c19Ints {
		for f := 0; f < 3; f++ {
			req := c19ValidReq(r)
			switch f {
			case 0:
				req.BN = z
			case 1:
				req.DS = z
			default:
				req.DE = z
			}
			send("int-boundary", req, "send")
		}
	}
	send("nil-request", &c19Req{Nil: true}, "send")

	// 2a. repeated hashes inside one (valid) request, direct and through gRPC
	for m := 0; m < c19DupModes; m++ {
		for k := 0; k < 3; k++ {
			send("duplicates", c19DupReq(r, m), "send")
		}
		send("duplicates", c19DupReq(r, m), "grpc")
	}

	// 2c. one request answered by two or more commitments with pairwise different embedded bids: every
	// streamed message is compared field by field with the commitment received at the same index
	for n := 2; n <= 6; n++ {
		for _, kind := range []string{"send", "grpc"} {
			run("distinct-bids", c19In{Kind: kind, Req: c19ValidReq(r), Pre: c19DistinctAnswer(r, n), FailAt: -1})
		}
	}
	run("distinct-bids", c19In{Kind: "send", Req: c19ValidReq(r), Pre: c19DistinctAnswer(r, 4), FailAt: 2})

	// 2b. bytes versus runes: multi-byte digits and invalid UTF-8 at the first and the last position of
	// a hash (once with 64 bytes in total, once with 64 runes in total) and of an amount
	for _, seq := range []string{"é", "٣", "３", "\U0001D7D1", "\xff", "\x80", "\xc3", "\xa9", "\xc0\xb1", "\xed\xa0\x80",
		"\xf4\x90\x80\x80", "\xe2\x82", "\xef\xbf\xbd"} {
		for _, total := range []int{64 - len(seq), 64 - utf8.RuneCountInString(seq)} {
			for _, first := range []bool{true, false} {
				req := c19ValidReq(r)
				pad := c19Rand(r, c19HexMixed, total)
				var h []byte
				if first {
					h = append([]byte(seq), pad...)
				} else {
					h = append(pad, seq...)
				}
				req.Hashes[len(req.Hashes)-1] = h
				send("utf8-boundary", req, "send")
			}
		}
		for _, a := range []string{seq, seq + "12", "12" + seq, "1" + seq + "2"} {
			req := c19ValidReq(r)
			req.Amount = []byte(a)
			send("utf8-boundary", req, "send")
			run("utf8-boundary", c19In{Kind: "amount", Msg: "bidderapi.v1.PrepayRequest", Amount: []byte(a), FailAt: -1})
		}
	}

	// 3. random streams
	for i := 0; i < e.N; i++ {
		switch i % 5 {
		case 0, 1: // valid requests with rich commitment contents (one in four repeats hashes)
			if r.Intn(8) == 0 {
				run("distinct-bids", c19In{Kind: []string{"send", "grpc"}[r.Intn(2)], Req: c19ValidReq(r),
					Pre: c19DistinctAnswer(r, 2+r.Intn(4)), FailAt: -1})
			} else if r.Intn(4) == 0 {
				send("duplicates", c19DupReq(r, r.Intn(c19DupModes)), "send")
			} else {
				send("valid", c19ValidReq(r), "send")
			}
		case 2: // one perturbed field
			req := c19ValidReq(r)
			switch r.Intn(5) {
			case 0:
				req.Hashes = c19BadHashes(r, req.Hashes)
			case 1:
				req.Amount = c19Amount(r)
			case 2:
				req.BN = c19Int(r)
			case 3:
				req.DS = c19Int(r)
			default:
				req.DE = c19Int(r)
			}
			send("one-field", req, "send")
		case 3: // every field drawn independently
			req := c19ValidReq(r)
			if r.Intn(3) == 0 {
				req.Hashes = c19BadHashes(r, req.Hashes)
			}
			if r.Intn(2) == 0 {
				req.Amount = c19Amount(r)
			}
			if r.Intn(2) == 0 {
				req.BN = c19Int(r)
			}
			if r.Intn(2) == 0 {
				req.DS = c19Int(r)
			}
			if r.Intn(2) == 0 {
				req.DE = c19Int(r)
			}
			send("all-fields", req, "send")
		default: // through a real gRPC server (falls back to the direct path when not expressible)
			req := c19ValidReq(r)
			if r.Intn(4) == 0 {
				req = c19DupReq(r, r.Intn(c19DupModes))
			} else if r.Intn(2) == 0 {
				switch r.Intn(3) {
				case 0:
					req.Hashes = c19BadHashes(r, req.Hashes)
				case 1:
					req.Amount = c19Amount(r)
				default:
					req.DS = c19Int(r)
				}
			}
			send("grpc", req, "grpc")
		}
	}

	// 4. the validator alone on provider-side messages
	for i := 0; i < e.N/3+20; i++ {
		v := c19ValidReq(r)
		p := &c19ProvBid{Hashes: v.Hashes, Amount: v.Amount, BN: v.BN, Digest: c19Rand(r, "\x00\x01\xfe\xff", 1+r.Intn(64)), DS: v.DS, DE: v.DE}
		switch r.Intn(8) {
		case 0:
			p.Hashes = c19BadHashes(r, p.Hashes)
		case 1:
			p.Amount = c19Amount(r)
		case 2:
			p.BN = c19Int(r)
		case 3:
			p.Digest = [][]byte{nil, {}, make([]byte, 1), make([]byte, 63), make([]byte, 64), make([]byte, 65), make([]byte, 200)}[r.Intn(7)]
		case 4:
			p.DS = c19Int(r)
		case 5:
			p.DE = c19Int(r)
		case 6:
			p.BN, p.DS, p.Amount = c19Int(r), c19Int(r), c19Amount(r)
		}
		run("provider-bid", c19In{Kind: "provbid", PB: p, FailAt: -1})
	}
	// exhaustive: every byte value at one position of an otherwise valid hash (the character class)
	for c := 0; c < 256; c++ {
		h := c19Rand(r, c19HexLower, 64)
		h[(c*7)%64] = byte(c)
		run("hash-char-exhaustive", c19In{Kind: "provbid", FailAt: -1,
			PB: &c19ProvBid{Hashes: [][]byte{h}, Amount: []byte("1"), BN: 1, Digest: []byte{1}, DS: 1, DE: 1}})
	}
	// exhaustive: every amount string of length <= 2 over a small alphabet
	{
		alpha := "019+- a"
		run("amount-exhaustive", c19In{Kind: "amount", Msg: "bidderapi.v1.PrepayRequest", Amount: []byte{}, FailAt: -1})
		for i := 0; i < len(alpha); i++ {
			run("amount-exhaustive", c19In{Kind: "amount", Msg: "bidderapi.v1.PrepayRequest", Amount: []byte{alpha[i]}, FailAt: -1})
			for j := 0; j < len(alpha); j++ {
				run("amount-exhaustive", c19In{Kind: "amount", Msg: "providerapi.v1.StakeRequest", Amount: []byte{alpha[i], alpha[j]}, FailAt: -1})
			}
		}
	}
	for _, s := range []int32{0, 1, 2, 3, -1, 4, math.MaxInt32, math.MinInt32} {
		for _, d := range [][]byte{nil, {}, {1}, make([]byte, 32), make([]byte, 65)} {
			run("provider-response", c19In{Kind: "provresp", Digest: d, Status: s, FailAt: -1})
		}
	}
	for i := 0; i < e.N/10; i++ {
		msg := []string{"bidderapi.v1.PrepayRequest", "providerapi.v1.StakeRequest"}[r.Intn(2)]
		run("prepay-stake", c19In{Kind: "amount", Msg: msg, Amount: c19Amount(r), FailAt: -1})
	}
}
