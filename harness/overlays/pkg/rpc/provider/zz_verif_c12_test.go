package providerapi

// Driver of property C12: the real providerapi.Service (ProcessBid / ReceiveBids /
// SendProcessedBids) with the real protovalidate validator, driven through a gated schedule with
// fake gRPC streams. In-package, to read len(bidsInProcess) at quiescence.

import (
	"context"
	"encoding/json"
	"errors"
	"fmt"
	"io"
	"log/slog"
	"math/rand"
	"strings"
	"sync"
	"sync/atomic"
	"testing"
	"time"

	"github.com/bufbuild/protovalidate-go"
	"github.com/ethereum/go-ethereum/common"
	preconfpb "github.com/primevprotocol/mev-commit/gen/go/preconfirmation/v1"
	providerapiv1 "github.com/primevprotocol/mev-commit/gen/go/providerapi/v1"
	"google.golang.org/grpc"
)

type c12Bid struct {
	TxHash string
	Amount string
	BN     int64
	DS     int64
	DE     int64
	Digest []byte
}

// Kind: submit (H, Bid) | take | abandon (H) | decision (Sid, Digest, Status) | recverr (Sid) |
//
//	decision2 (Sid, Status, Sid2, Status2, Digest): two streams name the same digest; the first is parked
//	between its lookup and its callback (at the service's log call) while the second does its lookup
type c12Op struct {
	Kind   string
	H      int     `json:",omitempty"`
	Bid    *c12Bid `json:",omitempty"`
	Sid    int     `json:",omitempty"`
	Digest []byte  `json:",omitempty"`
	Status int32   `json:",omitempty"`
	Sid2    int    `json:",omitempty"`
	Status2 int32  `json:",omitempty"`
}

type c12In struct{ Ops []c12Op }

type c12CallObs struct {
	H      int
	Res    int // 0 refused, 1 context error, 2 channel returned, 3 still blocked, 9 driver could not synchronise
	Vals   []int32
	Closed bool
}
type c12Emit struct {
	H   int
	Bid c12EBid
}
type c12EBid struct {
	Txs    []string
	Amount string
	BN     int64
	Digest []byte
	DS     int64
	DE     int64
}
type c12StreamObs struct {
	Sid   int
	State int // 0 serving, 1 own error, 2 injected recv error, 3 panic
}
type c12Obs struct {
	Calls   []c12CallObs
	Emitted []c12Emit
	Streams []c12StreamObs
	Pending int
	Taken   []int // per "take" op: the call that was served, -1 none
	Gated   []bool // per "decision2" op: the first stream was parked between lookup and callback
}

// gate between the lookup and the callback of SendProcessedBids: the service logs exactly there; a
// handler that parks the logging goroutine on that record realises the schedule
// Lookup(s1); Lookup(s2); Callback(s1); Callback(s2) without any hook in the code under test
const c12GateMsg = "received bid status from node"

type c12Gate struct {
	armed   atomic.Bool
	arrived chan chan struct{}
}
type c12GateHandler struct{ g *c12Gate }

func (h c12GateHandler) Enabled(context.Context, slog.Level) bool { return true }
func (h c12GateHandler) Handle(_ context.Context, r slog.Record) error {
	if r.Message == c12GateMsg && h.g.armed.Load() {
		rel := make(chan struct{})
		h.g.arrived <- rel
		<-rel
	}
	return nil
}
func (h c12GateHandler) WithAttrs([]slog.Attr) slog.Handler { return h }
func (h c12GateHandler) WithGroup(string) slog.Handler      { return h }

// context whose first Done() call (the select inside ProcessBid, after the registration) is
// signalled to the driver: positive synchronisation without sleeping
type c12Ctx struct {
	context.Context
	once    sync.Once
	reached chan struct{}
}

func (c *c12Ctx) Done() <-chan struct{} {
	c.once.Do(func() { close(c.reached) })
	return c.Context.Done()
}

type c12Ret struct {
	h   int
	ch  chan providerapiv1.BidResponse_Status
	err error
}

type c12Call struct {
	h      int
	cancel context.CancelFunc
	state  int // driver's view: 3 offered, then res
	ch     chan providerapiv1.BidResponse_Status
}

// one-shot engine stream: records the bid and fails the Send so that ReceiveBids returns
type c12RecvStream struct {
	grpc.ServerStream
	ctx context.Context
	got chan *providerapiv1.Bid
}

func (s *c12RecvStream) Context() context.Context { return s.ctx }
func (s *c12RecvStream) Send(b *providerapiv1.Bid) error {
	s.got <- b
	return io.EOF
}

type c12Msg struct {
	resp *providerapiv1.BidResponse
	err  error
}

type c12DecStream struct {
	grpc.ServerStream
	idle chan struct{}
	in   chan c12Msg
	ret  chan int
	dead bool
}

var errC12Injected = errors.New("verif: injected recv error")

func (s *c12DecStream) Context() context.Context { return context.Background() }
func (s *c12DecStream) SendAndClose(*providerapiv1.EmptyMessage) error {
	return nil
}
func (s *c12DecStream) Recv() (*providerapiv1.BidResponse, error) {
	s.idle <- struct{}{}
	m := <-s.in
	return m.resp, m.err
}

var (
	c12ValidatorOnce sync.Once
	c12Validator     *protovalidate.Validator
)

func c12Run(t testing.TB, in c12In, slow int) c12Obs {
	c12ValidatorOnce.Do(func() {
		v, err := protovalidate.New()
		if err != nil {
			t.Fatalf("validator: %v", err)
		}
		c12Validator = v
	})
	gate := &c12Gate{arrived: make(chan chan struct{}, 8)}
	logger := slog.New(c12GateHandler{gate})
	svc := NewService(logger, nil, common.Address{}, nil, c12Validator)
	// wall-clock limit of one blocking step: a step that does not come back is observed as a hang
	// (stream state 9 / call result 9); nothing in the service can block legitimately for that long
	ws := slow
	if ws > 2 {
		ws = 2
	}
	wait := time.Duration(ws) * 3 * time.Second
	settle := time.Duration(slow) * 30 * time.Millisecond

	obs := c12Obs{Calls: []c12CallObs{}, Emitted: []c12Emit{}, Streams: []c12StreamObs{}, Taken: []int{}, Gated: []bool{}}
	calls := map[int]*c12Call{}
	submitted := map[int]*c12Bid{}
	emittedH := map[int]bool{}
	order := []int{}
	rets := make(chan c12Ret, 64)
	streams := map[int]*c12DecStream{}
	sorder := []int{}
	sstate := map[int]int{}

	waitRet := func() (c12Ret, bool) {
		select {
		case r := <-rets:
			return r, true
		case <-time.After(wait):
			return c12Ret{}, false
		}
	}
	settleRet := func(r c12Ret) {
		c := calls[r.h]
		switch {
		case r.err == nil && r.ch != nil:
			c.state, c.ch = 2, r.ch
		case errors.Is(r.err, context.Canceled) || errors.Is(r.err, context.DeadlineExceeded):
			c.state = 1
		default:
			c.state = 0
		}
	}
	getStream := func(sid int) *c12DecStream {
		if s, ok := streams[sid]; ok {
			return s
		}
		s := &c12DecStream{idle: make(chan struct{}, 1), in: make(chan c12Msg), ret: make(chan int, 1)}
		streams[sid] = s
		sorder = append(sorder, sid)
		sstate[sid] = 0
		go func() {
			defer func() {
				if r := recover(); r != nil {
					s.ret <- 3
				}
			}()
			err := svc.SendProcessedBids(s)
			if errors.Is(err, errC12Injected) {
				s.ret <- 2
			} else {
				s.ret <- 1
			}
		}()
		select {
		case <-s.idle:
		case st := <-s.ret:
			sstate[sid], s.dead = st, true
		case <-time.After(wait):
			sstate[sid], s.dead = 9, true
		}
		return s
	}
	feed := func(sid int, m c12Msg) {
		s := getStream(sid)
		if s.dead {
			return
		}
		select {
		case s.in <- m:
		case <-time.After(wait):
			sstate[sid], s.dead = 9, true
			return
		}
		select {
		case <-s.idle:
		case st := <-s.ret:
			sstate[sid], s.dead = st, true
		case <-time.After(wait):
			sstate[sid], s.dead = 9, true
		}
	}

	// feed one message; returns the release channel when the stream parked at the gate
	feedGated := func(sid int, m c12Msg) chan struct{} {
		s := getStream(sid)
		if s.dead {
			return nil
		}
		select {
		case s.in <- m:
		case <-time.After(wait):
			sstate[sid], s.dead = 9, true
			return nil
		}
		select {
		case rel := <-gate.arrived:
			return rel
		case <-s.idle:
		case st := <-s.ret:
			sstate[sid], s.dead = st, true
		case <-time.After(wait):
			sstate[sid], s.dead = 9, true
		}
		return nil
	}
	release := func(sid int, rel chan struct{}) {
		if rel == nil {
			return
		}
		s := streams[sid]
		close(rel)
		select {
		case <-s.idle:
		case st := <-s.ret:
			sstate[sid], s.dead = st, true
		case <-time.After(wait):
			sstate[sid], s.dead = 9, true
		}
	}

	for _, op := range in.Ops {
		switch op.Kind {
		case "decision2":
			if op.Sid == op.Sid2 {
				continue
			}
			gate.armed.Store(true)
			rel1 := feedGated(op.Sid, c12Msg{resp: &providerapiv1.BidResponse{BidDigest: op.Digest,
				Status: providerapiv1.BidResponse_Status(op.Status)}})
			rel2 := feedGated(op.Sid2, c12Msg{resp: &providerapiv1.BidResponse{BidDigest: op.Digest,
				Status: providerapiv1.BidResponse_Status(op.Status2)}})
			gate.armed.Store(false)
			obs.Gated = append(obs.Gated, rel1 != nil)
			release(op.Sid, rel1)
			release(op.Sid2, rel2)
		case "submit":
			if _, dup := calls[op.H]; dup || op.Bid == nil {
				continue
			}
			parent, cancel := context.WithCancel(context.Background())
			ctx := &c12Ctx{Context: parent, reached: make(chan struct{})}
			c := &c12Call{h: op.H, cancel: cancel, state: 3}
			calls[op.H] = c
			submitted[op.H] = op.Bid
			order = append(order, op.H)
			bid := &preconfpb.Bid{TxHash: op.Bid.TxHash, BidAmount: op.Bid.Amount, BlockNumber: op.Bid.BN,
				DecayStartTimestamp: op.Bid.DS, DecayEndTimestamp: op.Bid.DE, Digest: op.Bid.Digest}
			go func(h int) {
				ch, err := svc.ProcessBid(ctx, bid)
				rets <- c12Ret{h, ch, err}
			}(op.H)
			select {
			case <-ctx.reached:
			case r := <-rets:
				settleRet(r)
			case <-time.After(wait):
				c.state = 9
			}
		case "take":
			offered := false
			for _, c := range calls {
				if c.state == 3 {
					offered = true
				}
			}
			rctx, rcancel := context.WithCancel(context.Background())
			rs := &c12RecvStream{ctx: rctx, got: make(chan *providerapiv1.Bid, 4)}
			rdone := make(chan error, 1)
			go func() { rdone <- svc.ReceiveBids(&providerapiv1.EmptyMessage{}, rs) }()
			var got *providerapiv1.Bid
			if offered {
				select {
				case got = <-rs.got:
				case <-time.After(wait):
				}
			} else {
				select {
				case got = <-rs.got:
				case <-time.After(settle):
				}
			}
			rcancel()
			select {
			case <-rdone:
			case <-time.After(wait):
			}
			if got == nil {
				obs.Taken = append(obs.Taken, -1)
				continue
			}
			var r c12Ret
			if offered {
				var ok bool
				r, ok = waitRet()
				if !ok {
					obs.Taken = append(obs.Taken, -2)
					continue
				}
				settleRet(r)
			} else {
				// a bid although no call is offering one (left behind by an earlier call): identify it by content
				r.h = -2
				for _, h := range order {
					b := submitted[h]
					if b != nil && !emittedH[h] && b.Amount == got.BidAmount && b.BN == got.BlockNumber && b.DS == got.DecayStartTimestamp &&
						b.DE == got.DecayEndTimestamp && string(b.Digest) == string(got.BidDigest) && b.TxHash == strings.Join(got.TxHashes, ",") {
						r.h = h
						break
					}
				}
				if r.h < 0 {
					obs.Taken = append(obs.Taken, -2)
					continue
				}
			}
			emittedH[r.h] = true
			obs.Taken = append(obs.Taken, r.h)
			obs.Emitted = append(obs.Emitted, c12Emit{H: r.h, Bid: c12EBid{Txs: got.TxHashes, Amount: got.BidAmount,
				BN: got.BlockNumber, Digest: got.BidDigest, DS: got.DecayStartTimestamp, DE: got.DecayEndTimestamp}})
		case "abandon":
			c, ok := calls[op.H]
			if !ok {
				continue
			}
			c.cancel()
			if c.state == 3 {
				if r, ok := waitRet(); ok {
					settleRet(r)
				} else {
					c.state = 9
				}
			}
		case "decision":
			feed(op.Sid, c12Msg{resp: &providerapiv1.BidResponse{BidDigest: op.Digest,
				Status: providerapiv1.BidResponse_Status(op.Status)}})
		case "recverr":
			feed(op.Sid, c12Msg{err: errC12Injected})
		}
	}

	// quiescence: observe
	svc.bidsMu.Lock()
	obs.Pending = len(svc.bidsInProcess)
	svc.bidsMu.Unlock()
	for _, h := range order {
		c := calls[h]
		co := c12CallObs{H: h, Res: c.state, Vals: []int32{}}
		if c.state == 2 {
		drain:
			for i := 0; i < 4; i++ {
				select {
				case v, ok := <-c.ch:
					if !ok {
						co.Closed = true
						break drain
					}
					co.Vals = append(co.Vals, int32(v))
				default:
					break drain
				}
			}
		}
		obs.Calls = append(obs.Calls, co)
	}
	for _, sid := range sorder {
		obs.Streams = append(obs.Streams, c12StreamObs{Sid: sid, State: sstate[sid]})
	}
	// clean up goroutines
	for _, c := range calls {
		c.cancel()
	}
	for _, s := range streams {
		if !s.dead {
			select {
			case s.in <- c12Msg{err: errC12Injected}:
			case <-time.After(time.Second):
			}
		}
	}
	return obs
}

func c12CoqBid(b *c12Bid) string {
	return coqRecord("b_tx", coqStr(b.TxHash), "b_amt", coqStr(b.Amount), "b_bn", coqZ(b.BN), "b_ds", coqZ(b.DS),
		"b_de", coqZ(b.DE), "b_dig", coqBytes(b.Digest), "b_sig", "[]")
}

func c12Coq(id int, in c12In, obs c12Obs) string {
	ops := []string{}
	ti := 0
	gi := 0
	seen := map[int]bool{}
	for _, op := range in.Ops {
		switch op.Kind {
		case "submit":
			if seen[op.H] || op.Bid == nil {
				continue
			}
			seen[op.H] = true
			ops = append(ops, coqApp("OSubmit", coqN(uint64(op.H)), c12CoqBid(op.Bid)))
		case "take":
			h := -1
			if ti < len(obs.Taken) {
				h = obs.Taken[ti]
			}
			ti++
			if h >= 0 {
				ops = append(ops, coqApp("OTake", coqN(uint64(h))))
			} else if h == -1 {
				ops = append(ops, "OTakeNone")
			} else {
				ops = append(ops, coqApp("OTake", coqN(999999))) // driver lost synchronisation: shows as a mismatch
			}
		case "abandon":
			ops = append(ops, coqApp("OAbandon", coqN(uint64(op.H))))
		case "decision":
			ops = append(ops, coqApp("ODecision", coqN(uint64(op.Sid)), coqBytes(op.Digest), coqZ(int64(op.Status))))
		case "decision2":
			if op.Sid == op.Sid2 {
				continue
			}
			gated := gi < len(obs.Gated) && obs.Gated[gi]
			gi++
			if gated {
				ops = append(ops,
					coqApp("OLookup", coqN(uint64(op.Sid)), coqBytes(op.Digest), coqZ(int64(op.Status))),
					coqApp("OLookup", coqN(uint64(op.Sid2)), coqBytes(op.Digest), coqZ(int64(op.Status2))),
					coqApp("OCallback", coqN(uint64(op.Sid))), coqApp("OCallback", coqN(uint64(op.Sid2))))
			} else {
				ops = append(ops,
					coqApp("ODecision", coqN(uint64(op.Sid)), coqBytes(op.Digest), coqZ(int64(op.Status))),
					coqApp("ODecision", coqN(uint64(op.Sid2)), coqBytes(op.Digest), coqZ(int64(op.Status2))))
			}
		case "recverr":
			ops = append(ops, coqApp("ORecvErr", coqN(uint64(op.Sid))))
		}
	}
	callsT := []string{}
	for _, c := range obs.Calls {
		vs := []string{}
		for _, v := range c.Vals {
			vs = append(vs, coqZ(int64(v)))
		}
		callsT = append(callsT, coqRecord("co_h", coqN(uint64(c.H)), "co_res", coqN(uint64(c.Res)),
			"co_vals", coqList(vs), "co_closed", coqBool(c.Closed)))
	}
	emT := []string{}
	for _, e := range obs.Emitted {
		txs := []string{}
		for _, s := range e.Bid.Txs {
			txs = append(txs, coqStr(s))
		}
		emT = append(emT, coqPair(coqN(uint64(e.H)), coqRecord("e_txs", coqList(txs), "e_amt", coqStr(e.Bid.Amount),
			"e_bn", coqZ(e.Bid.BN), "e_dig", coqBytes(e.Bid.Digest), "e_ds", coqZ(e.Bid.DS), "e_de", coqZ(e.Bid.DE))))
	}
	stT := []string{}
	for _, s := range obs.Streams {
		stT = append(stT, coqRecord("so_sid", coqN(uint64(s.Sid)), "so_state", coqN(uint64(s.State))))
	}
	return coqRecord("id", coqN(uint64(id)), "ops", coqList(ops),
		"ob", coqRecord("o_calls", coqList(callsT), "o_emitted", coqList(emT), "o_streams", coqList(stT),
			"o_pending", coqN(uint64(obs.Pending))))
}

// ---- generators --------------------------------------------------------------------------------

const c12Hex = "0123456789abcdefABCDEF"

func c12Hash(r *rand.Rand) string {
	b := make([]byte, 64)
	for i := range b {
		b[i] = c12Hex[r.Intn(len(c12Hex))]
	}
	return string(b)
}

func c12Digest(r *rand.Rand) []byte {
	n := []int{1, 2, 32, 32, 32, 64}[r.Intn(6)]
	b := make([]byte, n)
	r.Read(b)
	return b
}

// bundle sizes: small ones mostly, and the sizes around 8 / 16 / 64 and a large one now and then (every
// forwarded hash is compared)
func c12BundleSize(r *rand.Rand) int {
	switch x := r.Intn(120); {
	case x < 70:
		return 1 + r.Intn(3)
	case x < 115:
		return []int{2, 8, 9, 10, 17}[r.Intn(5)]
	case x < 118:
		return 64
	default:
		return 200
	}
}

func c12GoodBid(r *rand.Rand, tag int, digest []byte) *c12Bid {
	n := c12BundleSize(r)
	hs := make([]string, n)
	for i := range hs {
		hs[i] = c12Hash(r)
	}
	amts := []string{"1", "7", "1000000000000000000", "1844674407370955161", "007", "922337203685477580"}
	return &c12Bid{TxHash: strings.Join(hs, ","), Amount: fmt.Sprintf("%s%d", amts[r.Intn(len(amts))], tag),
		BN: 1 + r.Int63n(1<<40), DS: 1 + r.Int63n(1<<41), DE: 1 + r.Int63n(1<<41), Digest: digest}
}

// one field perturbed across the boundaries of the published rules
func c12Perturb(r *rand.Rand, b *c12Bid) (string, *c12Bid) {
	c := *b
	switch r.Intn(14) {
	case 0:
		c.Amount = "0"
		return "amount-0", &c
	case 1:
		c.Amount = "18446744073709551616"
		return "amount-2^64", &c
	case 2:
		c.Amount = []string{"", "+5", "-1", "1 ", "12a", "1_0", "٣", "0x10", "1.0"}[r.Intn(9)]
		return "amount-nondigit", &c
	case 3:
		c.Amount = "000"
		return "amount-000", &c
	case 4:
		c.TxHash = c.TxHash[:63]
		return "hash-63", &c
	case 5:
		c.TxHash = c.TxHash + "a"
		return "hash-65", &c
	case 6:
		c.TxHash = "g" + c.TxHash[1:]
		return "hash-nonhex", &c
	case 7:
		c.TxHash = []string{"", ",", c.TxHash + ",", "," + c.TxHash, c.TxHash + "\n"}[r.Intn(5)]
		return "hash-list", &c
	case 8:
		c.BN = []int64{0, -1, -1 << 63}[r.Intn(3)]
		return "bn<=0", &c
	case 9:
		c.DS = []int64{0, -1, -1 << 63}[r.Intn(3)]
		return "ds<=0", &c
	case 10:
		c.DE = []int64{0, -1, -1 << 63}[r.Intn(3)]
		return "de<=0", &c
	case 11:
		c.Digest = []byte{}
		return "digest-0", &c
	case 12:
		c.Digest = make([]byte, 65)
		r.Read(c.Digest)
		return "digest-65", &c
	default:
		c.BN, c.DS, c.DE = 1<<63-1, 1<<63-1, 1<<63-1
		return "int64-max", &c
	}
}

func c12Status(r *rand.Rand) int32 {
	return []int32{1, 1, 1, 2, 2, 0, 3, -1, 1 << 30}[r.Intn(9)]
}

func c12Generate(r *rand.Rand, class string) c12In {
	dA, dB := c12Digest(r), c12Digest(r)
	unknown := c12Digest(r)
	sub := func(h int, b *c12Bid) c12Op { return c12Op{Kind: "submit", H: h, Bid: b} }
	dec := func(sid int, d []byte, st int32) c12Op { return c12Op{Kind: "decision", Sid: sid, Digest: d, Status: st} }
	take := c12Op{Kind: "take"}
	switch class {
	case "single":
		st := []int32{1, 2}[r.Intn(2)]
		return c12In{[]c12Op{sub(1, c12GoodBid(r, 1, dA)), take, dec(0, dA, st)}}
	case "invalid-bid":
		_, b := c12Perturb(r, c12GoodBid(r, 1, dA))
		return c12In{[]c12Op{sub(1, b), take, dec(0, b.Digest, 1), sub(2, c12GoodBid(r, 2, dB)), take, dec(0, dB, 1)}}
	case "decisions":
		ops := []c12Op{sub(1, c12GoodBid(r, 1, dA)), sub(2, c12GoodBid(r, 2, dB)), take, take}
		n := 2 + r.Intn(6)
		for i := 0; i < n; i++ {
			d := [][]byte{dA, dA, dB, unknown, {}}[r.Intn(5)]
			ops = append(ops, dec(r.Intn(2), d, c12Status(r)))
			if r.Intn(10) == 0 {
				ops = append(ops, c12Op{Kind: "recverr", Sid: r.Intn(2)})
			}
		}
		return c12In{ops}
	case "equal-digests":
		ops := []c12Op{sub(1, c12GoodBid(r, 1, dA)), sub(2, c12GoodBid(r, 2, dA))}
		if r.Intn(2) == 0 {
			ops = append(ops, sub(3, c12GoodBid(r, 3, dA)))
		}
		n := 3 + r.Intn(6)
		for i := 0; i < n; i++ {
			switch r.Intn(4) {
			case 0:
				ops = append(ops, take)
			case 1:
				ops = append(ops, c12Op{Kind: "abandon", H: 1 + r.Intn(3)})
			default:
				ops = append(ops, dec(r.Intn(2), dA, []int32{1, 2}[r.Intn(2)]))
			}
		}
		return c12In{ops}
	case "resubmit":
		// the same digest is submitted again while the first call, already taken by the engine, still holds its
		// context; then one of the contexts ends; the decision goes to the call whose entry is the current one
		ops := []c12Op{sub(1, c12GoodBid(r, 1, dA)), take, sub(2, c12GoodBid(r, 2, dA)), take}
		if r.Intn(3) == 0 {
			ops = append(ops, sub(3, c12GoodBid(r, 3, dA)), take)
		}
		switch r.Intn(4) {
		case 0:
			ops = append(ops, c12Op{Kind: "abandon", H: 1}, dec(0, dA, 1))
		case 1:
			ops = append(ops, c12Op{Kind: "abandon", H: 1}, c12Op{Kind: "abandon", H: 2}, dec(0, dA, 2))
		case 2:
			ops = append(ops, dec(0, dA, 1), c12Op{Kind: "abandon", H: 1}, dec(1, dA, 2))
		default:
			ops = append(ops, c12Op{Kind: "abandon", H: 2}, dec(0, dA, []int32{1, 2}[r.Intn(2)]), dec(0, dA, 1))
		}
		return c12In{ops}
	case "no-engine":
		// hand-off abandoned while no engine is attached, then an engine attaches: nothing of the abandoned
		// call may reach it, no entry may stay behind, decisions for it are ignored
		ops := []c12Op{sub(1, c12GoodBid(r, 1, dA)), sub(2, c12GoodBid(r, 2, dB)), c12Op{Kind: "abandon", H: 1}}
		if r.Intn(2) == 0 {
			ops = append(ops, c12Op{Kind: "abandon", H: 2})
		}
		ops = append(ops, take, take, dec(0, dA, 1), dec(0, dB, []int32{1, 2}[r.Intn(2)]))
		if r.Intn(2) == 0 {
			ops = append(ops, sub(3, c12GoodBid(r, 3, dA)), take, dec(1, dA, 2))
		}
		return c12In{ops}
	case "digest-variants":
		// decisions whose digest is a zero-padded / prefixed / truncated / extended spelling of a pending digest
		// are decisions for another digest: ignored; digests of 1..64 bytes including short ones
		n := []int{1, 2, 3, 20, 31, 32, 32, 32}[r.Intn(8)]
		d := make([]byte, n)
		r.Read(d)
		if r.Intn(3) == 0 {
			d[0] = 0
		}
		vars := [][]byte{}
		if n < 32 {
			vars = append(vars, append(make([]byte, 32-n), d...), append([]byte{0}, d...))
		}
		if n <= 32 {
			x := make([]byte, 1+r.Intn(32))
			r.Read(x)
			if len(x)+n <= 64 {
				vars = append(vars, append(x, d...))
			}
			vars = append(vars, append(append([]byte{}, d...), 0))
		}
		if n > 1 {
			vars = append(vars, d[1:], d[:n-1])
		}
		stExact := []int32{1, 2}[r.Intn(2)]
		ops := []c12Op{sub(1, c12GoodBid(r, 1, d))}
		if r.Intn(3) == 0 && len(vars) > 0 { // a second pending bid under a variant spelling
			ops = append(ops, take, sub(2, c12GoodBid(r, 2, vars[0])), take)
		} else {
			ops = append(ops, take)
		}
		for _, v := range vars {
			ops = append(ops, dec(r.Intn(2), v, 3-stExact))
		}
		ops = append(ops, dec(0, d, stExact))
		return c12In{ops}
	case "gated-streams":
		// two decision streams race for one digest: the second lookup happens while the first stream is
		// between its lookup and its callback
		ops := []c12Op{sub(1, c12GoodBid(r, 1, dA)), sub(2, c12GoodBid(r, 2, dB)), take, take}
		d2 := func(d []byte) c12Op {
			a := r.Intn(2)
			return c12Op{Kind: "decision2", Sid: a, Sid2: 1 - a, Digest: d, Status: []int32{1, 2}[r.Intn(2)],
				Status2: []int32{1, 2, 1, 2, 0}[r.Intn(5)]}
		}
		ops = append(ops, d2(dA))
		switch r.Intn(4) {
		case 0:
			ops = append(ops, d2(dB))
		case 1:
			ops = append(ops, d2(dA), dec(0, dB, 1))
		case 2:
			ops = append(ops, d2(unknown), d2(dB))
		}
		return c12In{ops}
	case "timeout-after-handoff":
		// n bids with pairwise distinct digests, each handed to an engine stream, then its context ends (the
		// handler of pkg/preconfirmation gives up after 5 s): the service keeps one entry per such call; only a
		// decision for the digest removes it (C12_timeout_after_handoff_leaves_entry: exactly n entries)
		n := 1 + r.Intn(6)
		digs := make([][]byte, n)
		for k := range digs {
			d := make([]byte, 32)
			r.Read(d)
			d[0] = byte(k + 1)
			digs[k] = d
		}
		ops := []c12Op{}
		late := r.Intn(2) == 0
		for k := 0; k < n; k++ {
			ops = append(ops, sub(k+1, c12GoodBid(r, k+1, digs[k])), take)
			if !late {
				ops = append(ops, c12Op{Kind: "abandon", H: k + 1})
			}
		}
		if late {
			for _, k := range r.Perm(n) {
				ops = append(ops, c12Op{Kind: "abandon", H: k + 1})
			}
		}
		switch r.Intn(3) {
		case 0: // the engine answers one of them after all: that entry goes, the others stay
			ops = append(ops, dec(0, digs[r.Intn(n)], []int32{1, 2}[r.Intn(2)]))
		case 1: // a decision for an unknown digest and a malformed one change nothing
			ops = append(ops, dec(0, unknown, 1), dec(1, digs[0], 3))
		}
		return c12In{ops}
	case "cancel":
		ops := []c12Op{sub(1, c12GoodBid(r, 1, dA)), sub(2, c12GoodBid(r, 2, dB))}
		switch r.Intn(4) {
		case 0: // abandoned before hand-off, decision afterwards
			ops = append(ops, c12Op{Kind: "abandon", H: 1}, dec(0, dA, 1), take, dec(0, dB, 2))
		case 1: // cancelled after hand-off: no effect on the service
			ops = append(ops, take, take, c12Op{Kind: "abandon", H: 1}, c12Op{Kind: "abandon", H: 2}, dec(0, dA, 1), dec(0, dB, 1))
		case 2: // decision before the engine took it, then abandoned
			ops = append(ops, dec(0, dA, 1), c12Op{Kind: "abandon", H: 1}, dec(0, dA, 1), take)
		default: // decision before the engine took it, then taken
			ops = append(ops, dec(0, dA, 2), take, take, dec(1, dA, 1))
		}
		return c12In{ops}
	default: // random
		k := 2 + r.Intn(3)
		digs := [][]byte{dA, dB}
		ops := []c12Op{}
		next := 1
		n := 4 + r.Intn(12)
		for i := 0; i < n; i++ {
			switch x := r.Intn(10); {
			case x < 3 && next <= k:
				b := c12GoodBid(r, next, digs[r.Intn(2)])
				if r.Intn(6) == 0 {
					_, b = c12Perturb(r, b)
				}
				ops = append(ops, sub(next, b))
				next++
			case x < 5:
				ops = append(ops, take)
			case x < 6:
				ops = append(ops, c12Op{Kind: "abandon", H: 1 + r.Intn(k)})
			case x < 7 && r.Intn(4) == 0:
				ops = append(ops, c12Op{Kind: "recverr", Sid: r.Intn(2)})
			default:
				d := [][]byte{dA, dB, dA, dB, unknown, {}}[r.Intn(6)]
				ops = append(ops, dec(r.Intn(2), d, c12Status(r)))
			}
		}
		return c12In{ops}
	}
}

func TestVerifC12(t *testing.T) {
	e := vfOpen(t, 60)
	defer e.Close()
	hangs := 0
	run := func(class string, in c12In) {
		if hangs >= 5 {
			return // a broken tree: every further case would wait out its limit as well
		}
		obs := c12Run(t, in, e.Slow)
		for _, so := range obs.Streams {
			if so.State == 9 {
				hangs++
				break
			}
		}
		for _, co := range obs.Calls {
			if co.Res == 9 {
				hangs++
				break
			}
		}
		if class == "gated-streams" {
			// self-check of the gate: if the service no longer logs the expected record between lookup and
			// callback, the schedule falls back to the sequential one and the case is labelled accordingly
			any := false
			for _, g := range obs.Gated {
				any = any || g
			}
			if !any {
				class = "ungated"
			}
		}
		e.Emit(class, in, obs, func(id int) string { return c12Coq(id, in, obs) })
	}
	for _, raw := range e.Replay {
		var in c12In
		if err := json.Unmarshal(raw, &in); err != nil {
			t.Fatalf("bad replay input: %v", err)
		}
		run("replay", in)
	}
	if e.OnlyReplay() {
		return
	}
	// every single-field perturbation once, deterministically many draws
	for i := 0; i < 40; i++ {
		run("invalid-bid", c12Generate(e.rng, "invalid-bid"))
	}
	classes := []string{"single", "decisions", "equal-digests", "resubmit", "cancel", "no-engine", "digest-variants", "gated-streams", "timeout-after-handoff", "random", "random"}
	for i := 0; i < e.N; i++ {
		for _, c := range classes {
			run(c, c12Generate(e.rng, c))
		}
	}
}
