package handshake_test

// Correspondence driver for C04 (DESIGN.md section 7 C04): runs the real handshake.Service
// (Handle / Handshake) with the real signer, real keys and the real peer-id -> address function
// on scripted streams and a scripted registry, and -- end to end -- a real libp2p.Service
// against a raw libp2p host playing the remote. One Coq term of type Check_C04.case per run.

import (
	"bytes"
	"context"
	"crypto/ecdsa"
	"encoding/binary"
	"encoding/json"
	"errors"
	"fmt"
	"io"
	"log/slog"
	"math/big"
	"math/rand"
	"strings"
	"sync"
	"sync/atomic"
	"testing"
	"time"

	"github.com/ethereum/go-ethereum/common"
	"github.com/ethereum/go-ethereum/crypto"
	golibp2p "github.com/libp2p/go-libp2p"
	"github.com/libp2p/go-libp2p/core"
	libp2pcrypto "github.com/libp2p/go-libp2p/core/crypto"
	"github.com/libp2p/go-libp2p/core/host"
	"github.com/libp2p/go-libp2p/core/network"
	"github.com/libp2p/go-libp2p/core/peer"
	ma "github.com/multiformats/go-multiaddr"
	handshakepb "github.com/primevprotocol/mev-commit/gen/go/handshake/v1"
	streammsgv1 "github.com/primevprotocol/mev-commit/gen/go/streammsg/v1"
	mockkeysigner "github.com/primevprotocol/mev-commit/pkg/keysigner/mock"
	"github.com/primevprotocol/mev-commit/pkg/p2p"
	"github.com/primevprotocol/mev-commit/pkg/p2p/libp2p"
	"github.com/primevprotocol/mev-commit/pkg/p2p/libp2p/internal/handshake"
	"github.com/primevprotocol/mev-commit/pkg/signer"
	"github.com/prometheus/client_golang/prometheus"
	"google.golang.org/protobuf/encoding/protowire"
	"google.golang.org/protobuf/proto"
)

// ---- input of one case (enough to re-run it exactly) -------------------------------------------

type c04Frame struct {
	Eof bool   // the read fails (stream ended / reset)
	Raw []byte // wire bytes of the inner message otherwise
}

type c04In struct {
	Mode     int    // 0 scripted stream, 1 end-to-end inbound, 2 end-to-end outbound
	Dir      int    // 0 responder (Handle), 1 initiator (Handshake)
	OwnType  int    // p2p.PeerType of the local node (any int)
	OwnToken string // its secret
	OwnKey   []byte // its private key (32 bytes)
	PeerID   []byte // transport peer id of the remote (scripted mode: any bytes)
	PeerKey  []byte // end-to-end: private key of the remote host (secp256k1, or ed25519 if PeerEd)
	PeerEd   bool
	Script   []c04Frame
	WFails   []int    // indices of the writes that fail (scripted mode only)
	Staked   [][]byte // addresses the registry confirms
	// handshakes run before this one on the same Service (same local configuration); not emitted
	Prelude []c04In `json:",omitempty"`
	// end-to-end prelude step: keep this remote host (and its transport connection) alive for the rest
	// of the session, so that a later step with the same key is a SECOND connection of the same peer id
	KeepOpen bool `json:",omitempty"`
	// a stalling remote: after Script nothing arrives and the stream stays open, so the next read blocks
	// until the context of the call ends (scripted / outbound: the driver's deadline; inbound end to end:
	// the Service's base context, i.e. the case is observed while still pending)
	Stall bool `json:",omitempty"`
}

// ---- observation -----------------------------------------------------------------------------------

type c04W struct {
	Req             bool
	Role, Token, Sig []byte // Req
	Addr             []byte // Resp (Role shared)
}

type c04Wrap struct {
	Registered bool
	Notified   []c04Note
	Block      int64 // -1 none, 0 for ever, else nanoseconds (rounded up to a minute); -3 not observable
	Closed     bool  // the transport connection to the subject is gone (seen from the remote's host)
	Record     *c04Note // registered remotes: what a follow-up Connect returns (isConnected short cut)
	SecondHs   bool     // that follow-up Connect started another handshake
	Gone       []c04Note // notifier.Disconnected calls during this handshake
}

type c04Note struct {
	Addr []byte
	Role int64
}

type c04Obs struct {
	Res      int // 0 enrolled, 1..7 refusal class, 8 refused (class not visible), 9 panic, 10 exchange did not complete,
	// 11 a stalled call returned before its context ended, 12 still pending (stalled inbound, end to end)
	Addr     []byte
	Role     int64
	Written  []c04W
	Lookups  [][]byte
	Verifies [][2][]byte
	Wrap     *c04Wrap
	Blocked  bool     // a read was blocked until the context ended / until the driver's bound
	Prior    *c04Note // registry entry of the remote's peer id just before this handshake (sessions with KeepOpen)
	Note     string `json:",omitempty"`
}

// ---- recording wrappers around the real collaborators --------------------------------------------

var (
	c04ErrRead  = errors.New("c04: scripted read failure")
	c04ErrWrite = errors.New("c04: scripted write failure")
	c04ErrPid   = errors.New("c04: peer id has no ethereum address")
)

type c04Signer struct {
	inner signer.Signer
	mu    sync.Mutex
	calls [][2][]byte
}

func (s *c04Signer) Sign(k *ecdsa.PrivateKey, m []byte) ([]byte, error) { return s.inner.Sign(k, m) }
func (s *c04Signer) Verify(sig []byte, msg []byte) (bool, common.Address, error) {
	s.mu.Lock()
	s.calls = append(s.calls, [2][]byte{append([]byte{}, sig...), append([]byte{}, msg...)})
	s.mu.Unlock()
	return s.inner.Verify(sig, msg)
}

type c04Registry struct {
	staked  [][]byte
	mu      sync.Mutex
	lookups [][]byte
}

func (r *c04Registry) CheckProviderRegistered(_ context.Context, a common.Address) bool {
	r.mu.Lock()
	defer r.mu.Unlock()
	r.lookups = append(r.lookups, append([]byte{}, a.Bytes()...))
	for _, s := range r.staked {
		if bytes.Equal(s, a.Bytes()) {
			return true
		}
	}
	return false
}

func (r *c04Registry) taken() [][]byte {
	r.mu.Lock()
	defer r.mu.Unlock()
	return append([][]byte{}, r.lookups...)
}

// the function the production wiring passes (libp2p.New), with its failure tagged
func c04GetEthAddress(p core.PeerID) (common.Address, error) {
	a, err := libp2p.GetEthAddressFromPeerID(p)
	if err != nil {
		return a, errors.Join(c04ErrPid, err)
	}
	return a, nil
}

type c04Stream struct {
	stall   bool // block at the end of the script until the context ends
	blocked bool
	in     []c04Frame
	pos    int
	wfails map[int]bool
	nw     int
	out    []c04W
}

func (s *c04Stream) ReadMsg(ctx context.Context, m proto.Message) error {
	if s.pos >= len(s.in) {
		if s.stall {
			s.blocked = true
			<-ctx.Done()
			return errors.Join(c04ErrRead, ctx.Err())
		}
		return c04ErrRead
	}
	f := s.in[s.pos]
	s.pos++
	if f.Eof {
		return c04ErrRead
	}
	if err := proto.Unmarshal(f.Raw, m); err != nil {
		return errors.Join(c04ErrRead, err)
	}
	return nil
}

func c04Written(m proto.Message) c04W {
	switch v := m.(type) {
	case *handshakepb.HandshakeReq:
		return c04W{Req: true, Role: []byte(v.PeerType), Token: []byte(v.Token), Sig: v.Sig}
	case *handshakepb.HandshakeResp:
		return c04W{Addr: v.ObservedAddress, Role: []byte(v.PeerType)}
	}
	return c04W{Req: true, Role: []byte("?unexpected message type")}
}

func (s *c04Stream) WriteMsg(_ context.Context, m proto.Message) error {
	k := s.nw
	s.nw++
	if s.wfails[k] {
		return c04ErrWrite
	}
	s.out = append(s.out, c04Written(m))
	return nil
}
func (s *c04Stream) Reset() error { return nil }
func (s *c04Stream) Close() error { return nil }

func c04Class(err error) int {
	switch {
	case errors.Is(err, handshake.ErrSignatureVerificationFailed):
		return 1
	case errors.Is(err, handshake.ErrObservedAddressMismatch):
		return 2
	case errors.Is(err, handshake.ErrInsufficientStake):
		return 3
	case errors.Is(err, c04ErrRead):
		return 4
	case errors.Is(err, c04ErrWrite):
		return 5
	case errors.Is(err, c04ErrPid):
		return 6
	}
	return 7
}

// ---- ground truth computed by the driver itself (go-ethereum / go-libp2p only) ---------------------

type c04V struct {
	Err  bool
	Ok   bool
	Addr []byte
}

func c04TruthVerify(sig, data []byte) c04V {
	h := crypto.Keccak256(data)
	pub, err := crypto.SigToPub(h, sig)
	if err != nil {
		return c04V{Err: true}
	}
	a := crypto.PubkeyToAddress(*pub)
	ok := crypto.VerifySignature(crypto.FromECDSAPub(pub), h, sig[:64])
	return c04V{Ok: ok, Addr: a.Bytes()}
}

func c04TruthPid(id []byte) (addr []byte, ok bool) {
	pk, err := peer.ID(id).ExtractPublicKey()
	if err != nil {
		return nil, false
	}
	raw, err := pk.Raw()
	if err != nil {
		return nil, false
	}
	pub, err := crypto.DecompressPubkey(raw)
	if err != nil {
		return nil, false
	}
	return crypto.PubkeyToAddress(*pub).Bytes(), true
}

func c04DecodeReq(raw []byte) (role, token, sig []byte, ok bool) {
	m := new(handshakepb.HandshakeReq)
	if err := proto.Unmarshal(raw, m); err != nil {
		return nil, nil, nil, false
	}
	return []byte(m.PeerType), []byte(m.Token), m.Sig, true
}

func c04DecodeResp(raw []byte) (addr, role []byte, ok bool) {
	m := new(handshakepb.HandshakeResp)
	if err := proto.Unmarshal(raw, m); err != nil {
		return nil, nil, false
	}
	return m.ObservedAddress, []byte(m.PeerType), true
}

// ---- wire helpers ---------------------------------------------------------------------------------

func c04ReqWire(role, token, sig []byte) []byte {
	var b []byte
	if len(role) > 0 {
		b = protowire.AppendBytes(protowire.AppendTag(b, 1, protowire.BytesType), role)
	}
	if len(token) > 0 {
		b = protowire.AppendBytes(protowire.AppendTag(b, 2, protowire.BytesType), token)
	}
	if len(sig) > 0 {
		b = protowire.AppendBytes(protowire.AppendTag(b, 3, protowire.BytesType), sig)
	}
	return b
}

func c04RespWire(addr, role []byte) []byte {
	var b []byte
	if len(addr) > 0 {
		b = protowire.AppendBytes(protowire.AppendTag(b, 1, protowire.BytesType), addr)
	}
	if len(role) > 0 {
		b = protowire.AppendBytes(protowire.AppendTag(b, 2, protowire.BytesType), role)
	}
	return b
}

func c04Key(b []byte) *ecdsa.PrivateKey {
	k, err := crypto.ToECDSA(b)
	if err != nil {
		panic(fmt.Sprintf("c04: bad key in input: %v", err))
	}
	return k
}

func c04PeerIDOf(key []byte) []byte {
	pk, err := libp2pcrypto.UnmarshalSecp256k1PrivateKey(key)
	if err != nil {
		panic(err)
	}
	id, err := peer.IDFromPublicKey(pk.GetPublic())
	if err != nil {
		panic(err)
	}
	return []byte(id)
}

func c04Sign(key []byte, data []byte) []byte {
	sig, err := crypto.Sign(crypto.Keccak256(data), c04Key(key))
	if err != nil {
		panic(err)
	}
	return sig
}

// ---- running one scripted case -----------------------------------------------------------------------

type c04Local struct {
	addr   []byte
	ownSig []byte
}

func c04LocalOf(in c04In) (ks *mockkeysigner.MockKeySigner, l c04Local) {
	k := c04Key(in.OwnKey)
	addr := crypto.PubkeyToAddress(k.PublicKey)
	ks = mockkeysigner.NewMockKeySigner(k, addr)
	l.addr = addr.Bytes()
	l.ownSig = c04Sign(in.OwnKey, []byte(p2p.PeerType(in.OwnType).String()+in.OwnToken))
	return
}

// One long-lived handshake.Service (as in a running node) on which the handshakes of a session are
// run one after the other: Prelude first (their observations are dropped), then the case itself.
// The model is a function of the single handshake only, so state carried from one handshake to the
// next inside the implementation shows up as a mismatch.
type c04Env struct {
	sg  *c04Signer
	reg *c04Registry
	svc *handshake.Service
}

func c04NewEnv(in c04In) (*c04Env, error) {
	ks, _ := c04LocalOf(in)
	env := &c04Env{sg: &c04Signer{inner: signer.New()}, reg: &c04Registry{}}
	svc, err := handshake.New(ks, p2p.PeerType(in.OwnType), in.OwnToken, env.sg, env.reg, c04GetEthAddress)
	if err != nil {
		return nil, err
	}
	env.svc = svc
	return env, nil
}

func (env *c04Env) step(in c04In) (obs c04Obs) {
	env.sg.mu.Lock()
	env.sg.calls = nil
	env.sg.mu.Unlock()
	env.reg.mu.Lock()
	env.reg.staked, env.reg.lookups = in.Staked, nil
	env.reg.mu.Unlock()
	st := &c04Stream{in: in.Script, wfails: map[int]bool{}, stall: in.Stall}
	for _, k := range in.WFails {
		st.wfails[k] = true
	}
	ctx := context.Background()
	if in.Stall {
		// the caller's context is the only bound of a handshake with a stalling remote
		var cancel context.CancelFunc
		ctx, cancel = context.WithTimeout(ctx, 60*time.Millisecond)
		defer cancel()
	}
	fill := func() {
		obs.Written = st.out
		obs.Lookups = env.reg.taken()
		obs.Verifies = env.sg.calls
	}
	defer func() {
		if r := recover(); r != nil {
			obs = c04Obs{Res: 9, Note: fmt.Sprint(r)}
			fill()
		}
	}()
	var p *p2p.Peer
	var err error
	if in.Dir == 0 {
		p, err = env.svc.Handle(ctx, st, core.PeerID(in.PeerID))
	} else {
		p, err = env.svc.Handshake(ctx, core.PeerID(in.PeerID), st)
	}
	obs.Blocked = st.blocked && ctx.Err() != nil
	if st.blocked && ctx.Err() == nil {
		obs.Res = 11
		fill()
		return obs
	}
	if err != nil {
		obs.Res = c04Class(err)
	} else if p == nil {
		obs.Res = 9
		obs.Note = "nil peer and nil error"
	} else {
		obs.Res = 0
		obs.Addr = p.EthAddress.Bytes()
		obs.Role = int64(p.Type)
	}
	fill()
	return obs
}

func c04RunScripted(in c04In) (obs c04Obs) {
	env, err := c04NewEnv(in)
	if err != nil {
		return c04Obs{Res: 9, Note: "handshake.New: " + err.Error()}
	}
	for _, p := range in.Prelude {
		env.step(p)
	}
	return env.step(in)
}

// ---- Coq term ----------------------------------------------------------------------------------------

func c04CoqW(w c04W) string {
	if w.Req {
		return coqApp("WReq", coqBytes(w.Role), coqBytes(w.Token), coqBytes(w.Sig))
	}
	return coqApp("WResp", coqBytes(w.Addr), coqBytes(w.Role))
}

func c04CoqCase(id int, in c04In, obs c04Obs) string {
	_, l := c04LocalOf(in)
	var frames, vtab []string
	for _, f := range in.Script {
		req, resp := "None", "None"
		if !f.Eof {
			if r, t, s, ok := c04DecodeReq(f.Raw); ok {
				req = "(Some (" + coqBytes(r) + ", " + coqBytes(t) + ", " + coqBytes(s) + "))"
				data := append(append([]byte{}, r...), t...)
				v := c04TruthVerify(s, data)
				vt := "VErr"
				if !v.Err {
					vt = coqApp("VOk", coqBool(v.Ok), coqBytes(v.Addr))
				}
				vtab = append(vtab, "("+coqBytes(s)+", "+coqBytes(data)+", "+vt+")")
			}
			if a, r, ok := c04DecodeResp(f.Raw); ok {
				resp = "(Some (" + coqBytes(a) + ", " + coqBytes(r) + "))"
			}
		}
		frames = append(frames, coqRecord("as_req", req, "as_resp", resp))
	}
	pid := "PErr"
	if a, ok := c04TruthPid(in.PeerID); ok {
		pid = coqApp("POk", coqBytes(a))
	}
	var wf, staked, written, lookups, verifies []string
	for _, k := range in.WFails {
		wf = append(wf, coqNat(k))
	}
	for _, s := range in.Staked {
		staked = append(staked, coqBytes(s))
	}
	for _, w := range obs.Written {
		written = append(written, c04CoqW(w))
	}
	for _, a := range obs.Lookups {
		lookups = append(lookups, coqBytes(a))
	}
	for _, v := range obs.Verifies {
		verifies = append(verifies, coqPair(coqBytes(v[0]), coqBytes(v[1])))
	}
	wrap := "None"
	if obs.Wrap != nil {
		var notes []string
		for _, n := range obs.Wrap.Notified {
			notes = append(notes, coqPair(coqBytes(n.Addr), coqZ(n.Role)))
		}
		var gone []string
		for _, n := range obs.Wrap.Gone {
			gone = append(gone, coqPair(coqBytes(n.Addr), coqZ(n.Role)))
		}
		rec := "None"
		if r := obs.Wrap.Record; r != nil {
			rec = "(Some " + coqPair(coqBytes(r.Addr), coqZ(r.Role)) + ")"
		}
		wrap = "(Some " + coqRecord("w_registered", coqBool(obs.Wrap.Registered), "w_notified", coqList(notes),
			"w_block", coqZ(obs.Wrap.Block), "w_closed", coqBool(obs.Wrap.Closed), "w_record", rec,
			"w_second_hs", coqBool(obs.Wrap.SecondHs), "w_gone", coqList(gone)) + ")"
	}
	prior := "None"
	if obs.Prior != nil {
		prior = "(Some " + coqPair(coqBytes(obs.Prior.Addr), coqZ(obs.Prior.Role)) + ")"
	}
	cfg := coqRecord("own_type", coqZ(int64(in.OwnType)), "own_token", coqStr(in.OwnToken),
		"own_addr", coqBytes(l.addr), "own_sig", coqBytes(l.ownSig))
	return coqRecord("id", coqN(uint64(id)), "mode", coqN(uint64(in.Mode)), "dir", coqN(uint64(in.Dir)),
		"cfg", cfg, "script", coqList(frames), "wfails", coqList(wf), "vtab", coqList(vtab), "pid", pid,
		"staked", coqList(staked),
		"o_res", coqN(uint64(obs.Res)), "o_addr", coqBytes(obs.Addr), "o_role", coqZ(obs.Role),
		"o_written", coqList(written), "o_lookups", coqList(lookups), "o_verifies", coqList(verifies),
		"o_wrap", wrap, "prior", prior, "stall", coqBool(in.Stall), "o_blocked", coqBool(obs.Blocked))
}

// ---- end to end: a real libp2p.Service against a raw host ----------------------------------------------

type c04Notifier struct {
	mu    sync.Mutex
	notes []c04Note
	gone  []c04Note
	ch    chan struct{}
}

func (n *c04Notifier) Connected(p p2p.Peer) {
	n.mu.Lock()
	n.notes = append(n.notes, c04Note{Addr: p.EthAddress.Bytes(), Role: int64(p.Type)})
	n.mu.Unlock()
	select {
	case n.ch <- struct{}{}:
	default:
	}
}
func (n *c04Notifier) Disconnected(p p2p.Peer) {
	n.mu.Lock()
	n.gone = append(n.gone, c04Note{Addr: p.EthAddress.Bytes(), Role: int64(p.Type)})
	n.mu.Unlock()
}
func (n *c04Notifier) takenGone() []c04Note {
	n.mu.Lock()
	defer n.mu.Unlock()
	return append([]c04Note{}, n.gone...)
}
func (n *c04Notifier) taken() []c04Note {
	n.mu.Lock()
	defer n.mu.Unlock()
	return append([]c04Note{}, n.notes...)
}

// frames as libp2p.stream sends them: msgio length prefix, StreamMsg{data} envelope
func c04Envelope(raw []byte) []byte {
	if raw == nil {
		raw = []byte{}
	}
	env, err := proto.Marshal(&streammsgv1.StreamMsg{Body: &streammsgv1.StreamMsg_Data{Data: raw}})
	if err != nil {
		panic(err)
	}
	out := make([]byte, 4+len(env))
	binary.BigEndian.PutUint32(out, uint32(len(env)))
	copy(out[4:], env)
	return out
}

// the subject's frames alternate in a fixed order known from the direction; decode by shape:
// a request carries field 3 (sig), a response does not
func c04Sniff(raw []byte, _ int) c04W {
	if r, t, s, ok := c04DecodeReq(raw); ok && len(s) > 0 {
		return c04W{Req: true, Role: r, Token: t, Sig: s}
	}
	a, r, _ := c04DecodeResp(raw)
	return c04W{Addr: a, Role: r}
}

func c04AdvHost(in c04In) (host.Host, error) {
	var pk libp2pcrypto.PrivKey
	var err error
	if in.PeerEd {
		pk, err = libp2pcrypto.UnmarshalEd25519PrivateKey(in.PeerKey)
	} else {
		pk, err = libp2pcrypto.UnmarshalSecp256k1PrivateKey(in.PeerKey)
	}
	if err != nil {
		return nil, err
	}
	return golibp2p.New(golibp2p.Identity(pk), golibp2p.ListenAddrStrings("/ip4/127.0.0.1/tcp/0"),
		golibp2p.DisableRelay())
}

func c04BlockOf(svc *libp2p.Service, addr []byte) int64 {
	if addr == nil {
		// BlockedPeers skips peer ids without an Ethereum address: a block on them cannot be seen
		return -3
	}
	for _, b := range svc.BlockedPeers() {
		if !bytes.Equal(b.Peer.Bytes(), addr) {
			continue
		}
		if b.Duration == "Forever" {
			return 0
		}
		d, err := time.ParseDuration(b.Duration)
		if err != nil {
			return -2
		}
		// remaining time of a block placed moments ago: round up to the whole minute
		m := (d + time.Minute - 1) / time.Minute
		return int64(m * time.Minute)
	}
	return -1
}

// c04Frames collects, in order, the frames the subject wrote on the handshake stream.
type c04Frames struct {
	mu sync.Mutex
	ws []c04W
}

func (f *c04Frames) add(w c04W) { f.mu.Lock(); f.ws = append(f.ws, w); f.mu.Unlock() }
func (f *c04Frames) taken() []c04W {
	f.mu.Lock()
	defer f.mu.Unlock()
	return append([]c04W{}, f.ws...)
}

// read exactly one enveloped frame; false when the stream ended or was reset
func c04ReadOne(s network.Stream, into *c04Frames) bool {
	var lb [4]byte
	if _, err := io.ReadFull(s, lb[:]); err != nil {
		return false
	}
	n := binary.BigEndian.Uint32(lb[:])
	if n > 1<<20 {
		return false
	}
	buf := make([]byte, n)
	if _, err := io.ReadFull(s, buf); err != nil {
		return false
	}
	env := new(streammsgv1.StreamMsg)
	if err := proto.Unmarshal(buf, env); err != nil || env.GetData() == nil {
		return false
	}
	into.add(c04Sniff(env.GetData(), 0))
	return true
}

// send script[k] (or end our side of the stream when the script ends / says Eof there);
// false when nothing more can be sent
func c04SendAt(s network.Stream, script []c04Frame, k int, stall bool) bool {
	if k >= len(script) && stall {
		return false // nothing more arrives, the stream stays open
	}
	if k >= len(script) || script[k].Eof {
		_ = s.CloseWrite()
		return false
	}
	_, err := s.Write(c04Envelope(script[k].Raw))
	return err == nil
}

// failed_incoming_handshake_count of the Service (incremented in handleConnectReq after ClosePeer)
func c04FailedInbound(reg *prometheus.Registry) float64 {
	mfs, err := reg.Gather()
	if err != nil {
		return -1
	}
	for _, mf := range mfs {
		if strings.HasSuffix(mf.GetName(), "failed_incoming_handshake_count") && len(mf.GetMetric()) > 0 {
			return mf.GetMetric()[0].GetCounter().GetValue()
		}
	}
	return -1
}

func c04RunE2E(in c04In, slow int) (obs c04Obs, err error) {
	if slow < 1 {
		slow = 1
	}
	ks, _ := c04LocalOf(in)
	reg := &c04Registry{}
	mreg := prometheus.NewRegistry()
	svc, err := libp2p.New(&libp2p.Options{
		KeySigner: ks, Secret: in.OwnToken, PeerType: p2p.PeerType(in.OwnType), Register: reg,
		ListenPort: 0, ListenAddr: "127.0.0.1", Logger: slog.New(slog.NewTextHandler(io.Discard, nil)),
		MetricsReg: mreg,
	})
	if err != nil {
		return obs, fmt.Errorf("libp2p.New: %w", err)
	}
	defer svc.Close()
	nt := &c04Notifier{ch: make(chan struct{}, 8)}
	svc.SetNotifier(nt)
	// the handshakes of a session run one after the other on this one Service
	var kept []host.Host
	defer func() {
		for _, h := range kept {
			h.Close()
		}
	}()
	for _, p := range in.Prelude {
		if _, err := c04E2EStep(svc, nt, reg, mreg, p, slow, &kept); err != nil {
			return obs, fmt.Errorf("prelude: %w", err)
		}
	}
	return c04E2EStep(svc, nt, reg, mreg, in, slow, &kept)
}

func c04E2EStep(svc *libp2p.Service, nt *c04Notifier, reg *c04Registry, mreg *prometheus.Registry, in c04In, slow int, kept *[]host.Host) (obs c04Obs, err error) {
	nt.mu.Lock()
	nt.notes, nt.gone = nil, nil
	nt.mu.Unlock()
	for len(nt.ch) > 0 {
		<-nt.ch
	}
	reg.mu.Lock()
	reg.staked, reg.lookups = in.Staked, nil
	reg.mu.Unlock()
	adv, err := c04AdvHost(in)
	if err != nil {
		return obs, fmt.Errorf("adversary host: %w", err)
	}
	advAddr, advHasAddr := c04TruthPid(in.PeerID)
	registered := func() bool {
		if !advHasAddr {
			return false
		}
		_, err := svc.GetPeerInfo(p2p.Peer{EthAddress: common.BytesToAddress(advAddr)})
		return err == nil
	}
	defer func() {
		if in.KeepOpen {
			*kept = append(*kept, adv)
			return
		}
		// leave the Service without this remote before the next handshake of the session
		adv.Close()
		until := time.Now().Add(time.Duration(15*slow) * time.Second)
		for len(*kept) == 0 && registered() && time.Now().Before(until) {
			time.Sleep(2 * time.Millisecond)
		}
	}()
	if !bytes.Equal([]byte(adv.ID()), in.PeerID) {
		return obs, fmt.Errorf("input inconsistent: PeerID is not the id of PeerKey")
	}
	self := svc.Self()
	subjID, err := peer.Decode(self["Underlay"].(string))
	if err != nil {
		return obs, err
	}
	subjAddrs, ok := self["Addresses"].([]ma.Multiaddr)
	if !ok || len(subjAddrs) == 0 {
		return obs, fmt.Errorf("subject has no addresses")
	}
	frames := &c04Frames{}
	ctx, cancel := context.WithTimeout(context.Background(), time.Duration(60*slow)*time.Second)
	defer cancel()

	var hsCount int32
	incomplete := false
	failed0 := c04FailedInbound(mreg)
	// the registry entry an earlier, still connected host instance of this remote left behind
	var prior *c04Note
	for _, h := range *kept {
		if h.ID() == adv.ID() && registered() {
			hi, _ := (&peer.AddrInfo{ID: h.ID(), Addrs: h.Addrs()}).MarshalJSON()
			if p, err := svc.Connect(ctx, hi); err == nil {
				prior = &c04Note{Addr: p.EthAddress.Bytes(), Role: int64(p.Type)}
			}
			break
		}
	}
	obs.Prior = prior
	advInfo, err := (&peer.AddrInfo{ID: adv.ID(), Addrs: adv.Addrs()}).MarshalJSON()
	if err != nil {
		return obs, err
	}
	// after the exchange: is the transport connection gone ("the connection refused"), and what does the
	// registry hold (read back through a follow-up Connect, which must take the isConnected short cut)
	aftermath := func(w *c04Wrap) {
		// every live host instance of this remote (same peer id): this one and the kept ones
		gone := func() bool {
			if len(adv.Network().ConnsToPeer(subjID)) != 0 {
				return false
			}
			for _, h := range *kept {
				if h.ID() == adv.ID() && len(h.Network().ConnsToPeer(subjID)) != 0 {
					return false
				}
			}
			return true
		}
		if obs.Res != 0 {
			until := time.Now().Add(time.Duration(15*slow) * time.Second)
			for !gone() && time.Now().Before(until) {
				time.Sleep(2 * time.Millisecond)
			}
		}
		w.Closed = gone()
		if obs.Res != 0 && w.Closed && prior != nil {
			// the registry drops the entry when the last connection is reported closed
			until := time.Now().Add(time.Duration(15*slow) * time.Second)
			for (registered() || len(nt.takenGone()) == 0) && time.Now().Before(until) {
				time.Sleep(2 * time.Millisecond)
			}
		}
		if obs.Res != 0 {
			w.Registered = registered()
		}
		w.Gone = nt.takenGone()
		if w.Registered {
			n0 := atomic.LoadInt32(&hsCount)
			lk := reg.taken()
			if p, err := svc.Connect(ctx, advInfo); err == nil {
				w.Record = &c04Note{Addr: p.EthAddress.Bytes(), Role: int64(p.Type)}
			} else {
				obs.Note += " follow-up Connect: " + err.Error()
			}
			w.SecondHs = atomic.LoadInt32(&hsCount) != n0 || len(reg.taken()) != len(lk)
		}
	}

	if in.Mode == 1 {
		// the remote dials the subject and plays the script in lock step
		adv.SetStreamHandler(handshake.ProtocolID(), func(s network.Stream) {
			atomic.AddInt32(&hsCount, 1) // only a follow-up Connect that does not take the short cut gets here
			_ = s.Reset()
		})
		if err := adv.Connect(ctx, peer.AddrInfo{ID: subjID, Addrs: subjAddrs}); err != nil {
			return obs, fmt.Errorf("adversary cannot connect: %w", err)
		}
		s, err := adv.NewStream(ctx, subjID, handshake.ProtocolID())
		if err != nil {
			return obs, fmt.Errorf("adversary cannot open the handshake stream: %w", err)
		}
		_ = s.SetDeadline(time.Now().Add(time.Duration(20*slow) * time.Second))
		if c04SendAt(s, in.Script, 0, in.Stall) {
			// the subject answers a proven request with two frames, anything else with a reset
			if c04ReadOne(s, frames) && c04ReadOne(s, frames) {
				if c04SendAt(s, in.Script, 1, in.Stall) && !in.Stall {
					_ = s.CloseWrite()
				}
			}
		}
		if in.Stall {
			// Handle runs on the Service's base context: nothing ends the read. Look at the node after a
			// while (a notification would end the wait early) and report what has happened so far.
			select {
			case <-nt.ch:
			case <-time.After(time.Duration(250*slow) * time.Millisecond):
			}
			notes := nt.taken()
			w := &c04Wrap{Registered: registered(), Notified: notes, Block: c04BlockOf(svc, advAddr),
				Closed: len(adv.Network().ConnsToPeer(subjID)) == 0, Gone: nt.takenGone()}
			obs.Wrap = w
			obs.Res, obs.Blocked = 12, true
			if len(notes) > 0 {
				obs.Res, obs.Addr, obs.Role = 0, notes[0].Addr, notes[0].Role
			} else if w.Closed {
				obs.Res, obs.Blocked = 8, false // it did end: refused
			}
			obs.Written = frames.taken()
			obs.Lookups = reg.taken()
			return obs, nil
		}
		// completion: a notification, or the subject closed the connection
		deadline := time.After(time.Duration(20*slow) * time.Second)
		tick := time.NewTicker(2 * time.Millisecond)
		defer tick.Stop()
	wait:
		for {
			select {
			case <-nt.ch:
				break wait
			case <-tick.C:
				if adv.Network().Connectedness(subjID) != network.Connected {
					break wait
				}
			case <-deadline:
				incomplete = true
				break wait
			}
		}
		notes := nt.taken()
		if len(notes) == 0 {
			// refused: handleConnectReq closes the peer, counts the failure, then places the block (if any).
			// Wait for the count (the handler is past ClosePeer), then give the few statements that follow time.
			until := time.Now().Add(time.Duration(15*slow) * time.Second)
			for c04FailedInbound(mreg) <= failed0 && time.Now().Before(until) {
				time.Sleep(2 * time.Millisecond)
			}
			until = time.Now().Add(time.Duration(500*slow) * time.Millisecond)
			for time.Now().Before(until) && c04BlockOf(svc, advAddr) < 0 && advHasAddr {
				time.Sleep(3 * time.Millisecond)
			}
		}
		w := &c04Wrap{Registered: registered(), Notified: notes, Block: c04BlockOf(svc, advAddr)}
		obs.Wrap = w
		switch {
		case len(notes) > 0:
			obs.Res, obs.Addr, obs.Role = 0, notes[0].Addr, notes[0].Role
		case w.Registered && prior == nil:
			// registered without a notification (an entry that was there before does not count)
			obs.Res, obs.Addr, obs.Role = 0, advAddr, -2
		default:
			obs.Res = 8
		}
		if incomplete {
			obs.Res = 10
		}
		obs.Written = frames.taken()
		obs.Lookups = reg.taken()
		aftermath(w)
		return obs, nil
	}

	// Mode 2: the subject dials the remote, whose handler plays the script in lock step
	done := make(chan struct{})
	var once sync.Once
	adv.SetStreamHandler(handshake.ProtocolID(), func(s network.Stream) {
		defer once.Do(func() { close(done) })
		if atomic.AddInt32(&hsCount, 1) > 1 {
			_ = s.Reset() // a follow-up Connect that did not take the short cut
			return
		}
		_ = s.SetDeadline(time.Now().Add(time.Duration(20*slow) * time.Second))
		if !c04ReadOne(s, frames) {
			return
		}
		if c04SendAt(s, in.Script, 0, in.Stall) && c04SendAt(s, in.Script, 1, in.Stall) && !in.Stall {
			_ = s.CloseWrite()
		}
		c04ReadOne(s, frames)
	})
	cctx := ctx
	if in.Stall {
		// the caller's context is the only bound of Connect's handshake with a stalling remote
		var ccancel context.CancelFunc
		cctx, ccancel = context.WithTimeout(ctx, time.Duration(700*slow)*time.Millisecond)
		defer ccancel()
	}
	p, cerr := svc.Connect(cctx, advInfo)
	obs.Blocked = in.Stall && cerr != nil && cctx.Err() != nil
	select {
	case <-done:
	case <-time.After(time.Duration(25*slow) * time.Second):
		incomplete = true
	}
	switch {
	case cerr == nil:
		obs.Res, obs.Addr, obs.Role = 0, p.EthAddress.Bytes(), int64(p.Type)
	case errors.Is(cerr, handshake.ErrSignatureVerificationFailed):
		obs.Res = 1
	case errors.Is(cerr, handshake.ErrObservedAddressMismatch):
		obs.Res = 2
	case errors.Is(cerr, handshake.ErrInsufficientStake):
		obs.Res = 3
	default:
		obs.Res = 8
	}
	if incomplete {
		obs.Res = 10
	}
	obs.Wrap = &c04Wrap{Registered: registered(), Notified: nt.taken(), Block: c04BlockOf(svc, advAddr)}
	obs.Written = frames.taken()
	obs.Lookups = reg.taken()
	aftermath(obs.Wrap)
	return obs, nil
}

// ---- generators -------------------------------------------------------------------------------------------

type c04Gen struct {
	r      *rand.Rand
	keys   [][]byte // pool of secp256k1 private keys
	edID   []byte   // peer id of an Ed25519 key
	edKey  []byte   // that key
	rsaID  []byte   // peer id of an RSA key
	tokens []string
}

func c04NewGen(r *rand.Rand) *c04Gen {
	g := &c04Gen{r: r, tokens: []string{"test", "", "secret-2", "x", "provider", strings.Repeat("t", 70)}}
	for len(g.keys) < 6 {
		b := make([]byte, 32)
		r.Read(b)
		if _, err := crypto.ToECDSA(b); err == nil {
			g.keys = append(g.keys, b)
		}
	}
	edPriv, edPub, err := libp2pcrypto.GenerateEd25519Key(r)
	if err != nil {
		panic(err)
	}
	if g.edKey, err = edPriv.Raw(); err != nil {
		panic(err)
	}
	id, _ := peer.IDFromPublicKey(edPub)
	g.edID = []byte(id)
	_, rsaPub, err := libp2pcrypto.GenerateKeyPairWithReader(libp2pcrypto.RSA, 2048, r)
	if err != nil {
		panic(err)
	}
	id, _ = peer.IDFromPublicKey(rsaPub)
	g.rsaID = []byte(id)
	return g
}

var c04Roles = []string{"bootnode", "provider", "bidder"}
var c04OddRoles = []string{"Provider", "", "bidderx", "unknown", "provide", "bidder ", "PROVIDER", "bid", "bootnodebidder",
	" provider", "provider ", "provider\n", "\tprovider", "Provider ", "pRoViDeR", "BIDDER", "Bidder", " bidder", "Bootnode", "BOOTNODE", "bootnode\n",
	"provider\x00", "\xff\xfeprovider", "próvider"}

func c04Addr(key []byte) []byte { return crypto.PubkeyToAddress(c04Key(key).PublicKey).Bytes() }

// an honest case: local (key 0, type lt, token) and remote (key 1, role rr, its own token)
func (g *c04Gen) honest(dir, lt int, rr string, ltoken, rtoken string) c04In {
	lk, rk := g.keys[0], g.keys[1]
	req := c04Frame{Raw: c04ReqWire([]byte(rr), []byte(rtoken), c04Sign(rk, []byte(rr+rtoken)))}
	echo := c04Frame{Raw: c04RespWire(c04Addr(lk), []byte(p2p.PeerType(lt).String()))}
	in := c04In{Dir: dir, OwnType: lt, OwnToken: ltoken, OwnKey: lk, PeerID: c04PeerIDOf(rk), PeerKey: rk,
		Staked: [][]byte{c04Addr(rk)}}
	if dir == 0 {
		in.Script = []c04Frame{req, echo}
	} else {
		in.Script = []c04Frame{echo, req}
	}
	return in
}

func c04Clone(in c04In) c04In {
	b, _ := json.Marshal(in)
	var out c04In
	_ = json.Unmarshal(b, &out)
	return out
}

func (in *c04In) reqIdx() int {
	if in.Dir == 0 {
		return 0
	}
	return 1
}
func (in *c04In) echoIdx() int { return 1 - in.reqIdx() }

var c04N = new(big.Int).SetBytes(common.FromHex("fffffffffffffffffffffffffffffffebaaedce6af48a03bbfd25e8cd0364141"))

func c04Malleate(sig []byte) []byte {
	if len(sig) != 65 {
		return sig
	}
	out := append([]byte{}, sig...)
	s := new(big.Int).SetBytes(sig[32:64])
	s.Sub(c04N, s)
	s.FillBytes(out[32:64])
	out[64] ^= 1
	return out
}

// signature variants for a request (role, token) of the remote key rk
func (g *c04Gen) sigVariant(kind int, rk []byte, role, token string) []byte {
	good := c04Sign(rk, []byte(role+token))
	switch kind {
	case 0:
		return good
	case 1: // foreign key
		return c04Sign(g.keys[2], []byte(role+token))
	case 2: // other role
		return c04Sign(rk, []byte("bidder"+"x"+token))
	case 3: // other token
		return c04Sign(rk, []byte(role+token+"x"))
	case 4:
		return []byte{}
	case 5:
		return good[:64]
	case 6:
		return append(append([]byte{}, good...), 0)
	case 7:
		return c04Malleate(good)
	case 8: // v = 27/28 convention
		out := append([]byte{}, good...)
		out[64] += 27
		return out
	case 9: // other recovery id: recovers some other key
		out := append([]byte{}, good...)
		out[64] ^= 1
		return out
	case 10: // flipped bit in r
		out := append([]byte{}, good...)
		out[g.r.Intn(32)] ^= 1 << uint(g.r.Intn(8))
		return out
	case 11: // random bytes
		out := make([]byte, 65)
		g.r.Read(out)
		out[64] &= 1
		return out
	case 12: // signature over token ++ role
		return c04Sign(rk, []byte(token+role))
	case 13: // zero r,s
		return make([]byte, 65)
	case 14: // signed with the local node's own key (reflection of our own request)
		return c04Sign(g.keys[0], []byte(role+token))
	}
	return good
}

const c04SigKinds = 15

func (g *c04Gen) random() c04In {
	return g.randomL([]int{0, 1, 2, 1, 2, 7, -1}[g.r.Intn(7)], g.tokens[g.r.Intn(len(g.tokens))])
}

// a random transcript for a given local configuration (type, token; key 0)
func (g *c04Gen) randomL(lt int, ltoken string) c04In {
	r := g.r
	dir := r.Intn(2)
	role := c04Roles[r.Intn(3)]
	if r.Intn(4) == 0 {
		role = c04OddRoles[r.Intn(len(c04OddRoles))]
	}
	rtoken := g.tokens[r.Intn(len(g.tokens))]
	in := g.honest(dir, lt, role, ltoken, rtoken)
	rk := g.keys[1]
	if r.Intn(3) == 0 {
		in.Script[in.reqIdx()].Raw = c04ReqWire([]byte(role), []byte(rtoken), g.sigVariant(r.Intn(c04SigKinds), rk, role, rtoken))
	}
	switch r.Intn(8) { // transport identity
	case 0:
		in.PeerID = c04PeerIDOf(g.keys[2])
	case 1:
		in.PeerID = [][]byte{g.edID, g.rsaID, []byte("test2"), {}}[r.Intn(4)]
	}
	switch r.Intn(6) { // registry
	case 0:
		in.Staked = nil
	case 1:
		in.Staked = [][]byte{c04Addr(g.keys[2])}
	case 2:
		in.Staked = [][]byte{c04Addr(g.keys[2]), c04Addr(rk), c04Addr(g.keys[0])}
	}
	switch r.Intn(8) { // echo
	case 0:
		in.Script[in.echoIdx()].Raw = c04RespWire(c04Addr(g.keys[2]), []byte(p2p.PeerType(lt).String()))
	case 1:
		in.Script[in.echoIdx()].Raw = c04RespWire(c04Addr(g.keys[0]), []byte(c04Roles[r.Intn(3)]))
	case 2:
		in.Script[in.echoIdx()].Raw = c04RespWire(c04Addr(g.keys[0])[:19], []byte(p2p.PeerType(lt).String()))
	}
	switch r.Intn(10) { // shape of the exchange
	case 0:
		in.Script = in.Script[:r.Intn(2)]
	case 1:
		in.Script[r.Intn(2)] = c04Frame{Eof: true}
	case 2:
		in.Script[r.Intn(2)] = c04Frame{Raw: []byte{0x0a, 0xff, 0x01}}
	case 3:
		in.Script[0], in.Script[1] = in.Script[1], in.Script[0]
	case 4:
		in.Script = append(in.Script, in.Script[0])
	}
	if r.Intn(12) == 0 {
		in.Script, in.Stall = in.Script[:r.Intn(len(in.Script)+1)], true
	}
	switch r.Intn(10) {
	case 0:
		in.WFails = []int{r.Intn(2)}
	case 1:
		in.WFails = []int{0, 1}
	}
	return in
}

func TestVerifC04(t *testing.T) {
	e := vfOpen(t, 300)
	defer e.Close()
	inconclusive := 0
	defer func() {
		if inconclusive > 0 {
			t.Logf("c04: %d end-to-end cases inconclusive", inconclusive)
		}
	}()
	run := func(class string, in c04In) {
		var obs c04Obs
		if in.Mode == 0 {
			obs = c04RunScripted(in)
		} else {
			var err error
			obs, err = c04RunE2E(in, e.Slow)
			if err != nil {
				// environment (listen, dial, host start): not an observation of the code under test
				obs, err = c04RunE2E(in, 2*e.Slow)
			}
			if err != nil {
				inconclusive++
				t.Logf("c04: end-to-end case %q inconclusive (dropped): %v", class, err)
				return
			}
		}
		e.Emit(class, in, obs, func(id int) string { return c04CoqCase(id, in, obs) })
	}
	for _, raw := range e.Replay {
		var in c04In
		if err := json.Unmarshal(raw, &in); err != nil {
			t.Fatalf("bad replay input: %v", err)
		}
		run("replay", in)
	}
	if e.OnlyReplay() {
		return
	}
	g := c04NewGen(e.rng)
	lk, rk := g.keys[0], g.keys[1]
	_ = lk

	// honest transcripts: 2 directions x local types x remote roles, registry yes
	for dir := 0; dir < 2; dir++ {
		for _, lt := range []int{0, 1, 2, 7} {
			for _, rr := range c04Roles {
				run("honest", g.honest(dir, lt, rr, "test", "test"))
				run("honest-other-token", g.honest(dir, lt, rr, "test", "another secret"))
			}
		}
	}
	// one deviation from an honest transcript at a time
	for dir := 0; dir < 2; dir++ {
		for _, rr := range c04Roles {
			base := g.honest(dir, 2, rr, "test", "test")
			// signatures
			for k := 1; k < c04SigKinds; k++ {
				in := c04Clone(base)
				in.Script[in.reqIdx()].Raw = c04ReqWire([]byte(rr), []byte("test"), g.sigVariant(k, rk, rr, "test"))
				run(fmt.Sprintf("sig-variant-%d", k), in)
			}
			// transport identity
			for i, id := range [][]byte{c04PeerIDOf(g.keys[2]), c04PeerIDOf(g.keys[0]), g.edID, g.rsaID, []byte("test2"), {}} {
				in := c04Clone(base)
				in.PeerID = id
				run(fmt.Sprintf("peerid-%d", i), in)
			}
			// foreign key for both the signature and the transport identity, address not staked
			{
				in := c04Clone(base)
				in.PeerID = c04PeerIDOf(g.keys[2])
				in.Script[in.reqIdx()].Raw = c04ReqWire([]byte(rr), []byte("test"), c04Sign(g.keys[2], []byte(rr+"test")))
				run("other-identity-consistent", in)
				in2 := c04Clone(in)
				in2.Staked = append(in2.Staked, c04Addr(g.keys[2]))
				run("other-identity-consistent-staked", in2)
			}
			// registry
			for i, st := range [][][]byte{nil, {c04Addr(g.keys[2])}, {c04Addr(g.keys[0])}, {c04Addr(g.keys[2]), c04Addr(rk)}} {
				in := c04Clone(base)
				in.Staked = st
				run(fmt.Sprintf("registry-%d", i), in)
			}
			// echo
			own := c04Addr(g.keys[0])
			echoes := [][]byte{
				c04RespWire(c04Addr(rk), []byte("bidder")),
				c04RespWire(own, []byte("provider")),
				c04RespWire(own, []byte("Bidder")),
				c04RespWire(own, nil),
				c04RespWire(nil, []byte("bidder")),
				c04RespWire(own[:19], []byte("bidder")),
				c04RespWire(append(append([]byte{}, own...), 0), []byte("bidder")),
				c04RespWire(append([]byte{0}, own...), []byte("bidder")),
				{},
			}
			for i, raw := range echoes {
				in := c04Clone(base)
				in.Script[in.echoIdx()].Raw = raw
				run(fmt.Sprintf("echo-%d", i), in)
			}
			// truncation, garbage, order, failing writes
			for cut := 0; cut < 2; cut++ {
				in := c04Clone(base)
				in.Script = in.Script[:cut]
				run("truncated", in)
				in = c04Clone(base)
				in.Script[cut] = c04Frame{Eof: true}
				run("eof-frame", in)
				in = c04Clone(base)
				in.Script[cut] = c04Frame{Raw: []byte{0x0a, 0xff, 0x01}}
				run("garbage-frame", in)
				in = c04Clone(base)
				in.Script[cut] = c04Frame{Raw: []byte{}}
				run("empty-frame", in)
				in = c04Clone(base)
				in.WFails = []int{cut}
				run("write-fails", in)
			}
			// a remote that stalls: nothing, or only the first frame, arrives and the stream stays open; the
			// call is bounded by its context alone
			for cut := 0; cut <= 2; cut++ {
				in := c04Clone(base)
				in.Script, in.Stall = in.Script[:cut], true
				run("stalled", in)
			}
			{
				in := c04Clone(base)
				in.Script, in.Stall = []c04Frame{{Raw: []byte{0x0a, 0xff, 0x01}}}, true
				run("stalled-after-garbage", in)
				in = c04Clone(base)
				in.Script[in.reqIdx()].Raw = c04ReqWire([]byte(rr), []byte("test"), g.sigVariant(7, rk, rr, "test"))
				in.Script, in.Stall = in.Script[:1], true
				run("stalled-after-first-frame-maybe-bad", in)
			}
			{
				in := c04Clone(base)
				in.Script[0], in.Script[1] = in.Script[1], in.Script[0]
				run("wrong-order", in)
				in = c04Clone(base)
				in.Script = []c04Frame{in.Script[in.reqIdx()], in.Script[in.reqIdx()]}
				run("request-twice", in)
				in = c04Clone(base)
				in.Script = []c04Frame{in.Script[in.echoIdx()], in.Script[in.echoIdx()]}
				run("echo-twice", in)
			}
		}
		// every token spelling x every role x registry yes/no (the stake gate must not depend on the token)
		for _, tok := range g.tokens {
			for _, rr := range c04Roles {
				in := g.honest(dir, 1, rr, "test", tok)
				run("token-x-role", in)
				in = g.honest(dir, 1, rr, tok, tok)
				in.Staked = nil
				run("token-x-role-unstaked", in)
			}
		}
		// role strings outside the three known ones, honestly signed
		for _, rr := range c04OddRoles {
			run("odd-role", g.honest(dir, 2, rr, "test", "test"))
			in := g.honest(dir, 2, rr, "test", "test")
			in.Staked = nil
			run("odd-role-unstaked", in)
		}
		// the ambiguity of role ++ token: a signature made for (bidder, "x"+t) presented as ("bidderx", t),
		// and one made for ("provide", "r"+t) presented as (provider, t)
		{
			in := g.honest(dir, 2, "bidder", "test", "xtest")
			in.Script[in.reqIdx()].Raw = c04ReqWire([]byte("bidderx"), []byte("test"), c04Sign(rk, []byte("bidderxtest")))
			run("resplit-to-unknown-role", in)
			in = g.honest(dir, 2, "provider", "test", "test")
			in.Script[in.reqIdx()].Raw = c04ReqWire([]byte("provide"), []byte("rtest"), c04Sign(rk, []byte("providertest")))
			in.Staked = nil
			run("resplit-provider-to-unknown-role-unstaked", in)
		}
	}
	for i := 0; i < e.N; i++ {
		run("random", g.random())
	}

	// sessions: several handshakes on one long-lived Service, the registry answer and the remote changing
	for dir := 0; dir < 2; dir++ {
		for _, odir := range []int{dir, 1 - dir} {
			staked := g.honest(odir, 2, "provider", "test", "test")
			unstaked := g.honest(odir, 2, "provider", "test", "test")
			unstaked.Staked = nil
			in := g.honest(dir, 2, "provider", "test", "test")
			in.Staked = nil
			in.Prelude = []c04In{staked}
			run("session-stake-withdrawn", in)
			in = c04Clone(in)
			in.Prelude = []c04In{staked, staked, unstaked}
			run("session-stake-withdrawn", in)
			in = g.honest(dir, 2, "provider", "test", "test")
			in.Prelude = []c04In{unstaked}
			run("session-stake-gained", in)
			// a refused remote first, then an honest one; and the other way round
			bad := g.honest(odir, 2, "bidder", "test", "test")
			bad.Script[bad.reqIdx()].Raw = c04ReqWire([]byte("bidder"), []byte("test"), g.sigVariant(7, rk, "bidder", "test"))
			in = g.honest(dir, 2, "bidder", "test", "test")
			in.Prelude = []c04In{bad}
			run("session-after-refusal", in)
			in = c04Clone(bad)
			in.Dir = dir
			if dir != odir {
				in.Script[0], in.Script[1] = in.Script[1], in.Script[0]
			}
			in.Prelude = []c04In{g.honest(odir, 2, "bidder", "test", "test")}
			run("session-bad-after-honest", in)
			// an enrolled remote's request replayed by another transport identity
			in = g.honest(dir, 2, "provider", "test", "test")
			in.PeerID = c04PeerIDOf(g.keys[2])
			in.Prelude = []c04In{staked}
			run("session-replay-by-other-identity", in)
			// same remote, role changes from bidder to provider without stake
			in = g.honest(dir, 2, "provider", "test", "test")
			in.Staked = nil
			in.Prelude = []c04In{g.honest(odir, 2, "bidder", "test", "test")}
			run("session-role-upgrade-unstaked", in)
		}
	}
	for i := 0; i < e.N/3; i++ {
		in := g.random()
		for k := 1 + e.rng.Intn(3); k > 0; k-- {
			in.Prelude = append(in.Prelude, g.randomL(in.OwnType, in.OwnToken))
		}
		run("session-random", in)
	}

	// end to end: a real libp2p.Service (handleConnectReq / Connect) against a raw host
	for mode := 1; mode <= 2; mode++ {
		dir := mode - 1
		mk := func(rr string) c04In {
			in := g.honest(dir, 2, rr, "test", "test")
			in.Mode = mode
			return in
		}
		for _, rr := range c04Roles {
			run("e2e-honest", mk(rr))
		}
		in := mk("provider")
		in.Staked = nil
		run("e2e-unstaked-provider", in)
		in = mk("bidder")
		in.Script[in.reqIdx()].Raw = c04ReqWire([]byte("bidder"), []byte("test"), c04Sign(g.keys[2], []byte("biddertest")))
		run("e2e-foreign-key-signature", in)
		for _, k := range []int{3, 5, 7} {
			in = mk("provider")
			in.Script[in.reqIdx()].Raw = c04ReqWire([]byte("provider"), []byte("test"), g.sigVariant(k, rk, "provider", "test"))
			run(fmt.Sprintf("e2e-sig-variant-%d", k), in)
		}
		in = mk("bidder")
		in.Script[in.echoIdx()].Raw = c04RespWire(c04Addr(g.keys[0]), []byte("provider"))
		run("e2e-wrong-echo", in)
		in = mk("bidder")
		in.Script = in.Script[:1]
		run("e2e-truncated", in)
		in = mk("bidder")
		in.Script[0] = c04Frame{Raw: []byte{0x0a, 0xff, 0x01}}
		run("e2e-garbage", in)
		in = mk("bidder")
		in.PeerKey, in.PeerEd, in.PeerID = g.edKey, true, g.edID
		run("e2e-ed25519-identity", in)
		in = c04Clone(in)
		in.Script[in.reqIdx()].Raw = c04ReqWire([]byte("bidder"), []byte("test"), g.sigVariant(7, rk, "bidder", "test"))
		run("e2e-ed25519-identity-bad-signature", in)
		in = mk("bidderx")
		in.Staked = nil
		run("e2e-odd-role", in)
		for _, rr := range []string{"Provider", " provider", "provider\n", "PROVIDER", "Bidder"} {
			in = mk(rr)
			in.Staked = nil
			run("e2e-role-spelling-variant", in)
		}
		// a remote that stalls: inbound, the handshake is still pending when the driver looks (no deadline
		// of its own); outbound, Connect is bounded by its caller's context
		for cut := 0; cut <= 1; cut++ {
			in = mk("provider")
			in.Script, in.Stall = in.Script[:cut], true
			run("e2e-stalled", in)
		}
		// two transport connections of one peer id: enrolled on the first (host instance kept alive), then a
		// second host instance with the same key runs a handshake that must be refused: afterwards no
		// connection of that peer id may be left, the registry must not hold it, Disconnected must be told
		if mode == 1 {
			for _, pmode := range []int{1, 2} {
				first := func(rr string) c04In {
					f := g.honest(pmode-1, 2, rr, "test", "test")
					f.Mode, f.KeepOpen = pmode, true
					return f
				}
				in = mk("provider")
				in.Staked = nil
				in.Prelude = []c04In{first("provider")}
				run("e2e-two-conn-stake-withdrawn", in)
				in = mk("bidder")
				in.Script[in.reqIdx()].Raw = c04ReqWire([]byte("bidder"), []byte("test"), g.sigVariant(7, rk, "bidder", "test"))
				in.Prelude = []c04In{first("bidder")}
				run("e2e-two-conn-bad-signature", in)
				in = mk("bidder")
				in.Script[in.echoIdx()].Raw = c04RespWire(c04Addr(g.keys[0]), []byte("provider"))
				in.Prelude = []c04In{first("provider")}
				run("e2e-two-conn-wrong-echo", in)
			}
		}
		for _, pmode := range []int{mode, 3 - mode} {
			first := g.honest(pmode-1, 2, "provider", "test", "test")
			first.Mode = pmode
			in = mk("provider")
			in.Staked = nil
			in.Prelude = []c04In{first}
			run("e2e-session-stake-withdrawn", in)
		}
	}
	if e.Tier == "thorough" {
		for i := 0; i < e.N/100; i++ {
			in := g.random()
			in.Mode = 1 + in.Dir
			in.WFails, in.Stall = nil, false
			switch {
			case bytes.Equal(in.PeerID, c04PeerIDOf(g.keys[2])):
				in.PeerKey = g.keys[2]
			case bytes.Equal(in.PeerID, g.edID):
				in.PeerKey, in.PeerEd = g.edKey, true
			default:
				in.PeerKey, in.PeerID = g.keys[1], c04PeerIDOf(g.keys[1])
			}
			run("e2e-random", in)
		}
	}
}
