package handshake_test

// C06 driver (3/8): handshake.Service.Handle / Handshake against a scripted p2p.Stream that
// delivers hostile HandshakeReq / HandshakeResp values, undecodable bytes and errors at every
// position (reads and writes). Real signer, real keys, the production peer-id -> address function.

import (
	"bytes"
	"context"
	"crypto/ecdsa"
	"encoding/json"
	"errors"
	"fmt"
	"math/rand"
	"testing"

	"github.com/ethereum/go-ethereum/common"
	"github.com/ethereum/go-ethereum/crypto"
	"github.com/libp2p/go-libp2p/core"
	libp2pcrypto "github.com/libp2p/go-libp2p/core/crypto"
	"github.com/libp2p/go-libp2p/core/peer"
	handshakepb "github.com/primevprotocol/mev-commit/gen/go/handshake/v1"
	mockkeysigner "github.com/primevprotocol/mev-commit/pkg/keysigner/mock"
	"github.com/primevprotocol/mev-commit/pkg/p2p"
	"github.com/primevprotocol/mev-commit/pkg/p2p/libp2p"
	"github.com/primevprotocol/mev-commit/pkg/p2p/libp2p/internal/handshake"
	"github.com/primevprotocol/mev-commit/pkg/signer"
	"google.golang.org/protobuf/encoding/protowire"
	"google.golang.org/protobuf/proto"
)

const c06Pkg = "handshake"

type c06Frame struct {
	Eof  bool   `json:",omitempty"`
	Raw  []byte `json:",omitempty"` // wire bytes of the inner message
	RawN int    `json:",omitempty"` // > 1: a bytes field 2 (token / role) of RawN bytes is appended
}

func (f c06Frame) wire() []byte {
	if f.RawN > 1 {
		return protowire.AppendBytes(protowire.AppendTag(append([]byte{}, f.Raw...), 2, protowire.BytesType),
			bytes.Repeat([]byte{'t'}, f.RawN))
	}
	return f.Raw
}

type c06In struct {
	Pkg     string
	Entry   string // handshake-handle | handshake-initiate | peer-id-address (PeerID, Kind only)
	Kind    int    `json:",omitempty"` // peer-id-address: what the generator built (see NoPanic.v EPeerIDAddress)
	OwnType int
	Token   string
	PeerID  []byte
	Staked  bool
	Script  []c06Frame
	WFails  []int
}

type c06Obs struct {
	Panic bool
	Res   int
	Note  string `json:",omitempty"`
}

var c06ErrRead = errors.New("c06: scripted read failure")
var c06ErrWrite = errors.New("c06: scripted write failure")

type c06Stream struct {
	in     []c06Frame
	pos    int
	wfails map[int]bool
	nw     int
}

func (s *c06Stream) ReadMsg(_ context.Context, m proto.Message) error {
	if s.pos >= len(s.in) {
		return c06ErrRead
	}
	f := s.in[s.pos]
	s.pos++
	if f.Eof {
		return c06ErrRead
	}
	return proto.Unmarshal(f.wire(), m)
}
func (s *c06Stream) WriteMsg(_ context.Context, m proto.Message) error {
	k := s.nw
	s.nw++
	if s.wfails[k] {
		return c06ErrWrite
	}
	_, err := proto.Marshal(m)
	return err
}
func (s *c06Stream) Reset() error { return nil }
func (s *c06Stream) Close() error { return nil }

type c06Registry bool

func (r c06Registry) CheckProviderRegistered(context.Context, common.Address) bool { return bool(r) }

func c06Key(seed byte) *ecdsa.PrivateKey {
	k, err := crypto.ToECDSA(bytes.Repeat([]byte{seed}, 32))
	if err != nil {
		panic(err)
	}
	return k
}

var c06OwnKey = c06Key(0x71)
var c06RemoteKey = c06Key(0x72)
var c06ForeignKey = c06Key(0x73)

func c06PeerID(k *ecdsa.PrivateKey) []byte {
	pk, err := libp2pcrypto.UnmarshalSecp256k1PrivateKey(crypto.FromECDSA(k))
	if err != nil {
		panic(err)
	}
	id, err := peer.IDFromPublicKey(pk.GetPublic())
	if err != nil {
		panic(err)
	}
	return []byte(id)
}

func c06SigOK(sig, data []byte) bool {
	if len(sig) != 65 {
		return false
	}
	h := crypto.Keccak256(data)
	pub, err := crypto.SigToPub(h, sig)
	if err != nil {
		return false
	}
	return crypto.VerifySignature(crypto.FromECDSAPub(pub), h, sig[:64])
}

// summary of the k-th read: Handle reads a request then a response, Handshake the other way round
func c06CoqRead(f c06Frame, asReq bool) string {
	if f.Eof {
		return "HsErr"
	}
	if asReq {
		m := new(handshakepb.HandshakeReq)
		if proto.Unmarshal(f.wire(), m) != nil {
			return "HsErr"
		}
		return coqApp("HsReq", coqBool(p2p.FromString(m.PeerType) >= 0), coqN(uint64(len(m.Token))), coqN(uint64(len(m.Sig))),
			coqBool(c06SigOK(m.Sig, []byte(m.PeerType+m.Token))))
	}
	m := new(handshakepb.HandshakeResp)
	if proto.Unmarshal(f.wire(), m) != nil {
		return "HsErr"
	}
	return coqApp("HsResp", coqN(uint64(len(m.ObservedAddress))), coqN(uint64(len(m.PeerType))))
}

func c06Run(in c06In) (obs c06Obs, inp string) {
	if in.Entry == "peer-id-address" {
		inp = coqApp("EPeerIDAddress", coqN(uint64(in.Kind)))
		defer func() {
			if r := recover(); r != nil {
				obs = c06Obs{Panic: true, Note: fmt.Sprint(r)}
			}
		}()
		if _, err := libp2p.GetEthAddressFromPeerID(core.PeerID(in.PeerID)); err != nil {
			obs.Res = 1
			obs.Note = err.Error()
		}
		return
	}
	var reads, wf []string
	for k, f := range in.Script {
		if k >= 2 {
			break
		}
		reads = append(reads, c06CoqRead(f, (k == 0) == (in.Entry == "handshake-handle")))
	}
	for _, k := range in.WFails {
		wf = append(wf, coqN(uint64(k)))
	}
	ctor := "EHsInitiate"
	if in.Entry == "handshake-handle" {
		ctor = "EHsHandle"
	}
	inp = coqApp(ctor, coqList(reads), coqList(wf))
	defer func() {
		if r := recover(); r != nil {
			obs = c06Obs{Panic: true, Note: fmt.Sprint(r)}
		}
	}()
	ks := mockkeysigner.NewMockKeySigner(c06OwnKey, crypto.PubkeyToAddress(c06OwnKey.PublicKey))
	svc, err := handshake.New(ks, p2p.PeerType(in.OwnType), in.Token, signer.New(), c06Registry(in.Staked),
		libp2p.GetEthAddressFromPeerID)
	if err != nil {
		return c06Obs{Res: 2, Note: "handshake.New: " + err.Error()}, inp
	}
	st := &c06Stream{in: in.Script, wfails: map[int]bool{}}
	for _, k := range in.WFails {
		st.wfails[k] = true
	}
	if in.Entry == "handshake-handle" {
		_, err = svc.Handle(context.Background(), st, core.PeerID(in.PeerID))
	} else {
		_, err = svc.Handshake(context.Background(), core.PeerID(in.PeerID), st)
	}
	if err != nil {
		obs.Res = 1
		obs.Note = err.Error()
		if len(obs.Note) > 100 {
			obs.Note = obs.Note[:100]
		}
	}
	return
}

// ---- wire builders -------------------------------------------------------------------------------------

func c06Req(role, token string, sig []byte) []byte {
	var b []byte
	if role != "" {
		b = protowire.AppendString(protowire.AppendTag(b, 1, protowire.BytesType), role)
	}
	if token != "" {
		b = protowire.AppendString(protowire.AppendTag(b, 2, protowire.BytesType), token)
	}
	if len(sig) > 0 {
		b = protowire.AppendBytes(protowire.AppendTag(b, 3, protowire.BytesType), sig)
	}
	return b
}

func c06Resp(addr []byte, role string) []byte {
	var b []byte
	if len(addr) > 0 {
		b = protowire.AppendBytes(protowire.AppendTag(b, 1, protowire.BytesType), addr)
	}
	if role != "" {
		b = protowire.AppendString(protowire.AppendTag(b, 2, protowire.BytesType), role)
	}
	return b
}

func c06SignReq(k *ecdsa.PrivateKey, role, token string) []byte {
	sig, err := crypto.Sign(crypto.Keccak256([]byte(role+token)), k)
	if err != nil {
		panic(err)
	}
	return sig
}

func c06Rand(r *rand.Rand, n int) []byte { b := make([]byte, n); r.Read(b); return b }

var c06Roles = []string{"bidder", "provider", "bootnode", "", "unknown", "Bidder", "bidder ", "validator", "\x00", "provider\x00"}

func c06HostileReq(r *rand.Rand, token string) c06Frame {
	role := c06Roles[r.Intn(len(c06Roles))]
	tok := token
	if r.Intn(4) == 0 {
		tok = []string{"", "x", "other"}[r.Intn(3)]
	}
	sig := c06SignReq(c06RemoteKey, role, tok)
	switch r.Intn(10) {
	case 0:
		sig = nil
	case 1:
		n := r.Intn(71)
		if n <= 65 {
			sig = sig[:n]
		} else {
			sig = append(sig, c06Rand(r, n-65)...)
		}
	case 2:
		sig = c06Rand(r, 65)
	case 3:
		sig = c06SignReq(c06ForeignKey, role, tok)
	case 4:
		sig[64] = []byte{2, 3, 27, 28, 29, 255}[r.Intn(6)]
	case 5:
		sig = bytes.Repeat([]byte{0xab}, 1<<16)
	case 6:
		sig[r.Intn(64)] ^= 0x10
	}
	f := c06Frame{Raw: c06Req(role, tok, sig)}
	if r.Intn(12) == 0 {
		f = c06Frame{Raw: c06Req(role, "", sig), RawN: 1 << 20}
	}
	return f
}

func c06HostileResp(r *rand.Rand, ownType int) c06Frame {
	addr := crypto.PubkeyToAddress(c06OwnKey.PublicKey).Bytes()
	role := p2p.PeerType(ownType).String()
	switch r.Intn(8) {
	case 0:
		addr = nil
	case 1:
		addr = addr[:r.Intn(20)]
	case 2:
		addr = c06Rand(r, 20)
	case 3:
		addr = append(addr, c06Rand(r, 1+r.Intn(20))...)
	case 4:
		addr = bytes.Repeat([]byte{1}, 1<<16)
	case 5:
		role = c06Roles[r.Intn(len(c06Roles))]
	}
	return c06Frame{Raw: c06Resp(addr, role)}
}

func c06HostileFrame(r *rand.Rand, honest c06Frame, other c06Frame) c06Frame {
	switch r.Intn(6) {
	case 0:
		return c06Frame{Eof: true}
	case 1:
		return c06Frame{Raw: c06Rand(r, r.Intn(80))}
	case 2:
		return other // a valid message of the other type
	case 3:
		w := honest.wire()
		if len(w) > 1 {
			return c06Frame{Raw: w[:1+r.Intn(len(w)-1)]}
		}
		return c06Frame{Raw: []byte{0x0a}}
	case 4:
		return c06Frame{Raw: []byte{}}
	}
	return c06Frame{Raw: []byte{0x0a, 0xff, 0xff, 0xff, 0xff, 0x0f}} // length-delimited field announcing 4 GiB
}

type c06KindID struct {
	kind int
	id   []byte
}

// c06PeerIDs: a peer id of every key type libp2p knows, and malformed ones.
func c06PeerIDs(r *rand.Rand, secp []byte) []c06KindID {
	out := []c06KindID{{0, secp}}
	for _, kt := range [][2]int{{1, libp2pcrypto.Ed25519}, {2, libp2pcrypto.RSA}, {3, libp2pcrypto.ECDSA}} {
		kind, typ := kt[0], kt[1]
		_, pub, err := libp2pcrypto.GenerateKeyPairWithReader(typ, 2048, r)
		if err != nil {
			panic(err)
		}
		id, err := peer.IDFromPublicKey(pub)
		if err != nil {
			panic(err)
		}
		out = append(out, c06KindID{kind, []byte(id)})
	}
	// identity multihash around a secp256k1 protobuf key whose 33 bytes are not a curve point / have a bad prefix
	for _, mut := range []func(b []byte){
		func(b []byte) { copy(b[len(b)-32:], bytes.Repeat([]byte{0xff}, 32)) },
		func(b []byte) { b[len(b)-33] = 0x05 },
		func(b []byte) { copy(b[len(b)-32:], make([]byte, 32)) },
	} {
		b := append([]byte{}, secp...)
		mut(b)
		out = append(out, c06KindID{4, b})
	}
	// hashed ids: sha2-256 multihash (0x12 0x20 digest)
	out = append(out, c06KindID{5, append([]byte{0x12, 0x20}, c06Rand(r, 32)...)})
	out = append(out, c06KindID{6, nil}, c06KindID{6, []byte{}})
	out = append(out, c06KindID{7, secp[:len(secp)-1]}, c06KindID{7, append(append([]byte{}, secp...), 1)}, c06KindID{7, []byte{0x00, 0x01, 0x07}},
		c06KindID{7, []byte{0x00, 0x00}}, c06KindID{7, c06Rand(r, 40)})
	return out
}

func TestVerifC06(t *testing.T) {
	e := vfOpen(t, 200)
	defer e.Close()
	run := func(class string, in c06In) {
		obs, inp := c06Run(in)
		o := "OPanic"
		if !obs.Panic {
			o = coqApp("ONoPanic", coqN(uint64(obs.Res)))
		}
		e.Emit(class, in, obs, func(id int) string { return coqRecord("id", coqN(uint64(id)), "inp", inp, "obs", o) })
	}
	for _, raw := range e.Replay {
		var in c06In
		if err := json.Unmarshal(raw, &in); err != nil || in.Pkg != c06Pkg {
			continue
		}
		run("replay", in)
	}
	if e.OnlyReplay() {
		return
	}
	r := e.rng
	const token = "secret"
	ownAddr := crypto.PubkeyToAddress(c06OwnKey.PublicKey).Bytes()
	pid := c06PeerID(c06RemoteKey)
	honestReq := func(role string) c06Frame { return c06Frame{Raw: c06Req(role, token, c06SignReq(c06RemoteKey, role, token))} }
	honestResp := func(t int) c06Frame { return c06Frame{Raw: c06Resp(ownAddr, p2p.PeerType(t).String())} }
	base := func(entry string, script ...c06Frame) c06In {
		return c06In{Pkg: c06Pkg, Entry: entry, OwnType: 2, Token: token, PeerID: pid, Staked: true, Script: script}
	}
	// honest controls
	for _, role := range []string{"bidder", "provider", "bootnode"} {
		run("honest", base("handshake-handle", honestReq(role), honestResp(2)))
		run("honest", base("handshake-initiate", honestResp(2), honestReq(role)))
	}
	// every signature length at both places a request is read
	for n := 0; n <= 70; n++ {
		sig := c06SignReq(c06RemoteKey, "bidder", token)
		if n <= 65 {
			sig = sig[:n]
		} else {
			sig = append(sig, c06Rand(r, n-65)...)
		}
		f := c06Frame{Raw: c06Req("bidder", token, sig)}
		run("sweep-siglen", base("handshake-handle", f, honestResp(2)))
		run("sweep-siglen", base("handshake-initiate", honestResp(2), f))
	}
	// failures at every position: reads 0,1 ; writes 0,1,2
	for _, entry := range []string{"handshake-handle", "handshake-initiate"} {
		first, second := honestReq("provider"), honestResp(2)
		if entry == "handshake-initiate" {
			first, second = second, first
		}
		run("fail-position", base(entry))
		run("fail-position", base(entry, c06Frame{Eof: true}))
		run("fail-position", base(entry, first))
		run("fail-position", base(entry, first, c06Frame{Eof: true}))
		for w := 0; w < 3; w++ {
			in := base(entry, first, second)
			in.WFails = []int{w}
			run("fail-position", in)
		}
		in := base(entry, first, second)
		in.Staked = false
		run("unstaked", in)
	}
	// garbage transport identities
	for _, id := range [][]byte{nil, {}, {0}, c06Rand(r, 10), c06Rand(r, 34), c06Rand(r, 38), bytes.Repeat([]byte{0xff}, 4096), pid[:len(pid)-1]} {
		in := base("handshake-handle", honestReq("bidder"), honestResp(2))
		in.PeerID = id
		run("garbage-peerid", in)
		in = base("handshake-initiate", honestResp(2), honestReq("bidder"))
		in.PeerID = id
		run("garbage-peerid", in)
	}
	// transport identities from which no Ethereum address can be derived, behind a correctly signed request
	for _, k := range c06PeerIDs(r, pid) {
		run("peerid-kinds", c06In{Pkg: c06Pkg, Entry: "peer-id-address", PeerID: k.id, Kind: k.kind})
		for _, role := range []string{"bidder", "provider"} {
			in := base("handshake-handle", honestReq(role), honestResp(2))
			in.PeerID = k.id
			run("foreign-identity", in)
			in = base("handshake-initiate", honestResp(2), honestReq(role))
			in.PeerID = k.id
			run("foreign-identity", in)
		}
	}
	for i := 0; i < 3*e.N; i++ {
		ownType := []int{0, 1, 2, 2, 2, 3, -1, 1 << 30}[r.Intn(8)]
		req, resp := honestReq("bidder"), honestResp(ownType)
		if r.Intn(4) > 0 {
			req = c06HostileReq(r, token)
		}
		if r.Intn(3) == 0 {
			resp = c06HostileResp(r, ownType)
		}
		if r.Intn(4) == 0 {
			req = c06HostileFrame(r, req, resp)
		}
		if r.Intn(6) == 0 {
			resp = c06HostileFrame(r, resp, req)
		}
		var in c06In
		if r.Intn(2) == 0 {
			in = base("handshake-handle", req, resp)
		} else {
			in = base("handshake-initiate", resp, req)
		}
		in.OwnType = ownType
		in.Staked = r.Intn(3) > 0
		if r.Intn(8) == 0 {
			in.WFails = []int{r.Intn(3)}
		}
		if r.Intn(10) == 0 {
			in.Script = in.Script[:r.Intn(2)]
		}
		if r.Intn(10) == 0 {
			in.PeerID = c06PeerID(c06ForeignKey)
		}
		run("hostile-script", in)
	}
}
