package libp2p

import (
	"encoding/json"
	"fmt"
	"math/rand"
	"strings"
	"testing"
)

type c16In struct {
	Incoming  []byte
	Name      []byte
	Supported []byte
}

func c16Run(in c16In) (obs int) {
	defer func() {
		if r := recover(); r != nil {
			obs = 2
		}
	}()
	m, _ := matchProtocolIDWithSemver(string(in.Incoming), string(in.Name), string(in.Supported))
	if m {
		return 1
	}
	return 0
}

func c16Malformed(r *rand.Rand) c16In {
	names := []string{"preconf", "handshake", "discovery", "", "a/b", "ünï", "pre conf"}
	pieces := []string{"", "/", "//", "1", "0", "01", "1.0.0", "1.2", "v1.2.3", "1.2.3-rc1", "1.2.3+meta",
		"-1.0.0", "+1.0.0", " 1.0.0", "1.0.0 ", "1..0", ".1.0", "1.0.", "1.0.0.0", "18446744073709551615.0.0",
		"18446744073709551616.0.0", "0.18446744073709551616.0", "99999999999999999999999.1.1", "1.a.0", "x",
		"\xff\xfe", "1.٢.3", "1.0.0\n", "1,0,0", "0x1.0.0", "1e3.0.0", "preconf", "handshake"}
	pick := func() string { return pieces[r.Intn(len(pieces))] }
	var inc string
	switch r.Intn(6) {
	case 0:
		inc = "/" + names[r.Intn(len(names))] + "/" + pick()
	case 1:
		inc = names[r.Intn(len(names))] + "/" + pick()
	case 2:
		inc = "/" + names[r.Intn(len(names))] + "/" + pick() + "/" + pick()
	case 3:
		inc = pick() + "/" + names[r.Intn(len(names))] + "/" + pick()
	case 4:
		b := make([]byte, r.Intn(12))
		for i := range b {
			b[i] = "/.0123456789av-+ \xff"[r.Intn(18)]
		}
		inc = string(b)
	default:
		inc = strings.Repeat("/", r.Intn(5)) + pick()
	}
	sup := "1.0.0"
	if r.Intn(3) == 0 {
		sup = pick()
	}
	return c16In{[]byte(inc), []byte(names[r.Intn(len(names))]), []byte(sup)}
}

func TestVerifC16(t *testing.T) {
	e := vfOpen(t, 1)
	defer e.Close()
	run := func(class string, in c16In) {
		obs := c16Run(in)
		e.Emit(class, in, obs, func(id int) string {
			return coqRecord("id", coqN(uint64(id)), "incoming", coqBytes(in.Incoming), "hname", coqBytes(in.Name),
				"supported", coqBytes(in.Supported), "obs", coqN(uint64(obs)))
		})
	}
	for _, raw := range e.Replay {
		var in c16In
		if err := json.Unmarshal(raw, &in); err != nil {
			t.Fatalf("bad replay input: %v", err)
		}
		run("replay", in)
	}
	if e.OnlyReplay() {
		return
	}
	// exhaustive small range: components in [0,K]^6, K by tier
	K := 2
	names := [][2]string{{"preconf", "preconf"}, {"preconf", "handshake"}}
	if e.Tier == "thorough" {
		K = 3
		names = append(names, [2]string{"a", "a"})
	}
	for _, nm := range names {
		for M := 0; M <= K; M++ {
			for m := 0; m <= K; m++ {
				for p := 0; p <= K; p++ {
					for HM := 0; HM <= K; HM++ {
						for Hm := 0; Hm <= K; Hm++ {
							for Hp := 0; Hp <= K; Hp++ {
								run("exhaustive", c16In{
									[]byte(fmt.Sprintf("/%s/%d.%d.%d", nm[0], M, m, p)),
									[]byte(nm[1]),
									[]byte(fmt.Sprintf("%d.%d.%d", HM, Hm, Hp))})
							}
						}
					}
				}
			}
		}
	}
	// boundaries of the 64-bit components
	bounds := []string{"0", "1", "9", "10", "9223372036854775807", "9223372036854775808",
		"18446744073709551615", "18446744073709551616", "100000000000000000000", "007"}
	for _, a := range bounds {
		for _, b := range bounds {
			run("boundary", c16In{[]byte("/preconf/" + a + "." + b + ".0"), []byte("preconf"), []byte(b + "." + a + ".0")})
			run("boundary", c16In{[]byte("/preconf/" + a + "." + a + "." + b), []byte("preconf"), []byte(a + "." + b + ".1")})
		}
	}
	// random numeric
	for i := 0; i < e.N; i++ {
		c := func() uint64 {
			switch e.rng.Intn(4) {
			case 0:
				return uint64(e.rng.Intn(4))
			case 1:
				return uint64(e.rng.Intn(1000))
			case 2:
				return e.rng.Uint64()
			default:
				return ^uint64(0) - uint64(e.rng.Intn(3))
			}
		}
		M, m := c(), c()
		HM, Hm := M, m
		if e.rng.Intn(3) == 0 {
			HM = c()
		}
		if e.rng.Intn(2) == 0 {
			Hm = c()
		}
		run("random-numeric", c16In{[]byte(fmt.Sprintf("/preconf/%d.%d.%d", M, m, c())), []byte("preconf"),
			[]byte(fmt.Sprintf("%d.%d.%d", HM, Hm, c()))})
	}
	// malformed identifiers
	for i := 0; i < e.N; i++ {
		run("malformed", c16Malformed(e.rng))
	}
}
