package libp2p

import (
	"context"
	"encoding/json"
	"fmt"
	"io"
	"math/big"
	"math/rand"
	"os"
	"os/exec"
	"runtime"
	"strconv"
	"strings"
	"sync"
	"testing"
	"time"

	"github.com/ethereum/go-ethereum/common"
	"github.com/ethereum/go-ethereum/crypto"
	"github.com/libp2p/go-libp2p/core/protocol"
	"github.com/prometheus/client_golang/prometheus"
	mockkeysigner "github.com/primevprotocol/mev-commit/pkg/keysigner/mock"
	"github.com/primevprotocol/mev-commit/pkg/p2p"
	"github.com/primevprotocol/mev-commit/pkg/util"
)

type c16In struct {
	Incoming  []byte
	Name      []byte
	Supported []byte
	// routing cases (two real services): Descs registered on one node, in one AddStreamHandlers call or one
	// call each; Incoming is then the identifier "/name/version" a connected peer opens
	Routing bool
	Descs   [][2]string
	OneCall bool
	// concurrent negotiations: Stress > 0 runs the matcher from many goroutines for Stress milliseconds in a
	// child process (a runtime fatal error such as "concurrent map writes" cannot be recovered in-process)
	Stress int
	// generated numeric identifier: the generator's own data.  Incoming/Name/Supported are spelled from it
	// ("/"+IName+"/"+V[0]+"."+V[1]+"."+V[2] against HV[0]+"."+HV[1]+"."+HV[2]); every entry of V, HV is a string
	// of decimal digits (leading zeros allowed, any size)
	Num *c16Num `json:",omitempty"`
	// hostile identifier end to end: two real services in a CHILD process; a connected peer opens Incoming (raw bytes)
	// with host.NewStream against a node that registered Descs
	E2E bool `json:",omitempty"`
	// local role of the node that registers the handlers (routing and e2e cases): "bootnode", "provider", "bidder",
	// "unset" (Options without a PeerType); absent = "bidder"
	Role string `json:",omitempty"`
}

// c16Opts: the options of a node with the given local role
func c16Opts(role string) (*Options, error) {
	k, err := crypto.GenerateKey()
	if err != nil {
		return nil, err
	}
	o := &Options{
		KeySigner:  mockkeysigner.NewMockKeySigner(k, crypto.PubkeyToAddress(k.PublicKey)),
		Secret:     "test",
		ListenPort: 0,
		ListenAddr: "127.0.0.1",
		Register:   c16Reg{},
		Logger:     util.NewTestLogger(io.Discard),
	}
	switch role {
	case "bootnode":
		o.PeerType = p2p.PeerTypeBootnode
	case "provider":
		o.PeerType = p2p.PeerTypeProvider
	case "unset":
	default:
		o.PeerType = p2p.PeerTypeBidder
	}
	return o, nil
}

var c16Roles = []string{"bidder", "bootnode", "provider", "unset"}

// c16Scramble overwrites the caller's descriptor slice after registration: what was registered must not change
func c16Scramble(sd []p2p.StreamDesc, invoked chan int) {
	for i := range sd {
		sd[i] = p2p.StreamDesc{Name: "zz-scrambled", Version: "99.99.99", Handler: func(context.Context, p2p.Peer, p2p.Stream) error {
			invoked <- 90
			return nil
		}}
	}
}

type c16Num struct {
	Pre   []byte // what stands in front of the first '/' (must be empty for a match); raw bytes, no '/'
	IName string
	V, HV [3]string
}

func c16Numeric(pres, iname string, v [3]string, hname string, hv [3]string) c16In {
	pre := []byte(pres)
	return c16In{Incoming: []byte(pres + "/" + iname + "/" + v[0] + "." + v[1] + "." + v[2]), Name: []byte(hname),
		Supported: []byte(hv[0] + "." + hv[1] + "." + hv[2]), Num: &c16Num{Pre: pre, IName: iname, V: v, HV: hv}}
}

// the numbers a numeric case was generated from, as Coq literals (read with math/big, not with the code under test)
func c16Nums(n *c16Num) (string, bool) {
	if strings.Contains(string(n.Pre), "/") {
		return "[]", false
	}
	var items []string
	for _, d := range append(append([]string{}, n.V[:]...), n.HV[:]...) {
		if d == "" || strings.Trim(d, "0123456789") != "" {
			return "[]", false
		}
		v, ok := new(big.Int).SetString(d, 10)
		if !ok {
			return "[]", false
		}
		items = append(items, coqBigN(v))
	}
	return coqList(items), true
}

// TestVerifC16Child is the body of the stress child process; it does nothing unless started by the driver.
func TestVerifC16Child(t *testing.T) {
	ms := os.Getenv("VERIF_C16_STRESS_MS")
	if ms == "" {
		t.Skip("child of TestVerifC16 only")
	}
	var d int
	fmt.Sscanf(ms, "%d", &d)
	if runtime.GOMAXPROCS(0) < 8 {
		runtime.GOMAXPROCS(8)
	}
	var wg sync.WaitGroup
	bad := make(chan string, 64)
	// all negotiations start together, in a process that has matched nothing yet: state that is filled lazily on first
	// use (caches of parsed versions, of names) is written by all of them at once
	start := make(chan struct{})
	var deadline time.Time
	const G = 48
	for g := 0; g < G; g++ {
		wg.Add(1)
		go func(g int) {
			defer wg.Done()
			names := []string{"preconf", "discovery", "handshake", "alpha"}
			<-start
			for i := 0; i < 40 || time.Now().Before(deadline); i++ {
				// versions nobody has asked for before, on both sides, and the handful everybody uses
				M, m, p := uint64(g%3), uint64((i*7+g)%50), uint64(i*G+g)
				HM, Hm, Hp := uint64((g+i)%3), uint64((i*3)%50), uint64(i%7)
				if i%4 == 3 {
					Hp = uint64(i*G + g)
				}
				n := names[(g+i)%len(names)]
				hn := n
				if i%3 == 2 {
					hn = names[(i/5)%len(names)]
				}
				got, _ := matchProtocolIDWithSemver(fmt.Sprintf("/%s/%d.%d.%d", n, M, m, p), hn, fmt.Sprintf("%d.%d.%d", HM, Hm, Hp))
				want := n == hn && M == HM && m <= Hm
				if got != want {
					select {
					case bad <- fmt.Sprintf("/%s/%d.%d.%d vs %s %d.%d.x: got %v want %v", n, M, m, p, hn, HM, Hm, got, want):
					default:
					}
				}
			}
		}(g)
	}
	time.Sleep(20 * time.Millisecond) // let every goroutine reach the barrier
	deadline = time.Now().Add(time.Duration(d) * time.Millisecond)
	close(start)
	wg.Wait()
	select {
	case b := <-bad:
		fmt.Println("C16STRESS WRONG " + b)
		t.Fatalf("wrong verdict under concurrency: %s", b)
	default:
		fmt.Println("C16STRESS OK")
	}
}

// c16Stress: 0 = all verdicts right, 1 = a wrong verdict under concurrency, 2 = the child crashed
func c16Stress(ms int) (int, string) {
	// lazily filled state is written only early in the life of a process: many short fresh processes, not one long one
	const rounds = 8
	inconclusive, note := 0, ""
	for r := 0; r < rounds; r++ {
		res, n := c16StressOnce(ms / rounds)
		if res > 0 {
			return res, n
		}
		if res < 0 {
			inconclusive++
			note = n
		}
	}
	if inconclusive > rounds/2 {
		return -1, note
	}
	return 0, ""
}

func c16StressOnce(ms int) (int, string) {
	txt := ""
	for attempt := 0; attempt < 2; attempt++ {
		cmd := exec.Command(os.Args[0], "-test.run=^TestVerifC16Child$", "-test.count=1", "-test.timeout=30m")
		cmd.Env = append(os.Environ(), fmt.Sprintf("VERIF_C16_STRESS_MS=%d", ms), "VERIF_OUT=")
		out, err := cmd.CombinedOutput()
		txt = string(out)
		if strings.Contains(txt, "C16STRESS OK") && err == nil {
			return 0, ""
		}
		if strings.Contains(txt, "C16STRESS WRONG") {
			return 1, txt[strings.Index(txt, "C16STRESS WRONG"):]
		}
		if strings.Contains(txt, "fatal error:") || strings.Contains(txt, "panic:") || strings.Contains(txt, "SIGSEGV") {
			if len(txt) > 600 {
				txt = txt[:600]
			}
			return 2, txt
		}
		// the child did not run to a verdict and did not crash either (could not be started, killed): environment
	}
	if len(txt) > 300 {
		txt = txt[:300]
	}
	return -1, "inconclusive: " + txt
}

type c16Reg struct{}

func (c16Reg) CheckProviderRegistered(context.Context, common.Address) bool { return true }

func c16NewSvc(t *testing.T, role string) *Service {
	o, err := c16Opts(role)
	if err != nil {
		t.Fatal(err)
	}
	svc, err := New(o)
	if err != nil {
		t.Fatal(err)
	}
	return svc
}


// c16Addr: the dialable address record of a started node; its listen addresses may take a moment to appear
func c16Addr(svc *Service, slow int) ([]byte, error) {
	deadline := time.Now().Add(time.Duration(slow) * 20 * time.Second)
	for {
		info := svc.host.Peerstore().PeerInfo(svc.host.ID())
		if len(info.Addrs) == 0 {
			info.Addrs = svc.host.Addrs()
		}
		if len(info.Addrs) > 0 {
			return info.MarshalJSON()
		}
		if time.Now().After(deadline) {
			return nil, fmt.Errorf("no listen address within the deadline")
		}
		time.Sleep(50 * time.Millisecond)
	}
}

// c16Setup: a serving node of the given role and a connected bidder client.  Failures here (listen, dial on a loaded
// machine) are failures of the environment, not observations: the caller retries and otherwise drops the cases.
func c16Setup(role string, slow int, metrics bool) (server, client *Service, peer p2p.Peer, err error) {
	mk := func(role string) (*Service, error) {
		o, err := c16Opts(role)
		if err != nil {
			return nil, err
		}
		if metrics {
			o.MetricsReg = prometheus.NewRegistry()
		}
		return New(o)
	}
	if server, err = mk(role); err != nil {
		return nil, nil, p2p.Peer{}, fmt.Errorf("server: %w", err)
	}
	if client, err = mk("bidder"); err != nil {
		_ = server.Close()
		return nil, nil, p2p.Peer{}, fmt.Errorf("client: %w", err)
	}
	return server, client, p2p.Peer{}, nil
}

func c16Connect(server, client *Service, slow int) (p2p.Peer, error) {
	addr, err := c16Addr(server, slow)
	if err != nil {
		return p2p.Peer{}, err
	}
	var last error
	for attempt := 0; attempt < 3; attempt++ {
		ctx, cancel := context.WithTimeout(context.Background(), time.Duration(slow)*60*time.Second)
		pr, err := client.Connect(ctx, addr)
		cancel()
		if err == nil {
			return pr, nil
		}
		last = err
		time.Sleep(200 * time.Millisecond)
	}
	return p2p.Peer{}, last
}

// c16Route registers descs on a fresh node and lets a connected peer open every identifier of opens;
// returns per identifier: 0 = refused by the negotiation, k = k-th handler ran, 99 = several handlers ran,
// 98 = opened but no handler ran within the wait, 97 = could not be opened for another reason than a refusal
func c16Route(t *testing.T, slow int, role string, descs [][2]string, oneCall bool, opens [][2]string) []int {
	for attempt := 0; attempt < 3; attempt++ {
		res, err := c16RouteOnce(slow, role, descs, oneCall, opens)
		if err == nil {
			return res
		}
		t.Logf("c16 routing: environment failure (attempt %d): %v", attempt+1, err)
	}
	return nil // inconclusive: the caller drops these cases
}

func c16RouteOnce(slow int, role string, descs [][2]string, oneCall bool, opens [][2]string) ([]int, error) {
	server, client, _, err := c16Setup(role, slow, false)
	if err != nil {
		return nil, err
	}
	defer server.Close()
	defer client.Close()
	invoked := make(chan int, 64)
	var sd []p2p.StreamDesc
	for i, d := range descs {
		k := i + 1
		sd = append(sd, p2p.StreamDesc{Name: d[0], Version: d[1], Handler: func(ctx context.Context, _ p2p.Peer, _ p2p.Stream) error {
			invoked <- k
			return nil
		}})
	}
	if oneCall {
		server.AddStreamHandlers(sd...)
	} else {
		for _, d := range sd {
			server.AddStreamHandlers(d)
		}
	}
	c16Scramble(sd, invoked)
	peer, err := c16Connect(server, client, slow)
	if err != nil {
		return nil, fmt.Errorf("connect: %w", err)
	}
	ctx, cancel := context.WithTimeout(context.Background(), time.Duration(slow)*10*time.Minute)
	defer cancel()
	res := make([]int, len(opens))
	wait := time.Duration(slow) * 10 * time.Second
	for i, o := range opens {
		// nothing of an earlier stream may be counted for this one
		for drained := false; !drained; {
			select {
			case <-invoked:
			default:
				drained = true
			}
		}
		octx, ocancel := context.WithTimeout(ctx, 3*wait)
		str, err := client.NewStream(octx, peer, nil, p2p.StreamDesc{Name: o[0], Version: o[1]})
		ocancel()
		got := 0
		if err != nil {
			// refused by the negotiation ("protocols not supported") = no handler matched; anything else
			// (deadline, reset) says nothing about the routing decision
			// (multistream.ErrNotSupported; recognised by its text, the module is only an indirect dependency)
			refused := strings.Contains(err.Error(), "protocols not supported")
			if !refused {
				got = 97
			}
			// a handler that ran although the opener saw an error is still a routing fact
			select {
			case got = <-invoked:
			case <-time.After(time.Duration(slow) * 150 * time.Millisecond):
			}
		} else {
			// the stream is open: a handler accepted it and answered the header exchange; it calls the
			// registered handler right after - wait for it (positively, generously)
			select {
			case got = <-invoked:
			case <-time.After(wait):
				got = 98
			}
			_ = str.Close()
		}
		// a second invocation for the same stream would be a routing defect too
		if got >= 1 && got < 97 {
			select {
			case <-invoked:
				got = 99
			case <-time.After(time.Duration(slow) * 20 * time.Millisecond):
			}
		}
		res[i] = got
	}
	return res, nil
}


type c16E2EJob struct {
	Role  string
	Descs [][2]string
	Ids   [][]byte
	Slow  int
}

type c16E2ERes struct {
	Obs  int    // 0 refused, k = k-th handler ran, 99 several, 98 opened but no handler, 97 failed otherwise, 2 = the child crashed
	Note string // the opener's error, or the tail of the crashed child's output
}

// TestVerifC16E2EChild is the body of the hostile-identifier child process: a server node with the job's descriptors
// (metrics registered, as the real node does), a connected client, every identifier opened with the RAW
// host.NewStream (what any connected peer can send; Service.NewStream would only build "/name/version").
func TestVerifC16E2EChild(t *testing.T) {
	path := os.Getenv("VERIF_C16_E2E_JOB")
	if path == "" {
		t.Skip("child of TestVerifC16 only")
	}
	raw, err := os.ReadFile(path)
	if err != nil {
		t.Fatal(err)
	}
	var job c16E2EJob
	if err := json.Unmarshal(raw, &job); err != nil {
		t.Fatal(err)
	}
	if job.Slow < 1 {
		job.Slow = 1
	}
	mk := func(role string) *Service {
		o, err := c16Opts(role)
		if err != nil {
			t.Fatal(err)
		}
		o.MetricsReg = prometheus.NewRegistry()
		svc, err := New(o)
		if err != nil {
			t.Fatal(err)
		}
		return svc
	}
	server, client := mk(job.Role), mk("bidder")
	defer server.Close()
	defer client.Close()
	invoked := make(chan int, 64)
	var sd []p2p.StreamDesc
	for i, d := range job.Descs {
		k := i + 1
		sd = append(sd, p2p.StreamDesc{Name: d[0], Version: d[1], Handler: func(ctx context.Context, _ p2p.Peer, _ p2p.Stream) error {
			invoked <- k
			return nil
		}})
	}
	server.AddStreamHandlers(sd...)
	c16Scramble(sd, invoked)
	ctx, cancel := context.WithTimeout(context.Background(), time.Duration(job.Slow)*10*time.Minute)
	defer cancel()
	if _, err := c16Connect(server, client, job.Slow); err != nil {
		t.Fatalf("c16 e2e: connect: %v", err)
	}
	wait := time.Duration(job.Slow) * 10 * time.Second
	fmt.Printf("\nC16E2E READY\n")
	for i, id := range job.Ids {
		fmt.Printf("\nC16E2E START %d\n", i)
		for drained := false; !drained; {
			select {
			case <-invoked:
			default:
				drained = true
			}
		}
		got, note := 0, ""
		octx, ocancel := context.WithTimeout(ctx, 3*wait)
		str, err := client.host.NewStream(octx, server.host.ID(), protocol.ID(string(id)))
		if err == nil {
			// what Service.NewStream does next: the header exchange, after which the wrapper calls the handler
			m := newMetadataStream(str)
			if err = m.WriteHeader(octx, p2p.Header{}); err == nil {
				_, err = m.ReadHeader(octx)
			}
			if err != nil {
				_ = str.Reset()
			}
		}
		if err != nil {
			note = err.Error()
			if len(note) > 200 {
				note = note[:200]
			}
			if !strings.Contains(err.Error(), "protocols not supported") {
				got = 97
			}
			select {
			case got = <-invoked:
			case <-time.After(time.Duration(job.Slow) * 40 * time.Millisecond):
			}
		} else {
			select {
			case got = <-invoked:
			case <-time.After(wait):
				got = 98
			}
			_ = str.Close()
		}
		ocancel()
		if got >= 1 && got < 97 {
			select {
			case <-invoked:
				got = 99
			case <-time.After(time.Duration(job.Slow) * 20 * time.Millisecond):
			}
		}
		// the node must still be there: a crash on one of its goroutines ends this process before the next line
		time.Sleep(time.Duration(job.Slow) * 15 * time.Millisecond)
		fmt.Printf("\nC16E2E RES %d %d %s\n", i, got, strconv.Quote(note))
	}
	fmt.Printf("\nC16E2E DONE\n")
}

// c16E2E runs the identifiers in child processes; an identifier during which the child died is observed as 2 and the
// remaining ones continue in a fresh child
func c16E2E(role string, descs [][2]string, ids [][]byte, slow int) []c16E2ERes {
	res := make([]c16E2ERes, len(ids))
	for i := range res {
		res[i].Obs = -1
	}
	next, setupFailures := 0, 0
	for next < len(ids) {
		f, err := os.CreateTemp("", "c16e2e*.json")
		if err != nil {
			panic(err)
		}
		job, _ := json.Marshal(c16E2EJob{Role: role, Descs: descs, Ids: ids[next:], Slow: slow})
		_, _ = f.Write(job)
		_ = f.Close()
		cmd := exec.Command(os.Args[0], "-test.run=^TestVerifC16E2EChild$", "-test.count=1", "-test.timeout=30m")
		cmd.Env = append(os.Environ(), "VERIF_C16_E2E_JOB="+f.Name(), "VERIF_OUT=")
		out, _ := cmd.CombinedOutput()
		_ = os.Remove(f.Name())
		txt := string(out)
		started, base := -1, next
		for _, line := range strings.Split(txt, "\n") {
			var i, o int
			if n, _ := fmt.Sscanf(line, "C16E2E START %d", &i); n == 1 {
				started = i
				continue
			}
			if strings.HasPrefix(line, "C16E2E RES ") {
				var q string
				rest := strings.TrimPrefix(line, "C16E2E RES ")
				if n, _ := fmt.Sscanf(rest, "%d %d", &i, &o); n == 2 && base+i < len(ids) {
					if k := strings.Index(rest, "\""); k >= 0 {
						q, _ = strconv.Unquote(rest[k:])
					}
					res[base+i] = c16E2ERes{Obs: o, Note: q}
					if base+i >= next {
						next = base + i + 1
					}
				}
			}
		}
		if strings.Contains(txt, "C16E2E DONE") {
			break
		}
		// the child ended early
		tail := txt
		if len(tail) > 1500 {
			tail = tail[len(tail)-1500:]
		}
		if !strings.Contains(txt, "C16E2E READY") {
			// the two services could not be set up (busy machine): nothing observed, nothing claimed; one more try
			setupFailures++
			if setupFailures < 3 {
				continue
			}
			for i := next; i < len(ids); i++ {
				res[i] = c16E2ERes{Obs: -2, Note: "child set-up failed: " + tail}
			}
			break
		}
		if started >= 0 && base+started < len(ids) && res[base+started].Obs < 0 {
			res[base+started] = c16E2ERes{Obs: 2, Note: tail}
			next = base + started + 1
		} else if started >= 0 && base+started < len(ids) {
			// died after the result of the last identifier was printed: that identifier's doing
			res[base+started] = c16E2ERes{Obs: 2, Note: "after the result: " + tail}
			next = base + started + 1
		} else {
			break
		}
	}
	for i := range res {
		if res[i].Obs == -1 {
			res[i] = c16E2ERes{Obs: -2, Note: "no result"}
		}
	}
	return res
}

func c16Run(in c16In) (obs int) {
	defer func() {
		if r := recover(); r != nil {
			obs = 2
		}
	}()
	m, _ := matchProtocolIDWithSemver(string(in.Incoming), string(in.Name), string(in.Supported))
	if m {
		return 1
	}
	return 0
}

func c16Malformed(r *rand.Rand) c16In {
	names := []string{"preconf", "handshake", "discovery", "", "a/b", "ünï", "pre conf"}
	pieces := []string{"", "/", "//", "1", "0", "01", "1.0.0", "1.2", "v1.2.3", "1.2.3-rc1", "1.2.3+meta",
		"-1.0.0", "+1.0.0", " 1.0.0", "1.0.0 ", "1..0", ".1.0", "1.0.", "1.0.0.0", "18446744073709551615.0.0",
		"18446744073709551616.0.0", "0.18446744073709551616.0", "99999999999999999999999.1.1", "1.a.0", "x",
		"\xff\xfe", "1.٢.3", "1.0.0\n", "1,0,0", "0x1.0.0", "1e3.0.0", "preconf", "handshake"}
	pick := func() string { return pieces[r.Intn(len(pieces))] }
	var inc string
	switch r.Intn(6) {
	case 0:
		inc = "/" + names[r.Intn(len(names))] + "/" + pick()
	case 1:
		inc = names[r.Intn(len(names))] + "/" + pick()
	case 2:
		inc = "/" + names[r.Intn(len(names))] + "/" + pick() + "/" + pick()
	case 3:
		inc = pick() + "/" + names[r.Intn(len(names))] + "/" + pick()
	case 4:
		b := make([]byte, r.Intn(12))
		for i := range b {
			b[i] = "/.0123456789av-+ \xff"[r.Intn(18)]
		}
		inc = string(b)
	default:
		inc = strings.Repeat("/", r.Intn(5)) + pick()
	}
	sup := "1.0.0"
	if r.Intn(3) == 0 {
		sup = pick()
	}
	return c16In{Incoming: []byte(inc), Name: []byte(names[r.Intn(len(names))]), Supported: []byte(sup)}
}

func TestVerifC16(t *testing.T) {
	e := vfOpen(t, 1)
	defer e.Close()
	coqDescs := func(ds [][2]string) string {
		var items []string
		for _, d := range ds {
			items = append(items, coqPair(coqStr(d[0]), coqStr(d[1])))
		}
		return coqList(items)
	}
	emit := func(class string, in c16In, rawObs interface{}, kind int, descs [][2]string, iname string, nums string, obs int) {
		ipre := ""
		if in.Num != nil && kind == 2 {
			ipre = string(in.Num.Pre)
		}
		e.Emit(class, in, rawObs, func(id int) string {
			return coqRecord("id", coqN(uint64(id)), "kind", coqN(uint64(kind)), "descs", coqDescs(descs), "incoming", coqBytes(in.Incoming),
				"hname", coqBytes(in.Name), "supported", coqBytes(in.Supported), "ipre", coqStr(ipre), "iname", coqStr(iname), "nums", nums, "obs", coqN(uint64(obs)))
		})
	}
	inconclusive := 0 // cases dropped because the environment (not the code under test) failed
	defer func() {
		if inconclusive > 0 {
			t.Logf("c16: %d cases inconclusive (environment failures), dropped", inconclusive)
		}
	}()
	run := func(class string, in c16In) {
		if in.Stress > 0 {
			// own case kind 3: 0 = every verdict right, 1 = a wrong verdict under concurrency, 2 = the child crashed
			res, note := c16Stress(in.Stress * e.Slow)
			type stressObs struct {
				Res  int
				Note string
			}
			if res < 0 {
				inconclusive++
				return
			}
			emit(class, in, stressObs{res, note}, 3, nil, "", "[]", res)
			return
		}
		if in.E2E {
			r := c16E2E(in.Role, in.Descs, [][]byte{in.Incoming}, e.Slow)[0]
			if r.Obs < 0 {
				inconclusive++
				return
			}
			emit(class, in, r, 4, in.Descs, "", "[]", r.Obs)
			return
		}
		if in.Routing {
			parts := strings.SplitN(strings.TrimPrefix(string(in.Incoming), "/"), "/", 2)
			if len(parts) != 2 {
				return
			}
			r := c16Route(t, e.Slow, in.Role, in.Descs, in.OneCall, [][2]string{{parts[0], parts[1]}})
			if r == nil {
				inconclusive++
				return
			}
			obs := r[0]
			emit(class, in, obs, 1, in.Descs, "", "[]", obs)
			return
		}
		if in.Num != nil {
			// the strings are (re)spelled from the generator's data, so that a replayed case is the same case
			in = c16Numeric(string(in.Num.Pre), in.Num.IName, in.Num.V, string(in.Name), in.Num.HV)
			if nums, ok := c16Nums(in.Num); ok {
				obs := c16Run(in)
				emit(class, in, obs, 2, nil, in.Num.IName, nums, obs)
				return
			}
			in.Num = nil
		}
		obs := c16Run(in)
		emit(class, in, obs, 0, nil, "", "[]", obs)
	}
	// routing through two real services: several descriptors registered in ONE AddStreamHandlers call and in
	// separate calls; every identifier is opened by a connected peer and must reach exactly the handler the rule names
	role := "bidder"
	routing := func(descs [][2]string, oneCall bool, opens [][2]string) {
		res := c16Route(t, e.Slow, role, descs, oneCall, opens)
		if res == nil {
			inconclusive += len(opens)
			return
		}
		for i, o := range opens {
			in := c16In{Incoming: []byte("/" + o[0] + "/" + o[1]), Routing: true, Descs: descs, OneCall: oneCall, Role: role}
			emit("routing", in, res[i], 1, descs, "", "[]", res[i])
		}
	}
	for _, raw := range e.Replay {
		var in c16In
		if err := json.Unmarshal(raw, &in); err != nil {
			t.Fatalf("bad replay input: %v", err)
		}
		run("replay", in)
	}
	if e.OnlyReplay() {
		return
	}
	{
		descs := [][2]string{{"alpha", "1.2.0"}, {"beta", "2.0.5"}, {"gamma", "0.3.1"}}
		opens := [][2]string{{"alpha", "1.2.0"}, {"beta", "2.0.5"}, {"gamma", "0.3.1"}, {"alpha", "1.0.7"}, {"alpha", "1.3.0"},
			{"alpha", "2.0.0"}, {"beta", "2.0.0"}, {"beta", "1.0.0"}, {"gamma", "0.3.9"}, {"gamma", "0.4.0"}, {"delta", "1.0.0"}}
		// every local role (the zero value of the role type included): the rule does not depend on who the node is
		for _, role = range c16Roles {
			routing(descs, true, opens)
			if role == "bidder" || e.Tier == "thorough" {
				routing(descs, false, opens)
			}
		}
		role = "bidder"
		routing(descs[:1], true, opens[:6])
		// a name registered again replaces the earlier handler (whatever its version was); other spellings of a number
		redescs := [][2]string{{"alpha", "1.2.0"}, {"beta", "2.0.5"}, {"alpha", "2.1.0"}}
		reopens := [][2]string{{"alpha", "1.0.0"}, {"alpha", "2.0.7"}, {"alpha", "2.1.0"}, {"alpha", "2.2.0"}, {"beta", "2.0.0"}, {"alpha", "02.01.9"}, {"beta", "002.000.1"}}
		routing(redescs, true, reopens)
		routing(redescs, false, reopens)
		routing([][2]string{{"demo", "10000000000.20000000000.0"}}, true, [][2]string{{"demo", "10000000000.10000000000.10000000000"},
			{"demo", "10000000000.20000000001.0"}, {"demo", "18446744073709551615.18446744073709551615.18446744073709551615"}})
		if e.Tier == "thorough" {
			routing([][2]string{{"p", "1.0.0"}, {"q", "1.0.0"}, {"r", "1.0.0"}, {"s", "1.0.0"}}, true,
				[][2]string{{"p", "1.0.0"}, {"q", "1.0.0"}, {"r", "1.0.0"}, {"s", "1.0.0"}, {"s", "1.1.0"}, {"t", "1.0.0"}})
		}
	}
	// hostile identifiers end to end (child process, two real services): what ANY connected peer can send with the raw
	// host.NewStream.  Never a crash of the node; the handler runs exactly when the rule matches.
	{
		descs := [][2]string{{"test", "1.2.0"}}
		good := "/test/1.0.0"
		var ids [][]byte
		add := func(x string) { ids = append(ids, []byte(x)) }
		// hostile first segments in front of an identifier that would match
		for _, pre := range []string{"\xff", "x", " ", "   ", "\xc3\x28", "\xed\xa0\x80", "\xf8\x88\x80\x80\x80", "é", "\x00", "test", "1.0.0", ".",
			"\n", strings.Repeat("a", 900), strings.Repeat("\xff", 64)} {
			add(pre + good)
		}
		// hostile names and versions
		for _, x := range []string{"/\xff/1.0.0", "/te\xffst/1.0.0", "/test\x00/1.0.0", "/test\xff/1.0.0", "/\xfftest/1.0.0", "/TEST/1.0.0", "/ test/1.0.0",
			"/test/\xff", "/test/1.0.\xff", "/test/1.0.0\xff", "/test/\xff1.0.0", "/test/1.\xff.0", "/test/v1.0.0", "/test/v1.0.0\xff", "/test/1.0",
			"/test/1.0.0-rc1", "/test/1.0.0-\xff", "/test/1.0.0+\xff", "/test/1.0.0+meta", "/test/1.0.0 ", "/test/ 1.0.0", "/test/1.0.0\n",
			"/test/1.0.0/", "/test/1.0.0/\xff", "//test/1.0.0", "/test//1.0.0"} {
			add(x)
		}
		// a byte that is not valid UTF-8 in every position of a matching identifier (replacing, and inserted)
		for i := 0; i <= len(good); i++ {
			if i < len(good) {
				add(good[:i] + "\xff" + good[i+1:])
			}
			add(good[:i] + "\xff" + good[i:])
		}
		// degenerate and very long identifiers (multistream refuses tokens over 1 KiB; nothing may crash)
		for _, x := range []string{"", "/", "//", "///", "/test", "/test/", "test/1.0.0", "test", strings.Repeat("/", 4096), strings.Repeat("a", 4096),
			"/test/" + strings.Repeat("1", 4090), "/" + strings.Repeat("a", 4084) + "/1.0.0", strings.Repeat("\xff", 4096),
			strings.Repeat("b", 1000) + good, "/test/" + strings.Repeat("0", 900) + "1.0.0"} {
			add(x)
		}
		// the rule itself end to end
		for _, x := range []string{good, "/test/1.2.9", "/test/01.1.0", "/test/1.3.0", "/test/2.0.0", "/test/0.9.0", "/tes/1.0.0",
			"/test/1.2.18446744073709551615", "/test/00000000000000000001.00000000000000000002.18446744073709551615", "/test/1.18446744073709551615.0"} {
			add(x)
		}
		// random bytes around the matching identifier
		nr := 12
		if e.Tier == "thorough" {
			nr = 200
		}
		for i := 0; i < nr; i++ {
			b := []byte(good)
			for k := e.rng.Intn(3) + 1; k > 0; k-- {
				pos := e.rng.Intn(len(b) + 1)
				c := []byte{"\xff\xfe\x80\xc0/. x0\x00"[e.rng.Intn(10)]}
				if e.rng.Intn(2) == 0 && pos < len(b) {
					b[pos] = c[0]
				} else {
					b = append(b[:pos], append(c, b[pos:]...)...)
				}
			}
			ids = append(ids, b)
		}
		// the rule's boundary for every role: one minor ahead of the handler must not be routed on any of them
		for _, x := range []string{"/test/1.3.0", "/test/1.2.0", "/test/1.99.0", "/test/2.2.0", "/test/0.2.0"} {
			add(x)
		}
		for _, r := range c16Roles {
			res := c16E2E(r, descs, ids, e.Slow)
			for i, id := range ids {
				if res[i].Obs < 0 {
					inconclusive++
					continue
				}
				in := c16In{Incoming: id, E2E: true, Descs: descs, Role: r}
				emit("hostile-id-e2e", in, res[i], 4, descs, "", "[]", res[i].Obs)
			}
		}
	}
	// concurrent negotiations (child process): a crash or a wrong verdict under concurrency is a violation
	if e.Tier == "thorough" {
		run("concurrent", c16In{Stress: 4000})
	} else {
		run("concurrent", c16In{Stress: 1200})
	}
	// exhaustive small range: components in [0,K]^6, K by tier
	K := 2
	names := [][2]string{{"preconf", "preconf"}, {"preconf", "handshake"}}
	if e.Tier == "thorough" {
		K = 3
		names = append(names, [2]string{"a", "a"})
	}
	for _, nm := range names {
		for M := 0; M <= K; M++ {
			for m := 0; m <= K; m++ {
				for p := 0; p <= K; p++ {
					for HM := 0; HM <= K; HM++ {
						for Hm := 0; Hm <= K; Hm++ {
							for Hp := 0; Hp <= K; Hp++ {
								run("exhaustive", c16Numeric("", nm[0], [3]string{fmt.Sprint(M), fmt.Sprint(m), fmt.Sprint(p)}, nm[1],
									[3]string{fmt.Sprint(HM), fmt.Sprint(Hm), fmt.Sprint(Hp)}))
							}
						}
					}
				}
			}
		}
	}
	// boundaries of the 64-bit components
	bounds := []string{"0", "1", "9", "10", "9223372036854775807", "9223372036854775808",
		"18446744073709551615", "18446744073709551616", "100000000000000000000", "007"}
	for _, a := range bounds {
		for _, b := range bounds {
			run("boundary", c16Numeric("", "preconf", [3]string{a, b, "0"}, "preconf", [3]string{b, a, "0"}))
			run("boundary", c16Numeric("", "preconf", [3]string{a, a, b}, "preconf", [3]string{a, b, "1"}))
		}
	}
	// random numeric
	for i := 0; i < e.N; i++ {
		c := func() uint64 {
			switch e.rng.Intn(4) {
			case 0:
				return uint64(e.rng.Intn(4))
			case 1:
				return uint64(e.rng.Intn(1000))
			case 2:
				return e.rng.Uint64()
			default:
				return ^uint64(0) - uint64(e.rng.Intn(3))
			}
		}
		M, m := c(), c()
		HM, Hm := M, m
		if e.rng.Intn(3) == 0 {
			HM = c()
		}
		if e.rng.Intn(2) == 0 {
			Hm = c()
		}
		run("random-numeric", c16Numeric("", "preconf", [3]string{fmt.Sprint(M), fmt.Sprint(m), fmt.Sprint(c())}, "preconf",
			[3]string{fmt.Sprint(HM), fmt.Sprint(Hm), fmt.Sprint(c())}))
	}
	// long version strings: several large components, each a valid 64-bit number (33 and more characters in all);
	// the length of an identifier is no reason to refuse it
	for i := 0; i < e.N/4+8; i++ {
		big1 := func() uint64 {
			switch e.rng.Intn(3) {
			case 0:
				return 10000000000 + uint64(e.rng.Intn(1000))
			case 1:
				return 1<<63 + e.rng.Uint64()>>1
			default:
				return ^uint64(0) - uint64(e.rng.Intn(1000))
			}
		}
		M, m, p := big1(), big1(), big1()
		HM, Hm, Hp := M, m, uint64(0)
		switch e.rng.Intn(5) {
		case 0:
			Hm = m - 1 - uint64(e.rng.Intn(5)) // handler one minor behind: no match
		case 1:
			HM = big1()
		case 2:
			Hm = m + uint64(e.rng.Intn(3)) // may wrap only when m is within 2 of the maximum: then Hm < m, still the rule
			Hp = big1()
		}
		nm := []string{"demo", "preconf"}[e.rng.Intn(2)]
		run("long-versions", c16Numeric("", nm, [3]string{fmt.Sprint(M), fmt.Sprint(m), fmt.Sprint(p)}, nm,
			[3]string{fmt.Sprint(HM), fmt.Sprint(Hm), fmt.Sprint(Hp)}))
	}
	run("long-versions", c16Numeric("", "demo", [3]string{"10000000000", "10000000000", "10000000000"}, "demo", [3]string{"10000000000", "20000000000", "0"}))
	// other spellings of the same numbers (leading zeros on either side), a non-empty first segment, other names:
	// the rule is the same on the whole numeric domain
	for i := 0; i < e.N/2; i++ {
		sp := func(v uint64) string {
			return strings.Repeat("0", e.rng.Intn(4)*e.rng.Intn(2)) + fmt.Sprint(v)
		}
		c := func() uint64 {
			if e.rng.Intn(6) == 0 {
				return ^uint64(0) - uint64(e.rng.Intn(2))
			}
			return uint64(e.rng.Intn(5))
		}
		nms := []string{"preconf", "handshake", "a", "ünï", "pre conf", "", "a/b", "preconf/"}
		pres := []string{"", "", "", "junk", "1.0.0", " ", "preconf", "x", "\xff", "\xc3\x28", strings.Repeat("a", 300), "\x00"}
		n := nms[e.rng.Intn(len(nms))]
		hn := n
		if e.rng.Intn(4) == 0 {
			hn = nms[e.rng.Intn(len(nms))]
		}
		M, m := c(), c()
		HM, Hm := M, m
		if e.rng.Intn(3) == 0 {
			HM = c()
		}
		if e.rng.Intn(2) == 0 {
			Hm = c()
		}
		run("spellings", c16Numeric(pres[e.rng.Intn(len(pres))], n, [3]string{sp(M), sp(m), sp(c())}, hn, [3]string{sp(HM), sp(Hm), sp(c())}))
	}
	// malformed identifiers
	for i := 0; i < e.N; i++ {
		run("malformed", c16Malformed(e.rng))
	}
}
