package libp2p

// Correspondence driver for property C14 (peer registry + stream-handler wrapper).
//
// The registry is the real peerRegistry of a Service value; connections and streams are fakes
// that only answer RemotePeer/IsClosed (connections) and Conn/Read/Write/Close/Reset (streams).
// The stream-handler wrapper is the real closure that Service.AddStreamHandlers hands to
// host.SetStreamHandlerMatch, captured by a fake host.  Each inbound stream runs that closure in
// its own goroutine; the driver parks it at two points without any hook in the repository:
//   G1  between getPeer and addStream: the Service's base context is a context.Context whose
//       Done method blocks -- context.WithCancel(s.baseCtx) calls it exactly once;
//   G3  inside the protocol handler (ss.Handler), which the driver supplies.
// All waiting is positive (a channel is signalled when a park point is reached or the closure
// returns); there are no settle times.  Only one closure is ever between park points.

import (
	"bytes"
	"context"
	"crypto/ecdsa"
	"encoding/json"
	"errors"
	"fmt"
	"io"
	"log/slog"
	"math/rand"
	"net"
	"reflect"
	"sort"
	"sync"
	"testing"
	"time"
	"unsafe"

	"github.com/ethereum/go-ethereum/common"
	ethcrypto "github.com/ethereum/go-ethereum/crypto"
	libp2pcrypto "github.com/libp2p/go-libp2p/core/crypto"
	"github.com/libp2p/go-libp2p/core/host"
	"github.com/libp2p/go-libp2p/core/network"
	"github.com/libp2p/go-libp2p/core/peer"
	"github.com/libp2p/go-libp2p/core/peerstore"
	"github.com/libp2p/go-libp2p/core/protocol"
	"github.com/libp2p/go-libp2p/p2p/host/peerstore/pstoremem"
	ma "github.com/multiformats/go-multiaddr"
	handshakepb "github.com/primevprotocol/mev-commit/gen/go/handshake/v1"
	mockkeysigner "github.com/primevprotocol/mev-commit/pkg/keysigner/mock"
	"github.com/primevprotocol/mev-commit/pkg/p2p"
	"github.com/primevprotocol/mev-commit/pkg/p2p/libp2p/internal/handshake"
	"github.com/primevprotocol/mev-commit/pkg/signer"
	"github.com/primevprotocol/mev-commit/pkg/util"
	"github.com/prometheus/client_golang/prometheus"
	"google.golang.org/protobuf/types/known/structpb"
)

type c14Ev struct {
	K string // connect | enrol | closed | lookup | track | start | end | rmstream | enrolrace | block | reenrolrace
	//              block: Service.blockPeer(peer P, forever)
	//              hsfail: peer P opens a handshake stream on connection C with an invalid signature:
	//              the real Service.handleConnectReq refuses and blocks it (reported as the event
	//              BlockPeer P: the registry must be left alone)
	//              connect: the enrolment is made by Service.Connect (outbound): real handshake with a
	//              real responder over an in-memory pipe, on connection C whose IsClosed answers
	//              Closed; the proven address is that of peer P's key, the role R.  When the peer is
	//              connected already Connect does not get that far: an ordinary enrol is made instead
	//              reenrolrace: connection C closes; while the notification of that is being consumed
	//              connection C2 of the same peer is enrolled
	//              enrolrace: addPeer on an open connection that closes while addPeer runs: its
	//              Disconnected notification is started (in its own goroutine, as the swarm does)
	//              from inside the IsClosed query, which then still answers false
	P      int  // peer index (enrol, closed, lookup, rmstream)
	C      int  // connection serial within the peer (enrol, closed)
	C2     int  // reenrolrace: the new connection
	A      int  // address index proven in the handshake (enrol)
	R      int  // role proven in the handshake (enrol)
	Closed bool // Conn.IsClosed() at the time of addPeer (enrol); addPeer then answers true and tracks nothing
	S      int  // stream index (lookup, track, start, end, rmstream)
}

type c14In struct {
	NP, NC, NA, NS int
	Evs            []c14Ev
}

type c14Snap struct {
	Over    [][]int64
	Under   [][]int64
	Conns   [][]int64
	Streams [][]int64
	Notes   []int64
	Sw      []int64
	Ctx     []int64
	Started []int64
}

type c14Step struct {
	Ev    c14Ev // the event this step reports (an "enrolrace" input yields an enrol and a closed step)
	Ret   int64
	Panic bool
	Seen  bool  // false: the state right after the event could not be observed
	Pend  int64 // notifications in flight when the call of this step returned
	Out   int64 // 0: direct addPeer; else what Service.Connect returned: 2 the peer, 1 an error (Coq: o_out = Out-1)
	Snap  c14Snap
}

type c14Obs struct{ Steps []c14Step }

// --- fakes -------------------------------------------------------------------------------------

type c14Conn struct {
	network.Conn
	pid      peer.ID
	p, k     int
	closed   bool
	notified bool   // its Disconnected notification has been delivered
	race     func() // close-during-enrol: runs once, inside the next IsClosed call
}

func (c *c14Conn) RemotePeer() peer.ID { return c.pid }
func (c *c14Conn) IsClosed() bool {
	if f := c.race; f != nil {
		c.race = nil
		f()
	}
	return c.closed
}
func (c *c14Conn) ID() string { return fmt.Sprintf("c14-%d-%d", c.p, c.k) }

type c14Stream struct {
	network.Stream
	idx    int
	p      int
	conn   *c14Conn
	rd     *bytes.Reader
	mu     sync.Mutex
	reset  bool
	g1     bool
	atG1   chan struct{}
	relG1  chan struct{}
	atG3   chan struct{}
	relG3  chan struct{}
	exited chan struct{}
	hctx   context.Context
	hpeer  p2p.Peer
	state  int64 // logical wrapper state reported to the checker
	begun  bool  // the handler start has been reported
}

func (s *c14Stream) Conn() network.Conn { return s.conn }
func (s *c14Stream) ID() string         { return fmt.Sprintf("c14-s%d", s.idx) }
func (s *c14Stream) Protocol() protocol.ID {
	return protocol.ID("/verif/1.0.0")
}
func (s *c14Stream) Read(b []byte) (int, error)  { return s.rd.Read(b) }
func (s *c14Stream) Write(b []byte) (int, error) { return len(b), nil }
func (s *c14Stream) Close() error                { return nil }
func (s *c14Stream) CloseRead() error            { return nil }
func (s *c14Stream) CloseWrite() error           { return nil }
func (s *c14Stream) Reset() error {
	s.mu.Lock()
	s.reset = true
	s.mu.Unlock()
	return nil
}
func (s *c14Stream) firstDone() bool {
	s.mu.Lock()
	defer s.mu.Unlock()
	if s.g1 {
		return false
	}
	s.g1 = true
	return true
}
func (s *c14Stream) wasReset() bool {
	s.mu.Lock()
	defer s.mu.Unlock()
	return s.reset
}

type c14Host struct {
	host.Host
	handler network.StreamHandler
	out     network.Stream // what the next NewStream returns (outbound handshake)
	ps      peerstore.Peerstore
}

func (h *c14Host) Connect(context.Context, peer.AddrInfo) error { return nil }
func (h *c14Host) NewStream(context.Context, peer.ID, ...protocol.ID) (network.Stream, error) {
	if h.out == nil {
		return nil, errors.New("c14: no outbound stream prepared")
	}
	s := h.out
	h.out = nil
	return s, nil
}
func (h *c14Host) Network() network.Network       { return c14Net{} }
func (h *c14Host) Peerstore() peerstore.Peerstore { return h.ps }

func (h *c14Host) SetStreamHandlerMatch(_ protocol.ID, _ func(protocol.ID) bool, f network.StreamHandler) {
	h.handler = f
}

type c14Buf struct{ bytes.Buffer }

func (*c14Buf) Close() error { return nil }
func (*c14Buf) Reset() error { return nil }

type c14World struct {
	mu      sync.Mutex
	cur     *c14Stream
	abort   bool
	notes   []int64
	addrs   map[common.Address]int
	pending int           // disconnect notifications started and not yet returned
	parkAt  chan struct{} // one-shot: the next notification signals here and waits for parkRel
	parkRel chan struct{}
}

func (w *c14World) pendingNow() int64 {
	w.mu.Lock()
	defer w.mu.Unlock()
	return int64(w.pending)
}

func (w *c14World) current() *c14Stream {
	w.mu.Lock()
	defer w.mu.Unlock()
	return w.cur
}

// the Service's base context: Done is the park point G1
type c14Ctx struct{ w *c14World }

func (c *c14Ctx) Deadline() (time.Time, bool) { return time.Time{}, false }
func (c *c14Ctx) Err() error                  { return nil }
func (c *c14Ctx) Value(any) any               { return nil }
func (c *c14Ctx) Done() <-chan struct{} {
	// WithCancel asks once when the child context is created; cancel functions ask again
	// (removeChild) -- only the first call of a stream's closure is the park point
	if st := c.w.current(); st != nil && st.firstDone() {
		close(st.atG1)
		<-st.relG1
	}
	return nil
}

func (w *c14World) Connected(p2p.Peer) {}
func (w *c14World) Disconnected(p p2p.Peer) {
	w.mu.Lock()
	w.pending++
	at, rel := w.parkAt, w.parkRel
	w.parkAt, w.parkRel = nil, nil
	w.mu.Unlock()
	if at != nil {
		// a slow consumer (the topology): the event is applied when the call proceeds
		close(at)
		<-rel
	}
	w.mu.Lock()
	defer w.mu.Unlock()
	a, found := w.addrs[p.EthAddress]
	if !found {
		a = -1
	}
	w.notes = append(w.notes, int64(a), int64(p.Type))
	w.pending--
}

const c14Wait = 30 * time.Second

func c14Await(what string, chans ...chan struct{}) int {
	t := time.NewTimer(c14Wait)
	defer t.Stop()
	switch len(chans) {
	case 1:
		select {
		case <-chans[0]:
			return 0
		case <-t.C:
		}
	case 2:
		select {
		case <-chans[0]:
			return 0
		case <-chans[1]:
			return 1
		case <-t.C:
		}
	}
	panic("c14: wrapper did not reach the next park point: " + what)
}

// identities: peer i < 8 has a fixed secp256k1 key; its peer id and Ethereum address are the ones
// libp2p and the handshake derive from that key (needed for the real outbound handshake).  Address
// indices beyond the keyed peers are synthetic.
type c14Ident struct {
	key  *ecdsa.PrivateKey
	pid  peer.ID
	addr common.Address
}

var (
	c14IdentOnce sync.Once
	c14Idents    []c14Ident // 0..7 the remote peers, 8 the local node
)

func c14Identities() []c14Ident {
	c14IdentOnce.Do(func() {
		for i := 0; i < 9; i++ {
			raw := make([]byte, 32)
			raw[0], raw[30], raw[31] = 0xc1, 0x14, byte(i+1)
			key, err := ethcrypto.ToECDSA(raw)
			if err != nil {
				panic(err)
			}
			lk, err := libp2pcrypto.UnmarshalSecp256k1PrivateKey(util.PadKeyTo32Bytes(key.D))
			if err != nil {
				panic(err)
			}
			id, err := peer.IDFromPublicKey(lk.GetPublic())
			if err != nil {
				panic(err)
			}
			c14Idents = append(c14Idents, c14Ident{key, id, ethcrypto.PubkeyToAddress(key.PublicKey)})
		}
	})
	return c14Idents
}

func c14Addr(i int) common.Address {
	if i >= 0 && i < 8 {
		return c14Identities()[i].addr
	}
	var a common.Address
	a[0] = 0xc1
	a[19] = byte(i + 1)
	return a
}

type c14Registry struct{}

func (c14Registry) CheckProviderRegistered(context.Context, common.Address) bool { return true }

// the stream Service.Connect opens for its handshake: one end of an in-memory pipe, on a fake
// connection whose IsClosed answer the driver controls
type c14Pipe struct {
	network.Stream
	end  net.Conn
	conn *c14Conn
}

func (s *c14Pipe) Conn() network.Conn          { return s.conn }
func (s *c14Pipe) Read(b []byte) (int, error)  { return s.end.Read(b) }
func (s *c14Pipe) Write(b []byte) (int, error) { return s.end.Write(b) }
func (s *c14Pipe) Close() error                { return s.end.Close() }
func (s *c14Pipe) Reset() error                { return s.end.Close() }

type c14Net struct{ network.Network }

func (c14Net) ClosePeer(peer.ID) error { return nil }

func c14Run(in c14In, hdrFrame []byte, slow int) (obs c14Obs) {
	w := &c14World{addrs: map[common.Address]int{}}
	for i := 0; i < in.NA; i++ {
		w.addrs[c14Addr(i)] = i
	}
	logger := slog.New(slog.NewTextHandler(io.Discard, nil))
	ps, err := pstoremem.NewPeerstore()
	if err != nil {
		panic(err)
	}
	fh := &c14Host{ps: ps}
	self := c14Identities()[8]
	hsA, err := handshake.New(mockkeysigner.NewMockKeySigner(self.key, self.addr), p2p.PeerTypeBidder, "verif", signer.New(),
		c14Registry{}, GetEthAddressFromPeerID)
	if err != nil {
		panic(err)
	}
	svc := &Service{
		hsSvc:      hsA,
		baseCtx:    &c14Ctx{w},
		host:       fh,
		peers:      newPeerRegistry(),
		logger:     logger,
		metrics:    newMetrics(prometheus.NewRegistry(), "verif"),
		hsInflight: make(map[peer.ID][]chan struct{}),
		blockMap:   make(map[peer.ID]blockInfo),
	}
	svc.peers.setDisconnector(svc)
	svc.SetNotifier(w)
	svc.AddStreamHandlers(p2p.StreamDesc{
		Name:    "verif",
		Version: "1.0.0",
		Handler: func(ctx context.Context, pe p2p.Peer, _ p2p.Stream) error {
			st := w.current()
			st.hctx, st.hpeer = ctx, pe
			close(st.atG3)
			<-st.relG3
			return nil
		},
	})
	if fh.handler == nil {
		panic("c14: AddStreamHandlers did not install a handler")
	}
	reg := svc.peers

	pids := make([]peer.ID, in.NP)
	conns := make([][]*c14Conn, in.NP)
	for p := 0; p < in.NP; p++ {
		pids[p] = c14Identities()[p].pid
		conns[p] = make([]*c14Conn, in.NC)
		for k := 0; k < in.NC; k++ {
			conns[p][k] = &c14Conn{pid: pids[p], p: p, k: k}
		}
	}
	streams := make([]*c14Stream, in.NS)
	var started []int64

	setCur := func(st *c14Stream) {
		w.mu.Lock()
		w.cur = st
		w.mu.Unlock()
	}
	finish := func(st *c14Stream) {
		if st.wasReset() {
			st.state = 4
		} else {
			st.state = 5
		}
	}

	snapshot := func() c14Snap {
		var sn c14Snap
		for p := 0; p < in.NP; p++ {
			row := []int64{}
			if pe, found := reg.getPeer(pids[p]); found {
				a, ok := w.addrs[pe.EthAddress]
				if !ok {
					a = -1
				}
				row = []int64{int64(a), int64(pe.Type)}
			}
			sn.Over = append(sn.Over, row)
		}
		for a := 0; a < in.NA; a++ {
			row := []int64{}
			if id, found := reg.getPeerID(c14Addr(a)); found {
				q := int64(-1)
				for p := range pids {
					if pids[p] == id {
						q = int64(p)
					}
				}
				row = []int64{q}
			}
			sn.Under = append(sn.Under, row)
		}
		reg.mu.RLock()
		for p := 0; p < in.NP; p++ {
			row := c14ConnRow(reg, pids[p], conns[p])
			sn.Conns = append(sn.Conns, row)
			row = []int64{-1}
			if ss, found := reg.streams[pids[p]]; found {
				row = []int64{}
				for s := range ss {
					row = append(row, int64(s.(*c14Stream).idx))
				}
				sort.Slice(row, func(i, j int) bool { return row[i] < row[j] })
			}
			sn.Streams = append(sn.Streams, row)
		}
		reg.mu.RUnlock()
		w.mu.Lock()
		sn.Notes = append([]int64{}, w.notes...)
		w.mu.Unlock()
		for s := 0; s < in.NS; s++ {
			st := streams[s]
			if st == nil {
				sn.Sw = append(sn.Sw, 0)
				sn.Ctx = append(sn.Ctx, 0)
				continue
			}
			sn.Sw = append(sn.Sw, st.state)
			c := int64(0)
			if st.hctx != nil && (st.begun || st.state == 2) {
				c = 1
				if st.hctx.Err() != nil {
					c = 2
				}
			}
			sn.Ctx = append(sn.Ctx, c)
		}
		sn.Started = append([]int64{}, started...)
		return sn
	}

	for _, ev := range c14Expand(in.Evs) {
		if ev.K == "reenrolrace" {
			cOld, cNew := conns[ev.P][ev.C], conns[ev.P][ev.C2]
			closedEv := c14Ev{K: "closed", P: ev.P, C: ev.C}
			enrolEv := c14Ev{K: "enrol", P: ev.P, C: ev.C2, A: ev.A, R: ev.R}
			newPeer := &p2p.Peer{EthAddress: c14Addr(ev.A), Type: p2p.PeerType(ev.R)}
			at, rel := make(chan struct{}), make(chan struct{})
			w.mu.Lock()
			w.parkAt, w.parkRel = at, rel
			w.mu.Unlock()
			doneA := make(chan struct{})
			var panicA bool
			cOld.closed, cNew.closed = true, false
			go func() {
				defer close(doneA)
				defer func() {
					if r := recover(); r != nil {
						panicA = true
					}
				}()
				reg.Disconnected(nil, cOld)
			}()
			parked := c14Await("reenrolrace", at, doneA) == 0
			cOld.notified = true
			if !parked {
				// not the last connection (or untracked): no notification, nothing to overlap
				w.mu.Lock()
				w.parkAt, w.parkRel = nil, nil
				w.mu.Unlock()
				obs.Steps = append(obs.Steps, c14Step{Ev: closedEv, Panic: panicA, Seen: true, Pend: w.pendingNow(), Snap: snapshot()})
				st := c14Step{Ev: enrolEv, Seen: true}
				if reg.addPeer(cNew, newPeer) {
					st.Ret = 1
				}
				st.Pend = w.pendingNow()
				st.Snap = snapshot()
				obs.Steps = append(obs.Steps, st)
				continue
			}
			// the notification is being consumed; meanwhile the peer comes back on a new connection
			doneB := make(chan struct{})
			var ret, pend int64
			go func() {
				defer close(doneB)
				if reg.addPeer(cNew, newPeer) {
					ret = 1
				}
				pend = w.pendingNow()
			}()
			t := time.NewTimer(time.Duration(slow) * 20 * time.Millisecond)
			select {
			case <-doneB:
			case <-t.C:
			}
			t.Stop()
			close(rel)
			c14Await("reenrolrace-notify", doneA)
			c14Await("reenrolrace-enrol", doneB)
			obs.Steps = append(obs.Steps, c14Step{Ev: closedEv, Panic: panicA},
				c14Step{Ev: enrolEv, Ret: ret, Seen: true, Pend: pend, Snap: snapshot()})
			continue
		}
		if ev.K == "enrolrace" && conns[ev.P][ev.C].notified {
			ev.K, ev.Closed = "enrol", true // already closed and notified: an ordinary late enrolment
		}
		if ev.K == "enrolrace" {
			c := conns[ev.P][ev.C]
			c.closed = false
			enrolEv := c14Ev{K: "enrol", P: ev.P, C: ev.C, A: ev.A, R: ev.R}
			closedEv := c14Ev{K: "closed", P: ev.P, C: ev.C}
			done := make(chan struct{})
			var fired, before, notePanic bool
			notify := func() {
				defer close(done)
				defer func() {
					if r := recover(); r != nil {
						notePanic = true
					}
				}()
				reg.Disconnected(nil, c)
			}
			c.race = func() {
				fired = true
				go notify()
				// give the notification a generous head start: it either finishes (the
				// registry lock is free) or stays parked on the lock held by addPeer
				t := time.NewTimer(time.Duration(slow) * 20 * time.Millisecond)
				defer t.Stop()
				select {
				case <-done:
					before = true
				case <-t.C:
				}
			}
			var ret int64
			if reg.addPeer(c, &p2p.Peer{EthAddress: c14Addr(ev.A), Type: p2p.PeerType(ev.R)}) {
				ret = 1
			}
			c.race = nil
			if !fired {
				go notify() // addPeer did not ask IsClosed: the notification simply follows
			}
			c14Await("enrolrace", done)
			c.closed = true
			c.notified = true
			sn := snapshot()
			if before {
				// the notification was processed before addPeer entered its critical section
				obs.Steps = append(obs.Steps, c14Step{Ev: closedEv, Panic: notePanic},
					c14Step{Ev: enrolEv, Ret: ret, Seen: true, Snap: sn})
			} else {
				obs.Steps = append(obs.Steps, c14Step{Ev: enrolEv, Ret: ret},
					c14Step{Ev: closedEv, Panic: notePanic, Seen: true, Snap: sn})
			}
			continue
		}
		st := c14Step{Ev: ev, Seen: true}
		func() {
			defer func() {
				if r := recover(); r != nil {
					if s, isStr := r.(string); isStr && len(s) > 4 && s[:4] == "c14:" {
						panic(r)
					}
					st.Panic = true
				}
			}()
			switch ev.K {
			case "connect":
				c := conns[ev.P][ev.C]
				c.closed = ev.Closed || c.notified
				st.Ev = c14Ev{K: "enrol", P: ev.P, C: ev.C, A: ev.P, R: ev.R, Closed: c.closed}
				if _, connected := reg.isConnected(pids[ev.P]); connected {
					if reg.addPeer(c, &p2p.Peer{EthAddress: c14Addr(ev.P), Type: p2p.PeerType(ev.R)}) {
						st.Ret = 1
					}
					return
				}
				remote := c14Identities()[ev.P]
				hsB, err := handshake.New(mockkeysigner.NewMockKeySigner(remote.key, remote.addr), p2p.PeerType(ev.R), "verif",
					signer.New(), c14Registry{}, GetEthAddressFromPeerID)
				if err != nil {
					panic("c14: " + err.Error())
				}
				endA, endB := net.Pipe()
				fh.out = &c14Pipe{end: endA, conn: c}
				ctx, cancel := context.WithTimeout(context.Background(), c14Wait)
				respDone := make(chan error, 1)
				go func() {
					_, err := hsB.Handle(ctx, newStream(&c14Pipe{end: endB}, nil, nil), self.pid)
					respDone <- err
				}()
				dead, _ := ma.NewMultiaddr("/ip4/127.0.0.1/tcp/1")
				info, _ := peer.AddrInfo{ID: remote.pid, Addrs: []ma.Multiaddr{dead}}.MarshalJSON()
				got, cerr := svc.Connect(ctx, info)
				rerr := <-respDone
				cancel()
				_ = endA.Close()
				_ = endB.Close()
				if rerr != nil || (cerr != nil && !errors.Is(cerr, p2p.ErrPeerNotFound)) {
					panic(fmt.Sprintf("c14: outbound handshake failed: initiator %v, responder %v", cerr, rerr))
				}
				st.Ret, st.Out = -1, 1
				if cerr == nil {
					st.Out = 2
					if got.EthAddress != remote.addr || int(got.Type) != ev.R {
						panic("c14: Connect returned another identity than the handshake proved")
					}
				}
			case "enrol":
				c := conns[ev.P][ev.C]
				// a connection whose closure has been notified answers IsClosed = true for ever
				// (libp2p sets the flag before it notifies); the step reports the effective answer
				c.closed = ev.Closed || c.notified
				st.Ev.Closed = c.closed
				if reg.addPeer(c, &p2p.Peer{EthAddress: c14Addr(ev.A), Type: p2p.PeerType(ev.R)}) {
					st.Ret = 1
				}
			case "closed":
				c := conns[ev.P][ev.C]
				c.closed = true
				c.notified = true
				reg.Disconnected(nil, c)
			case "lookup":
				if streams[ev.S] != nil {
					return // not a new stream
				}
				s := &c14Stream{idx: ev.S, p: ev.P, conn: conns[ev.P][0], rd: bytes.NewReader(hdrFrame),
					atG1: make(chan struct{}), relG1: make(chan struct{}), atG3: make(chan struct{}),
					relG3: make(chan struct{}), exited: make(chan struct{})}
				streams[ev.S] = s
				setCur(s)
				go func() {
					defer close(s.exited)
					fh.handler(s)
				}()
				if c14Await("lookup", s.atG1, s.exited) == 0 {
					s.state = 1
				} else {
					finish(s)
				}
				setCur(nil)
			case "track":
				s := streams[ev.S]
				if s == nil || s.state != 1 {
					return
				}
				setCur(s)
				close(s.relG1)
				if c14Await("track", s.atG3, s.exited) == 0 {
					s.state = 2
				} else {
					finish(s)
				}
				setCur(nil)
			case "start":
				s := streams[ev.S]
				if s == nil || s.state != 2 {
					return
				}
				a, found := w.addrs[s.hpeer.EthAddress]
				if !found {
					a = -1
				}
				started = append(started, int64(s.idx), int64(s.p), int64(a), int64(s.hpeer.Type))
				s.state = 3
				s.begun = true
			case "end":
				s := streams[ev.S]
				if s == nil || (s.state != 2 && s.state != 3) {
					return
				}
				close(s.relG3)
				c14Await("end", s.exited)
				s.state = 5
			case "rmstream":
				if s := streams[ev.S]; s != nil {
					reg.removeStream(pids[ev.P], s)
				} else {
					reg.removeStream(pids[ev.P], &c14Stream{idx: ev.S})
				}
			case "block":
				svc.blockPeer(pids[ev.P], 0, "verif")
			case "hsfail":
				st.Ev = c14Ev{K: "block", P: ev.P}
				endA, endB := net.Pipe()
				ctx, cancel := context.WithTimeout(context.Background(), c14Wait)
				sent := make(chan struct{})
				go func() {
					defer close(sent)
					_ = newStream(&c14Pipe{end: endB}, nil, nil).WriteMsg(ctx, &handshakepb.HandshakeReq{
						PeerType: "bidder", Token: "verif", Sig: make([]byte, 65)})
					_, _ = io.Copy(io.Discard, endB)
				}()
				svc.handleConnectReq(&c14Pipe{end: endA, conn: conns[ev.P][ev.C]})
				_ = endA.Close()
				_ = endB.Close()
				<-sent
				cancel()
				if !svc.isBlocked(pids[ev.P]) {
					panic("c14: the failed inbound handshake did not block the peer")
				}
			default:
				panic("c14: unknown event " + ev.K)
			}
		}()
		st.Pend = w.pendingNow()
		st.Snap = snapshot()
		obs.Steps = append(obs.Steps, st)
	}
	// let every parked closure run to its end
	for _, s := range streams {
		if s == nil {
			continue
		}
		select {
		case <-s.exited:
			continue
		default:
		}
		setCur(s)
		if s.state == 1 {
			close(s.relG1)
			if c14Await("cleanup", s.atG3, s.exited) == 0 {
				close(s.relG3)
			}
		} else {
			close(s.relG3)
		}
		c14Await("cleanup-exit", s.exited)
		setCur(nil)
	}
	return obs
}

// reenrolrace needs an open, not yet notified pair of distinct connections of one peer; otherwise
// it is an ordinary closure followed by an ordinary enrolment
func c14Expand(evs []c14Ev) []c14Ev {
	notified := map[[2]int]bool{}
	var out []c14Ev
	for _, ev := range evs {
		switch ev.K {
		case "closed", "enrolrace":
			out = append(out, ev)
			notified[[2]int{ev.P, ev.C}] = true
		case "reenrolrace":
			if ev.C == ev.C2 || notified[[2]int{ev.P, ev.C}] || notified[[2]int{ev.P, ev.C2}] {
				out = append(out, c14Ev{K: "closed", P: ev.P, C: ev.C},
					c14Ev{K: "enrol", P: ev.P, C: ev.C2, A: ev.A, R: ev.R})
			} else {
				out = append(out, ev)
			}
			notified[[2]int{ev.P, ev.C}] = true
		default:
			out = append(out, ev)
		}
	}
	return out
}

// the tracked connections of one peer, read through reflection so that the driver does not depend
// on the representation of the field: [-1] = no entry; a set -> the sorted serials; a number n ->
// [-2, n] (a representation the model does not have)
func c14ConnRow(reg *peerRegistry, id peer.ID, mine []*c14Conn) []int64 {
	f := reflect.ValueOf(reg).Elem().FieldByName("connections")
	if !f.IsValid() || f.Kind() != reflect.Map {
		return []int64{-3}
	}
	v := f.MapIndex(reflect.ValueOf(id).Convert(f.Type().Key()))
	if !v.IsValid() {
		return []int64{-1}
	}
	switch v.Kind() {
	case reflect.Map:
		row := []int64{}
		for _, key := range v.MapKeys() {
			k := key
			for k.Kind() == reflect.Interface {
				k = k.Elem()
			}
			serial := int64(-9)
			if k.Kind() == reflect.Ptr {
				for _, c := range mine {
					if uintptr(unsafe.Pointer(c)) == k.Pointer() {
						serial = int64(c.k)
					}
				}
			}
			row = append(row, serial)
		}
		sort.Slice(row, func(i, j int) bool { return row[i] < row[j] })
		return row
	case reflect.Int, reflect.Int8, reflect.Int16, reflect.Int32, reflect.Int64:
		return []int64{-2, v.Int()}
	case reflect.Uint, reflect.Uint8, reflect.Uint16, reflect.Uint32, reflect.Uint64:
		return []int64{-2, int64(v.Uint())}
	case reflect.Slice:
		return []int64{-2, int64(v.Len())}
	}
	return []int64{-3}
}

// --- Coq terms ---------------------------------------------------------------------------------

func c14Zs(v []int64) string {
	items := make([]string, len(v))
	for i, x := range v {
		items[i] = coqZ(x)
	}
	return coqList(items)
}
func c14Zss(v [][]int64) string {
	items := make([]string, len(v))
	for i, x := range v {
		items[i] = c14Zs(x)
	}
	return coqList(items)
}
func c14ConnTerm(p, k int) string { return coqPair(coqN(uint64(p)), coqN(uint64(k))) }

func c14Coq(id int, in c14In, obs c14Obs) string {
	var evs []string
	for _, st := range obs.Steps {
		ev := st.Ev
		var t string
		switch ev.K {
		case "enrol":
			t = coqApp("Enrol", c14ConnTerm(ev.P, ev.C),
				coqRecord("p_addr", coqN(uint64(ev.A)), "p_role", coqZ(int64(ev.R))), coqBool(ev.Closed))
		case "closed":
			t = coqApp("ConnClosed", c14ConnTerm(ev.P, ev.C))
		case "lookup":
			t = coqApp("SLookup", coqN(uint64(ev.S)), coqN(uint64(ev.P)))
		case "track":
			t = coqApp("STrack", coqN(uint64(ev.S)))
		case "start":
			t = coqApp("SStart", coqN(uint64(ev.S)))
		case "end":
			t = coqApp("SEnd", coqN(uint64(ev.S)))
		case "rmstream":
			t = coqApp("RemoveStream", coqN(uint64(ev.P)), coqN(uint64(ev.S)))
		case "block":
			t = coqApp("BlockPeer", coqN(uint64(ev.P)))
		}
		sn := st.Snap
		snap := coqRecord("sn_over", c14Zss(sn.Over), "sn_under", c14Zss(sn.Under), "sn_conns", c14Zss(sn.Conns),
			"sn_streams", c14Zss(sn.Streams), "sn_notes", c14Zs(sn.Notes), "sn_sw", c14Zs(sn.Sw),
			"sn_ctx", c14Zs(sn.Ctx), "sn_started", c14Zs(sn.Started))
		evs = append(evs, coqRecord("o_ev", t, "o_ret", coqZ(st.Ret), "o_panic", coqBool(st.Panic), "o_seen", coqBool(st.Seen), "o_pending", coqZ(st.Pend), "o_out", coqZ(st.Out-1), "o_snap", snap))
	}
	return coqRecord("id", coqN(uint64(id)), "c_np", coqN(uint64(in.NP)), "c_nc", coqN(uint64(in.NC)),
		"c_na", coqN(uint64(in.NA)), "c_ns", coqN(uint64(in.NS)), "c_evs", coqList(evs))
}

// --- generators --------------------------------------------------------------------------------

type c14Gen struct {
	r        *rand.Rand
	in       c14In
	notified map[[2]int]bool // connections whose Disconnected has been delivered
	enrolled map[[2]int]bool
	sw       []int // generator's view of the wrapper states (0 new, 1 looked, 2 tracked, 3 started, 9 over)
	swPeer   []int
	roles    []int
	collide  bool // allow two peer ids to prove one address
}

func c14NewGen(r *rand.Rand, collide bool) *c14Gen {
	g := &c14Gen{r: r, in: c14In{NP: 3, NC: 3, NA: 4, NS: 4}, notified: map[[2]int]bool{}, enrolled: map[[2]int]bool{},
		collide: collide}
	g.sw = make([]int, g.in.NS)
	g.swPeer = make([]int, g.in.NS)
	for p := 0; p < g.in.NP; p++ {
		g.roles = append(g.roles, 1+r.Intn(2))
	}
	return g
}

func (g *c14Gen) add(e c14Ev) { g.in.Evs = append(g.in.Evs, e) }

func (g *c14Gen) enrol(p, k int) {
	a := p
	role := g.roles[p]
	if g.collide && g.r.Intn(3) == 0 {
		a = g.r.Intn(g.in.NA)
	}
	if g.r.Intn(12) == 0 {
		role = g.r.Intn(3)
	}
	closed := g.notified[[2]int{p, k}]
	if !closed && g.r.Intn(6) == 0 {
		closed = true // closed, notification still to come (or already delivered while untracked)
	}
	kind := "enrol"
	if a == p && g.r.Intn(4) == 0 {
		kind = "connect" // the same enrolment made by the outbound path
	}
	g.add(c14Ev{K: kind, P: p, C: k, A: a, R: role, Closed: closed})
	g.enrolled[[2]int{p, k}] = true
}

func (g *c14Gen) closeConn(p, k int) {
	g.add(c14Ev{K: "closed", P: p, C: k})
	g.notified[[2]int{p, k}] = true
}

func (g *c14Gen) streamStep(s int) {
	switch g.sw[s] {
	case 0:
		p := g.r.Intn(g.in.NP)
		g.swPeer[s] = p
		g.add(c14Ev{K: "lookup", S: s, P: p})
		g.sw[s] = 1
	case 1:
		g.add(c14Ev{K: "track", S: s})
		g.add(c14Ev{K: "start", S: s})
		g.sw[s] = 3
	case 3:
		g.add(c14Ev{K: "end", S: s})
		g.sw[s] = 9
	default:
		g.add(c14Ev{K: "rmstream", S: s, P: g.swPeer[s]})
	}
}

func (g *c14Gen) randomEvent() {
	p, k := g.r.Intn(g.in.NP), g.r.Intn(g.in.NC)
	switch x := g.r.Intn(20); {
	case x < 6:
		g.enrol(p, k)
	case x < 11:
		// prefer closing something that was enrolled; sometimes an untracked closure
		if g.r.Intn(4) != 0 {
			for try := 0; try < 6 && !(g.enrolled[[2]int{p, k}] && !g.notified[[2]int{p, k}]); try++ {
				p, k = g.r.Intn(g.in.NP), g.r.Intn(g.in.NC)
			}
		}
		if g.notified[[2]int{p, k}] && g.r.Intn(5) != 0 {
			return
		}
		g.closeConn(p, k)
	case x < 19:
		g.streamStep(g.r.Intn(g.in.NS))
	default:
		if g.r.Intn(2) == 0 {
			g.add(c14Ev{K: "block", P: p})
		} else {
			g.add(c14Ev{K: "rmstream", S: g.r.Intn(g.in.NS), P: p})
		}
	}
}

func c14GenRandom(r *rand.Rand, collide bool) c14In {
	g := c14NewGen(r, collide)
	n := 5 + r.Intn(22)
	for len(g.in.Evs) < n {
		g.randomEvent()
	}
	return g.in
}

// one peer with several connections, closed in some order, with streams in flight
func c14GenMultiConn(r *rand.Rand) c14In {
	g := c14NewGen(r, false)
	p := r.Intn(g.in.NP)
	order := r.Perm(g.in.NC)
	n := 1 + r.Intn(g.in.NC)
	for _, k := range order[:n] {
		g.enrol(p, k)
		if r.Intn(3) == 0 {
			g.enrol(p, k)
		}
		if r.Intn(3) == 0 {
			g.swPeer[0] = p
			if g.sw[0] == 0 {
				g.add(c14Ev{K: "lookup", S: 0, P: p})
				g.sw[0] = 1
			} else {
				g.streamStep(0)
			}
		}
	}
	for s := 1; s < g.in.NS; s++ {
		if r.Intn(2) == 0 {
			g.swPeer[s] = p
			g.add(c14Ev{K: "lookup", S: s, P: p})
			g.sw[s] = 1
			if r.Intn(3) != 0 {
				g.streamStep(s)
			}
		}
	}
	for _, k := range r.Perm(g.in.NC) {
		if r.Intn(5) != 0 {
			g.closeConn(p, k)
		}
		if r.Intn(3) == 0 {
			g.streamStep(r.Intn(g.in.NS))
		}
	}
	for i := r.Intn(4); i > 0; i-- {
		g.randomEvent()
	}
	return g.in
}

// connections that are already closed when the handshake completes
func c14GenCloseBeforeEnrol(r *rand.Rand) c14In {
	g := c14NewGen(r, false)
	p, k := r.Intn(g.in.NP), r.Intn(g.in.NC)
	if r.Intn(2) == 0 {
		g.enrol(p, (k+1)%g.in.NC) // the peer may already be registered through another connection
	}
	if r.Intn(2) == 0 {
		g.closeConn(p, k) // notification delivered while untracked
	}
	g.add(c14Ev{K: "enrol", P: p, C: k, A: p, R: g.roles[p], Closed: true})
	if !g.notified[[2]int{p, k}] && r.Intn(2) == 0 {
		g.closeConn(p, k)
	}
	g.swPeer[0] = p
	g.add(c14Ev{K: "lookup", S: 0, P: p})
	g.sw[0] = 1
	for i := r.Intn(6); i > 0; i-- {
		g.randomEvent()
	}
	return g.in
}

// lookup -- disconnect -- track: the peer goes away between getPeer and addStream
func c14GenLookupRace(r *rand.Rand) c14In {
	g := c14NewGen(r, false)
	p := r.Intn(g.in.NP)
	g.add(c14Ev{K: "enrol", P: p, C: 0, A: p, R: g.roles[p]})
	g.enrolled[[2]int{p, 0}] = true
	if r.Intn(3) == 0 {
		g.enrol(p, 1)
	}
	s := r.Intn(g.in.NS)
	g.swPeer[s] = p
	g.add(c14Ev{K: "lookup", S: s, P: p})
	g.sw[s] = 1
	g.closeConn(p, 0)
	if g.enrolled[[2]int{p, 1}] && r.Intn(2) == 0 {
		g.closeConn(p, 1)
	}
	if r.Intn(4) == 0 {
		g.enrol(p, 2) // registered again before the stream is tracked
	}
	g.streamStep(s)
	for i := r.Intn(5); i > 0; i-- {
		g.randomEvent()
	}
	return g.in
}

// a connection closes while addPeer is running on it
func c14GenCloseDuringEnrol(r *rand.Rand) c14In {
	g := c14NewGen(r, false)
	p := r.Intn(g.in.NP)
	race := func(k int) {
		g.add(c14Ev{K: "enrolrace", P: p, C: k, A: p, R: g.roles[p]})
		g.enrolled[[2]int{p, k}] = true
		g.notified[[2]int{p, k}] = true
	}
	switch r.Intn(4) {
	case 0: // the only connection
		race(0)
	case 1: // the peer is already registered through another connection, which closes later
		g.enrol(p, 1)
		race(0)
		g.closeConn(p, 1)
	case 2: // a stream is waiting between lookup and track
		g.add(c14Ev{K: "enrol", P: p, C: 1, A: p, R: g.roles[p]})
		g.enrolled[[2]int{p, 1}] = true
		g.swPeer[0] = p
		g.add(c14Ev{K: "lookup", S: 0, P: p})
		g.sw[0] = 1
		g.closeConn(p, 1)
		race(0)
		g.streamStep(0)
	default:
		race(r.Intn(g.in.NC))
		race(r.Intn(g.in.NC))
	}
	s := 1 + r.Intn(g.in.NS-1)
	g.swPeer[s] = p
	g.add(c14Ev{K: "lookup", S: s, P: p})
	g.sw[s] = 1
	g.streamStep(s)
	for i := r.Intn(4); i > 0; i-- {
		g.randomEvent()
	}
	return g.in
}

// a registered peer is blocked (a later handshake of it failed) and then its connections close
func c14GenBlockRegistered(r *rand.Rand) c14In {
	g := c14NewGen(r, false)
	p := r.Intn(g.in.NP)
	g.add(c14Ev{K: "enrol", P: p, C: 0, A: p, R: g.roles[p]})
	g.enrolled[[2]int{p, 0}] = true
	if r.Intn(2) == 0 {
		g.enrol(p, 1)
	}
	if r.Intn(2) == 0 {
		g.swPeer[0] = p
		g.add(c14Ev{K: "lookup", S: 0, P: p})
		g.sw[0] = 1
		if r.Intn(2) == 0 {
			g.streamStep(0)
		}
	}
	if r.Intn(2) == 0 {
		g.add(c14Ev{K: "block", P: p})
	} else {
		g.add(c14Ev{K: "hsfail", P: p, C: r.Intn(g.in.NC)})
	}
	if r.Intn(3) == 0 {
		g.add(c14Ev{K: "block", P: (p + 1) % g.in.NP})
	}
	if g.sw[0] == 1 {
		g.streamStep(0)
	}
	g.closeConn(p, 0)
	if g.enrolled[[2]int{p, 1}] {
		g.closeConn(p, 1)
	}
	for i := r.Intn(4); i > 0; i-- {
		g.randomEvent()
	}
	return g.in
}

// the peer comes back on a new connection while the notification of its disconnect is consumed
func c14GenReenrolDuringNotify(r *rand.Rand) c14In {
	g := c14NewGen(r, false)
	p := r.Intn(g.in.NP)
	g.add(c14Ev{K: "enrol", P: p, C: 0, A: p, R: g.roles[p]})
	g.enrolled[[2]int{p, 0}] = true
	if r.Intn(4) == 0 {
		g.enrol(p, 2) // then the closure of connection 0 is not the last one
	}
	if r.Intn(2) == 0 {
		g.swPeer[0] = p
		g.add(c14Ev{K: "lookup", S: 0, P: p})
		g.sw[0] = 1
		g.streamStep(0)
	}
	g.add(c14Ev{K: "reenrolrace", P: p, C: 0, C2: 1, A: p, R: g.roles[p]})
	g.notified[[2]int{p, 0}] = true
	g.enrolled[[2]int{p, 1}] = true
	s := 1 + r.Intn(g.in.NS-1)
	g.swPeer[s] = p
	g.add(c14Ev{K: "lookup", S: s, P: p})
	g.sw[s] = 1
	g.streamStep(s)
	if r.Intn(2) == 0 {
		g.closeConn(p, 1)
	}
	for i := r.Intn(4); i > 0; i-- {
		g.randomEvent()
	}
	return g.in
}

func TestVerifC14(t *testing.T) {
	e := vfOpen(t, 100)
	defer e.Close()
	// the header frame an initiator sends first, produced by the real WriteHeader
	var buf c14Buf
	if err := newMetadataStream(&buf).WriteHeader(context.Background(), p2p.Header{"verif": structpb.NewStringValue("c14")}); err != nil {
		t.Fatalf("c14: %v", err)
	}
	hdr := append([]byte{}, buf.Bytes()...)
	run := func(class string, in c14In) {
		if in.NP <= 0 || in.NC <= 0 || in.NA <= 0 || in.NS <= 0 || in.NP > 8 || in.NC > 8 || in.NA > 8 || in.NS > 16 {
			return
		}
		for _, ev := range in.Evs {
			if ev.P < 0 || ev.P >= in.NP || ev.C < 0 || ev.C >= in.NC || ev.C2 < 0 || ev.C2 >= in.NC || ev.A < 0 || ev.A >= in.NA || ev.S < 0 || ev.S >= in.NS {
				return
			}
		}
		obs := c14Run(in, hdr, e.Slow)
		e.Emit(class, in, obs, func(id int) string { return c14Coq(id, in, obs) })
	}
	for _, raw := range e.Replay {
		var in c14In
		if err := json.Unmarshal(raw, &in); err != nil {
			t.Fatalf("bad replay input: %v", err)
		}
		run("replay", in)
	}
	if e.OnlyReplay() {
		return
	}
	// pinned minimal histories (the two repaired defects and the basic life cycle)
	small := func(evs ...c14Ev) c14In { return c14In{NP: 1, NC: 1, NA: 1, NS: 1, Evs: evs} }
	run("pinned", small(c14Ev{K: "enrol", Closed: true}))
	run("pinned", small(c14Ev{K: "enrol"}, c14Ev{K: "lookup"}, c14Ev{K: "closed"}, c14Ev{K: "track"}, c14Ev{K: "start"}))
	run("pinned", small(c14Ev{K: "enrol"}, c14Ev{K: "lookup"}, c14Ev{K: "track"}, c14Ev{K: "start"}, c14Ev{K: "closed"}, c14Ev{K: "end"}))
	run("pinned", small(c14Ev{K: "lookup"}, c14Ev{K: "track"}, c14Ev{K: "enrol"}, c14Ev{K: "closed"}, c14Ev{K: "closed"}))
	run("pinned", small(c14Ev{K: "enrol"}, c14Ev{K: "block"}, c14Ev{K: "closed"}))
	run("pinned", small(c14Ev{K: "enrol"}, c14Ev{K: "hsfail"}, c14Ev{K: "closed"}))
	run("pinned", c14In{NP: 1, NC: 2, NA: 1, NS: 1, Evs: []c14Ev{{K: "enrol"}, {K: "reenrolrace", C: 0, C2: 1}, {K: "closed", C: 1}}})
	run("pinned", small(c14Ev{K: "connect", Closed: true}))
	run("pinned", small(c14Ev{K: "connect", R: 1}, c14Ev{K: "lookup"}, c14Ev{K: "track"}, c14Ev{K: "start"}, c14Ev{K: "closed"}))
	run("pinned", c14In{NP: 2, NC: 2, NA: 2, NS: 1, Evs: []c14Ev{{K: "enrol", P: 1, C: 0, A: 1, R: 2}, {K: "connect", P: 1, C: 1, R: 2, Closed: true},
		{K: "connect", P: 0, C: 0, R: 1, Closed: true}, {K: "closed", P: 1, C: 0}, {K: "connect", P: 1, C: 1, R: 1, Closed: true}}})
	// re-admission of a registered peer while its handler runs, then the disconnect
	run("pinned", c14In{NP: 1, NC: 2, NA: 1, NS: 2, Evs: []c14Ev{{K: "enrol", C: 0}, {K: "lookup", S: 0}, {K: "track", S: 0}, {K: "start", S: 0},
		{K: "enrol", C: 0}, {K: "enrol", C: 1}, {K: "lookup", S: 1}, {K: "track", S: 1}, {K: "closed", C: 0}, {K: "closed", C: 1}, {K: "start", S: 1}}})
	// a second handshake of a registered peer on a connection that has already closed, then the
	// first connection closes
	run("pinned", c14In{NP: 1, NC: 2, NA: 1, NS: 1, Evs: []c14Ev{{K: "enrol", C: 0}, {K: "enrol", C: 1, Closed: true}, {K: "closed", C: 0},
		{K: "lookup", S: 0}}})
	run("pinned", c14In{NP: 1, NC: 2, NA: 1, NS: 1, Evs: []c14Ev{{K: "connect", C: 0, R: 1}, {K: "connect", C: 1, R: 1, Closed: true},
		{K: "closed", C: 1}, {K: "closed", C: 0}}})
	// a second, open connection of a registered peer keeps it registered after the first closes
	run("pinned", c14In{NP: 1, NC: 2, NA: 1, NS: 1, Evs: []c14Ev{{K: "enrol", C: 0}, {K: "enrol", C: 1}, {K: "closed", C: 0},
		{K: "lookup", S: 0}, {K: "track", S: 0}, {K: "start", S: 0}, {K: "closed", C: 1}}})
	run("pinned", small(c14Ev{K: "enrolrace"}))
	run("pinned", small(c14Ev{K: "enrolrace"}, c14Ev{K: "lookup"}, c14Ev{K: "track"}, c14Ev{K: "start"}))
	run("pinned", c14In{NP: 2, NC: 2, NA: 2, NS: 2, Evs: []c14Ev{{K: "enrol", P: 0, C: 0, A: 0, R: 1}, {K: "enrol", P: 0, C: 1, A: 0, R: 1},
		{K: "lookup", S: 0, P: 0}, {K: "track", S: 0}, {K: "start", S: 0}, {K: "closed", P: 0, C: 0}, {K: "lookup", S: 1, P: 1},
		{K: "closed", P: 0, C: 1}, {K: "end", S: 0}}})
	// small-scope exhaustive: every sequence of at most L symbols over one peer with two
	// connections and one stream (track always followed by the handler start)
	syms := [][]c14Ev{
		{{K: "enrol", C: 0}}, {{K: "enrol", C: 0, Closed: true}}, {{K: "enrol", C: 1}},
		{{K: "closed", C: 0}}, {{K: "closed", C: 1}}, {{K: "lookup"}}, {{K: "track"}, {K: "start"}},
		{{K: "end"}}, {{K: "rmstream"}},
	}
	L := 2
	if e.Tier == "thorough" {
		L = 4
	}
	var rec func(prefix []c14Ev, depth int)
	rec = func(prefix []c14Ev, depth int) {
		if depth > 0 {
			run("exhaustive", c14In{NP: 1, NC: 2, NA: 1, NS: 1, Evs: prefix})
		}
		if depth == L {
			return
		}
		for _, sy := range syms {
			rec(append(append([]c14Ev{}, prefix...), sy...), depth+1)
		}
	}
	rec(nil, 0)
	for i := 0; i < e.N; i++ {
		switch i % 8 {
		case 0, 1, 2:
			run("random", c14GenRandom(e.rng, false))
		case 3:
			run("multi-conn", c14GenMultiConn(e.rng))
		case 4:
			switch (i / 8) % 3 {
			case 0:
				run("close-before-enrol", c14GenCloseBeforeEnrol(e.rng))
			case 1:
				run("block-registered", c14GenBlockRegistered(e.rng))
			default:
				run("reenrol-during-notify", c14GenReenrolDuringNotify(e.rng))
			}
		case 5:
			run("lookup-race", c14GenLookupRace(e.rng))
		case 6:
			if i%16 == 6 {
				run("lookup-race", c14GenLookupRace(e.rng))
			} else {
				run("close-during-enrol", c14GenCloseDuringEnrol(e.rng))
			}
		default:
			run("address-collision", c14GenRandom(e.rng, true))
		}
	}
}
