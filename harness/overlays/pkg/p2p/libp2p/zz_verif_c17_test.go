package libp2p

// Correspondence driver for property C17 (blocklist + connection gater).
//
// A case is a sequence of operations on a real Service value (blockMap/blockMu) and a real gater
// whose blocker is that Service.  blockPeer / isBlocked / BlockedPeers / Intercept* are always the
// real functions.  The clock is virtualised by shifting the stored start of every entry back by
// the requested advance ("Adv" granules of G nanoseconds) before the operation, which is
// equivalent to advancing time.Now by the same amount.  Every operation gets a nominal time
//     t = V*G + c      (V = granules advanced so far, c = a small counter that is raised by two at
//                       every blockPeer and is odd for every other call)
// so that nominal times are ordered exactly like the real clock readings as long as the real
// readings are strictly increasing from call to call and the whole sequence takes less than G/2;
// the driver enforces both (spinning until the clock has moved, re-running a sequence that took
// too long).  All durations are multiples of G, hence every comparison the code makes between
// (start + duration) and (now [+ duration]) has the same outcome on nominal and on real times.

import (
	"context"
	crand "crypto/rand"
	"encoding/json"
	"errors"
	"fmt"
	"io"
	"log/slog"
	"math/rand"
	"os"
	"reflect"
	"runtime"
	"strconv"
	"strings"
	"sync"
	"sync/atomic"
	"testing"
	"time"
	"unsafe"

	"github.com/ethereum/go-ethereum/common"
	ethcrypto "github.com/ethereum/go-ethereum/crypto"
	golibp2p "github.com/libp2p/go-libp2p"
	libp2pcrypto "github.com/libp2p/go-libp2p/core/crypto"
	"github.com/libp2p/go-libp2p/core/host"
	"github.com/libp2p/go-libp2p/core/network"
	"github.com/libp2p/go-libp2p/core/peer"
	"github.com/libp2p/go-libp2p/p2p/net/swarm"
	ma "github.com/multiformats/go-multiaddr"
	handshakepb "github.com/primevprotocol/mev-commit/gen/go/handshake/v1"
	mockkeysigner "github.com/primevprotocol/mev-commit/pkg/keysigner/mock"
	"github.com/primevprotocol/mev-commit/pkg/p2p"
	"github.com/primevprotocol/mev-commit/pkg/p2p/libp2p/internal/handshake"
	"github.com/prometheus/client_golang/prometheus"
)

type c17Op struct {
	K string // block | query | dial | secured | addrdial | upgraded | accept | list | hsfail
	//             hsfail (e2e only): a real libp2p host with the identity of peer P connects, opens the handshake
	//             stream and presents a signature that cannot be verified; handleConnectReq itself places the
	//             permanent block (event Block P 0)
	P    int   // peer index
	D    int64 // block duration in granules (0 = forever)
	Adv  int64 // granules the clock advances before the call
	Idle bool  // the advance is real idle time (the driver sleeps) instead of a shift of the stored starts
}

type c17In struct {
	G    int64  // granule in nanoseconds
	NP   int    // number of peers
	Mode string // "" = Service value + gater built by the driver; "e2e" = Service from libp2p.New,
	//             dial = host.Connect (ops: block, query, dial, list)
	PT int // e2e: role of the local node (0 bootnode, 1 provider, 2 bidder)
	// kind of libp2p identity of peer i (absent = 0): 0 secp256k1 (the only kind that yields an Ethereum
	// address), 1 Ed25519, 2 RSA, 3 ECDSA.  BlockedPeers can only name peers of kind 0, so the Listing
	// events are projected on those.
	Kinds []int
	// Mode "stress" (class concurrent-expiry): Ops is [block P d; block P 0 (Adv > d); query P].  The
	// permanent block is placed while Q goroutines ask isBlocked / InterceptPeerDial about the peer,
	// whose timed entry has expired and is not yet purged; repeated Rounds times (or until Budget
	// milliseconds are spent) on fresh state; the round reported is the first whose final, quiescent
	// answer is "not blocked", else the last one.
	Rounds int
	Q      int
	Budget int
	Ops    []c17Op
}

type c17Step struct {
	T   int64   // nominal time
	Ans []int64 // answers
	Raw []int64 // raw map afterwards: -1 or duration (ns) per peer
}

type c17Obs struct {
	Steps []c17Step
}

type c17Addrs struct{ a ma.Multiaddr }

func (c c17Addrs) LocalMultiaddr() ma.Multiaddr  { return c.a }
func (c c17Addrs) RemoteMultiaddr() ma.Multiaddr { return c.a }

type c17World struct {
	privs [4][]libp2pcrypto.PrivKey // by identity kind
	peers [4][]peer.ID
	n     int
	rsaMu sync.Mutex
	addrs map[common.Address]int
	log   *slog.Logger
	cm    c17Addrs
}

func c17NewWorld(r *rand.Rand, n int) *c17World {
	w := &c17World{n: n, addrs: map[common.Address]int{}, log: slog.New(slog.NewTextHandler(io.Discard, nil))}
	add := func(kind int, priv libp2pcrypto.PrivKey, pub libp2pcrypto.PubKey, err error) peer.ID {
		if err != nil {
			panic(err)
		}
		id, err := peer.IDFromPublicKey(pub)
		if err != nil {
			panic(err)
		}
		w.privs[kind] = append(w.privs[kind], priv)
		w.peers[kind] = append(w.peers[kind], id)
		return id
	}
	for i := 0; i < n; i++ {
		priv, pub, err := libp2pcrypto.GenerateSecp256k1Key(r)
		id := add(0, priv, pub, err)
		a, err := GetEthAddressFromPeerID(id)
		if err != nil {
			panic(err)
		}
		w.addrs[a] = i
	}
	for i := 0; i < n; i++ {
		priv, pub, err := libp2pcrypto.GenerateEd25519Key(r)
		add(1, priv, pub, err)
	}
	for i := 0; i < n; i++ {
		priv, pub, err := libp2pcrypto.GenerateECDSAKeyPair(r)
		add(3, priv, pub, err)
	}
	w.privs[2] = make([]libp2pcrypto.PrivKey, n)
	w.peers[2] = make([]peer.ID, n)
	m, err := ma.NewMultiaddr("/ip4/127.0.0.1/tcp/4001")
	if err != nil {
		panic(err)
	}
	w.cm = c17Addrs{m}
	return w
}

func c17Kind(kinds []int, i int) int {
	if i >= 0 && i < len(kinds) {
		return kinds[i]
	}
	return 0
}

// RSA identities are generated on first use (key generation is slow)
func (w *c17World) ident(kinds []int, i int) (libp2pcrypto.PrivKey, peer.ID) {
	k := c17Kind(kinds, i)
	if k == 2 {
		w.rsaMu.Lock()
		defer w.rsaMu.Unlock()
		if w.privs[2][i] == nil {
			priv, pub, err := libp2pcrypto.GenerateRSAKeyPair(2048, crand.Reader)
			if err != nil {
				panic(err)
			}
			id, err := peer.IDFromPublicKey(pub)
			if err != nil {
				panic(err)
			}
			w.privs[2][i], w.peers[2][i] = priv, id
		}
	}
	return w.privs[k][i], w.peers[k][i]
}

// peers beyond the keyed ones (many-peers class) have synthetic identities
func (w *c17World) pid(kinds []int, i int) peer.ID {
	if i >= 0 && i < w.n {
		_, id := w.ident(kinds, i)
		return id
	}
	return peer.ID(fmt.Sprintf("c17-synthetic-peer-%d", i))
}

// the peers BlockedPeers can name: those whose identity yields an Ethereum address
func c17Listable(in c17In) []int {
	var out []int
	for i := 0; i < in.NP; i++ {
		if c17Kind(in.Kinds, i) == 0 {
			out = append(out, i)
		}
	}
	return out
}

// --- the block list, reached without naming its key type or the layout of its entries ---------
// The map is created and read through reflection on the field's own type; entries are only ever
// placed by the code's own blockPeer.  The key under which a peer is kept is learnt by watching
// which key a blockPeer call for that peer adds.

var (
	c17TimeT = reflect.TypeOf(time.Time{})
	c17DurT  = reflect.TypeOf(time.Duration(0))
)

func c17BlockMap(s *Service) reflect.Value {
	f := reflect.ValueOf(s).Elem().FieldByName("blockMap")
	if !f.IsValid() || f.Kind() != reflect.Map {
		panic("c17: Service has no map field blockMap")
	}
	return reflect.NewAt(f.Type(), unsafe.Pointer(f.UnsafeAddr())).Elem()
}

func c17ResetMap(s *Service) {
	s.blockMu.Lock()
	f := c17BlockMap(s)
	f.Set(reflect.MakeMap(f.Type()))
	s.blockMu.Unlock()
}

func c17NewBare(w *c17World) *Service {
	s := &Service{logger: w.log, peers: newPeerRegistry()}
	c17ResetMap(s)
	return s
}

// an addressable copy of a map element (struct or pointer to struct) and its field of the given
// name (or, failing that, its first field of the given type), writable
func c17Entry(m reflect.Value, k reflect.Value) reflect.Value {
	cp := reflect.New(m.Type().Elem()).Elem()
	cp.Set(m.MapIndex(k))
	return cp
}
func c17Field(e reflect.Value, name string, typ reflect.Type) reflect.Value {
	for e.Kind() == reflect.Ptr {
		e = e.Elem()
	}
	if e.Kind() != reflect.Struct {
		panic("c17: block list entry is not a struct")
	}
	f := e.FieldByName(name)
	if !f.IsValid() || f.Type() != typ {
		f = reflect.Value{}
		for i := 0; i < e.NumField(); i++ {
			if e.Field(i).Type() == typ {
				f = e.Field(i)
				break
			}
		}
	}
	if !f.IsValid() {
		panic("c17: block list entry has no field " + name + " of type " + typ.String())
	}
	return reflect.NewAt(f.Type(), unsafe.Pointer(f.UnsafeAddr())).Elem()
}

// the clock advances by d: every stored start moves back by d
func c17Shift(s *Service, d time.Duration) {
	s.blockMu.Lock()
	defer s.blockMu.Unlock()
	m := c17BlockMap(s)
	for _, k := range m.MapKeys() {
		cp := c17Entry(m, k)
		st := c17Field(cp, "start", c17TimeT)
		st.Set(reflect.ValueOf(st.Interface().(time.Time).Add(-d)))
		m.SetMapIndex(k, cp)
	}
}

type c17Keys struct {
	known map[int]reflect.Value
}

// runs f (a call that may place a block for peer i) and learns the key it adds
func (t *c17Keys) watch(s *Service, i, limit int, f func()) {
	if _, have := t.known[i]; have || i < 0 || i >= limit {
		f()
		return
	}
	before := map[interface{}]bool{}
	s.blockMu.Lock()
	for _, k := range c17BlockMap(s).MapKeys() {
		before[k.Interface()] = true
	}
	s.blockMu.Unlock()
	f()
	s.blockMu.Lock()
	for _, k := range c17BlockMap(s).MapKeys() {
		if !before[k.Interface()] {
			if t.known == nil {
				t.known = map[int]reflect.Value{}
			}
			t.known[i] = k
			break
		}
	}
	s.blockMu.Unlock()
}

// the raw map projected on peers 0..np-1: -1 or the duration of the entry
func (t *c17Keys) raw(s *Service, np int) []int64 {
	var out []int64
	s.blockMu.Lock()
	defer s.blockMu.Unlock()
	m := c17BlockMap(s)
	for i := 0; i < np; i++ {
		k, have := t.known[i]
		if !have || !m.MapIndex(k).IsValid() {
			out = append(out, -1)
			continue
		}
		out = append(out, c17Field(c17Entry(m, k), "duration", c17DurT).Int())
	}
	return out
}

// the Service's log, kept only to attribute a refused inbound connection to the gater
type c17Log struct {
	mu   sync.Mutex
	recs []string
}

func (l *c17Log) Enabled(context.Context, slog.Level) bool { return true }
func (l *c17Log) WithAttrs([]slog.Attr) slog.Handler       { return l }
func (l *c17Log) WithGroup(string) slog.Handler            { return l }
func (l *c17Log) Handle(_ context.Context, r slog.Record) error {
	line := r.Message
	r.Attrs(func(a slog.Attr) bool {
		line += " " + a.Key + "=" + a.Value.String()
		return true
	})
	l.mu.Lock()
	l.recs = append(l.recs, line)
	l.mu.Unlock()
	return nil
}
func (l *c17Log) gaterRefused(id peer.ID) bool {
	l.mu.Lock()
	defer l.mu.Unlock()
	for _, ln := range l.recs {
		if strings.Contains(ln, "blocklisted") && strings.Contains(ln, id.String()) {
			return true
		}
	}
	return false
}
func (l *c17Log) reset() {
	l.mu.Lock()
	l.recs = nil
	l.mu.Unlock()
}

func c17Tick() {
	a := time.Now()
	for !time.Now().After(a) {
	}
}

func c17B(b bool) int64 {
	if b {
		return 1
	}
	return 0
}

// a Service assembled by libp2p.New itself (gater installed in the host by New)
func c17NewService(w *c17World, pt int, rec *c17Log) *Service {
	key, err := ethcrypto.GenerateKey()
	if err != nil {
		panic(err)
	}
	svc, err := New(&Options{
		KeySigner:  mockkeysigner.NewMockKeySigner(key, ethcrypto.PubkeyToAddress(key.PublicKey)),
		Secret:     "verif",
		PeerType:   p2p.PeerType(pt),
		ListenPort: 0,
		ListenAddr: "127.0.0.1",
		Logger:     slog.New(rec),
		MetricsReg: prometheus.NewRegistry(),
	})
	if err != nil {
		panic(err)
	}
	return svc
}

// is the dial to p let through by the host's gater?  (the address is a closed loopback port)
func c17HostDial(svc *Service, p peer.ID) bool {
	ctx, cancel := context.WithTimeout(context.Background(), 2*time.Second)
	defer cancel()
	dead, _ := ma.NewMultiaddr("/ip4/127.0.0.1/tcp/1")
	err := svc.host.Connect(ctx, peer.AddrInfo{ID: p, Addrs: []ma.Multiaddr{dead}})
	return !errors.Is(err, swarm.ErrGaterDisallowedConnection)
}

// goroutines that run methods of a Service on their own (none on the current tree once New has
// returned without bootstrap addresses): the driver's own calls are excluded
func c17ServiceGoroutines() []string {
	buf := make([]byte, 1<<20)
	buf = buf[:runtime.Stack(buf, true)]
	var out []string
	for _, g := range strings.Split(string(buf), "\n\n") {
		if !strings.Contains(g, "pkg/p2p/libp2p.(*Service).") || strings.Contains(g, "libp2p.c17") ||
			strings.Contains(g, "libp2p.TestVerif") {
			continue
		}
		for _, ln := range strings.Split(g, "\n") {
			if strings.Contains(ln, "pkg/p2p/libp2p.(*Service).") {
				out = append(out, strings.TrimSpace(ln))
				break
			}
		}
	}
	return out
}

// a plain libp2p host with the identity of peer i dials the service: is the (secured) inbound
// connection accepted and kept?  "Refused" is only concluded when the service's gater said so (its
// log line for this peer); a connection that fails for any other reason (listen/dial trouble on a
// loaded machine, resource limits) makes the attempt inconclusive and the case is dropped.
func c17Inbound(svc *Service, rec *c17Log, h host.Host, slow int) (allowed, conclusive bool) {
	target := peer.AddrInfo{ID: svc.host.ID(), Addrs: svc.host.Addrs()}
	for attempt := 0; attempt < 2; attempt++ {
		if sw, isSwarm := h.Network().(*swarm.Swarm); isSwarm {
			sw.Backoff().Clear(target.ID)
		}
		rec.reset()
		ctx, cancel := context.WithTimeout(context.Background(), time.Duration(slow)*3*time.Second)
		err := h.Connect(ctx, target)
		cancel()
		if err == nil {
			// a refusing side closes right after the security handshake: wait until the gater has
			// spoken or the connection has stood for a while on both sides
			deadline := time.Now().Add(time.Duration(slow) * 60 * time.Millisecond)
			for time.Now().Before(deadline) && !rec.gaterRefused(h.ID()) {
				time.Sleep(5 * time.Millisecond)
			}
			kept := len(h.Network().ConnsToPeer(target.ID)) > 0 && len(svc.host.Network().ConnsToPeer(h.ID())) > 0
			_ = h.Network().ClosePeer(target.ID)
			_ = svc.host.Network().ClosePeer(h.ID())
			if kept && !rec.gaterRefused(h.ID()) {
				return true, true
			}
		}
		if rec.gaterRefused(h.ID()) {
			return false, true
		}
		time.Sleep(100 * time.Millisecond)
	}
	return false, false
}

func (l *c17Log) has(text string) bool {
	l.mu.Lock()
	defer l.mu.Unlock()
	for _, ln := range l.recs {
		if strings.Contains(ln, text) {
			return true
		}
	}
	return false
}

// the host h connects to the service, opens the handshake stream and presents a request whose
// signature cannot be verified.  Conclusive when the service's handler has reported the failed
// handshake and has returned (so its blockPeer call, if any, is over).
func c17FailHandshake(svc *Service, rec *c17Log, h host.Host, slow int) bool {
	target := peer.AddrInfo{ID: svc.host.ID(), Addrs: svc.host.Addrs()}
	if sw, isSwarm := h.Network().(*swarm.Swarm); isSwarm {
		sw.Backoff().Clear(target.ID)
	}
	rec.reset()
	ctx, cancel := context.WithTimeout(context.Background(), time.Duration(slow)*3*time.Second)
	defer cancel()
	if err := h.Connect(ctx, target); err != nil {
		return false
	}
	str, err := h.NewStream(ctx, target.ID, handshake.ProtocolID())
	if err != nil {
		return false
	}
	sig := make([]byte, 65)
	for i := range sig {
		sig[i] = 0xff
	}
	if err := newStream(str, nil, nil).WriteMsg(ctx, &handshakepb.HandshakeReq{
		PeerType: p2p.PeerTypeBidder.String(), Token: "verif", Sig: sig}); err != nil {
		return false
	}
	deadline := time.Now().Add(time.Duration(slow) * 3 * time.Second)
	for !rec.has("error handling handshake") {
		if time.Now().After(deadline) {
			return false
		}
		time.Sleep(2 * time.Millisecond)
	}
	if !rec.has("signature verification failed") {
		return false // the handshake failed for another reason (timeout, reset): no block is due
	}
	svc.waitHandshake(h.ID()) // the handler (and the blockPeer call in it) has returned
	_ = str.Reset()
	_ = h.Network().ClosePeer(target.ID)
	return true
}

// one attempt; ok=false when the real clock did not stay within half a granule
func c17Try(w *c17World, in c17In) (obs c17Obs, ok bool) {
	var s *Service
	var g *gater
	intruders := map[int]host.Host{}
	rec := &c17Log{}
	slow := 1
	if v, err := strconv.Atoi(os.Getenv("VERIF_SLOW")); err == nil && v > 0 {
		slow = v
	}
	if in.Mode == "e2e" {
		s = c17NewService(w, in.PT, rec)
		defer s.Close()
		defer func() {
			for _, h := range intruders {
				_ = h.Close()
			}
		}()
	} else {
		s = c17NewBare(w)
		g = newGater(w.log)
		g.setBlocker(s)
	}
	keys := &c17Keys{}
	intruder := func(i int) host.Host {
		h, have := intruders[i]
		if !have {
			priv, _ := w.ident(in.Kinds, i)
			var err error
			h, err = golibp2p.New(golibp2p.Identity(priv), golibp2p.NoListenAddrs)
			if err != nil {
				panic(err)
			}
			intruders[i] = h
		}
		return h
	}
	G := in.G
	var V, c int64
	var slept time.Duration
	begin := time.Now()
	for _, op := range in.Ops {
		c17Tick()
		if op.Adv > 0 && op.Idle {
			d := time.Duration(op.Adv * G)
			time.Sleep(d)
			slept += d
			V += op.Adv
		} else if op.Adv > 0 {
			c17Shift(s, time.Duration(op.Adv*G))
			V += op.Adv
		}
		p := w.pid(in.Kinds, op.P)
		st := c17Step{Ans: []int64{}}
		if op.K == "block" || op.K == "hsfail" {
			c += 2
			st.T = V*G + c
		} else {
			st.T = V*G + c + 1
		}
		switch op.K {
		case "block":
			keys.watch(s, op.P, w.n, func() { s.blockPeer(p, time.Duration(op.D*G), "verif") })
		case "hsfail":
			done := false
			keys.watch(s, op.P, w.n, func() { done = c17FailHandshake(s, rec, intruder(op.P), slow) })
			if !done {
				return c17Obs{}, false // environment trouble: no verdict from this attempt
			}
		case "query":
			st.Ans = append(st.Ans, c17B(s.isBlocked(p)))
		case "dial":
			if in.Mode == "e2e" {
				st.Ans = append(st.Ans, c17B(c17HostDial(s, p)))
			} else {
				st.Ans = append(st.Ans, c17B(g.InterceptPeerDial(p)))
			}
		case "secured":
			if in.Mode == "e2e" {
				allowed, conclusive := c17Inbound(s, rec, intruder(op.P), slow)
				if !conclusive {
					return c17Obs{}, false // environment trouble: no verdict from this attempt
				}
				st.Ans = append(st.Ans, c17B(allowed))
			} else {
				st.Ans = append(st.Ans, c17B(g.InterceptSecured(network.DirInbound, p, w.cm)))
			}
		case "addrdial":
			st.Ans = append(st.Ans, c17B(g.InterceptAddrDial(p, w.cm.a)))
		case "upgraded":
			a, _ := g.InterceptUpgraded(nil)
			st.Ans = append(st.Ans, c17B(a))
		case "accept":
			st.Ans = append(st.Ans, c17B(g.InterceptAccept(w.cm)))
		case "list":
			lp := c17Listable(in)
			codes := make([]int64, len(lp))
			for _, bi := range s.BlockedPeers() {
				i, found := w.addrs[bi.Peer]
				for j, q := range lp {
					if found && q == i {
						if bi.Duration == "Forever" {
							codes[j] = 2
						} else {
							codes[j] = 1
						}
					}
				}
			}
			st.Ans = codes
		default:
			panic("c17: unknown op " + op.K)
		}
		st.Raw = keys.raw(s, in.NP)
		obs.Steps = append(obs.Steps, st)
	}
	return obs, time.Since(begin)-slept < time.Duration(G/2)
}

// concurrent-expiry: see c17In.  The queries that run concurrently with the permanent block are not
// part of the reported history: by C17_permanent the verdict after "Block p 0" does not depend on
// what else happens before or after it.
func c17Stress(w *c17World, in c17In) (c17Obs, bool) {
	if len(in.Ops) != 3 || in.Ops[0].K != "block" || in.Ops[1].K != "block" || in.Ops[2].K != "query" ||
		in.Ops[1].D != 0 || in.Ops[0].D <= 0 || in.Ops[1].Adv <= in.Ops[0].D || in.Q < 1 || in.Q > 16 ||
		runtime.GOMAXPROCS(0) < 2 {
		return c17Obs{}, false
	}
	p := w.pid(in.Kinds, in.Ops[0].P)
	G := in.G
	s := c17NewBare(w)
	keys := &c17Keys{}
	g := newGater(w.log)
	g.setBlocker(s)
	var round, done int64 // round: published round number; done: workers finished in this round
	stop := make(chan struct{})
	var wg sync.WaitGroup
	worker := func(k int) {
		defer wg.Done()
		seen := int64(0)
		for {
			for atomic.LoadInt64(&round) == seen {
				select {
				case <-stop:
					return
				default:
				}
				runtime.Gosched()
			}
			seen = atomic.LoadInt64(&round)
			switch {
			case k == 0:
				// the re-block: a little after the queries have started
				for i := int(seen % 64); i > 0; i-- {
					_ = atomic.LoadInt64(&done)
				}
				s.blockPeer(p, 0, "verif")
			case k%2 == 1:
				_ = s.isBlocked(p)
			default:
				_ = g.InterceptPeerDial(p)
			}
			atomic.AddInt64(&done, 1)
		}
	}
	wg.Add(in.Q + 1)
	for k := 0; k <= in.Q; k++ {
		go worker(k)
	}
	deadline := time.Now().Add(time.Duration(in.Budget) * time.Millisecond)
	final := int64(1)
	for r := 1; r <= in.Rounds; r++ {
		// an expired, not yet purged timed entry
		c17ResetMap(s)
		keys.watch(s, in.Ops[0].P, w.n, func() { s.blockPeer(p, time.Duration(in.Ops[0].D*G), "verif") })
		c17Shift(s, time.Duration(in.Ops[1].Adv*G))
		atomic.StoreInt64(&done, 0)
		atomic.StoreInt64(&round, int64(r))
		for atomic.LoadInt64(&done) < int64(in.Q+1) {
			runtime.Gosched()
		}
		// quiescent: a permanent block has been placed after the last expiry
		if !s.isBlocked(p) {
			final = 0
			break
		}
		if in.Budget > 0 && r%256 == 0 && time.Now().After(deadline) {
			break
		}
	}
	close(stop)
	wg.Wait()
	raw := func() []int64 { return keys.raw(s, in.NP) }
	first := make([]int64, in.NP)
	for i := range first {
		first[i] = -1
	}
	if in.Ops[0].P < in.NP {
		first[in.Ops[0].P] = in.Ops[0].D * G
	}
	V := in.Ops[1].Adv
	end := raw()
	return c17Obs{Steps: []c17Step{
		{T: 2, Ans: []int64{}, Raw: first},
		{T: V*G + 4, Ans: []int64{}, Raw: end},
		{T: V*G + 5, Ans: []int64{final}, Raw: end},
	}}, true
}

func c17Run(w *c17World, in c17In) (c17Obs, bool) {
	if in.Mode == "stress" {
		return c17Stress(w, in)
	}
	tries := 8
	for _, op := range in.Ops {
		if op.Idle {
			tries = 2
		}
	}
	for i := 0; i < tries; i++ {
		if obs, ok := c17Try(w, in); ok {
			return obs, true
		}
	}
	return c17Obs{}, false
}

func c17Zs(v []int64) string {
	items := make([]string, len(v))
	for i, x := range v {
		items[i] = coqZ(x)
	}
	return coqList(items)
}

func c17Coq(id int, in c17In, obs c17Obs) string {
	var ps []string
	for i := 0; i < in.NP; i++ {
		ps = append(ps, coqN(uint64(i)))
	}
	var lps []string
	for _, i := range c17Listable(in) {
		lps = append(lps, coqN(uint64(i)))
	}
	var evs []string
	for i, op := range in.Ops {
		st := obs.Steps[i]
		p := coqN(uint64(op.P))
		t := coqZ(st.T)
		var ev string
		switch op.K {
		case "block":
			ev = coqApp("Block", p, coqZ(op.D*in.G), t)
		case "hsfail":
			ev = coqApp("Block", p, coqZ(0), t)
		case "query":
			ev = coqApp("Query", p, t)
		case "dial":
			ev = coqApp("Dial", p, t)
		case "secured":
			ev = coqApp("Secured", p, t)
		case "addrdial":
			ev = coqApp("AddrDial", p, t)
		case "upgraded":
			ev = coqApp("Upgraded", p, t)
		case "accept":
			// the limiter's verdict is an oracle: it is what the call answered
			ev = coqApp("Accept", coqBool(len(st.Ans) == 1 && st.Ans[0] == 1), t)
		case "list":
			ev = coqApp("Listing", coqList(lps), t)
		}
		evs = append(evs, "("+ev+", "+c17Zs(st.Ans)+", "+c17Zs(st.Raw)+")")
	}
	return coqRecord("id", coqN(uint64(id)), "c_peers", coqList(ps), "c_evs", coqList(evs))
}

var c17Durs = []int64{0, 0, 1, 2, 3, 10, 1200, 3000}

func c17Adv(r *rand.Rand) int64 {
	switch r.Intn(10) {
	case 0, 1, 2, 3:
		return 0
	case 4:
		return int64(r.Intn(4))
	case 5:
		return []int64{9, 10, 11}[r.Intn(3)]
	case 6:
		return []int64{1199, 1200, 1201, 1197, 1190}[r.Intn(5)]
	case 7:
		return []int64{2999, 3000, 3001, 1800, 1801, 1799}[r.Intn(6)]
	case 8:
		return int64(r.Intn(20))
	default:
		return 1
	}
}

func c17Ask(r *rand.Rand, p int, adv int64) []c17Op {
	switch r.Intn(6) {
	case 0:
		return []c17Op{{K: "query", P: p, Adv: adv}}
	case 1:
		return []c17Op{{K: "dial", P: p, Adv: adv}, {K: "query", P: p}}
	case 2:
		return []c17Op{{K: "secured", P: p, Adv: adv}, {K: "query", P: p}}
	case 3:
		return []c17Op{{K: "list", Adv: adv}}
	case 4:
		return []c17Op{{K: "list", Adv: adv}, {K: "query", P: p}, {K: "list"}}
	default:
		return []c17Op{{K: []string{"addrdial", "upgraded", "accept"}[r.Intn(3)], P: p, Adv: adv}, {K: "dial", P: p}, {K: "query", P: p}}
	}
}

// identity kinds of the peers of a generated case: all secp256k1 in a third of the cases, otherwise
// mixed (Ed25519 most often; RSA rarely, its keys are slow to make)
func c17GenKinds(r *rand.Rand, np int) []int {
	if r.Intn(3) == 0 {
		return nil
	}
	ks := make([]int, np)
	for i := range ks {
		switch r.Intn(8) {
		case 0, 1, 2:
			ks[i] = 0
		case 3, 4, 5:
			ks[i] = 1
		case 6:
			ks[i] = 3
		default:
			if r.Intn(8) == 0 {
				ks[i] = 2
			} else {
				ks[i] = 1
			}
		}
	}
	return ks
}

func c17GenRandom(r *rand.Rand) c17In {
	in := c17In{G: int64(100 * time.Millisecond), NP: 3}
	in.Kinds = c17GenKinds(r, in.NP)
	n := 3 + r.Intn(12)
	for len(in.Ops) < n {
		p := r.Intn(in.NP)
		if r.Intn(5) < 2 {
			in.Ops = append(in.Ops, c17Op{K: "block", P: p, D: c17Durs[r.Intn(len(c17Durs))], Adv: c17Adv(r)})
		} else {
			in.Ops = append(in.Ops, c17Ask(r, p, c17Adv(r))...)
		}
	}
	return in
}

// several blocks on one peer, then questions around the ends of their terms
func c17GenReblock(r *rand.Rand) c17In {
	in := c17In{G: int64(100 * time.Millisecond), NP: 3}
	in.Kinds = c17GenKinds(r, in.NP)
	p := r.Intn(in.NP)
	var ends []int64 // absolute ends of the placed timed blocks, in granules
	var V int64
	nb := 2 + r.Intn(3)
	for i := 0; i < nb; i++ {
		adv := int64(0)
		if i > 0 {
			adv = []int64{0, 1, 2, 5, 9, 10, 11, 1199, 1200}[r.Intn(9)]
		}
		d := c17Durs[r.Intn(len(c17Durs))]
		V += adv
		if d != 0 {
			ends = append(ends, V+d)
		}
		in.Ops = append(in.Ops, c17Op{K: "block", P: p, D: d, Adv: adv})
		if r.Intn(3) == 0 {
			in.Ops = append(in.Ops, c17Ask(r, p, 0)...)
		}
	}
	nq := 1 + r.Intn(4)
	for i := 0; i < nq; i++ {
		var target int64
		if len(ends) > 0 && r.Intn(4) != 0 {
			target = ends[r.Intn(len(ends))] + int64(r.Intn(3)) - 1
		} else {
			target = V + int64(r.Intn(5))
		}
		adv := target - V
		if adv < 0 {
			adv = 0
		}
		V += adv
		q := p
		if r.Intn(6) == 0 {
			q = r.Intn(in.NP)
		}
		in.Ops = append(in.Ops, c17Ask(r, q, adv)...)
	}
	return in
}

// a permanent block followed by timed ones (the repaired defect), asked after the timed term
func c17GenPermThenTimed(r *rand.Rand) c17In {
	in := c17In{G: int64(100 * time.Millisecond), NP: 3}
	in.Kinds = c17GenKinds(r, in.NP)
	p := r.Intn(in.NP)
	d := []int64{1, 2, 10, 1200, 3000}[r.Intn(5)]
	in.Ops = append(in.Ops, c17Op{K: "block", P: p, D: 0})
	if r.Intn(2) == 0 {
		in.Ops = append(in.Ops, c17Op{K: "block", P: (p + 1) % in.NP, D: d})
	}
	in.Ops = append(in.Ops, c17Op{K: "block", P: p, D: d, Adv: int64(r.Intn(3))})
	in.Ops = append(in.Ops, c17Ask(r, p, d+int64(r.Intn(3)))...)
	in.Ops = append(in.Ops, c17Ask(r, p, int64(r.Intn(2000)))...)
	return in
}

func TestVerifC17(t *testing.T) {
	e := vfOpen(t, 100)
	defer e.Close()
	w := c17NewWorld(rand.New(rand.NewSource(17)), 4)
	skipped := 0
	run := func(class string, in c17In) {
		if in.G <= 0 || in.NP <= 0 || in.NP > w.n || len(in.Kinds) > in.NP {
			return
		}
		for _, k := range in.Kinds {
			if k < 0 || k > 3 {
				return
			}
		}
		for _, op := range in.Ops {
			if op.P < 0 || (op.P >= in.NP && !(in.Mode == "many" && op.K == "block" && op.P < 100000)) || op.D < 0 || op.Adv < 0 {
				return
			}
			if in.Mode == "e2e" && op.K != "block" && op.K != "query" && op.K != "dial" && op.K != "list" && op.K != "secured" && op.K != "hsfail" {
				return
			}
			if op.K == "hsfail" && in.Mode != "e2e" {
				return
			}
			if op.Idle && (in.Mode != "e2e" || op.Adv > 12) {
				return
			}
		}
		obs, ok := c17Run(w, in)
		if !ok {
			skipped++
			return
		}
		e.Emit(class, in, obs, func(id int) string { return c17Coq(id, in, obs) })
	}
	// idle period on a Service assembled by libp2p.New (real time passes, nothing else happens): a
	// permanent and a 2-minute block must both still hold.  H = 5 s in the quick tier, 40 s in the
	// thorough tier -- and 40 s in any tier when New leaves goroutines running Service methods in the
	// background (none on the current tree).  Runs concurrently with the rest of the driver.
	var idleWG sync.WaitGroup
	var idleIn c17In
	var idleObs c17Obs
	idleOK := false
	if !e.OnlyReplay() {
		probe := c17NewService(w, 2, &c17Log{})
		time.Sleep(20 * time.Millisecond)
		bg := c17ServiceGoroutines()
		_ = probe.Close()
		gran := int64(1)
		if e.Tier == "thorough" || len(bg) > 0 {
			gran = 8
		}
		if len(bg) > 0 {
			fmt.Printf("c17: libp2p.New left %d goroutine(s) running Service methods (%s): idle case extended to 40 s\n", len(bg), bg[0])
		}
		idleIn = c17In{G: int64(5 * time.Second), NP: 3, Mode: "e2e", PT: 1, Ops: []c17Op{{K: "block", P: 0, D: 0},
			{K: "block", P: 1, D: 24}, {K: "query", P: 0}, {K: "query", P: 0, Adv: gran, Idle: true}, {K: "query", P: 1},
			{K: "query", P: 2}, {K: "dial", P: 0}, {K: "query", P: 0}, {K: "list"}}}
		idleWG.Add(1)
		go func() {
			defer idleWG.Done()
			idleObs, idleOK = c17Run(w, idleIn)
		}()
	}
	defer func() {
		idleWG.Wait()
		if idleOK {
			e.Emit("e2e-idle", idleIn, idleObs, func(id int) string { return c17Coq(id, idleIn, idleObs) })
		}
	}()
	for _, raw := range e.Replay {
		var in c17In
		if err := json.Unmarshal(raw, &in); err != nil {
			t.Fatalf("bad replay input: %v", err)
		}
		run("replay", in)
	}
	if e.OnlyReplay() {
		return
	}
	// pinned minimal sequences: a permanent block followed by a timed one, asked after the
	// timed term (the defect repaired by 6a06465); a long block followed by a short one
	G := int64(100 * time.Millisecond)
	run("pinned", c17In{G: G, NP: 1, Ops: []c17Op{{K: "block", P: 0, D: 0}, {K: "block", P: 0, D: 1}, {K: "query", P: 0, Adv: 2}}})
	run("pinned", c17In{G: G, NP: 2, Ops: []c17Op{{K: "block", P: 1, D: 0}, {K: "block", P: 1, D: 1200}, {K: "dial", P: 1, Adv: 1201},
		{K: "query", P: 1}, {K: "secured", P: 1}, {K: "query", P: 1}, {K: "list"}}})
	run("pinned", c17In{G: G, NP: 2, Ops: []c17Op{{K: "block", P: 0, D: 3000}, {K: "block", P: 0, D: 1200, Adv: 10},
		{K: "query", P: 0, Adv: 1201}, {K: "list"}, {K: "query", P: 0, Adv: 1788}, {K: "query", P: 0, Adv: 1}}})
	// a 2-minute re-block more than three minutes into a 5-minute block ends later than the first
	// one and must replace it; one placed early must not shorten it
	run("pinned", c17In{G: G, NP: 2, Ops: []c17Op{{K: "block", P: 0, D: 3000}, {K: "block", P: 0, D: 1200, Adv: 2000},
		{K: "query", P: 0, Adv: 999}, {K: "dial", P: 0, Adv: 101}, {K: "query", P: 0}, {K: "list"}, {K: "secured", P: 0, Adv: 99},
		{K: "query", P: 0}, {K: "query", P: 0, Adv: 1}, {K: "list"}}})
	run("pinned", c17In{G: G, NP: 2, Ops: []c17Op{{K: "block", P: 1, D: 3000}, {K: "block", P: 1, D: 1200, Adv: 1700},
		{K: "query", P: 1, Adv: 1250}, {K: "query", P: 1, Adv: 49}, {K: "query", P: 1, Adv: 1}, {K: "list"}}})
	// end to end: Services assembled by libp2p.New, one per role of the local node; dials go
	// through the real host, inbound connections come from real libp2p hosts with the blocked identity
	GE := int64(10 * time.Second)
	for pt := 0; pt <= 2; pt++ {
		run("e2e-new", c17In{G: GE, NP: 2, Mode: "e2e", PT: pt, Ops: []c17Op{{K: "dial", P: 0}, {K: "query", P: 0},
			{K: "secured", P: 1}, {K: "query", P: 1}, {K: "block", P: 1, D: 0}, {K: "secured", P: 1}, {K: "query", P: 1},
			{K: "dial", P: 1}, {K: "query", P: 1}, {K: "block", P: 0, D: 12}, {K: "dial", P: 0}, {K: "query", P: 0},
			{K: "block", P: 1, D: 12}, {K: "dial", P: 0, Adv: 12 - int64(e.rng.Intn(2))}, {K: "query", P: 0},
			{K: "secured", P: 1, Adv: 1}, {K: "query", P: 1}, {K: "dial", P: 0}, {K: "query", P: 0}, {K: "list"}}})
	}
	// peers whose libp2p identity is not secp256k1 (no Ethereum address can be derived from the id):
	// blocks on them hold like any other; only the listing cannot name them
	for kind := 1; kind <= 3; kind++ {
		run("other-identity", c17In{G: G, NP: 2, Kinds: []int{kind, 0}, Ops: []c17Op{{K: "query", P: 0}, {K: "block", P: 0, D: 0},
			{K: "query", P: 0}, {K: "dial", P: 0}, {K: "query", P: 0}, {K: "secured", P: 0}, {K: "query", P: 0},
			{K: "block", P: 1, D: 10}, {K: "list"}, {K: "block", P: 0, D: 1}, {K: "query", P: 0, Adv: 3000}, {K: "query", P: 1},
			{K: "secured", P: 0}, {K: "query", P: 0}, {K: "list"}}})
		run("other-identity", c17In{G: G, NP: 2, Kinds: []int{0, kind}, Ops: []c17Op{{K: "block", P: 1, D: 1200},
			{K: "query", P: 1}, {K: "dial", P: 1, Adv: 1199}, {K: "query", P: 1}, {K: "block", P: 1, D: 0, Adv: 2},
			{K: "secured", P: 1, Adv: 3000}, {K: "query", P: 1}, {K: "query", P: 0}, {K: "list"}}})
	}
	// end to end, failed authentication: a real host (secp256k1, Ed25519, RSA or ECDSA identity) fails the
	// handshake with an unverifiable signature; handleConnectReq places the block itself; the peer comes
	// back and must be refused by the host's gater, now and after any amount of time
	for pt := 0; pt <= 2; pt++ {
		kind := []int{1, 2, 3}[pt]
		if pt == 2 && e.rng.Intn(2) == 0 {
			kind = 1
		}
		run("e2e-hsfail", c17In{G: GE, NP: 2, Mode: "e2e", PT: pt, Kinds: []int{0, kind}, Ops: []c17Op{{K: "secured", P: 1},
			{K: "query", P: 1}, {K: "hsfail", P: 1}, {K: "query", P: 1}, {K: "secured", P: 1}, {K: "query", P: 1},
			{K: "dial", P: 1}, {K: "query", P: 1}, {K: "hsfail", P: 0}, {K: "query", P: 0}, {K: "secured", P: 0},
			{K: "query", P: 0}, {K: "list"}, {K: "secured", P: 1, Adv: 13 + int64(e.rng.Intn(3000))}, {K: "query", P: 1},
			{K: "dial", P: 0}, {K: "query", P: 0}, {K: "list"}}})
	}
	// concurrent-expiry: a permanent block placed while several goroutines ask about the peer, whose
	// timed entry has run out and is still in the map
	if runtime.GOMAXPROCS(0) >= 2 {
		rounds, budget := 40000, 1500
		if e.Tier == "thorough" {
			rounds, budget = 400000, 8000
		}
		run("concurrent-expiry", c17In{G: int64(100 * time.Millisecond), NP: 1, Mode: "stress", Rounds: rounds, Q: 3 + e.rng.Intn(3),
			Kinds: []int{e.rng.Intn(2)}, Budget: budget, Ops: []c17Op{{K: "block", P: 0, D: 1}, {K: "block", P: 0, D: 0, Adv: 2}, {K: "query", P: 0}}})
	}
	// many-peers: thousands of distinct peers are blocked; the ones blocked first stay blocked
	{
		// enough placements to cross the usual power-of-two resource thresholds (1024, 4096;
		// thorough also 8192, 16384); thresholds above that are not observed
		n := 4200 + e.rng.Intn(200)
		if e.Tier == "thorough" {
			n = 20000
		}
		in := c17In{G: int64(10 * time.Second), NP: 4, Mode: "many", Kinds: []int{0, 1, 3, 0}}
		for i := 0; i < n; i++ {
			d := int64(0)
			if i >= 4 && i%7 == 0 {
				d = 30
			}
			in.Ops = append(in.Ops, c17Op{K: "block", P: i, D: d})
		}
		for i := 0; i < 4; i++ {
			in.Ops = append(in.Ops, c17Op{K: "query", P: i})
		}
		in.Ops = append(in.Ops, c17Op{K: "dial", P: 0}, c17Op{K: "query", P: 0}, c17Op{K: "secured", P: 3}, c17Op{K: "query", P: 3}, c17Op{K: "list"})
		run("many-peers", in)
	}
	// small-scope exhaustive: L blocks on one peer (duration, advance in {0,1,2}), then a
	// final advance and every kind of question
	L := 2
	if e.Tier == "thorough" {
		L = 4
	}
	var rec func(prefix []c17Op, depth int)
	rec = func(prefix []c17Op, depth int) {
		if len(prefix) > 0 {
			for adv := int64(0); adv <= 3; adv++ {
				ops := append([]c17Op{}, prefix...)
				ops = append(ops, c17Op{K: "query", P: 0, Adv: adv}, c17Op{K: "block", P: 0, D: 1}, c17Op{K: "list"},
					c17Op{K: "dial", P: 0, Adv: 1}, c17Op{K: "query", P: 0}, c17Op{K: "secured", P: 1}, c17Op{K: "query", P: 1})
				run("exhaustive", c17In{G: int64(100 * time.Millisecond), NP: 2, Kinds: []int{int(adv) % 2, (len(prefix) + 1) % 2}, Ops: ops})
			}
		}
		if depth == L {
			return
		}
		for d := int64(0); d <= 2; d++ {
			for adv := int64(0); adv <= 2; adv++ {
				rec(append(append([]c17Op{}, prefix...), c17Op{K: "block", P: 0, D: d, Adv: adv}), depth+1)
			}
		}
	}
	rec(nil, 0)
	for i := 0; i < e.N; i++ {
		switch i % 5 {
		case 0, 1:
			run("random", c17GenRandom(e.rng))
		case 2, 3:
			run("reblock", c17GenReblock(e.rng))
		default:
			run("perm-then-timed", c17GenPermThenTimed(e.rng))
		}
	}
	if skipped > 0 {
		fmt.Printf("c17: %d sequences skipped (clock did not stay within half a granule)\n", skipped)
	}
}
